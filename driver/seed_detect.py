"""Applies each stored seeded change to /repo (git apply), runs the quick analysis of its property, restores /repo
(git checkout -- .) and records the new reports in seeded/<id>/meta.json.  usage: seed_detect.py [ids...]"""
import json, os, subprocess, glob, sys
sys.path.insert(0,'/verif/driver')
os.chdir('/verif')
import check
check.build_tool()
base = {}
def viols(prop):
    obls,_,_,_ = check.analyse(prop,'quick')
    return {(o['rule'],o['key']):o for o in obls if o['status'] in ('violation','undecided')}
only=set(sys.argv[1:])
for d in sorted(glob.glob('/verif/seeded/*/')):
    d=d.rstrip('/')
    if only and os.path.basename(d) not in only: continue
    m = json.load(open(d+'/meta.json'))
    prop = m['property']
    if prop not in base: base[prop] = viols(prop)
    r = subprocess.run(['git','-C','/repo','apply',d+'/patch.diff'],capture_output=True,text=True)
    if r.returncode != 0:
        print(m['id'],'APPLY FAILED',r.stderr[:200]); continue
    try:
        import cast; cast._cache.clear()
        v = viols(prop)
    finally:
        subprocess.run(['git','-C','/repo','checkout','--','.'])
        import cast; cast._cache.clear()
    new = [o for k,o in v.items() if k not in base[prop]]
    m['detected_by'] = [{"property":prop,"rule":o['rule'],"expect":o['key'].split('@')[0][:80],"where":o['where'],"detail":o['detail'][:300]} for o in new[:3]]
    json.dump(m, open(d+'/meta.json','w'), indent=1)
    print(m['id'], prop, 'DETECTED' if new else 'MISSED', [ (o['rule'],o['key'][:70]) for o in new[:3]])
