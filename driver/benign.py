"""./check benign : behaviour-preserving variants must not trip any rule (false-alarm guard)."""
import glob, os, re, shutil, subprocess, sys
HERE = os.path.dirname(os.path.abspath(__file__)); VERIF = os.path.dirname(HERE)
sys.path.insert(0, HERE)

def main(argv):
    import check, selftest, cast
    check.build_tool()
    bad = 0
    base = {}
    for p in sorted(glob.glob(os.path.join(VERIF, "benign", "*.patch"))):
        if argv and not any(a in p for a in argv):
            continue
        props = []
        for line in open(p):
            m = re.match(r"#\s*properties:\s*(.*)", line)
            if m:
                props = m.group(1).split()
        d, dst = selftest.scratch_copy()
        try:
            r = subprocess.run(["patch", "-p1", "-s", "-i", p], cwd=dst, stdout=subprocess.PIPE, stderr=subprocess.STDOUT, text=True)
            if r.returncode != 0:
                print("STALE    %s (does not apply: %s)" % (os.path.basename(p), r.stdout.strip()[:80]))
                continue
            for prop in props:
                if prop not in base:
                    obls, _, _, _ = check.analyse(prop, "quick")
                    base[prop] = {(o["rule"], o["key"]) for o in obls if o["status"] in ("violation", "undecided")}
                cast._cache.clear()
                obls, _, _, _ = check.analyse(prop, "quick", repo=dst)
                cast._cache.clear()
                new = [o for o in obls if o["status"] in ("violation", "undecided") and (o["rule"], o["key"]) not in base[prop]]
                if new:
                    bad += 1
                    print("FALSE-ALARM %s on %s: %s" % (prop, os.path.basename(p), "; ".join("%s %s: %s" % (o["rule"], o["key"], o["detail"][:160]) for o in new[:4])))
                else:
                    print("quiet    %s on %s" % (prop, os.path.basename(p)))
        finally:
            shutil.rmtree(d, ignore_errors=True)
    return 1 if bad else 0
