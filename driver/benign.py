"""./check benign [name-substring...] : behaviour-preserving variants must not trip any rule (false-alarm guard).

Every patch under /verif/benign is applied to a scratch copy of /repo (analysis only; nothing is
built or run) and the quick analysis of the properties named in its `# properties:` header (all 20
when the header says `all` or is missing) must report nothing that the unchanged tree does not report.
A patch may also be given by path (evaluation of a candidate before it is stored)."""
import glob, os, re, shutil, subprocess, sys
import concurrent.futures as cf
HERE = os.path.dirname(os.path.abspath(__file__)); VERIF = os.path.dirname(HERE)
sys.path.insert(0, HERE)
ALL = ["C%02d" % i for i in range(1, 21)]


def header_props(p):
    for line in open(p, errors="replace"):
        m = re.match(r"#\s*properties:\s*(.*)", line)
        if m:
            v = m.group(1).split()
            return ALL if v == ["all"] else v
        if line.startswith("diff "):
            break
    return ALL


def _viols(a):
    props, repo = a
    import check, cast
    cast._cache.clear()
    res = check.analyse_many(props, repo or check.REPO)
    cast._cache.clear()
    return repo, {prop: [o for o in obls if o["status"] in ("violation", "undecided")] for prop, obls in res.items()}


def main(argv):
    import check, selftest
    check.build_tool()
    patches = []
    for a in argv:
        if os.path.isfile(a):
            patches.append(os.path.abspath(a))
    if not patches:
        patches = [p for p in sorted(glob.glob(os.path.join(VERIF, "benign", "*.patch")) + glob.glob(os.path.join(VERIF, "benign", "*", "*.diff")))
                   if not argv or any(a in p for a in argv)]
    scratch = {}
    stale = []
    for p in patches:
        d, dst = selftest.scratch_copy()
        r = subprocess.run(["git", "apply", "--unsafe-paths", "--directory=" + dst, p], cwd="/", stdout=subprocess.PIPE, stderr=subprocess.STDOUT, text=True)
        if r.returncode != 0:
            r = subprocess.run(["patch", "-p1", "-s", "-i", p], cwd=dst, stdout=subprocess.PIPE, stderr=subprocess.STDOUT, text=True)
        if r.returncode != 0:
            stale.append(p)
            print("STALE    %s (does not apply: %s)" % (os.path.relpath(p, VERIF), r.stdout.strip()[:80]))
            shutil.rmtree(d, ignore_errors=True)
            continue
        scratch[p] = (d, dst)
    bad = len(stale)
    try:
        need = sorted({prop for p in scratch for prop in header_props(p)})
        workers = int(os.environ.get("VERIF_JOBS", "6"))
        with cf.ProcessPoolExecutor(max_workers=workers) as ex:
            tasks = [(need, None)] + [(header_props(p), scratch[p][1]) for p in scratch]
            by_repo = {scratch[p][1]: p for p in scratch}
            res, base = {}, {}
            for repo, r in ex.map(_viols, tasks):
                if repo is None:
                    base = {prop: {(o["rule"], o["key"]) for o in v} for prop, v in r.items()}
                else:
                    res[by_repo[repo]] = r
            for p in res:
                res[p] = {prop: [o for o in v if (o["rule"], o["key"]) not in base[prop]] for prop, v in res[p].items()}
        for p in scratch:
            name = os.path.relpath(p, VERIF) if p.startswith(VERIF) else p
            alarms = {prop: v for prop, v in res.get(p, {}).items() if v}
            if not alarms:
                print("quiet    %s (%s)" % (name, " ".join(header_props(p)) if len(header_props(p)) < 20 else "all 20 properties"))
                continue
            bad += 1
            for prop, v in sorted(alarms.items()):
                print("FALSE-ALARM %s on %s: %s" % (prop, name, "; ".join("%s %s: %s" % (o["rule"], o["key"], o["detail"][:200]) for o in v[:5])))
    finally:
        for d, _ in scratch.values():
            shutil.rmtree(d, ignore_errors=True)
    return 1 if bad else 0
