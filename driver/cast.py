"""Engine C: static analysis of the repository's C glue on clang's type-checked AST.

`clang-14 -fsyntax-only -Xclang -ast-dump=json` (same -I/-D flags as the cgo directives) gives the
resolved program: macros expanded, callees and enum constants bound to their declarations, types on
every expression.  From each function body this module builds a control-flow graph (if / for /
while / do / goto / labels / break / continue / return, with || && ! lowered to branches), computes
dominators, and answers must-fact queries: which branch outcomes hold on every path to a point.
Nothing is compiled to machine code or executed.
"""
import json, os, re, subprocess, sys

REPO_UNITS = ["bls12381_utils.c", "bls_core.c", "bls_thresholdsign_core.c", "dkg_core.c"]


def cflags(repo, flagset):
    """flags parsed from the #cgo CFLAGS lines of bls12381_utils.go (amd64), ADX or portable variant"""
    src = open(os.path.join(repo, "bls12381_utils.go")).read()
    base, amd = [], []
    for line in src.splitlines():
        m = re.match(r"//\s*#cgo\s+CFLAGS:\s*(.*)", line)
        if m:
            base += m.group(1).split()
        m = re.match(r"//\s*#cgo\s+amd64\s+CFLAGS:\s*(.*)", line)
        if m:
            amd += m.group(1).split()
    fl = []
    for f in base + amd:
        f = f.replace("${SRCDIR}", repo)
        if f.startswith("-W") or f.startswith("-fno-builtin"):
            continue
        fl.append(f)
    if flagset == "portable":
        fl = [f for f in fl if f != "-D__ADX__"] + ["-D__BLST_PORTABLE__"]
    if not any(f.startswith("-I") for f in fl):
        raise RuntimeError("could not parse cgo CFLAGS")
    return fl


class Loc:
    def __init__(self):
        self.file = None
        self.line = None

    def upd(self, d):
        if not isinstance(d, dict):
            return
        if "spellingLoc" in d or "expansionLoc" in d:
            self.upd(d.get("spellingLoc"))
            self.upd(d.get("expansionLoc"))
            return
        if "file" in d:
            self.file = d["file"]
        if "line" in d:
            self.line = d["line"]


def annotate(node, loc):
    """resolve clang's delta-encoded locations in document order; sets _file/_line on every node"""
    if "loc" in node:
        loc.upd(node["loc"])
    if "range" in node:
        loc.upd(node["range"].get("begin"))
        node["_file"], node["_line"] = loc.file, loc.line
        loc.upd(node["range"].get("end"))
    else:
        node["_file"], node["_line"] = loc.file, loc.line
    for c in node.get("inner", []) or []:
        if isinstance(c, dict):
            annotate(c, loc)


class TU:
    def __init__(self, repo, unit, flagset):
        self.repo, self.unit, self.flagset = repo, unit, flagset
        cmd = ["clang-14", "-fsyntax-only", "-Xclang", "-ast-dump=json"] + cflags(repo, flagset) + ["-w", os.path.join(repo, unit)]
        r = subprocess.run(cmd, stdout=subprocess.PIPE, stderr=subprocess.PIPE)
        if r.returncode != 0:
            raise RuntimeError("clang failed on %s: %s" % (unit, r.stderr.decode()[-1500:]))
        root = json.loads(r.stdout)
        annotate(root, Loc())
        self.funcs = {}      # name -> FunctionDecl with body (repo-owned only)
        self.protos = {}     # name -> FunctionDecl (any, first seen) for prototypes
        self.enums = {}      # enum constant name -> int
        self.globals = {}
        for d in root.get("inner", []):
            f = d.get("_file") or ""
            k = d.get("kind")
            if k == "EnumDecl":
                val = -1
                for e in d.get("inner", []):
                    if e.get("kind") == "EnumConstantDecl":
                        v = None
                        for c in e.get("inner", []) or []:
                            v = const_eval(c, self.enums)
                        val = v if v is not None else val + 1
                        self.enums[e["name"]] = val
            if k == "FunctionDecl":
                self.protos.setdefault(d["name"], d)
                owned = f.startswith(repo.rstrip("/") + "/") and "/blst_src/" not in f
                if owned and any(c.get("kind") == "CompoundStmt" for c in d.get("inner", []) or []):
                    self.funcs[d["name"]] = d
            if k == "VarDecl" and f.startswith(repo.rstrip("/") + "/") and "/blst_src/" not in f:
                self.globals[d["name"]] = d


_cache = {}


def load_all(repo, flagset):
    key = (repo, flagset)
    if key in _cache:
        return _cache[key]
    prog = Program(repo, flagset)
    _cache[key] = prog
    return prog


class Program:
    def __init__(self, repo, flagset):
        self.repo, self.flagset = repo, flagset
        self.tus = [TU(repo, u, flagset) for u in REPO_UNITS]
        self.funcs, self.enums, self.protos, self.where = {}, {}, {}, {}
        for tu in self.tus:
            for n, f in tu.funcs.items():
                self.funcs.setdefault(n, f)
                self.where.setdefault(n, tu.unit)
            for n, p in tu.protos.items():
                self.protos.setdefault(n, p)
            self.enums.update(tu.enums)
        self._cfg = {}

    def cfg(self, name):
        if name not in self._cfg:
            self._cfg[name] = CFG(self, self.funcs[name])
        return self._cfg[name]

    def accept_summary(self, name, cls):
        """facts (over the function's parameter names only) common to all returns of the class:
        cls 'VALID' = `return VALID`; cls 'true' = `return <non-zero constant>` of a boolean helper"""
        key = (name, cls)
        if not hasattr(self, "_sum"):
            self._sum = {}
        if key in self._sum:
            return self._sum[key]
        self._sum[key] = []
        try:
            g = self.cfg(name)
        except Unsupported:
            return []
        params = set(p["name"] for p in self.params(name))
        common = None
        for n in g.nodes:
            if n.kind != "ret" or n.expr is None:
                continue
            v = const_eval(n.expr, self.enums)
            txt = g.r(n.expr)
            if cls == "VALID":
                if txt != "VALID":
                    if v is None:
                        self._sum[key] = []   # computed result: no summary
                        return []
                    continue
            else:
                if v is None:
                    self._sum[key] = []
                    return []
                if v == 0:
                    continue
            fs = set()
            try:
                from cvocab import CVOCAB
            except Exception:
                CVOCAB = set()
            full = name not in CVOCAB   # a helper the rules do not know: keep what it established about its own locals too
            for f, br in g.facts_at(n):
                ids = set(re.findall(r"(?<![\w>.])([A-Za-z_]\w*)(?!\w*\()", re.sub(r"[A-Za-z_]\w*\(", "(", f)))
                ids -= set(self.enums) | {"sizeof"}
                if ids <= params or full:
                    fs.add(f)
            common = fs if common is None else (common & fs)
        self._sum[key] = sorted(common or [])
        return self._sum[key]

    def params(self, name):
        d = self.funcs.get(name) or self.protos.get(name)
        return [c for c in d.get("inner", []) if c.get("kind") == "ParmVarDecl"]

    def pos(self, node):
        f = node.get("_file") or "?"
        if f.startswith(self.repo.rstrip("/") + "/"):
            f = f[len(self.repo.rstrip("/")) + 1:]
        return "%s:%s" % (f, node.get("_line"))


# ---------------------------------------------------------------- expressions

TRANSPARENT = {"ImplicitCastExpr", "ParenExpr", "CStyleCastExpr", "ConstantExpr"}


def strip(e):
    while e.get("kind") in TRANSPARENT:
        e = [c for c in e["inner"] if isinstance(c, dict) and c.get("kind") not in ("TypeRef",)][-1]
    return e


def const_eval(e, enums):
    """integer constant folding over literals, enum constants, sizeof-free arithmetic; None if not constant"""
    e = strip(e)
    k = e.get("kind")
    if k == "IntegerLiteral":
        return int(e["value"])
    if k == "CharacterLiteral":
        return int(e["value"])
    if k == "DeclRefExpr":
        rd = e.get("referencedDecl", {})
        if rd.get("kind") == "EnumConstantDecl":
            return enums.get(rd["name"])
        if rd.get("kind") == "ParmVarDecl" and ("$param:" + rd.get("name", "")) in enums:
            return enums["$param:" + rd["name"]]   # parameter bound to a constant by the caller of this evaluation
        return None
    if k == "UnaryOperator":
        v = const_eval(e["inner"][0], enums)
        if v is None:
            return None
        op = e["opcode"]
        return {"-": -v, "+": v, "!": int(not v), "~": ~v}.get(op)
    if k == "BinaryOperator":
        a, b = const_eval(e["inner"][0], enums), const_eval(e["inner"][1], enums)
        if a is None or b is None:
            return None
        op = e["opcode"]
        try:
            return {"+": a + b, "-": a - b, "*": a * b, "/": a // b if b else None, "%": a % b if b else None,
                    "<<": a << b, ">>": a >> b, "&": a & b, "|": a | b, "^": a ^ b,
                    "==": int(a == b), "!=": int(a != b), "<": int(a < b), "<=": int(a <= b), ">": int(a > b),
                    ">=": int(a >= b), "&&": int(bool(a) and bool(b)), "||": int(bool(a) or bool(b))}.get(op)
        except Exception:
            return None
    if k == "ConditionalOperator":
        c = const_eval(e["inner"][0], enums)
        if c is None:
            return None
        return const_eval(e["inner"][1] if c else e["inner"][2], enums)
    if k == "UnaryExprOrTypeTraitExpr":
        if SIZEOF_HOOK is not None and e.get("name") == "sizeof":
            return SIZEOF_HOOK(e)
        return None
    return None


SIZEOF_HOOK = None   # set by rules that need sizeof values (crules.rule_object_extents): node -> int or None


class R:
    """expression renderer; enum constants keep their names, other constants are folded"""

    def __init__(self, enums, subst=None, arrays=None):
        self.enums = enums
        self.subst = subst or {}
        self.arrays = arrays if arrays is not None else {}   # local never-written arrays with initialiser lists: name -> element ASTs

    def __call__(self, e):
        e = strip(e)
        k = e.get("kind")
        if k == "DeclRefExpr":
            n = e["referencedDecl"]["name"]
            return self.subst.get(n, n)
        v = const_eval(e, self.enums)
        if v is not None and k != "DeclRefExpr":
            return str(v)
        if k == "IntegerLiteral":
            return e["value"]
        if k == "UnaryOperator":
            op = e["opcode"]
            if op == "&":
                sub = strip(e["inner"][0])
                if sub.get("kind") == "ArraySubscriptExpr" and const_eval(sub["inner"][1], self.enums) == 0:
                    return self(sub["inner"][0])      # canonical pointer form: &X[0] is X
            x = self(e["inner"][0])
            if e.get("isPostfix"):
                return "(%s%s)" % (x, op)
            inner = strip(e["inner"][0])
            if op in ("&", "*") and inner.get("kind") == "UnaryOperator" and inner["opcode"] in ("&", "*") and inner["opcode"] != op:
                return self(inner["inner"][0])
            if op == "*":
                return "(*%s)" % x
            return "%s%s" % (op, x)
        if k == "BinaryOperator" and e.get("opcode") == "+" and "*" in e.get("type", {}).get("qualType", ""):
            # canonical pointer form: X + n is &X[n] (X + 0 is X)
            a, b = e["inner"][0], e["inner"][1]
            ta = strip(a).get("type", {}).get("qualType", "")
            if "*" not in ta and "[" not in ta:
                a, b = b, a
            if const_eval(b, self.enums) == 0:
                return self(a)
            return "&%s[%s]" % (self(a), self(b))
        if k in ("BinaryOperator", "CompoundAssignOperator"):
            return "(%s %s %s)" % (self(e["inner"][0]), e["opcode"], self(e["inner"][1]))
        if k == "ArraySubscriptExpr":
            b = strip(e["inner"][0])
            if b.get("kind") == "DeclRefExpr" and b["referencedDecl"]["name"] in self.arrays:
                idx = const_eval(e["inner"][1], self.enums)
                elems = self.arrays[b["referencedDecl"]["name"]]
                if idx is not None and 0 <= idx < len(elems):
                    return self(elems[idx])   # element of a constant lookup table (`sigs[1]` with sigs = {sig1, sig2})
            return "%s[%s]" % (self(e["inner"][0]), self(e["inner"][1]))
        if k == "MemberExpr":
            b = self(e["inner"][0])
            return "%s%s%s" % (b, "->" if e.get("isArrow") else ".", e.get("name"))
        if k == "CallExpr":
            args = [self(a) for a in e["inner"][1:]]
            return "%s(%s)" % (self(e["inner"][0]), ", ".join(args))
        if k == "ConditionalOperator":
            return "(%s ? %s : %s)" % tuple(self(x) for x in e["inner"][:3])
        if k == "UnaryExprOrTypeTraitExpr":
            at = e.get("argType", {}).get("qualType")
            if at:
                return "sizeof(%s)" % at
            return "sizeof(%s)" % self(e["inner"][0])
        if k == "StringLiteral":
            return e.get("value", '""')
        if k == "InitListExpr":
            return "{…}"
        return "<%s>" % k


def inline_expr_helpers(node, prog, cur, depth):
    """calls of glue functions the rules do not know (not in CVOCAB) whose whole body is `return <expr>;`
    (accessors, small predicates) are replaced by that expression with the arguments substituted"""
    try:
        from cvocab import CVOCAB
    except Exception:
        return node
    if isinstance(node, list):
        return [inline_expr_helpers(c, prog, cur, depth) for c in node]
    if not isinstance(node, dict):
        return node
    new = {k: (inline_expr_helpers(v, prog, cur, depth) if k == "inner" else v) for k, v in node.items()}
    if new.get("kind") == "CallExpr" and depth < 3:
        cn = callee_name(new)
        if cn and cn not in CVOCAB and cn in prog.funcs and cn != cur:
            fdecl = prog.funcs[cn]
            body = [c for c in fdecl["inner"] if c.get("kind") == "CompoundStmt"]
            stmts = [c for c in (body[0].get("inner", []) if body else []) if isinstance(c, dict)]
            if len(stmts) == 1 and stmts[0].get("kind") == "ReturnStmt":
                rex = [c for c in stmts[0].get("inner", []) if isinstance(c, dict)]
                params = prog.params(cn)
                args = new["inner"][1:]
                if rex and len(params) == len(args):
                    m = {p_.get("id"): a_ for p_, a_ in zip(params, args)}
                    inner = inline_expr_helpers(subst_refs(rex[0], m), prog, cn, depth + 1)
                    return {"kind": "ParenExpr", "type": new.get("type"), "_line": new.get("_line"), "_file": new.get("_file"), "inner": [inner]}
    return new


def _is_address_expr(e):
    """pointer value computed without reading memory: X, &lvalue, X ± n, casts of those"""
    e = strip(e)
    k = e.get("kind")
    if k == "DeclRefExpr":
        return True
    if k == "UnaryOperator" and e.get("opcode") == "&":
        return True
    if k == "BinaryOperator" and e.get("opcode") in ("+", "-"):
        return _is_address_expr(e["inner"][0]) and not any(x.get("kind") in ("ArraySubscriptExpr", "MemberExpr", "CallExpr") for x in walk(e["inner"][1]))
    return False


def _written_names(node, values_only=False):
    """names assigned, incremented, address-taken or passed (by address / as pointer base) as first argument of a call;
    values_only: only changes of the variable's own value (assignment, ++/--, &v escaping)"""
    out = set()
    for x in walk(node):
        k = x.get("kind")
        tgt = None
        direct = False
        if k in ("BinaryOperator", "CompoundAssignOperator") and (x.get("opcode") == "=" or k == "CompoundAssignOperator"):
            tgt = strip(x["inner"][0])
            direct = tgt.get("kind") == "DeclRefExpr"
        elif k == "UnaryOperator" and x.get("opcode") in ("++", "--", "&"):
            tgt = strip(x["inner"][0])
            direct = tgt.get("kind") == "DeclRefExpr"
        elif k == "CallExpr" and len(x.get("inner", [])) > 1:
            tgt = strip(x["inner"][1])
        if values_only and not direct:
            continue
        while tgt is not None and tgt.get("kind") in ("ArraySubscriptExpr", "MemberExpr", "UnaryOperator", "ParenExpr", "ImplicitCastExpr", "CStyleCastExpr", "BinaryOperator"):
            tgt = strip(tgt["inner"][0])
        if tgt is not None and tgt.get("kind") == "DeclRefExpr":
            out.add(tgt["referencedDecl"].get("id"))
    return out


def forward_single_defs(body, enums):
    """A local declared with a call-free initialiser and never written afterwards is replaced by that
    initialiser in the statements that follow it in its block, provided nothing the initialiser
    mentions is written there either (`E1 *s = &elems[0]; const int n = lens[i - 1];`): rules then see
    the same expressions whether or not such a name was introduced."""
    def rewrite(stmt):
        if not isinstance(stmt, dict):
            return stmt
        if stmt.get("kind") == "CompoundStmt":
            items = [rewrite(c) for c in stmt.get("inner", []) or []]
            out = []
            i = 0
            while i < len(items):
                it = items[i]
                out.append(it)
                if isinstance(it, dict) and it.get("kind") == "DeclStmt":
                    for d in it.get("inner", []):
                        if d.get("kind") != "VarDecl":
                            continue
                        init = [c for c in d.get("inner", []) or [] if isinstance(c, dict) and c.get("kind") not in ("FullComment",)]
                        if not init or strip(init[0]).get("kind") == "InitListExpr" or "[" in d.get("type", {}).get("qualType", ""):
                            continue
                        if any(x.get("kind") in ("CallExpr", "UnaryExprOrTypeTraitExpr") and x.get("kind") == "CallExpr" for x in walk(init[0])):
                            continue
                        rest = {"kind": "CompoundStmt", "inner": items[i + 1:]}
                        addr = "*" in d.get("type", {}).get("qualType", "") and _is_address_expr(init[0])
                        # an address depends only on the values of the names in it, not on what they point to
                        written = _written_names(rest, values_only=addr)
                        if d.get("id") in written:
                            continue
                        # (the operand of sizeof is not evaluated: what it names may be written freely)
                        unevaluated = {id(y) for x in walk(init[0]) if x.get("kind") == "UnaryExprOrTypeTraitExpr" for y in walk(x)}
                        dep = {x["referencedDecl"].get("id") for x in walk(init[0]) if x.get("kind") == "DeclRefExpr" and id(x) not in unevaluated and x["referencedDecl"].get("kind") in ("VarDecl", "ParmVarDecl")}
                        if addr:
                            # an address mentions objects only for where they live: `&tmp.x` does not change when tmp's
                            # content does, nor when `&tmp` is handed to someone; only pointer / integer names it reads count
                            keep = set()
                            for x in walk(init[0]):
                                if x.get("kind") == "DeclRefExpr" and x["referencedDecl"].get("id") in dep:
                                    qt = (x["referencedDecl"].get("type") or {}).get("qualType", "")
                                    if "*" in qt or qt.replace("const ", "").strip() in ("int", "unsigned int", "size_t", "long", "unsigned long", "byte", "unsigned char", "uint32_t", "uint64_t", "uint8_t", "limb_t"):
                                        keep.add(x["referencedDecl"].get("id"))
                            dep = keep
                        if dep & written:
                            continue
                        items[i + 1:] = subst_refs(items[i + 1:], {d.get("id"): init[0]})
                i += 1
            new = dict(stmt)
            new["inner"] = out[:1] + items[1:] if False else items
            return new
        if "inner" in stmt and stmt.get("kind") in ("ForStmt", "WhileStmt", "DoStmt", "IfStmt", "LabelStmt"):
            new = dict(stmt)
            new["inner"] = [rewrite(c) if isinstance(c, dict) and c.get("kind") in ("CompoundStmt", "ForStmt", "WhileStmt", "DoStmt", "IfStmt", "LabelStmt") else c for c in stmt["inner"]]
            return new
        return stmt
    return rewrite(body)


def const_arrays(body):
    """local arrays declared with an initialiser list and never assigned through afterwards"""
    out, written = {}, set()
    for x in walk(body):
        if x.get("kind") == "VarDecl" and "[" in x.get("type", {}).get("qualType", ""):
            init = [c for c in x.get("inner", []) or [] if isinstance(c, dict) and c.get("kind") == "InitListExpr"]
            if init:
                out[x["name"]] = [c for c in init[0].get("inner", []) or [] if isinstance(c, dict)]
        if x.get("kind") in ("BinaryOperator", "CompoundAssignOperator") and (x.get("opcode") == "=" or x.get("kind") == "CompoundAssignOperator"):
            l = strip(x["inner"][0])
            while l.get("kind") in ("ArraySubscriptExpr", "MemberExpr", "UnaryOperator"):
                l = strip(l["inner"][0])
            if l.get("kind") == "DeclRefExpr":
                written.add(l["referencedDecl"]["name"])
    return {k: v for k, v in out.items() if k not in written}


def unroll_plan(s, enums):
    inner = s["inner"]
    init, cnd, inc, body = inner[0], inner[2], inner[3], inner[4]
    if not (init and init.get("kind") == "DeclStmt" and cnd and cnd.get("kind") and inc and inc.get("kind")):
        return None
    decls = [d for d in init.get("inner", []) if d.get("kind") == "VarDecl"]
    if len(decls) != 1:
        return None
    d = decls[0]
    di = [c for c in d.get("inner", []) or [] if isinstance(c, dict)]
    if not di:
        return None
    lo = const_eval(di[0], enums)
    c = strip(cnd)
    extra = None
    if c.get("kind") == "BinaryOperator" and c.get("opcode") == "&&":
        # `i < K && still_ok`: the bound decides the trip count, the rest guards every iteration
        c, extra = strip(c["inner"][0]), c["inner"][1]
    if lo is None or c.get("kind") != "BinaryOperator" or c.get("opcode") not in ("<", "<="):
        return None
    l = strip(c["inner"][0])
    if l.get("kind") != "DeclRefExpr" or l["referencedDecl"].get("id") != d.get("id"):
        return None
    hi = const_eval(c["inner"][1], enums)
    if hi is None:
        return None
    if c["opcode"] == "<=":
        hi += 1
    i = strip(inc)
    if not (i.get("kind") == "UnaryOperator" and i.get("opcode") == "++" and strip(i["inner"][0]).get("kind") == "DeclRefExpr"
            and strip(i["inner"][0])["referencedDecl"].get("id") == d.get("id")):
        return None
    if not (0 < hi - lo <= 4):
        return None
    for x in walk(body):
        # a goto inside the body can only leave the loop when the body declares no label of its own: the copies of the
        # unrolled body then all jump to the same place outside
        if x.get("kind") in ("BreakStmt", "ContinueStmt", "LabelStmt"):
            return None
        if x.get("kind") in ("BinaryOperator", "CompoundAssignOperator", "UnaryOperator"):
            tgt = None
            if x.get("kind") == "UnaryOperator" and x.get("opcode") in ("++", "--", "&"):
                tgt = strip(x["inner"][0])
            elif x.get("kind") == "CompoundAssignOperator" or x.get("opcode") == "=":
                tgt = strip(x["inner"][0])
            if tgt is not None and tgt.get("kind") == "DeclRefExpr" and tgt["referencedDecl"].get("id") == d.get("id"):
                return None
    return d.get("id"), lo, hi, extra


def subst_var(node, decl_id, value):
    """copy of an AST subtree with every reference to the variable replaced by an integer literal"""
    if isinstance(node, list):
        return [subst_var(c, decl_id, value) for c in node]
    if not isinstance(node, dict):
        return node
    if node.get("kind") == "DeclRefExpr" and node.get("referencedDecl", {}).get("id") == decl_id:
        return {"kind": "IntegerLiteral", "value": str(value), "type": {"qualType": "int"}, "_line": node.get("_line"), "_file": node.get("_file")}
    return {k: (subst_var(v, decl_id, value) if k == "inner" else v) for k, v in node.items()}


def subst_refs(node, m):
    """copy of an AST subtree with references to the given declarations replaced by expression ASTs"""
    if isinstance(node, list):
        return [subst_refs(c, m) for c in node]
    if not isinstance(node, dict):
        return node
    if node.get("kind") == "DeclRefExpr" and node.get("referencedDecl", {}).get("id") in m:
        return {"kind": "ParenExpr", "type": node.get("type"), "_line": node.get("_line"), "_file": node.get("_file"), "inner": [m[node["referencedDecl"]["id"]]]}
    return {k: (subst_refs(v, m) if k == "inner" else v) for k, v in node.items()}


def rename_locals(node, suffix):
    """copy of a helper body in which every local variable it declares carries a suffix: a helper analysed in place must
    not capture the caller's names (facts and reaching definitions are keyed by name)"""
    ids = {x.get("id") for x in walk(node) if x.get("kind") == "VarDecl"}

    def go(n):
        if isinstance(n, list):
            return [go(c) for c in n]
        if not isinstance(n, dict):
            return n
        out = {k: (go(v) if k == "inner" else v) for k, v in n.items()}
        if n.get("kind") == "VarDecl" and n.get("id") in ids:
            out["name"] = n["name"] + suffix
        if n.get("kind") == "DeclRefExpr" and n.get("referencedDecl", {}).get("id") in ids:
            rd = dict(n["referencedDecl"])
            rd["name"] = rd.get("name", "") + suffix
            out["referencedDecl"] = rd
        return out
    return go(node)


def split_args(s):
    out, depth, cur = [], 0, ""
    for ch in s:
        if ch in "([":
            depth += 1
        elif ch in ")]":
            depth -= 1
        if ch == "," and depth == 0:
            out.append(cur.strip())
            cur = ""
        else:
            cur += ch
    if cur.strip():
        out.append(cur.strip())
    return out


def callee_name(e):
    e = strip(e)
    if e.get("kind") != "CallExpr":
        return None
    c = strip(e["inner"][0])
    if c.get("kind") == "DeclRefExpr":
        return c["referencedDecl"]["name"]
    return None


def walk(e):
    yield e
    for c in e.get("inner", []) or []:
        if isinstance(c, dict):
            yield from walk(c)


def calls_in(e):
    return [x for x in walk(e) if x.get("kind") == "CallExpr"]


def vars_in(e):
    out = set()
    for x in walk(e):
        if x.get("kind") == "DeclRefExpr" and x["referencedDecl"].get("kind") in ("VarDecl", "ParmVarDecl"):
            out.add(x["referencedDecl"]["name"])
    return out


# ---------------------------------------------------------------- CFG

class Node:
    __slots__ = ("id", "kind", "expr", "succ", "pred", "line", "stmt", "tag", "const_assign")

    def __init__(self, i, kind, expr=None, line=None, stmt=None, tag=None):
        self.id, self.kind, self.expr, self.succ, self.pred = i, kind, expr, [], []
        self.line, self.stmt, self.tag = line, stmt, tag
        self.const_assign = None

    def __repr__(self):
        return "<%d %s L%s>" % (self.id, self.kind, self.line)


class Unsupported(Exception):
    pass


class CFG:
    """nodes: entry, exit, stmt (expression or declaration with initialiser), branch (atomic condition:
    succ[0] = true edge, succ[1] = false edge), ret (return statement, expr may be None)"""

    def __init__(self, prog, fdecl):
        self.prog, self.f = prog, fdecl
        self.name = fdecl["name"]
        self.nodes = []
        self.entry = self.new("entry")
        self.exit = self.new("exit")
        self.labels, self.gotos = {}, []
        body = [c for c in fdecl["inner"] if c.get("kind") == "CompoundStmt"][0]
        body = inline_expr_helpers(body, prog, self.name, 0)
        body = forward_single_defs(body, prog.enums)
        self.r = R(prog.enums, arrays=const_arrays(body))
        ends = self.stmt(body, [self.entry], None, None)
        self.seq(ends, self.exit)
        for n, lab in self.gotos:
            if lab not in self.labels:
                raise Unsupported("goto to unknown label %s" % lab)
            self.link(n, self.labels[lab])
        self._dom = None
        # drop nodes that no path from the entry reaches (branches of compile-time constant conditions)
        live = self.reach_from(self.entry)
        self.dead = [n for n in self.nodes if n.id not in live]
        self.nodes = [n for n in self.nodes if n.id in live]
        for n in self.nodes:
            n.pred = [p for p in n.pred if p is not None and p.id in live]

    def new(self, kind, expr=None, line=None, stmt=None, tag=None):
        n = Node(len(self.nodes), kind, expr, line, stmt, tag)
        self.nodes.append(n)
        return n

    def link(self, a, b, slot=None):
        a.succ.append(b)
        b.pred.append(a)

    def seq(self, preds, node):
        for p in preds:
            if isinstance(p, tuple):  # (branch node, polarity slot) pending edge
                self._link_branch(p[0], p[1], node)
            else:
                self.link(p, node)
        return [node]

    def _link_branch(self, br, pol, node):
        # branch succ list is [true, false]; fill in order-insensitively
        while len(br.succ) < 2:
            br.succ.append(None)
        br.succ[0 if pol else 1] = node
        node.pred.append(br)

    # condition lowering: returns (true_exits, false_exits) as pending edges
    def cond(self, e, preds):
        e = strip(e)
        k = e.get("kind")
        if k == "UnaryOperator" and e["opcode"] == "!":
            t, f = self.cond(e["inner"][0], preds)
            return f, t
        if k == "BinaryOperator" and e["opcode"] == "&&":
            t1, f1 = self.cond(e["inner"][0], preds)
            t2, f2 = self.cond(e["inner"][1], t1)
            return t2, f1 + f2
        if k == "BinaryOperator" and e["opcode"] == "||":
            t1, f1 = self.cond(e["inner"][0], preds)
            t2, f2 = self.cond(e["inner"][1], f1)
            return t1 + t2, f2
        v = const_eval(e, self.prog.enums)
        if v is not None:
            # constant condition: only one edge is feasible (compile-time configuration)
            return (preds, []) if v else ([], preds)
        # jump threading: a predecessor that has just assigned a constant to the tested status variable
        # (`ret = BAD_ENCODING` of a helper analysed in place, then `if (ret != VALID)`) takes its edge directly
        t_dir, f_dir, rest = [], [], list(preds)
        if k == "BinaryOperator" and e.get("opcode") in ("==", "!="):
            l, r_ = strip(e["inner"][0]), strip(e["inner"][1])
            kv = const_eval(r_, self.prog.enums)
            if l.get("kind") == "DeclRefExpr" and kv is not None:
                vid = l["referencedDecl"].get("id")
                rest = []
                for p_ in preds:
                    ca = getattr(p_, "const_assign", None) if isinstance(p_, Node) else None
                    if ca is not None and ca[0] == vid:
                        outcome = (ca[1] == kv) if e["opcode"] == "==" else (ca[1] != kv)
                        (t_dir if outcome else f_dir).append(p_)
                    else:
                        rest.append(p_)
        if not rest and (t_dir or f_dir):
            return t_dir, f_dir
        n = self.new("branch", e, e.get("_line"))
        self.seq(rest, n)
        return t_dir + [(n, True)], f_dir + [(n, False)]

    def stmt(self, s, preds, brk, cont):
        """returns list of fall-through exits (nodes or pending branch edges)"""
        k = s.get("kind")
        if k == "CompoundStmt":
            cur = preds
            for c in s.get("inner", []) or []:
                cur = self.stmt(c, cur, brk, cont)
            return cur
        if k == "DeclStmt":
            cur = preds
            for d in s.get("inner", []):
                if d.get("kind") == "VarDecl":
                    init = [c for c in d.get("inner", []) or [] if isinstance(c, dict) and c.get("kind") not in ("FullComment",)]
                    body = self.inline_body(init[0]) if init else None
                    if body is not None:
                        # `T v = helper(args);` with a helper the rules do not know: declaration, then the body in place
                        n = self.new("decl", None, d.get("_line") or s.get("_line"), d, tag=d["name"])
                        cur = self.seq(cur, n)
                        ref = {"kind": "DeclRefExpr", "type": d.get("type"), "referencedDecl": {"id": d.get("id"), "kind": "VarDecl", "name": d["name"], "type": d.get("type")}, "_line": d.get("_line"), "_file": d.get("_file")}
                        cur = self.run_inlined(body, ref, cur, brk, cont)
                        continue
                    n = self.new("decl", init[0] if init else None, d.get("_line") or s.get("_line"), d, tag=d["name"])
                    if init and "[" not in d.get("type", {}).get("qualType", "") and "*" not in d.get("type", {}).get("qualType", ""):
                        cv = const_eval(init[0], self.prog.enums)
                        if cv is not None:
                            n.const_assign = (d.get("id"), cv, init[0])
                    cur = self.seq(cur, n)
            return cur
        if k == "IfStmt":
            inner = [c for c in s["inner"] if isinstance(c, dict)]
            t, f = self.cond(inner[0], preds)
            te = self.stmt(inner[1], t, brk, cont)
            fe = self.stmt(inner[2], f, brk, cont) if len(inner) > 2 else f
            return te + fe
        if k == "ForStmt":
            inner = s["inner"]  # init, (condvar), cond, inc, body
            init, _, cnd, inc, body = inner[0], inner[1], inner[2], inner[3], inner[4]
            un = unroll_plan(s, self.prog.enums)
            if un is not None:
                # `for (int i = a; i < K; i++)` with constant a, K and at most 4 iterations whose body neither
                # writes i nor leaves the loop: analysed as K-a copies of the body with i replaced by its value
                decl_id, lo, hi, extra = un
                cur = preds
                out_exits = []
                for v in range(lo, hi):
                    if extra is not None:
                        t, f = self.cond(subst_var(extra, decl_id, v), cur)
                        out_exits += f
                        cur = t
                    cur = self.stmt(subst_var(body, decl_id, v), cur, brk, cont)
                return out_exits + cur
            cur = preds
            if init and init.get("kind"):
                cur = self.stmt(init, cur, brk, cont)
            head = self.new("loophead", None, s.get("_line"), s)
            cur = self.seq(cur, head)
            if cnd and cnd.get("kind"):
                t, f = self.cond(cnd, [head])
            else:
                t, f = [head], []
            brk_list, cont_list = [], []
            be = self.stmt(body, t, brk_list, cont_list)
            latch = be + cont_list
            if inc and inc.get("kind"):
                n = self.new("stmt", inc, inc.get("_line") or s.get("_line"), inc, tag="inc")
                latch = self.seq(latch, n) if latch else []
            for l in latch:
                if isinstance(l, tuple):
                    self._link_branch(l[0], l[1], head)
                else:
                    self.link(l, head)
            return f + brk_list
        if k == "WhileStmt":
            inner = [c for c in s["inner"] if isinstance(c, dict)]
            head = self.new("loophead", None, s.get("_line"), s)
            self.seq(preds, head)
            t, f = self.cond(inner[0], [head])
            brk_list, cont_list = [], []
            be = self.stmt(inner[1], t, brk_list, cont_list)
            for l in be + cont_list:
                if isinstance(l, tuple):
                    self._link_branch(l[0], l[1], head)
                else:
                    self.link(l, head)
            return f + brk_list
        if k == "DoStmt":
            inner = [c for c in s["inner"] if isinstance(c, dict)]
            head = self.new("loophead", None, s.get("_line"), s)
            self.seq(preds, head)
            brk_list, cont_list = [], []
            be = self.stmt(inner[0], [head], brk_list, cont_list)
            t, f = self.cond(inner[1], be + cont_list)
            for l in t:
                self._link_branch(l[0], l[1], head) if isinstance(l, tuple) else self.link(l, head)
            return f + brk_list
        if k == "ReturnStmt" and getattr(self, "_inl_stack", None):
            # return of a helper being analysed in place: `target = value`, then on to what follows the call
            tgt, exits = self._inl_stack[-1]
            inner = [c for c in s.get("inner", []) or [] if isinstance(c, dict)]
            cur = preds
            if inner and tgt is not None:
                asg = {"kind": "BinaryOperator", "opcode": "=", "type": tgt.get("type"), "_line": s.get("_line"), "_file": s.get("_file"), "inner": [tgt, inner[0]]}
                n = self.new("stmt", asg, s.get("_line"), asg)
                cv = const_eval(inner[0], self.prog.enums)
                if cv is not None and strip(tgt).get("kind") == "DeclRefExpr":
                    n.const_assign = (strip(tgt)["referencedDecl"].get("id"), cv, inner[0])   # for jump threading in cond()
                cur = self.seq(preds, n)
            exits.extend(cur)
            return []
        if k == "ReturnStmt":
            inner = [c for c in s.get("inner", []) or [] if isinstance(c, dict)]
            if inner:
                # `return helper(args);` with a helper the rules do not know: its body in place, each of its returns
                # being a return of this function (the tail of a function moved into a worker)
                tail_body = self.inline_body(inner[0])
                if tail_body is not None and getattr(self, "_tail_depth", 0) < 2:
                    self._tail_depth = getattr(self, "_tail_depth", 0) + 1
                    try:
                        rest = self.stmt(tail_body, preds, None, None)
                    finally:
                        self._tail_depth -= 1
                    if rest:
                        raise Unsupported("helper %s can fall off its end" % callee_name(strip(inner[0])))
                    return []
            if inner:
                top = strip(inner[0])
                if (top.get("kind") == "BinaryOperator" and top.get("opcode") in ("&&", "||")) or \
                        (top.get("kind") == "UnaryOperator" and top.get("opcode") == "!"):
                    # `return a && b;` of a predicate helper = `if (a && b) return 1; return 0;`
                    # (so that what holds when it answers true is visible as branch facts)
                    t, f = self.cond(inner[0], preds)
                    for exits, val in ((t, "1"), (f, "0")):
                        if not exits:
                            continue
                        lit = {"kind": "IntegerLiteral", "value": val, "_line": s.get("_line"), "_file": s.get("_file"), "type": {"qualType": "int"}}
                        n = self.new("ret", lit, s.get("_line"), s)
                        self.seq(exits, n)
                        self.link(n, self.exit)
                    return []
            if inner and strip(inner[0]).get("kind") == "ConditionalOperator":
                # `return c ? A : B;` = `if (c) return A; return B;`
                co = strip(inner[0])
                parts = [x for x in co.get("inner", []) if isinstance(x, dict)]
                if len(parts) == 3:
                    t, f = self.cond(parts[0], preds)
                    for exits, val in ((t, parts[1]), (f, parts[2])):
                        if not exits:
                            continue
                        n = self.new("ret", val, s.get("_line"), s)
                        self.seq(exits, n)
                        self.link(n, self.exit)
                    return []
            top = strip(inner[0]) if inner else None
            if top is not None and top.get("kind") == "DeclRefExpr" and top["referencedDecl"].get("kind") == "VarDecl" and len(preds) > 1:
                # `return status;` reached from several places: one return node per way in, so that each keeps
                # the facts of its own path (single-exit style is judged like early returns)
                for p_ in preds:
                    ca = getattr(p_, "const_assign", None) if isinstance(p_, Node) else None
                    ex = inner[0]
                    if ca is not None and ca[0] == top["referencedDecl"].get("id") and len(ca) > 2:
                        ex = ca[2]   # the constant just assigned
                    n = self.new("ret", ex, s.get("_line"), s)
                    self.seq([p_], n)
                    self.link(n, self.exit)
                return []
            n = self.new("ret", inner[0] if inner else None, s.get("_line"), s)
            self.seq(preds, n)
            self.link(n, self.exit)
            return []
        if k == "GotoStmt":
            n = self.new("goto", None, s.get("_line"), s)
            self.seq(preds, n)
            # label name: targetLabelDeclId -> resolve by scanning later; clang gives no name here
            self.gotos.append((n, s.get("targetLabelDeclId")))
            return []
        if k == "LabelStmt":
            n = self.new("label", None, s.get("_line"), s, tag=s.get("name"))
            self.labels[s.get("declId")] = n
            cur = self.seq(preds, n)
            for c in s.get("inner", []) or []:
                cur = self.stmt(c, cur, brk, cont)
            return cur
        if k == "BreakStmt":
            if brk is None:
                raise Unsupported("break outside loop")
            brk.extend(preds)
            return []
        if k == "ContinueStmt":
            if cont is None:
                raise Unsupported("continue outside loop")
            cont.extend(preds)
            return []
        if k == "NullStmt":
            return preds
        if k in ("SwitchStmt", "CaseStmt", "DefaultStmt", "IndirectGotoStmt", "GCCAsmStmt"):
            raise Unsupported(k)
        # expression statement
        es = strip(s) if s.get("kind") in TRANSPARENT else s
        if es.get("kind") == "BinaryOperator" and es.get("opcode") == "=":
            body = self.inline_body(es["inner"][1])
            if body is not None:
                return self.run_inlined(body, es["inner"][0], preds, brk, cont)
        if es.get("kind") == "BinaryOperator" and es.get("opcode") == "=" and strip(es["inner"][0]).get("kind") == "DeclRefExpr":
            cv = const_eval(es["inner"][1], self.prog.enums)
            if cv is not None:
                n = self.new("stmt", s, s.get("_line"), s)
                n.const_assign = (strip(es["inner"][0])["referencedDecl"].get("id"), cv, es["inner"][1])
                return self.seq(preds, n)
        inl = self.inline_plan(s)
        if inl is not None:
            # call of a void helper the rules do not know (not in CVOCAB): analysed as if its body stood here,
            # parameters replaced by the argument expressions
            return self.stmt(inl, preds, brk, cont)
        n = self.new("stmt", s, s.get("_line"), s)
        return self.seq(preds, n)

    def inline_body(self, e):
        """body of a value-returning helper not in CVOCAB called by expression e, parameters substituted; else None"""
        e = strip(e)
        if e.get("kind") != "CallExpr":
            return None
        try:
            from cvocab import CVOCAB
        except Exception:
            return None
        cn = callee_name(e)
        if cn is None or cn in CVOCAB or cn not in self.prog.funcs or cn == self.name or len(getattr(self, "_inl_stack", [])) > 1:
            return None
        fdecl = self.prog.funcs[cn]
        body = [c for c in fdecl["inner"] if c.get("kind") == "CompoundStmt"]
        if not body or any(x.get("kind") in ("GotoStmt", "LabelStmt") for x in walk(body[0])):
            return None
        params = self.prog.params(cn)
        args = e["inner"][1:]
        if len(params) != len(args):
            return None
        return forward_single_defs(rename_locals(subst_refs(body[0], {p_.get("id"): a_ for p_, a_ in zip(params, args)}), "__" + cn), self.prog.enums)

    def run_inlined(self, body, target, preds, brk, cont):
        if not hasattr(self, "_inl_stack"):
            self._inl_stack = []
        exits = []
        self._inl_stack.append((target, exits))
        try:
            fall = self.stmt(body, preds, None, None)
        finally:
            self._inl_stack.pop()
        return exits + fall

    def inline_plan(self, s):
        e = strip(s) if s.get("kind") in TRANSPARENT else s
        if e.get("kind") != "CallExpr":
            return None
        try:
            from cvocab import CVOCAB
        except Exception:
            return None
        cn = callee_name(e)
        if cn is None or cn in CVOCAB or cn not in self.prog.funcs or cn == self.name:
            return None
        self._inl_depth = getattr(self, "_inl_depth", 0)
        if self._inl_depth > 2:
            return None
        fdecl = self.prog.funcs[cn]
        rtype = (fdecl.get("type", {}).get("qualType", "") or "").split("(")[0].strip()
        if rtype != "void":
            return None
        body = [c for c in fdecl["inner"] if c.get("kind") == "CompoundStmt"]
        if not body:
            return None
        if any(x.get("kind") in ("ReturnStmt", "GotoStmt", "LabelStmt") for x in walk(body[0])):
            return None
        params = self.prog.params(cn)
        args = e["inner"][1:]
        if len(params) != len(args):
            return None
        m = {p_.get("id"): a_ for p_, a_ in zip(params, args)}
        return forward_single_defs(rename_locals(subst_refs(body[0], m), "__" + cn), self.prog.enums)

    # ---- dominators (iterative, sets; graphs are tiny)
    def dom(self):
        if self._dom is not None:
            return self._dom
        reach = self.reach_from(self.entry)
        nodes = [n for n in self.nodes if n.id in reach]
        allids = set(n.id for n in nodes)
        dom = {n.id: set(allids) for n in nodes}
        dom[self.entry.id] = {self.entry.id}
        changed = True
        while changed:
            changed = False
            for n in nodes:
                if n is self.entry:
                    continue
                ps = [dom[p.id] for p in n.pred if p is not None and p.id in reach]
                new = set.intersection(*ps) if ps else set()
                new = new | {n.id}
                if new != dom[n.id]:
                    dom[n.id] = new
                    changed = True
        self._dom = dom
        return dom

    def reach_from(self, n, avoid=None):
        seen, st = set(), [n]
        while st:
            x = st.pop()
            if x is None or x.id in seen or (avoid is not None and x.id == avoid.id):
                continue
            seen.add(x.id)
            st.extend(x.succ)
        return seen

    def dominates(self, a, b):
        d = self.dom()
        return b.id in d and a.id in d[b.id]

    def edge_dominates(self, br, pol, n):
        """every path to n uses edge br -(pol)-> succ"""
        s = br.succ[0 if pol else 1] if len(br.succ) == 2 else None
        if s is None:
            return False
        if s is n:
            # the edge target itself: all other preds of s must be dominated by s
            return all(p is br or self.dominates(s, p) for p in s.pred) and br.succ[0] is not br.succ[1]
        if not self.dominates(s, n):
            return False
        if br.succ[0] is br.succ[1]:
            return False
        return all(p is br or self.dominates(s, p) for p in s.pred)

    # ---- writes of a node (variables assigned) used to kill facts
    def writes(self, n):
        out = set()
        if n.kind == "decl":
            out.add(n.tag)
        e = n.expr
        if e is None:
            return out
        for x in walk(e):
            k = x.get("kind")
            if k in ("BinaryOperator", "CompoundAssignOperator") and (x["opcode"] == "=" or k == "CompoundAssignOperator"):
                out.add(self.r(x["inner"][0]))
                out |= {self.base_var(x["inner"][0])}
            if k == "UnaryOperator" and x["opcode"] in ("++", "--"):
                out.add(self.r(x["inner"][0]))
                out |= {self.base_var(x["inner"][0])}
        return out

    def base_var(self, e):
        e = strip(e)
        while e.get("kind") in ("ArraySubscriptExpr", "MemberExpr", "UnaryOperator"):
            e = strip(e["inner"][0])
        if e.get("kind") == "DeclRefExpr":
            return e["referencedDecl"]["name"]
        return "?"

    def between(self, br, x, to):
        """x may run after branch br was taken towards `to` and before `to` without re-evaluating br"""
        if x is to or x is br:
            return False
        fwd = set()
        st = [s for s in br.succ if s is not None]
        while st:
            y = st.pop()
            if y.id in fwd or y is br:
                continue
            fwd.add(y.id)
            st.extend([s for s in y.succ if s is not None])
        if x.id not in fwd:
            return False
        return to.id in self.reach_from(x, avoid=br)

    def facts_at(self, n, _depth=0):
        base = self._facts_at(n)
        if _depth > 1:
            return base
        # status-variable correlation: on the edge `v == K` only those assignments `v = …` that can have
        # produced K were executed last; what held at all of them holds here (a helper analysed in place
        # leaves `ret = BAD_ENCODING | … | VALID` followed by `if (ret != VALID) return ret;`)
        have = {f for f, _ in base}
        extra = []
        # joins: only the predecessors compatible with what holds here were taken; what held on all of them holds here
        for j in self.joins_before(n):
            feas = self.feasible_preds(j, n, have, _depth)
            if not feas or len(feas) == len([p_ for p_ in j.pred if p_ is not None]):
                continue
            common = None
            for p_ in feas:
                fs = self.edge_facts(p_, j, _depth + 1)
                common = fs if common is None else (common & fs)
            for x in sorted(common or []):
                if x in have:
                    continue
                ids = set(re.findall(r"[A-Za-z_]\w*", x))
                if any(o.kind in ("stmt", "decl") and (self.writes(o) & ids) and (o is j or self.between_nodes(j, o, n)) for o in self.nodes):
                    continue
                have.add(x)
                extra.append((x, j))
        for f, br in base:
            m = re.fullmatch(r"(\w+) == (\w+)", f)
            if not m:
                continue
            v, ktok = m.group(1), m.group(2)
            kval = self.prog.enums.get(ktok)
            if kval is None and re.fullmatch(r"-?\d+", ktok):
                kval = int(ktok)
            if kval is None:
                continue
            defs = [x for x in self.nodes if x.kind in ("stmt", "decl") and v in self.writes(x)]
            reach = [d for d in defs if self._def_reaches(d, br, defs)]
            if len(reach) < 2:
                continue
            feas = []
            for d in reach:
                rhs = self.rhs_of(d, v)
                if rhs is None:
                    feas = None
                    break
                cv = const_eval(rhs, self.prog.enums)
                if cv is None or cv == kval:
                    feas.append((d, rhs, cv))
            if not feas:
                continue
            # an assignment is not the last one executed if something that held there contradicts what holds here
            def neg(fact):
                for op, nop in ((" == ", " != "), (" != ", " == "), (" >= ", " < "), (" < ", " >= "), (" <= ", " > "), (" > ", " <= ")):
                    i = fact.rfind(op)
                    if i > 0:
                        return fact[:i] + nop + fact[i + len(op):]
                return None
            keep = []
            for d, rhs, cv in feas:
                contradicted = False
                for x, _ in self.facts_at(d, _depth + 1):
                    nx = neg(x)
                    if nx is not None and nx in have:
                        ids = set(re.findall(r"[A-Za-z_]\w*", x))
                        if not any(o.kind in ("stmt", "decl") and o is not d and (self.writes(o) & ids) and self.between_nodes(d, o, n) for o in self.nodes):
                            contradicted = True
                if not contradicted:
                    keep.append((d, rhs, cv))
            feas = keep
            if not feas:
                continue
            common = None
            for d, rhs, cv in feas:
                fs = {x for x, _ in self.facts_at(d, _depth + 1)}
                if cv is None:
                    fs.add("%s == %s" % (self.r(rhs), ktok))
                common = fs if common is None else (common & fs)
            for x in sorted(common or []):
                if x in have:
                    continue
                # nothing the fact mentions is written between the assignments and n
                ids = set(re.findall(r"[A-Za-z_]\w*", x))
                killed = False
                for d, _, _ in feas:
                    for o in self.nodes:
                        if o.kind in ("stmt", "decl") and o is not d and (self.writes(o) & ids) and self.between_nodes(d, o, n):
                            killed = True
                if not killed:
                    have.add(x)
                    extra.append((x, br))
        return base + extra

    @staticmethod
    def _neg(fact):
        for op, nop in ((" == ", " != "), (" != ", " == "), (" >= ", " < "), (" < ", " >= "), (" <= ", " > "), (" > ", " <= ")):
            i = fact.rfind(op)
            if i > 0:
                return fact[:i] + nop + fact[i + len(op):]
        return None

    def edge_facts(self, pred, succ, depth):
        """facts holding when control goes from pred to succ"""
        fs = {x for x, _ in self.facts_at(pred, depth)}
        if pred.kind == "branch" and len(pred.succ) == 2 and pred.succ[0] is not pred.succ[1]:
            pol = pred.succ[0] is succ
            fs.add(self.norm(pred.expr, pol))
        return fs

    def feasible_preds(self, j, n, have, depth=0):
        """predecessors of join node j through which n can be reached given the facts `have` holding at n:
        a predecessor is excluded when something that held on its edge is the negation of a fact at n and
        nothing it mentions is written between j and n"""
        out = []
        for p_ in j.pred:
            if p_ is None:
                continue
            bad = False
            for x in self.edge_facts(p_, j, depth + 1):
                nx = self._neg(x)
                if nx is not None and nx in have:
                    ids = set(re.findall(r"[A-Za-z_]\w*", x))
                    if not any(o.kind in ("stmt", "decl") and (self.writes(o) & ids) and (o is j or self.between_nodes(j, o, n)) for o in self.nodes):
                        bad = True
                        break
            if not bad:
                out.append(p_)
        return out

    def joins_before(self, n):
        """join nodes (several predecessors, not loop heads) that dominate n, outermost first"""
        js = [j for j in self.nodes if len([p_ for p_ in j.pred if p_ is not None]) >= 2 and j.kind != "loophead" and j is not n and self.dominates(j, n)
              and not any(j.id in self.reach_from(p_) and self.dominates(j, p_) for p_ in j.pred if p_ is not None)]
        return js

    def valid_accept_facts(self, n):
        """facts at return node n under the assumption that it returns VALID; None when it cannot.
        `return VALID` as is; `return v` with v a status local: excluded when v != VALID holds or its only
        reaching definition is another constant, the definition `v = f(...)` contributes `f(...) == VALID`."""
        if n.kind != "ret" or n.expr is None:
            return None
        txt = self.r(n.expr)
        facts = set(self.resolved_facts(n))
        if txt == "VALID":
            return sorted(facts)
        e = strip(n.expr)
        if e.get("kind") == "CallExpr":
            # `return reader(args);` — the status of the callee is the status of this function: it accepts when the callee does
            cn = callee_name(e)
            rt = ""
            if cn in self.prog.funcs:
                rt = (self.prog.funcs[cn].get("type", {}).get("qualType", "") or "").split("(")[0].strip()
            elif cn in getattr(self.prog, "protos", {}):
                rt = (self.prog.protos[cn].get("type", {}).get("qualType", "") or "").split("(")[0].strip()
            if rt in ("ERROR", "int"):
                add = {"%s == VALID" % txt}
                return sorted(facts | add | self.expand_summaries(add))
            return None
        if not (e.get("kind") == "DeclRefExpr" and e["referencedDecl"].get("kind") == "VarDecl"):
            return None
        v = txt
        if "%s != VALID" % v in facts:
            return None
        if "%s == VALID" % v in facts:
            return sorted(facts)
        defs = [x for x in self.nodes if x.kind in ("stmt", "decl") and v in self.writes(x)]
        reach = [d for d in defs if self._def_reaches(d, n, defs)]
        if len(reach) != 1:
            return None
        rhs = self.rhs_of(reach[0], v)
        if rhs is None:
            return None
        cv = const_eval(rhs, self.prog.enums)
        if cv is not None:
            return sorted(facts) if cv == self.prog.enums.get("VALID") else None
        add = {"%s == VALID" % self.r(rhs)}
        add |= {x for x, _ in self.facts_at(reach[0])}
        return sorted(facts | add | self.expand_summaries(add))

    def _def_reaches(self, d, target, defs):
        """is there a path from definition d to target that passes no other definition of the variable?"""
        other = {o.id for o in defs if o is not d}
        seen, st = set(), [x for x in d.succ if x is not None]
        while st:
            x = st.pop()
            if x.id in seen:
                continue
            seen.add(x.id)
            if x is target:
                return True
            if x.id in other or x is d:
                continue
            st.extend(y for y in x.succ if y is not None)
        return False

    def _facts_at(self, n):
        """[(fact string, branch node)] for atomic branch conditions that hold on every path to n.
        A fact mentioning a local that is overwritten between the branch and n is replaced by the
        version in which that local is substituted by its unique reaching definition at the branch
        (`ret = f(x); if (ret != VALID) return; ret = g(y);` keeps `f(x) == VALID`)."""
        out = []
        for br in self.nodes:
            if br.kind != "branch" or len(br.succ) != 2:
                continue
            for pol in (True, False):
                if not self.edge_dominates(br, pol, n):
                    continue
                vs = vars_in(br.expr)
                killed_vars = set()
                for x in self.nodes:
                    if x.kind in ("stmt", "decl"):
                        w = self.writes(x) & vs
                        if w and self.between(br, x, n):
                            killed_vars |= w
                if not killed_vars:
                    out.append((self.norm(br.expr, pol), br))
                # resolved variants
                subst = {}
                ok = True
                for v in vs:
                    d = self.def_of(v, br)
                    if d is None:
                        if v in killed_vars:
                            ok = False
                        continue
                    rhs = self.rhs_of(d, v)
                    if rhs is None or strip(rhs).get("kind") == "InitListExpr":
                        if v in killed_vars:
                            ok = False
                        continue
                    rv = vars_in(rhs)
                    stable = True
                    for x in self.nodes:
                        if x.kind in ("stmt", "decl") and x is not d and (self.writes(x) & rv) and self.between_nodes(d, x, n):
                            stable = False
                    if stable:
                        subst[v] = self.render_resolved(rhs, d, n, 0)
                    elif v in killed_vars:
                        ok = False
                if ok and subst:
                    out.append((self.norm(br.expr, pol, R(self.prog.enums, subst)), br))
                # a boolean local tested on its own (`const bool ok = A == VALID && B(x); if (!ok) …`): the conjuncts of
                # its single, still valid definition hold on the edge where it is true (dually for ||)
                be, bpol = strip(br.expr), pol
                while be.get("kind") == "UnaryOperator" and be.get("opcode") == "!":
                    be, bpol = strip(be["inner"][0]), not bpol
                if be.get("kind") == "DeclRefExpr" and be["referencedDecl"].get("kind") == "VarDecl":
                    v = be["referencedDecl"]["name"]
                    d = self.def_of(v, br)
                    rhs = self.rhs_of(d, v) if d is not None else None
                    if rhs is not None and v not in killed_vars:
                        rv = vars_in(rhs)
                        stable = not any(x.kind in ("stmt", "decl") and x is not d and (self.writes(x) & rv) and self.between_nodes(d, x, n) for x in self.nodes)
                        if stable:
                            for atom in self._atoms(rhs, bpol, d, n):
                                out.append((atom, br))
        return out

    def _atoms(self, e, pol, d, n, depth=0):
        """atomic facts implied by `e` having truth value `pol` (conjunctions when true, disjunctions when false)"""
        e = strip(e)
        if depth > 4:
            return []
        if e.get("kind") == "UnaryOperator" and e.get("opcode") == "!":
            return self._atoms(e["inner"][0], not pol, d, n, depth + 1)
        if e.get("kind") == "BinaryOperator" and e.get("opcode") in ("&&", "||"):
            if (e["opcode"] == "&&") == pol:
                return self._atoms(e["inner"][0], pol, d, n, depth + 1) + self._atoms(e["inner"][1], pol, d, n, depth + 1)
            return []
        rend = lambda x: self.render_resolved(x, d, n, 0)
        if e.get("kind") == "BinaryOperator" and e["opcode"] in self.NEG:
            op = e["opcode"] if pol else self.NEG[e["opcode"]]
            return ["%s %s %s" % (rend(e["inner"][0]), op, rend(e["inner"][1]))]
        return ["%s %s 0" % (rend(e), "!=" if pol else "==")]

    def render_resolved(self, e, at, n, depth):
        """render e (evaluated at node `at`) with single-definition locals replaced by their defining
        expressions, recursively, as long as nothing they depend on is written before n"""
        if depth > 3:
            return self.r(e)
        inner = {}
        for v in vars_in(e):
            d = self.def_of(v, at)
            if d is None or d is at:
                continue
            rhs = self.rhs_of(d, v)
            if rhs is None or strip(rhs).get("kind") in ("InitListExpr",) or v in vars_in(rhs):
                continue
            if any(x.get("kind") == "CallExpr" for x in walk(rhs)):
                continue   # only aliases and address arithmetic are looked through (`point = &A[i]`, `q = src + 96 * i`)
            rv = vars_in(rhs)
            stable = True
            for x in self.nodes:
                if x.kind in ("stmt", "decl") and x is not d and (self.writes(x) & (rv | {v})) and self.between_nodes(d, x, n):
                    stable = False
            if stable and d.kind == "decl" and ("*" in (d.stmt or {}).get("type", {}).get("qualType", "") or True):
                inner[v] = self.render_resolved(rhs, d, n, depth + 1)
        if not inner:
            return self.r(e)
        return R(self.prog.enums, inner, self.r.arrays)(e)

    def dominating_edges(self, n):
        out = []
        for br in self.nodes:
            if br.kind == "branch" and len(br.succ) == 2:
                for pol in (True, False):
                    if self.edge_dominates(br, pol, n):
                        out.append((br, pol))
        return out

    NEG = {"==": "!=", "!=": "==", "<": ">=", ">=": "<", ">": "<=", "<=": ">"}

    def norm(self, e, pol, rend=None):
        rend = rend or self.r
        e = strip(e)
        if e.get("kind") == "BinaryOperator" and e["opcode"] in self.NEG:
            op = e["opcode"] if pol else self.NEG[e["opcode"]]
            return "%s %s %s" % (rend(e["inner"][0]), op, rend(e["inner"][1]))
        return "%s %s 0" % (rend(e), "!=" if pol else "==")

    # ---- reaching single definition of a scalar variable at node n
    def def_of(self, var, n):
        """the unique defining node of var that dominates n with no other write of var in between"""
        defs = [x for x in self.nodes if x.kind in ("stmt", "decl") and var in self.writes(x)]
        cands = [d for d in defs if self.dominates(d, n) and d is not n]
        best = None
        for d in cands:
            if all(o is d or not self.between_nodes(d, o, n) for o in defs):
                best = d
        return best

    def between_nodes(self, a, x, to):
        if x is to or x is a:
            return False
        fwd = self.reach_from(a)
        if x.id not in fwd:
            return False
        return to.id in self.reach_from(x, avoid=a)

    def rhs_of(self, d, var):
        if d.kind == "decl":
            return d.expr
        e = strip(d.expr)
        if e.get("kind") == "BinaryOperator" and e["opcode"] == "=" and self.r(e["inner"][0]) == var:
            return e["inner"][1]
        return None

    def resolved_facts(self, n, depth=2):
        base = set(f for f, _ in self.facts_at(n))
        return sorted(base | self.expand_summaries(base))

    # ---- wrapper summaries: `helper(args) == VALID` (or a true boolean helper) implies what holds at every
    # accepting return of the helper, with parameters replaced by the arguments
    def expand_summaries(self, facts, depth=0):
        out = set()
        if depth > 1:
            return out
        for f in facts:
            m = re.match(r"^([A-Za-z_]\w*)\((.*)\) (== VALID|!= 0)$", f)
            if not m:
                continue
            name, argstr, tail = m.group(1), m.group(2), m.group(3)
            if name not in self.prog.funcs or name == self.name:
                continue
            args = split_args(argstr)
            params = [p["name"] for p in self.prog.params(name)]
            if len(args) != len(params):
                continue
            for sf in self.prog.accept_summary(name, "VALID" if tail == "== VALID" else "true"):
                x = sf
                for pn, av in zip(params, args):
                    x = re.sub(r"(?<![\w>.])%s(?!\w)" % re.escape(pn), lambda _m, av=av: av, x)
                # `&*x` / `*&x` produced by substitution
                x = x.replace("&(*", "(").replace("(*&", "(") if False else x
                out.add(x)
        return out

    def loop_init(self, head, var):
        """value expression var has on loop entry: its last definition outside the loop dominating the head"""
        inloop = self.reach_from(head)
        defs = [x for x in self.nodes if x.kind in ("stmt", "decl") and var in self.writes(x) and self.dominates(x, head)
                and not (x.id in inloop and head.id in self.reach_from(x) and self.dominates(head, x))]
        best = None
        for d in defs:
            if best is None or self.dominates(best, d):
                best = d
        if best is None:
            return None
        return self.rhs_of(best, var)

    def stmt_nodes(self):
        return [n for n in self.nodes if n.kind in ("stmt", "decl", "ret", "branch")]

    def calls(self, name=None):
        """(node, CallExpr) for every call in the function (optionally to `name`)"""
        out = []
        for n in self.nodes:
            if n.expr is None:
                continue
            for c in calls_in(n.expr):
                cn = callee_name(c)
                if name is None or cn == name:
                    out.append((n, c))
        return out


def fix_goto_labels(fdecl):
    """clang's JSON gives GotoStmt.targetLabelDeclId and LabelStmt.declId: nothing to do (kept for clarity)"""
    return fdecl
