#!/bin/bash
# usage: try_patch.sh <patch-file | revert:<commit>> <prop> [prop...]
# applies a change to /repo's working tree, runs the Go-side+C-side quick analysis, always restores the tree.
src=$1; shift
cd /repo || exit 2
if [[ $src == revert:* ]]; then git show ${src#revert:} | git apply -R || { echo APPLY-FAILED; exit 2; }
else git apply "$src" || { echo APPLY-FAILED; exit 2; }; fi
for p in "$@"; do
  (cd /verif && ./check $p quick 2>&1 | grep -E "^property|^  (violation|UNDEC)|KNOWN" | cut -c1-420)
done
git checkout -- . ; git status --short | grep -v '^??' | head -3
