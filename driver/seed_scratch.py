"""Analyse seeded changes on a scratch copy of /repo (never touches /repo): prints the new reports of the seed's
property (or of all properties with --all) and, with --record, stores them in seeded/<id>/meta.json.
usage: seed_scratch.py [--record] [--all] <id|patch-dir>...   (id: looked up in /verif/seeded, then /tmp/seedout)"""
import json, os, subprocess, sys, shutil
sys.path.insert(0, '/verif/driver')
os.chdir('/verif')
import check, selftest, rules_index
check.build_tool()
args = [a for a in sys.argv[1:] if not a.startswith('--')]
record = '--record' in sys.argv
allp = '--all' in sys.argv
base = {}
def viols(props, repo):
    import cast
    res = check.analyse_many(props, repo) if len(props) > 1 else {props[0]: check.analyse(props[0], 'quick', repo)[0]}
    cast._cache.pop((repo, 'adx'), None)
    return {p: {(o['rule'], o['key']): o for o in obls if o['status'] in ('violation', 'undecided')} for p, obls in res.items()}
for a in args:
    d = a if os.path.isdir(a) else ('/verif/seeded/' + a if os.path.isdir('/verif/seeded/' + a) else '/tmp/seedout/' + a)
    sid = os.path.basename(d.rstrip('/'))
    prop = sid[:3]
    props = sorted(set(rules_index.GO_RULES) | set(rules_index.C_RULES)) if allp else [prop]
    missing = [p for p in props if p not in base]
    if missing:
        base.update(viols(missing, '/repo'))
    tmp, dst = selftest.scratch_copy()
    try:
        r = subprocess.run(['git', 'apply', '--unsafe-paths', '--directory=' + dst, d + '/patch.diff'], cwd='/', capture_output=True, text=True)
        if r.returncode != 0:
            print(sid, 'APPLY FAILED', r.stderr[:300]); continue
        v = viols(props, dst)
    finally:
        shutil.rmtree(tmp, ignore_errors=True)
    for p in props:
        new = [o for k, o in v[p].items() if k not in base[p]]
        if p == prop or new:
            print(sid, p, 'DETECTED' if new else 'MISSED')
            for o in new[:6]:
                print('    ', o['rule'], o['key'][:100], '@', o['where'].replace(dst, ''), '::', o['detail'][:260])
        if p == prop and record and os.path.exists(d + '/meta.json'):
            m = json.load(open(d + '/meta.json'))
            m['detected_by'] = [{"property": p, "rule": o['rule'], "expect": o['key'].split('@')[0][:80], "where": o['where'].replace(dst + '/', ''), "detail": o['detail'][:300]} for o in new[:3]]
            json.dump(m, open(d + '/meta.json', 'w'), indent=1)
