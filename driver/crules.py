"""C-side rules (engine C) per property.  Each rule emits obligations
{rule, key, status, where, detail, facts} keyed by function + role, never by line."""
import os, re, subprocess, json
import cast
from cast import strip, callee_name, calls_in, walk, vars_in, const_eval, R


class Ctx:
    def __init__(self, prog, prop):
        self.p, self.prop = prog, prop
        self.obls, self.floors, self.stats, self.notes = [], {}, {}, []

    def add(self, rule, key, status, where, detail, facts=None):
        o = {"rule": rule, "key": key, "status": status, "where": where, "detail": detail}
        if facts:
            o["facts"] = list(facts)[:14]
        self.obls.append(o)

    def ok(self, rule, key, where, detail, facts=None):
        self.add(rule, key, "ok", where, detail, facts)

    def viol(self, rule, key, where, detail, facts=None):
        self.add(rule, key, "violation", where, detail, facts)

    def und(self, rule, key, where, detail):
        self.add(rule, key, "undecided", where, detail)

    def info(self, rule, key, where, detail):
        self.add(rule, key, "info", where, detail)

    def check(self, cond, rule, key, where, okd, bad, facts=None):
        (self.ok if cond else self.viol)(rule, key, where, okd if cond else bad, facts)
        return cond

    def floor(self, rule, n):
        self.floors[rule] = n

    def cfg(self, rule, fn):
        if fn not in self.p.funcs:
            self.und(rule, "anchor:" + fn, "?", "unresolved anchor: C function %s not found in the repository's glue" % fn)
            return None
        try:
            return self.p.cfg(fn)
        except cast.Unsupported as e:
            self.und(rule, "cfg:" + fn, "?", "unsupported construct in %s: %s" % (fn, e))
            return None

    def pos(self, g, n):
        return "%s:%s" % (self.p.where.get(g.name, "?"), n.line)


def run(prop, repo, flagset, tier):
    try:
        prog = cast.load_all(repo, flagset)
    except Exception as e:
        return {"obligations": [{"rule": prop + ".cload", "key": "clang", "status": "undecided", "where": "?",
                                 "detail": "loading the C glue failed: %s" % e}], "floors": {}, "stats": {}}
    c = Ctx(prog, prop)
    cast.SIZEOF_HOOK = program_sizeof_hook(prog)
    c.stats["c_functions_parsed"] = len(prog.funcs)
    c.stats["c_cfg_nodes"] = 0
    try:
        RULES[prop](c)
    except Exception as e:
        import traceback
        c.und(prop + ".cengine", "panic", "?", "C engine error: %s" % traceback.format_exc()[-600:])
    for g in prog._cfg.values():
        c.stats["c_cfg_nodes"] += len(g.nodes)
    c.stats["c_functions_analysed"] = len(prog._cfg)
    return {"obligations": c.obls, "floors": c.floors, "stats": c.stats, "notes": c.notes}


# ------------------------------------------------------------------ helpers

def byte_params(c, fn):
    """names of `const byte *` (untrusted bytes) parameters"""
    out = []
    for p in c.p.params(fn):
        t = p["type"]["qualType"].replace(" ", "")
        if t in ("constbyte*", "constunsignedchar*", "constuint8_t*", "constbyte[]"):
            out.append(p["name"])
    return out


def base_name(s):
    """`&elemsG1[0]` -> elemsG1, `&s` -> s, `&sigs[i]` -> sigs"""
    s = s.lstrip("&*(")
    m = re.match(r"[A-Za-z_][A-Za-z_0-9]*", s)
    return m.group(0) if m else s


def accept_sites(c, g):
    """nodes at which the function commits to a possibly-VALID result"""
    sites = []
    rets = [n for n in g.nodes if n.kind == "ret" and n.expr is not None]
    retvars = set()
    rtype = (g.f.get("type", {}).get("qualType", "") or "").split("(")[0].strip()
    is_pred = rtype in ("bool", "_Bool")
    for n in rets:
        e = strip(n.expr)
        s = g.r(e)
        if is_pred and const_eval(e, c.p.enums) is not None:
            # predicate helper: it commits to "yes" only with a non-zero constant
            if const_eval(e, c.p.enums) != 0:
                sites.append((n, "return " + s))
            continue
        if e.get("kind") == "DeclRefExpr" and e["referencedDecl"].get("kind") == "VarDecl":
            retvars.add(s)
        elif s == "VALID" or e.get("kind") == "CallExpr" or const_eval(e, c.p.enums) is None:
            if s not in ("INVALID", "UNDEFINED", "BAD_ENCODING", "BAD_VALUE", "POINT_NOT_ON_CURVE", "POINT_NOT_IN_GROUP"):
                sites.append((n, "return " + s))
        elif const_eval(e, c.p.enums) == c.p.enums.get("VALID"):
            sites.append((n, "return " + s))
    for v in retvars:
        for n in g.nodes:
            if n.kind == "decl" and n.tag == v and n.expr is not None:
                s = g.r(n.expr)
                if not is_reject_const(c, n.expr):
                    sites.append((n, "%s = %s" % (v, s)))
            if n.kind == "stmt":
                for x in walk(n.expr):
                    if x.get("kind") == "BinaryOperator" and x["opcode"] == "=" and g.r(x["inner"][0]) == v:
                        if not is_reject_const(c, x["inner"][1]):
                            sites.append((n, "%s = %s" % (v, g.r(x["inner"][1]))))
    return sites, retvars


def is_reject_const(c, e):
    v = const_eval(e, c.p.enums)
    return v is not None and v != c.p.enums.get("VALID")


def reader_calls(c, g, readers=("E1_read_bytes", "E2_read_bytes", "Fr_read_bytes", "Fr_star_read_bytes", "Fp_read_bytes", "Fp2_read_bytes", "G2_vector_read_bytes")):
    return [(n, call) for n, call in g.calls() if callee_name(call) in readers]


def paths(g, start, stops, limit=4000):
    """all acyclic paths from node start until a node in stops (inclusive); back edges to visited nodes cut"""
    out = []
    stack = [(start, [start])]
    while stack:
        n, path = stack.pop()
        if n in stops and len(path) > 1 or (n in stops and n is not start):
            out.append(path)
            continue
        succ = [s for s in n.succ if s is not None]
        if not succ:
            out.append(path)
            continue
        for s in succ:
            if s in path:
                continue
            if len(out) + len(stack) > limit:
                raise cast.Unsupported("path explosion")
            stack.append((s, path + [s]))
    return out


def helper_events(g, call, depth=0):
    """events of a glue helper that the rules do not know by name (not in CVOCAB), with its parameters
    replaced by the call's arguments: statements moved into a new helper still count where they were"""
    from cvocab import CVOCAB
    cn = callee_name(call)
    if cn is None or cn in CVOCAB or cn not in g.prog.funcs or cn == g.name or depth > 2:
        return []
    try:
        h = g.prog.cfg(cn)
    except cast.Unsupported:
        return []
    params = [p_["name"] for p_ in g.prog.params(cn)]
    args = [g.r(a_) for a_ in call["inner"][1:]]
    if len(params) != len(args):
        return []
    out = []
    for e in path_events(h, h.nodes, depth + 1):
        for pn, av in zip(params, args):
            e = re.sub(r"(?<![\w>.])%s(?!\w)" % re.escape(pn), lambda _m, av=av: av, e)
        out.append(e)
    return out


def path_events(g, path, depth=0):
    """calls and assignments along a path, as rendered strings"""
    ev = []
    for n in path:
        if n.expr is None:
            continue
        if n.kind == "branch":
            for call in calls_in(n.expr):
                ev.append(g.r(call))
                ev.extend(helper_events(g, call, depth))
            continue
        for x in walk(n.expr):
            if x.get("kind") == "CallExpr":
                ev.append(g.r(x))
                ev.extend(helper_events(g, x, depth))
            if x.get("kind") == "BinaryOperator" and x["opcode"] == "=":
                ev.append("%s = %s" % (g.r(x["inner"][0]), g.r(x["inner"][1])))
        if n.kind == "decl" and n.expr is not None and strip(n.expr).get("kind") != "InitListExpr":
            ev.append("%s = %s" % (n.tag, g.r(n.expr)))
    return ev


# ------------------------------------------------------------------ signature sanitisation (C01.R1, C02.R1, C17.R1)

def rule_sanitised(c, rule, fn, expect_objects):
    g = c.cfg(rule, fn)
    if g is None:
        return {}
    srcs = set(byte_params(c, fn))
    G1 = 48
    objs = {}
    for n, call in g.calls("E1_read_bytes"):
        args = call["inner"][1:]
        src = g.r(args[1])
        if base_name(src) not in srcs:
            continue
        obj = g.r(args[0])
        k = const_eval(args[2], c.p.enums)
        objs[obj] = (n, call, src)
        c.check(k == G1, rule, "%s/read:%s/length" % (fn, obj), c.pos(g, n), "reader is given G1_SER_BYTES", "signature reader is called with length %s, expected %d" % (g.r(args[2]), G1))
    # parse sites inside small helpers: a repo function whose every VALID return established
    # E1_read_bytes(<its parameter>, <its byte parameter>, 48) == VALID
    for n, call in g.calls():
        cn = callee_name(call)
        if cn in (None, "E1_read_bytes") or cn not in c.p.funcs or cn == fn:
            continue
        params = [p_["name"] for p_ in c.p.params(cn)]
        args = [g.r(a_) for a_ in call["inner"][1:]]
        if len(params) != len(args):
            continue
        for sf in c.p.accept_summary(cn, "VALID") + c.p.accept_summary(cn, "true"):
            m = re.match(r"^E1_read_bytes\((\w+), (\w+), 48\) == VALID$", sf)
            if not m or m.group(1) not in params or m.group(2) not in params:
                continue
            obj, src = args[params.index(m.group(1))], args[params.index(m.group(2))]
            if base_name(src) in srcs and obj not in objs:
                objs[obj] = (n, call, src)
    if len(objs) < expect_objects:
        c.viol(rule, "%s/parsed-objects" % fn, c.p.pos(g.f), "expected %d E1 object(s) parsed from caller bytes with E1_read_bytes, found %d: the signature is not deserialised by the validating reader" % (expect_objects, len(objs)))
    sites, _ = accept_sites(c, g)
    summary = {}
    for obj, (rn, rcall, src) in objs.items():
        need = ["E1_read_bytes(%s, %s, %d) == VALID" % (obj, src, G1), "E1_in_G1(%s) != 0" % obj]
        b = base_name(obj)
        # sinks: every later use of the object (or the array holding it) by a call other than the reader / membership test
        nsink = 0
        for n, call in g.calls():
            cn = callee_name(call)
            if call is rcall:
                continue
            args = [g.r(a) for a in call["inner"][1:]]
            # the bare array name is element 0 for single-point routines and the whole array for the rest
            single = cn is not None and re.match(r"E[12]_(in_G[12]|read_bytes|write_bytes|copy|neg|set_infty|is_infty|to_affine|mult|add)$", cn)
            uses = [a for a in args if a == obj or (a == b and not (single and obj != b))]
            if not uses:
                continue
            if cn == "E1_in_G1" and obj in args:
                continue
            if cn in ("free", "E1_read_bytes") and obj not in args:
                continue  # another element of the same array is being filled / the array is released
            if any(call is oc for (_, oc, _) in objs.values()) and obj not in args:
                continue  # the parse site (a reading helper) of another element of the same array
            if cn == "free":
                continue
            nsink += 1
            facts = g.resolved_facts(n)
            missing = [f for f in need if f not in facts]
            c.check(not missing, rule, "%s/sink:%s(%s)" % (fn, cn, obj), c.pos(g, n),
                    "object parsed from untrusted bytes reaches %s only after read==VALID and the G1 membership test" % cn,
                    "%s consumes %s on a path where %s does not hold (signature not validated / not subgroup-checked before use)" % (cn, obj, " and ".join(missing)), facts)
        if nsink == 0:
            c.viol(rule, "%s/sink:%s" % (fn, obj), c.pos(g, rn), "parsed object %s never reaches a pairing/verification call" % obj)
        for n, what in sites:
            facts = g.resolved_facts(n)
            missing = [f for f in need if f not in facts]
            c.check(not missing, rule, "%s/accept:%s/%s" % (fn, what.split("(")[0], obj), c.pos(g, n),
                    "possibly-VALID result only after the signature was validated",
                    "a possibly-VALID result (%s) is produced on a path where %s does not hold" % (what, " and ".join(missing)), facts)
        summary[obj] = need
    return summary


def rule_C01(c):
    c.floor("C01.R1", 3)
    rule_sanitised(c, "C01.R1", "bls_verify", 1)
    g = c.cfg("C01.R1", "bls_verify")
    if g:
        # map_to_G1 result checked here
        for n, call in g.calls("map_to_G1"):
            facts_after = None
            sinks = [m for m, cl in g.calls("bls_verify_E1")]
            ok = bool(sinks) and all(("%s == VALID" % g.r(call)) in g.resolved_facts(m) for m in sinks)
            c.check(ok, "C01.R1", "bls_verify/map_to_G1-checked", c.pos(g, n), "hash-to-curve result is checked before the pairing",
                    "map_to_G1's result is not checked before the pairing (a wrong-length hash would leave the hash point uninitialised)")
    rule_pairing_core(c, "C01.R1")
    rule_pairing_flush(c, "C01.R1")
    # R8: keys and signatures are handed to the pairing as affine points only after a conversion (= C04.R5)
    c.floor("C01.R8", 2)
    rule_affine_casts(c, "C01.R8")
    # R7: identity / equality predicates of the glue inspect whole objects (the identity flag and the zero-key test rest on them)
    c.floor("C01.R7", 20)
    rule_object_extents(c, "C01.R7")
    # R6: the signature reader is canonical (one accepted string per point): same rules as C05.R1/R2 on E1_read_bytes
    # R12: plain / Montgomery representations of scalars never mix (dimension analysis over the glue)
    c.floor("C01.R12", 10)
    rule_montgomery_degrees(c, "C01.R12")
    # R11: INVALID only for the causes the property names
    c.floor("C01.R11", 2)
    rule_reject_provenance(c, "C01.R11", ("bls_verify", "bls_verify_E1"))
    # R9: rejected inputs are reported with the INVALID code (never with a code the Go layer turns into an error)
    c.floor("C01.R9", 3)
    rule_verdict_codes(c, "C01.R9")
    # R14: limb-granular helpers are given whole limbs (the readers' "remaining bytes are zero" test included)
    c.floor("C01.R14", 20)
    rule_limb_granular(c, "C01.R14")
    c.floor("C01.R6", 10)
    rule_reader_coverage(c, "C01.R6", (("E1_read_bytes", 48),))
    rule_reader_header(c, "C01.R6", (("E1_read_bytes", 48, "Fp_read_bytes", "Fp_sqrt_montg", 48),))


def rule_pairing_core(c, rule):
    """bls_verify_E1: VALID only from Fp12_is_one of the 2-pairing of (s, -g2), (h, pk)"""
    g = c.cfg(rule, "bls_verify_E1")
    if not g:
        return
    params = [p["name"] for p in c.p.params("bls_verify_E1")]
    pk, s, h = params
    ev = []
    for n in g.nodes:
        if n.kind in ("stmt",):
            ev += path_events(g, [n])
    want = {"E1_copy(elemsG1, %s)" % s, "E1_copy(&elemsG1[1], %s)" % h, "E2_copy(elemsG2, BLS12_381_minus_g2)", "E2_copy(&elemsG2[1], %s)" % pk}
    missing = [w for w in sorted(want) if w not in ev]
    c.check(not missing, rule, "bls_verify_E1/operands", c.p.pos(g.f), "pairs are (s,-g2) and (h,pk)", "pairing operands are not (s,-g2),(h,pk): missing " + ", ".join(missing))
    for n in g.nodes:
        if g.valid_accept_facts(n) is not None:
            facts = g.valid_accept_facts(n)
            c.check("Fp12_is_one(&e) != 0" in facts, rule, "bls_verify_E1/accept", c.pos(g, n), "VALID only when the pairing product is one", "VALID is returned without the pairing product being one", facts)
    mp = g.calls("Fp12_multi_pairing")
    c.check(len(mp) == 1 and g.r(mp[0][1]) == "Fp12_multi_pairing(&e, elemsG1, elemsG2, 2)", rule, "bls_verify_E1/pairing-call", c.p.pos(g.f),
            "2-pairing over both pairs", "the multi-pairing is not taken over both pairs: " + (g.r(mp[0][1]) if mp else "none"))


def rule_C02(c):
    # R6: keys and signatures handed to the pairing code are used as affine points only after a conversion (= C04.R5)
    c.floor("C02.R6", 2)
    rule_affine_casts(c, "C02.R6")
    c.floor("C02.R1", 8)
    c.floor("C02.R4", 2)
    c.floor("C02.R5", 3)
    # R9: INVALID only for the causes the property names
    c.floor("C02.R9", 2)
    rule_reject_provenance(c, "C02.R9", ("bls_verifyPerDistinctMessage", "bls_verifyPerDistinctKey"))
    # R8: rejected signatures are reported as INVALID (false, nil), never through a code the Go layer turns into an error
    c.floor("C02.R8", 2)
    rule_verdict_codes(c, "C02.R8", only=("bls_verifyPerDistinct",))
    s1 = rule_sanitised(c, "C02.R1", "bls_verifyPerDistinctMessage", 1)
    s2 = rule_sanitised(c, "C02.R1", "bls_verifyPerDistinctKey", 1)
    c.check(sorted(sum(s1.values(), [])) == sorted(sum(s2.values(), [])) and bool(s1), "C02.R1", "siblings/predicates", "bls_core.c",
            "both grouping paths establish the same predicates on the signature", "the two grouping paths do not establish the same predicates on the signature object: %s vs %s" % (s1, s2))
    for fn in ("bls_verifyPerDistinctMessage", "bls_verifyPerDistinctKey"):
        g = c.cfg("C02.R1", fn)
        if not g:
            continue
        ev = path_events(g, [n for n in g.nodes])
        c.check("E2_copy(elemsG2, BLS12_381_minus_g2)" in ev, "C02.R1", fn + "/minus-g2", c.p.pos(g.f), "signature is paired with -g2", "elemsG2[0] is not set to -g2")
        # VALID only from Fp12_is_one over the full arrays
        sites, _ = accept_sites(c, g)
        mp = g.calls("Fp12_multi_pairing")
        nb = [p["name"] for p in c.p.params(fn)][1]
        # the product object: whatever local the (possibly extracted) pairing step uses
        m_ = re.match(r"^Fp12_multi_pairing\(&(\w+), elemsG1, elemsG2, \(%s \+ 1\)\)$" % re.escape(nb), g.r(mp[0][1])) if len(mp) == 1 else None
        prod = m_.group(1) if m_ else "e"
        for n, what in sites:
            if what.endswith("= VALID"):
                facts = g.resolved_facts(n)
                c.check("Fp12_is_one(&%s) != 0" % prod in facts, "C02.R1", fn + "/accept-pairing", c.pos(g, n), "VALID only when the pairing product is one", "VALID assigned without the pairing product being one", facts)
        c.check(bool(m_), "C02.R1", fn + "/pairing-call", c.p.pos(g.f),
                "pairing over all groups plus the signature pair", "multi-pairing does not cover all %s+1 pairs: %s" % (nb, g.r(mp[0][1]) if mp else "none"))
        # reviewed exception: map_to_G1 result ignored here (checked in bls_verify)
        for n, call in g.calls("map_to_G1"):
            c.info("C02.R1", fn + "/map_to_G1-unchecked", c.pos(g, n), "map_to_G1's return value is ignored here while bls_verify checks it; accepted: the Go caller validated Size()==128 for every hasher and passes len(hash) (assumption A-Hasher)")
    # R5: offset bookkeeping — inside every loop of the two grouping functions, a running offset (`x += …`) is
    # advanced on every path through the loop body; a `continue` that skips it misaligns all later groups
    for fn in ("bls_verifyPerDistinctMessage", "bls_verifyPerDistinctKey"):
        g = c.cfg("C02.R5", fn)
        if not g:
            continue
        nacc = 0
        # loops written in the function itself: a loop that belongs to the body of a helper analysed in place keeps the
        # helper's own counters, which are not running offsets of the grouping
        fd_ = c.p.funcs[fn]
        own_file = fd_.get("_file")
        own_lines = [x.get("_line") for x in walk(fd_) if isinstance(x.get("_line"), int) and x.get("_file") == own_file]
        lo_, hi_ = (min(own_lines), max(own_lines)) if own_lines else (0, 1 << 30)

        def own_loop(h_):
            st_ = h_.stmt or {}
            return (st_.get("_file") in (None, own_file)) and isinstance(h_.line, int) and lo_ <= h_.line <= hi_
        for h in [n for n in g.nodes if n.kind == "loophead" and own_loop(n)]:
            brs = [s_ for s_ in h.succ if s_ is not None and s_.kind == "branch"]
            latch = [n for n in g.nodes if n.kind == "stmt" and n.tag == "inc" and h in n.succ]
            if not latch:
                # while / do loops: the sources of the back edges
                latch = [n for n in g.nodes if n is not h and h in [s_ for s_ in n.succ if s_ is not None] and g.dominates(h, n)]
            if not brs or not latch:
                continue
            body_entry = brs[0].succ[0]
            accs, steps, incs = {}, {}, {}
            for n in g.nodes:
                if n.kind != "stmt" or n.tag == "inc" or n.expr is None:
                    continue
                if not (g.dominates(h, n) and h.id in g.reach_from(n)):
                    continue
                # innermost loop only
                if loop_of(g, n) is not h:
                    continue
                for x in walk(n.expr):
                    if x.get("kind") == "CompoundAssignOperator" and x["opcode"] == "+=":
                        accs.setdefault(g.r(x["inner"][0]), []).append(n)
                        # the step `x += A[k]`: k must itself change once per iteration of this loop
                        for y in walk(x["inner"][1]):
                            if y.get("kind") == "ArraySubscriptExpr":
                                for z in walk(y["inner"][1]):
                                    if z.get("kind") == "DeclRefExpr":
                                        steps.setdefault(z["referencedDecl"]["name"], []).append(n)
                    elif x.get("kind") == "UnaryOperator" and x.get("opcode") in ("++", "--"):
                        incs.setdefault(g.r(x["inner"][0]), []).append(n)
            if not accs:
                continue
            try:
                ps = paths(g, body_entry, set(latch))
            except cast.Unsupported as e:
                c.und("C02.R5", "%s/loop@%s" % (fn, h.line), c.pos(g, h), str(e))
                continue
            latch_vars = set()
            for l_ in latch:
                for x in walk(l_.expr):
                    if x.get("kind") in ("UnaryOperator", "CompoundAssignOperator") and x.get("opcode") in ("++", "--", "+=", "-="):
                        latch_vars.add(g.r(x["inner"][0]))
            for k, users in steps.items():
                if k in latch_vars:
                    continue
                adv = incs.get(k, []) + accs.get(k, [])
                badp = None
                for p_ in ps:
                    if p_[-1] in latch and any(u in p_ for u in users) and not any(n in p_ for n in adv):
                        badp = "→".join(str(n.line) for n in p_ if n.line)
                        break
                nacc += 1
                c.check(badp is None, "C02.R5", "%s/offset-step-index:%s" % (fn, k), c.pos(g, h), "the index `%s` selecting the step of a running offset changes once per iteration of the same loop" % k,
                        "running offset is advanced by an array element selected by `%s`, but `%s` does not change on the loop path through lines %s: the same length is used for every element of the group" % (k, k, badp))
            for var, nodes in list(accs.items()) + [(k, v) for k, v in incs.items() if k not in accs]:
                nacc += 1
                bad = None
                for p_ in ps:
                    if p_[-1] not in latch:
                        continue
                    # nested loops: a path that enters an inner loop head is summarised by passing the head
                    if not any(n in p_ for n in nodes):
                        inner = [n for n in nodes if loop_of(g, n) is not h]
                        bad = "→".join(str(n.line) for n in p_ if n.line)
                        break
                c.check(bad is None, "C02.R5", "%s/offset:%s" % (fn, var), c.pos(g, h), "running offset `%s` advances on every path through the loop body" % var,
                        "running offset `%s` is not advanced on the loop path through lines %s: every later group is read from the wrong position (hashes and keys no longer aligned)" % (var, bad))
        if nacc == 0:
            c.und("C02.R5", fn + "/offsets", c.p.pos(g.f), "offset bookkeeping idiom not recognised")
    # R4: infinity operands skipped; set_one when nothing was accumulated
    g = c.cfg("C02.R4", "Fp12_multi_pairing")
    if g:
        copies = [(n, call) for n, call in g.calls("vec_copy") if g.r(call["inner"][1]).startswith(("(p_aff", "p_aff", "(q_aff", "q_aff", "&p_aff", "&q_aff"))]
        if not copies:
            c.und("C02.R4", "Fp12_multi_pairing/copies", c.p.pos(g.f), "Miller-loop operand copies not recognised")
        for n, call in copies:
            facts = g.resolved_facts(n)
            okk = "E1_is_infty(&p[i]) == 0" in facts and "E2_is_infty(&q[i]) == 0" in facts
            c.check(okk, "C02.R4", "Fp12_multi_pairing/copy:" + g.r(call["inner"][1]).strip("()").split(" ")[0], c.pos(g, n), "pair copied only when neither operand is infinity",
                    "a pair with an infinity operand can be copied into the Miller loop", facts)
        fe = g.calls("final_exp")
        so = g.calls("Fp12_set_one")
        # the flag that records "a Miller loop output was accumulated": whatever local is tested == 0 before the
        # set-one and is set to a non-zero constant only right after a Miller loop
        okk = False
        if fe and so:
            ml = [n_ for n_, _ in g.calls("miller_loop_n")]
            for f_ in g.resolved_facts(so[0][0]):
                m_ = re.match(r"^(\w+) == 0$", f_)
                if not m_:
                    continue
                v_ = m_.group(1)
                sets = [n_ for n_ in g.nodes if n_.kind == "stmt" and n_.expr is not None and re.match(r"^\(?%s = [1-9]\d*\)?$" % re.escape(v_), g.r(n_.expr))]
                init0 = any(n_.kind == "decl" and n_.tag == v_ and n_.expr is not None and g.r(n_.expr) == "0" for n_ in g.nodes)
                if sets and init0 and all(any(g.dominates(m2, s_) for m2 in ml) for s_ in sets):
                    okk = True
        c.check(okk, "C02.R4", "Fp12_multi_pairing/empty-product", c.p.pos(g.f), "empty product is set to one before the final exponentiation", "result is not initialised to one when every pair was skipped")
    rule_pairing_flush(c, "C02.R4")


def rule_pairing_flush(c, rule):
    """Fp12_multi_pairing: every couple copied into the Miller-loop arrays is passed to a Miller loop before the final
    exponentiation. Path exploration over the CFG with one ghost bit `pending` (set by the increment of the fill counter
    that follows the copies, cleared by a Miller-loop call); a test of the fill counter against zero follows only the
    non-zero edge while couples are pending, every other branch is followed both ways."""
    fn = "Fp12_multi_pairing"
    g = c.cfg(rule, fn)
    if not g:
        return
    # the fill counter: the variable added to the affine arrays in the copy destinations
    cnt = None
    for n_, call in g.calls("vec_copy"):
        mo = re.match(r"\(?&?\(?[pq]_aff(?:\[| \+ )(\w+)", g.r(call["inner"][1]))
        if mo:
            cnt = mo.group(1)
    millers = {n_.id for n_, call in g.calls() if "miller_loop" in (callee_name(call) or "")}
    if cnt is None or not millers:
        c.und(rule, fn + "/flush", c.p.pos(g.f), "Miller-loop batching idiom not recognised (fill counter or Miller-loop call not found)")
        return
    incs = set()
    for n_ in g.nodes:
        if n_.expr is None:
            continue
        for x in walk(n_.expr):
            if x.get("kind") == "UnaryOperator" and x.get("opcode") == "++" and g.r(x["inner"][0]) == cnt:
                incs.add(n_.id)
            if x.get("kind") == "CompoundAssignOperator" and x.get("opcode") == "+=" and g.r(x["inner"][0]) == cnt:
                incs.add(n_.id)
    finals = [n_ for n_, call in g.calls("final_exp")]
    seen = set()
    bad = None
    stack = [(g.entry if hasattr(g, "entry") else g.nodes[0], 0, ())]
    while stack and bad is None:
        node, pend, trail = stack.pop()
        if node is None or (node.id, pend) in seen:
            continue
        seen.add((node.id, pend))
        if node.id in millers:
            pend = 0
        if node.id in incs:
            pend = 1
        if node in finals and pend:
            bad = "→".join(str(l) for l in trail[-8:] + (node.line,))
            break
        succ = list(node.succ)
        if node.kind == "branch" and pend and len(succ) == 2:
            t = g.r(node.expr).replace(" ", "")
            if t in ("(%s>0)" % cnt, "(%s!=0)" % cnt, cnt, "(%s>=1)" % cnt):
                succ = [succ[0]]
            elif t in ("(%s==0)" % cnt, "(!%s)" % cnt, "(%s<=0)" % cnt, "(%s<1)" % cnt):
                succ = [succ[1]]
        for s_ in succ:
            stack.append((s_, pend, trail + ((node.line,) if node.line else ())))
    c.check(bad is None, rule, fn + "/pending-couples-flushed", c.p.pos(g.f), "every copied couple reaches a Miller loop before the final exponentiation (%d states explored)" % len(seen),
            "couples copied into the Miller-loop arrays can reach the final exponentiation without having been passed to a Miller loop (path through lines %s): their pairings are silently dropped from the product" % bad)


def rule_C17(c):
    # R9: the proof reader accepts canonical strings only: limb-granular helpers get whole limbs
    c.floor("C17.R9", 20)
    rule_limb_granular(c, "C17.R9")
    # R4: keys and proofs are handed to the pairing as affine points only after a conversion (= C04.R5)
    c.floor("C17.R4", 2)
    rule_affine_casts(c, "C17.R4")
    # R6: INVALID only for the causes the property names
    c.floor("C17.R6", 1)
    rule_reject_provenance(c, "C17.R6", ("bls_spock_verify",))
    # R5: rejected proofs / keys are reported as INVALID (false, nil), never through a code the Go layer turns into an error
    c.floor("C17.R5", 1)
    rule_verdict_codes(c, "C17.R5", only=("bls_spock_verify",))
    c.floor("C17.R1", 6)
    rule_pairing_flush(c, "C17.R1")
    parsed = rule_sanitised(c, "C17.R1", "bls_spock_verify", 2)
    g = c.cfg("C17.R1", "bls_spock_verify")
    if g:
        ps_ = [p["name"] for p in c.p.params("bls_spock_verify")]
        if len(ps_) != 4:
            c.und("C17.R1", "bls_spock_verify/interface", c.p.pos(g.f), "bls_spock_verify takes %d parameters; the rules know the interface (pk1, sig1, pk2, sig2): which proof is paired with which key cannot be followed" % len(ps_))
            return
        pk1, sig1, pk2, sig2 = ps_
        ev = path_events(g, [n for n in g.nodes])
        # the pairing relation e(p1, -pk2) * e(p2, pk1): element 0 ↔ sig1/-pk2, element 1 ↔ sig2/pk1
        # (which object was parsed from which proof is taken from the parse sites found above, wherever they sit)
        for obj, need in parsed.items():
            ev = ev + [need[0][:-len(" == VALID")]]
        # the arrays handed to the one multi-pairing call, and the product object, whatever they are called
        mp = g.calls("Fp12_multi_pairing")
        mm_ = re.match(r"^Fp12_multi_pairing\(&(\w+), (\w+), (\w+), 2\)$", g.r(mp[0][1])) if len(mp) == 1 else None
        c.check(bool(mm_), "C17.R1", "bls_spock_verify/pairing-call", c.p.pos(g.f), "2-pairing", "multi-pairing call changed: " + (g.r(mp[0][1]) if mp else "none"))
        prod, P_, Q_ = (mm_.group(1), mm_.group(2), mm_.group(3)) if mm_ else ("e", "elemsG1", "elemsG2")
        # slot 0 of the G2 array holds -pk2: negated in place, or negated into a local that is then copied there
        neg_ok = "E2_neg(%s, %s)" % (Q_, pk2) in ev
        if not neg_ok:
            for e_ in ev:
                m2 = re.match(r"^E2_neg\(&(\w+), %s\)$" % re.escape(pk2), e_)
                if m2 and "E2_copy(%s, &%s)" % (Q_, m2.group(1)) in ev:
                    neg_ok = True
        want = ["E1_read_bytes(%s, %s, 48)" % (P_, sig1), "E1_read_bytes(&%s[1], %s, 48)" % (P_, sig2), "E2_copy(&%s[1], %s)" % (Q_, pk1)]
        missing = [w for w in want if w not in ev] + ([] if neg_ok else ["%s[0] = -%s" % (Q_, pk2)])
        c.check(not missing, "C17.R1", "bls_spock_verify/operands", c.p.pos(g.f), "pairs are (p1,-pk2) and (p2,pk1)", "SPoCK pairing operands changed: missing " + ", ".join(missing))
        for n in g.nodes:
            if g.valid_accept_facts(n) is not None:
                facts = g.valid_accept_facts(n)
                c.check("Fp12_is_one(&%s) != 0" % prod in facts, "C17.R1", "bls_spock_verify/accept", c.pos(g, n), "VALID only when the pairing product is one", "VALID returned without the pairing product being one", facts)


# ------------------------------------------------------------------ C03

def loop_of(g, node):
    """innermost loophead whose natural loop contains node: the head dominates it and it reaches a back-edge source of
    the head without passing through the head (a statement that follows an inner loop inside an outer one reaches the
    inner head again only through the inner loop's entry, so it belongs to the outer loop only)"""
    best = None
    for h in g.nodes:
        if h.kind != "loophead" or not g.dominates(h, node):
            continue
        latches = [p_ for p_ in g.nodes if h in [s_ for s_ in p_.succ if s_ is not None] and g.dominates(h, p_)]
        if node is not h:
            reach = g.reach_from(node, avoid=h)
            if not any(l_.id in reach or l_ is node for l_ in latches):
                continue
        if best is None or g.dominates(best, h):
            best = h
    return best


def rule_C03(c):
    # R7: positions in the batch are never narrowed below int (coefficient i must depend on i, not on i mod 256)
    c.floor("C03.R7", 3)
    rule_no_index_narrowing(c, "C03.R7", ["bls_batch_verify", "build_tree", "bls_batch_verify_tree"])
    c.floor("C03.R1", 4)
    c.floor("C03.R2", 4)
    c.floor("C03.R5", 4)
    fn = "bls_batch_verify"
    g = c.cfg("C03.R1", fn)
    if not g:
        return
    P = [p["name"] for p in c.p.params(fn)]
    sigs_len, results, pks_in, sigs_bytes, data, data_len, seed = P
    reads = [(n, call) for n, call in g.calls("E1_read_bytes") if base_name(g.r(call["inner"][2])) == sigs_bytes]
    if len(reads) != 1:
        c.und("C03.R1", fn + "/read", c.p.pos(g.f), "expected exactly one per-signature E1_read_bytes, found %d" % len(reads))
        return
    rn, rcall = reads[0]
    obj = g.r(rcall["inner"][1])           # &sigs[i]
    src = g.r(rcall["inner"][2])
    arr = base_name(obj)
    head = loop_of(g, rn)
    if head is None:
        c.viol("C03.R1", fn + "/loop", c.pos(g, rn), "per-signature read is not inside a loop")
        return
    # counted loop 0..sigs_len with stride G1_SER_BYTES
    idx = re.search(r"\[(.*)\]", obj).group(1)
    br = [s for s in head.succ if s is not None and s.kind == "branch"]
    cond = g.r(br[0].expr) if br else ""
    init = g.loop_init(head, idx)
    c.check(cond == "(%s < %s)" % (idx, sigs_len) and init is not None and g.r(init) == "0", "C03.R1", fn + "/loop-range", c.pos(g, head),
            "loop covers indices 0..sigs_len-1", "signature loop does not run over 0..%s-1: condition %s" % (sigs_len, cond))
    c.check(src == "&%s[(48 * %s)]" % (sigs_bytes, idx) and const_eval(rcall["inner"][3], c.p.enums) == 48, "C03.R1", fn + "/stride", c.pos(g, rn),
            "i-th signature read from bytes 48·i", "i-th signature is not read from offset 48·i with length 48: " + g.r(rcall))
    # (a) multiplications only on validated objects
    need = ["E1_read_bytes(%s, %s, 48) == VALID" % (obj, src), "E1_in_G1(%s) != 0" % obj]
    mults = [(n, call) for n, call in g.calls() if callee_name(call) in ("E1_mult", "E2_mult")]
    for n, call in mults:
        facts = g.resolved_facts(n)
        missing = [f for f in need if f not in facts]
        c.check(not missing, "C03.R1", "%s/%s" % (fn, callee_name(call)), c.pos(g, n), "coefficient applied only to a validated signature",
                "%s runs on a path where %s does not hold" % (callee_name(call), " and ".join(missing)), facts)
    # (b) every path through the loop body either multiplies both by the same scalar, or neutralises and marks INVALID
    latch = [n for n in g.nodes if n.kind == "stmt" and n.tag == "inc" and head in n.succ]
    if not latch:
        # `while (i < n) { …; i++; }`: the back edge comes from the statement that steps the counter
        latch = [n for n in g.nodes if head in n.succ and n is not head and g.dominates(head, n) and n.expr is not None
                 and re.match(r"^\(?%s\+\+\)?$|^\(?\+\+%s\)?$|^\(?%s \+= 1\)?$" % ((re.escape(idx),) * 3), g.r(n.expr))]
    body_entry = br[0].succ[0] if br else None
    if not latch or body_entry is None:
        c.und("C03.R1", fn + "/body", c.pos(g, head), "loop body shape not recognised")
        return
    pkarr = None
    for n, call in g.calls("E2_mult"):
        pkarr = g.r(call["inner"][1])
    try:
        ps = paths(g, body_entry, set(latch))
    except cast.Unsupported as e:
        c.und("C03.R1", fn + "/body", c.pos(g, head), str(e))
        return
    c.stats["c03_loop_paths"] = len(ps)
    npaths = 0
    for p in ps:
        if p[-1] not in latch:
            continue  # paths leaving the loop (none expected)
        npaths += 1
        ev = path_events(g, p)
        m1 = [e for e in ev if e.startswith("E1_mult(%s, %s, " % (obj, obj))]
        m2 = [e for e in ev if e.startswith("E2_mult(") and e.split(", ")[1] == "&%s[%s]" % (pks_in, idx)]
        lines = "→".join(str(n.line) for n in p if n.line)
        key = "%s/body-path:%s" % (fn, "mult" if (m1 or m2) else "reject" if any("= INVALID" in e for e in ev) else "other")
        if m1 or m2:
            same = m1 and m2 and m1[0].split(", ")[-1] == m2[0].split(", ")[-1]
            dest_ok = m2 and pkarr and m2[0].startswith("E2_mult(%s," % pkarr)
            c.check(bool(same and dest_ok), "C03.R2", key + "/same-coefficient", c.pos(g, p[0]), "signature and key are multiplied by the same scalar object",
                    "signature and public key are not both multiplied by the same coefficient on path lines " + lines, ev[:12])
        else:
            marks = "%s[%s] = INVALID" % (results, idx) in ev
            neut_s = "E1_set_infty(%s)" % obj in ev
            neut_k = pkarr is not None and "E2_set_infty(%s)" % pkarr in ev
            c.check(marks and neut_s and neut_k, "C03.R1", key, c.pos(g, p[0]),
                    "rejected entry is marked INVALID and both points neutralised",
                    "a loop path (lines %s) neither applies the coefficient nor {marks results[i]=INVALID, sets signature and key to infinity}: mark=%s sig∞=%s key∞=%s" % (lines, marks, neut_s, neut_k), ev[:12])
    if npaths < 2:
        c.und("C03.R1", fn + "/body-paths", c.pos(g, head), "expected an accepting and a rejecting path through the loop body")
    # R2: the coefficient: zeroed, filled from seed + c·i with c bytes, c*8 >= 128, then incremented by a non-zero value
    if mults:
        r = g.r(mults[0][1]["inner"][3])  # &r
        rb = base_name(r)
        fills = [(n, call) for n, call in g.calls("limbs_from_be_bytes") if base_name(g.r(call["inner"][1])) == rb]
        if len(fills) != 1:
            c.viol("C03.R2", fn + "/coefficient-source", c.pos(g, mults[0][0]), "coefficient is not filled by exactly one limbs_from_be_bytes from the seed")
        else:
            n, call = fills[0]
            srcx, ln = call["inner"][2], call["inner"][3]
            ln_v = const_eval(ln, c.p.enums)
            ln_s = g.r(ln)
            d = g.def_of(ln_s, n) if ln_v is None else None
            if d is not None and d.expr is not None:
                ln_v = const_eval(d.expr, c.p.enums)
            c.check(ln_v is not None and ln_v * 8 >= 128, "C03.R2", fn + "/coefficient-bits", c.pos(g, n), "coefficient has %s bits of seed" % (ln_v * 8 if ln_v else "?"),
                    "random coefficient uses only %s seed bytes (< 128 bits)" % ln_v)
            sx = g.r(srcx)
            okoff = (seed in vars_in(srcx)) and (idx in vars_in(srcx))
            c.check(okoff, "C03.R2", fn + "/seed-offset", c.pos(g, n), "seed offset depends on the signature index", "seed pointer `%s` does not depend on the signature index (same coefficient for all entries)" % sx)
            m = re.search(r"\((\w+|\d+) \* %s\)" % idx, sx) or re.search(r"\(%s \* (\w+|\d+)\)" % idx, sx)
            stride = None
            if m:
                tok = m.group(1)
                stride = int(tok) if tok.isdigit() else (const_eval(g.def_of(tok, n).expr, c.p.enums) if g.def_of(tok, n) is not None else None)
            c.check(stride is not None and ln_v is not None and stride >= ln_v, "C03.R2", fn + "/seed-stride", c.pos(g, n), "per-index seed chunks do not overlap (stride %s ≥ length %s)" % (stride, ln_v),
                    "seed stride %s is smaller than the %s bytes consumed (coefficients share entropy)" % (stride, ln_v))
            c.stats["c03_seed_bytes_per_sig"] = ln_v or 0
            # zeroed before, +1 after (so the coefficient is non-zero), all dominating the multiplications
            ev_nodes = [(x, path_events(g, [x])) for x in g.nodes if x.kind in ("stmt", "decl")]
            zero = [x for x, ev in ev_nodes if "Fr_set_zero(%s)" % r in ev and g.dominates(x, n)]
            c.check(bool(zero), "C03.R2", fn + "/coefficient-zeroed", c.pos(g, n), "upper limbs are cleared before the partial fill", "coefficient is not cleared before being partially filled from the seed")
            adds = [(x, ev) for x, ev in ev_nodes if any(e.startswith("Fr_add(%s, %s, " % (r, r)) for e in ev) and g.dominates(n, x)]
            okadd = False
            for x, ev in adds:
                other = [e for e in ev if e.startswith("Fr_add(")][0].split(", ")[-1].rstrip(")")
                setl = [y for y, ev2 in ev_nodes if any(re.match(r"Fr_set_limb\(%s, ([1-9]\d*)\)" % re.escape(other), e) for e in ev2) and g.dominates(y, x)]
                if setl and all(g.dominates(x, m_[0]) for m_ in mults):
                    okadd = True
            c.check(okadd, "C03.R2", fn + "/coefficient-nonzero", c.pos(g, n), "coefficient = seed-chunk + 1 before both multiplications", "coefficient is not forced non-zero (random + non-zero limb) before the multiplications")
    # R5: tree split agreement
    splits = {}
    for f2 in ("build_tree", "bls_batch_verify_tree"):
        g2 = c.cfg("C03.R5", f2)
        if not g2:
            continue
        ln = [p["name"] for p in c.p.params(f2)][0 if f2 == "build_tree" else 1]
        rec = [(n, call) for n, call in g2.calls(f2)]
        if len(rec) != 2:
            c.und("C03.R5", f2 + "/recursion", c.p.pos(g2.f), "expected two recursive calls")
            continue
        shape = []
        for n, call in rec:
            args = call["inner"][1:]
            rend = []
            for a in args:
                s = g2.r(a)
                # substitute single-definition locals
                for v in vars_in(a):
                    d = g2.def_of(v, n)
                    if d is not None and g2.rhs_of(d, v) is not None and v not in [p["name"] for p in c.p.params(f2)]:
                        s = re.sub(r"\b%s\b" % v, g2.r(g2.rhs_of(d, v)), s)
                for v in list(vars_in(a)):
                    pass
                # second-level substitution (left_len defined via right_len)
                for _ in range(2):
                    for v2 in re.findall(r"[A-Za-z_]\w*", s):
                        d = None
                        try:
                            d = g2.def_of(v2, n)
                        except Exception:
                            d = None
                        if d is not None and g2.rhs_of(d, v2) is not None and v2 not in [p["name"] for p in c.p.params(f2)]:
                            s = re.sub(r"\b%s\b" % v2, g2.r(g2.rhs_of(d, v2)), s)
                rend.append(s.replace(ln, "LEN"))
            shape.append(rend)
        splits[f2] = shape
    if len(splits) == 2:
        bt, vt = splits["build_tree"], splits["bls_batch_verify_tree"]
        # lengths: build_tree arg0, verifier arg1; offsets: build_tree &pks[o]/&sigs[o], verifier &results[o]
        def lens(sh, li):
            return [x[li] for x in sh]
        def offs(sh, oi):
            # `&arr[o]` -> o ; a bare array/pointer name is offset 0 (canonical pointer form)
            return [re.search(r"\[(.*)\]$", x[oi]).group(1) if re.search(r"\[(.*)\]$", x[oi]) else ("0" if re.fullmatch(r"\w+", x[oi]) else x[oi]) for x in sh]
        L1, L2 = lens(bt, 0), lens(vt, 1)
        O1, O1b, O2 = offs(bt, 1), offs(bt, 2), offs(vt, 2)
        acc_left = {"(LEN - (LEN / 2))", "((LEN + 1) / 2)"}
        acc_right = {"(LEN / 2)"}
        c.check(L1 == L2 and O1 == O2 and O1 == O1b, "C03.R5", "tree/split-agreement", "bls_core.c", "builder and verifier split (length, offset) identically: %s at %s" % (L1, O1),
                "the aggregation tree is built with split lengths %s offsets %s/%s but verified with lengths %s offsets %s: results would be attributed to the wrong indices" % (L1, O1, O1b, L2, O2))
        c.check(L1[0] in acc_left and L1[1] in acc_right and O1[0] == "0" and O1[1] == L1[0], "C03.R5", "tree/split-shape", "bls_core.c", "left = len - len/2 at 0, right = len/2 at left_len",
                "tree split is not (len - len/2 at offset 0, len/2 at offset left_len): %s at %s" % (L1, O1))
    g3 = c.cfg("C03.R5", "bls_batch_verify_tree")
    if g3:
        P3 = [p["name"] for p in c.p.params("bls_batch_verify_tree")]
        res = P3[2]
        for n in g3.nodes:
            if n.kind != "stmt":
                continue
            for e in path_events(g3, [n]):
                m = re.match(r"(\(?\*?%s\)?(\[\w+\])?) = (\w+)" % res, e)
                if not m:
                    continue
                facts = g3.resolved_facts(n)
                if m.group(3) == "VALID":
                    okk = ("%s == UNDEFINED" % m.group(1)) in facts and any(f.endswith("== VALID") and "bls_verify_E1(" in f for f in facts)
                    c.check(okk, "C03.R5", "bls_batch_verify_tree/fill-valid", c.pos(g3, n), "VALID fills only entries still UNDEFINED, only after the subtree verified",
                            "a VALID subtree overwrites entries that are not UNDEFINED, or VALID is stored without the subtree verifying", facts)
                elif m.group(3) == "INVALID":
                    okk = any(f.endswith("!= VALID") and "bls_verify_E1(" in f for f in facts) and ("root->left == 0" in facts)
                    c.check(okk, "C03.R5", "bls_batch_verify_tree/leaf-invalid", c.pos(g3, n), "a failing leaf is marked INVALID", "INVALID is stored outside the failing-leaf case", facts)
        # recursion happens only when the node failed
        for n, call in g3.calls("bls_batch_verify_tree"):
            facts = g3.resolved_facts(n)
            c.check(any(f.endswith("!= VALID") and "bls_verify_E1(" in f for f in facts), "C03.R5", "bls_batch_verify_tree/descend", c.pos(g3, n), "descends only below a failing node", "recursion without the node having failed", facts)
        leafmarks = [1 for n in g3.nodes if n.kind == "stmt" and any(re.match(r"\(?\*?%s\)?(\[\w+\])? = INVALID" % res, e) for e in path_events(g3, [n]))]
        c.check(bool(leafmarks), "C03.R5", "bls_batch_verify_tree/leaf-invalid-exists", c.p.pos(g3.f), "failing leaf stores INVALID", "no store of INVALID for a failing leaf (lost INVALID mark)")


# ------------------------------------------------------------------ C04.R3 reader result discipline (also used by C05/C06/C07)

def rule_reader_discipline(c, rule, skip=("bls_batch_verify",)):
    n_sites = 0
    for fn in sorted(c.p.funcs):
        if fn in skip:
            continue
        try:
            g = c.p.cfg(fn)
        except cast.Unsupported as e:
            continue
        rc = reader_calls(c, g)
        if not rc:
            continue
        sites, retvars = accept_sites(c, g)
        for n, call in rc:
            n_sites += 1
            cn = callee_name(call)
            key = "%s/%s(%s)" % (fn, cn, g.r(call["inner"][1]))
            txt = g.r(call)
            # `return reader(...)` : result is the function's own result
            if n.kind == "ret" and strip(n.expr) is strip(call):
                c.ok(rule, key, c.pos(g, n), "reader result is returned as the function's result")
                continue
            # find the branch deciding on this call's result (directly or through the single-definition local)
            var = None
            if n.kind == "decl" and n.expr is not None and strip(n.expr) is strip(call):
                var = n.tag
            elif n.kind == "stmt":
                e = strip(n.expr)
                if e.get("kind") == "BinaryOperator" and e["opcode"] == "=" and strip(e["inner"][1]) is strip(call):
                    var = g.r(e["inner"][0])
            brs = []
            for b in g.nodes:
                if b.kind != "branch":
                    continue
                s = g.r(b.expr)
                if (var is None and b is n) or (var is not None and re.search(r"\b%s\b" % re.escape(var), s) and g.def_of(var, b) is n):
                    if "VALID" in s:
                        brs.append(b)
            if not brs and var is not None:
                # `ret = reader(...); return ret;` : the result is handed to the caller unchanged
                succ = [x for x in n.succ if x is not None]
                if succ and all(x.kind == "ret" and x.expr is not None and g.r(x.expr) == var for x in succ):
                    c.ok(rule, key, c.pos(g, n), "reader result is returned as the function's result")
                    continue
            if not brs:
                c.viol(rule, key, c.pos(g, n), "result of %s is not compared with VALID and branched on (parse errors would be ignored)" % cn)
                continue
            good = True
            why = ""
            for b in brs:
                s = g.norm(b.expr, True)
                fail_pol = True if "!= VALID" in s else False if "== VALID" in s else None
                if fail_pol is None:
                    good, why = False, "comparison shape not recognised: " + s
                    continue
                fs = b.succ[0 if fail_pol else 1]
                if fs is None:
                    continue
                reach = g.reach_from(fs, avoid=b)
                # on the failing edge no accept site may be reached, except returning the failing code itself
                for an, what in sites:
                    if an.id in reach and not (var is not None and what.startswith(var + " = ") and an is n):
                        # accept sites that merely return the variable holding the failure are fine
                        if an.kind == "ret" and strip(an.expr).get("kind") == "DeclRefExpr" and g.r(an.expr) == var:
                            continue
                        good, why = False, "after a failed %s the function can still reach `%s` (line %s)" % (cn, what, an.line)
            c.check(good, rule, key, c.pos(g, n), "result checked; failure cannot reach an accepting result", why or "unchecked")
    return n_sites


def _constructed_point_ctx(c, fn, pidx, depth):
    """fn is a glue helper the rules do not know, and every call of it passes, as parameter pidx, the point that a
    point reader (E1_read_bytes / E2_read_bytes) is constructing (its own first parameter), possibly through further
    such helpers"""
    try:
        from cvocab import CVOCAB
    except Exception:
        CVOCAB = set()
    if fn in CVOCAB or depth > 3:
        return False
    sites = 0
    for caller, fd in c.p.funcs.items():
        cparams = [p_["name"] for p_ in c.p.params(caller)]
        for e in walk(fd):
            if e.get("kind") != "CallExpr" or callee_name(e) != fn:
                continue
            args = e["inner"][1:]
            if pidx >= len(args):
                return False
            sites += 1
            a = strip(args[pidx])
            rd = a.get("referencedDecl", {}) if a.get("kind") == "DeclRefExpr" else {}
            if rd.get("kind") != "ParmVarDecl" or rd.get("name") not in cparams:
                return False
            ci = cparams.index(rd["name"])
            if caller in ("E1_read_bytes", "E2_read_bytes") and ci == 0:
                continue
            if not _constructed_point_ctx(c, caller, ci, depth + 1):
                return False
    return sites > 0


def _unknown_void_helper(c, fn):
    """a glue function the rules do not know, returning void, that is only ever called as a statement: the CFG engine
    analyses its body in place at every call site, so it is not judged on its own"""
    try:
        from cvocab import CVOCAB
    except Exception:
        CVOCAB = set()
    if fn in CVOCAB or fn not in c.p.funcs:
        return False
    rtype = (c.p.funcs[fn].get("type", {}).get("qualType", "") or "").split("(")[0].strip()
    if rtype != "void":
        return False
    body = [x for x in c.p.funcs[fn]["inner"] if x.get("kind") == "CompoundStmt"]
    if not body or any(x.get("kind") in ("ReturnStmt", "GotoStmt", "LabelStmt") for x in walk(body[0])):
        return False   # not analysed in place (cast.CFG.inline_plan): judged on its own
    sites = 0
    for caller, fd in c.p.funcs.items():
        for e in walk(fd):
            if e.get("kind") == "CallExpr" and callee_name(e) == fn:
                sites += 1
    return sites > 0


def rule_writer_infinity(c, rule):
    """A point's coordinates are serialised only on paths where the point was tested not to be infinity: the point at
    infinity has no affine coordinates (its encoding is the dedicated header byte followed by zeros), so a writer that
    converts and exports without the test emits a non-infinity encoding for the identity."""
    n = 0
    for fn in sorted(c.p.funcs):
        if _unknown_void_helper(c, fn):
            continue
        try:
            g = c.p.cfg(fn)
        except cast.Unsupported:
            continue
        for node, call in g.calls():
            cn = callee_name(call)
            if cn not in ("Fp_write_bytes", "Fp2_write_bytes"):
                continue
            src = strip(call["inner"][2]) if len(call["inner"]) > 2 else None
            if src is None:
                continue
            def has_coord(e_):
                for x in walk(e_):
                    if x.get("kind") == "MemberExpr" and x.get("name") in ("x", "y"):
                        bt = x["inner"][0].get("type", {}).get("qualType", "")
                        if any(t_ in bt.replace("const ", "").replace(" *", "").split() for t_ in ("E1", "E2")):
                            return True
                return False
            isCoord = has_coord(src)
            if not isCoord:
                # a field element local that a dominating conversion filled from a coordinate
                b_ = base_name(g.r(src))
                for m2, call2 in g.calls():
                    if callee_name(call2) in ("Fp_from_montg", "Fp2_from_montg", "Fp_copy", "Fp2_copy") and len(call2["inner"]) > 2 \
                            and base_name(g.r(call2["inner"][1])) == b_ and has_coord(call2["inner"][2]) and g.dominates(m2, node):
                        isCoord = True
            if not isCoord:
                continue
            n += 1
            facts = g.resolved_facts(node)
            okk = any(re.fullmatch(r"E[12]_is_infty\(.*\) == 0", f) for f in facts)
            c.check(okk, rule, "%s/coordinates-written-for-finite-point:%s" % (fn, g.r(call["inner"][2])), c.pos(g, node),
                    "coordinates are exported only after the point was tested not to be infinity",
                    "%s exports a coordinate (`%s`) on a path without an infinity test: for the identity the affine conversion yields (0,0) and an ordinary-point encoding is written instead of the infinity encoding" % (fn, g.r(call)), facts)
    return n


def rule_affine_casts(c, rule):
    """A glue point (E1/E2, Jacobian in general) may be reinterpreted as a BLST affine point only where the
    object is affine by construction: inside the on-curve checkers (documented affine parameter) or on a local
    just written by E?_to_affine.  Anything else silently drops the Z coordinate."""
    n = 0
    for fn in sorted(c.p.funcs):
        if _unknown_void_helper(c, fn):
            continue   # analysed in place at its call sites
        try:
            g = c.p.cfg(fn)
        except cast.Unsupported:
            continue
        for node in g.nodes:
            if node.expr is None:
                continue
            for x in walk(node.expr):
                if x.get("kind") != "CStyleCastExpr":
                    continue
                t = x.get("type", {}).get("qualType", "")
                if "POINTonE1_affine" not in t and "POINTonE2_affine" not in t:
                    continue
                inner = strip(x["inner"][-1])
                it = inner.get("type", {}).get("qualType", "")
                if not ("E1" in it or "E2" in it) or "affine" in it:
                    continue  # array-of-pointer conversions of already affine data
                n += 1
                base = base_name(g.r(inner))
                ok = fn in ("E1_affine_on_curve", "E2_affine_on_curve")
                if not ok:
                    for m, call in g.calls():
                        if callee_name(call) in ("E1_to_affine", "E2_to_affine") and base_name(g.r(call["inner"][1])) == base and g.dominates(m, node):
                            ok = True
                c.check(ok, rule, "%s/affine-cast:%s" % (fn, base), c.pos(g, node), "affine reinterpretation of an object that is affine by construction",
                        "`%s` (a general, possibly Jacobian point) is reinterpreted as an affine point in %s without a preceding conversion: results are wrong whenever Z ≠ 1 (e.g. for the output of a previous addition)" % (g.r(inner), fn))
    # copies of a general point into an affine slot (`vec_copy(q_aff + k, src, sizeof(POINTonE2_affine))`): the same
    # reinterpretation without a cast — the source must be a local a dominating E?_to_affine wrote
    for fn in sorted(c.p.funcs):
        if _unknown_void_helper(c, fn):
            continue
        try:
            g = c.p.cfg(fn)
        except cast.Unsupported:
            continue
        for node, call in g.calls("vec_copy"):
            if len(call["inner"]) < 4:
                continue
            dt = _type_of(strip(call["inner"][1])) or ""
            src = strip(call["inner"][2])
            st_ = _type_of(src) or ""
            if "_affine" not in dt or "_affine" in st_:
                continue
            if not any(t_ in st_.replace("const ", "").replace("*", " ").split() for t_ in ("E1", "E2", "POINTonE1", "POINTonE2")):
                continue
            n += 1
            base = base_name(g.r(src))
            ok = fn in ("E1_affine_on_curve", "E2_affine_on_curve")
            for m, call2 in g.calls():
                if callee_name(call2) in ("E1_to_affine", "E2_to_affine") and base_name(g.r(call2["inner"][1])) == base and g.dominates(m, node):
                    ok = True
            c.check(ok, rule, "%s/affine-copy:%s" % (fn, base), c.pos(g, node), "an affine slot is filled from an object written by a dominating E?_to_affine",
                    "`%s` (a general, possibly Jacobian point) is copied into an affine slot in %s without a preceding conversion: only X and Y are taken, Z is dropped, so the pairing / sum is computed for another point whenever Z ≠ 1 (keys returned by subtractions, DKG shares)" % (g.r(src), fn))
    # coordinate reads: x / y of a point object leave the point abstraction (serialisation, sign bit, printing)
    # only for an object that a dominating E?_to_affine wrote; the readers, which *construct* the point
    # from its affine coordinates (and set Z=1 afterwards), are the only other place coordinates are touched
    m_ = 0
    for fn in sorted(c.p.funcs):
        if _unknown_void_helper(c, fn):
            continue   # analysed in place at its call sites
        try:
            g = c.p.cfg(fn)
        except cast.Unsupported:
            continue
        params = [p_["name"] for p_ in c.p.params(fn)]
        for node in g.nodes:
            if node.expr is None:
                continue
            for x in walk(node.expr):
                if x.get("kind") != "MemberExpr" or x.get("name") not in ("x", "y"):
                    continue
                bt = x["inner"][0].get("type", {}).get("qualType", "")
                if not any(t_ in bt.replace("const ", "").replace(" *", "").split() for t_ in ("E1", "E2")):
                    continue
                base = base_name(g.r(x["inner"][0]))
                m_ += 1
                if params and base == params[0] and fn in ("E1_read_bytes", "E2_read_bytes"):
                    continue  # constructor of the point from its affine coordinates
                if base in params and _constructed_point_ctx(c, fn, params.index(base), 0):
                    continue  # a piece of such a constructor moved into a helper (only ever called on the object being built)
                ok = False
                for m, call in g.calls():
                    if callee_name(call) in ("E1_to_affine", "E2_to_affine") and base_name(g.r(call["inner"][1])) == base and g.dominates(m, node):
                        ok = True
                c.check(ok, rule, "%s/coordinate-read:%s.%s" % (fn, base, x.get("name")), c.pos(g, node), "coordinate of an object written by a dominating E?_to_affine",
                        "coordinate `%s` of the general (Jacobian) point `%s` is used in %s without a preceding conversion to affine: the value is x·Z² / y·Z³ rather than the coordinate whenever Z ≠ 1" % (x.get("name"), base, fn))
    c.stats["affine_casts"] = n
    c.stats["coordinate_reads"] = m_
    return n


def rule_C04(c):
    # R10: the signature reader behind the aggregation accepts only whole, canonical strings: limb-granular helpers get whole limbs
    c.floor("C04.R10", 20)
    rule_limb_granular(c, "C04.R10")
    # R6: encodings of sums: the writers export coordinates only for points tested not to be infinity
    c.floor("C04.R6", 2)
    rule_writer_infinity(c, "C04.R6")
    # R8: a malformed / off-group signature in the list is reported with the INVALID code (documented error), never with another code
    c.floor("C04.R8", 1)
    rule_verdict_codes(c, "C04.R8", only=("E1_sum_vector_byte",))
    c.floor("C04.R3", 14)
    c.floor("C04.R5", 2)
    rule_affine_casts(c, "C04.R5")
    n = rule_reader_discipline(c, "C04.R3")
    c.stats["reader_call_sites"] = n
    # E1_sum_vector_byte: sum over exactly the parsed points, written only on success
    g = c.cfg("C04.R3", "E1_sum_vector_byte")
    if g:
        out, inb, inl = [p["name"] for p in c.p.params("E1_sum_vector_byte")]
        w = g.calls("E1_write_bytes")
        if w:
            facts = g.resolved_facts(w[0][0])
            c.check(any(re.match(r"^i(__\w+)? >= ", f) or re.match(r"^\w+\(.*\) == VALID$", f) for f in facts) and g.r(w[0][1]["inner"][1]) == out, "C04.R3", "E1_sum_vector_byte/write-after-all-read", c.pos(g, w[0][0]), "output written after the read loop finished", "output is written before all inputs were read", facts)
        sv = g.calls("E1_sum_vector")
        # by role: the array the reader fills element-wise in the loop, and that loop's bound
        arr_, bound_ = "vec", "n"
        rd_ = g.calls("E1_read_bytes")
        if rd_:
            mo_ = re.match(r"&(\w+)\[(\w+)\]$", g.r(rd_[0][1]["inner"][1]))
            head_ = loop_of(g, rd_[0][0])
            if mo_ and head_ is not None:
                arr_ = mo_.group(1)
                br_ = [s_ for s_ in head_.succ if s_ is not None and s_.kind == "branch"]
                mc_ = re.match(r"\(%s < (\w+)\)$" % re.escape(mo_.group(2)), g.r(br_[0].expr)) if br_ else None
                if mc_:
                    bound_ = mc_.group(1)
        okk = bool(sv) and g.r(sv[0][1]["inner"][2]) == arr_ and g.r(sv[0][1]["inner"][3]) == bound_
        c.check(okk, "C04.R3", "E1_sum_vector_byte/sum-range", c.p.pos(g.f), "sum runs over all n parsed points", "sum does not cover the n parsed points")
        rd = [(n_, call) for n_, call in g.calls("E1_read_bytes")]
        # the loop counter: whatever indexes the destination element of the read (`&vec[k]`), also when the loop was moved
        # into a helper analysed in place (its locals carry a suffix)
        cnt_ = "i"
        if rd:
            mcnt = re.search(r"\[(\w+)\]\)?$", g.r(rd[0][1]["inner"][1]))
            if mcnt:
                cnt_ = mcnt.group(1)
        okk = bool(rd) and reads_at_stride(c, g, g.r(rd[0][1]["inner"][2]), inb, cnt_, 48)
        if not rd:
            # the read loop sits in a helper that could not be analysed in place: judged there, with the helper's parameter
            # that receives the input buffer
            for n_, call in g.calls():
                hn = callee_name(call)
                if hn not in c.p.funcs or hn in ("E1_sum_vector", "E1_write_bytes"):
                    continue
                hps = [p_["name"] for p_ in c.p.params(hn)]
                hargs = [g.r(a_) for a_ in call["inner"][1:]]
                if inb not in hargs or len(hps) != len(hargs):
                    continue
                try:
                    gh = c.p.cfg(hn)
                except cast.Unsupported:
                    continue
                rdh = gh.calls("E1_read_bytes")
                if not rdh:
                    continue
                hsrc = hps[hargs.index(inb)]
                mcnt = re.search(r"\[(\w+)\]\)?$", gh.r(rdh[0][1]["inner"][1]))
                okk = reads_at_stride(c, gh, gh.r(rdh[0][1]["inner"][2]), hsrc, mcnt.group(1) if mcnt else "i", 48)
        c.check(okk, "C04.R3", "E1_sum_vector_byte/stride", c.p.pos(g.f), "i-th point read at offset 48·i", "i-th point is not read at offset 48·i")


# ------------------------------------------------------------------ C05

def index_reads(g, buf, within=None):
    """(node, index-expression) for every buf[expr] read"""
    out = []
    for n in g.nodes:
        if n.expr is None:
            continue
        for x in walk(n.expr):
            if x.get("kind") == "ArraySubscriptExpr" and g.r(x["inner"][0]) == buf:
                out.append((n, x["inner"][1]))
    return out


def coverage_at(c, g, n, inb, env, depth=0):
    """input indices of buffer `inb` inspected on every path to node n (constant-index reads, counted loops,
    memcpy / field readers with constant lengths); env = constants (enum values, bound parameters)"""
    covered, how = set(), []
    # joins before n: only the predecessors compatible with the facts at n count (an error path that merged with
    # the accepting one before a status test does not lose what the accepting path inspected)
    if depth < 2:
        have = set(g.resolved_facts(n))
        for j in g.joins_before(n):
            feas = g.feasible_preds(j, n, have)
            if not feas or len(feas) == len([p_ for p_ in j.pred if p_ is not None]):
                continue
            sets = []
            for p_ in feas:
                cv, _ = coverage_at(c, g, p_, inb, env, depth + 1)
                # the predecessor's own reads
                if p_.expr is not None:
                    for x in walk(p_.expr):
                        if x.get("kind") == "ArraySubscriptExpr" and g.r(x["inner"][0]) == inb:
                            v = const_eval(x["inner"][1], env)
                            if v is not None:
                                cv = cv | {v}
                sets.append(cv)
            if sets:
                covered |= set.intersection(*sets)
                how.append("paths through %s" % ",".join(str(p_.line) for p_ in feas))
    # direct constant-index reads that dominate the accept site
    for m, ie in index_reads(g, inb):
        v = const_eval(ie, env)
        if v is not None and g.dominates(m, n):
            covered.add(v)
    # counted loops `for (i = A; i < B; i++) if (in[i]) reject` that dominate the accept site
    for h in g.nodes:
        if h.kind != "loophead" or not g.dominates(h, n):
            continue
        brs = [s for s in h.succ if s is not None and s.kind == "branch"]
        if not brs:
            continue
        m = re.match(r"\((\w+) < (.+)\)$", g.r(brs[0].expr))
        if not m:
            continue
        iv = m.group(1)
        hi = const_eval(brs[0].expr["inner"][1] if strip(brs[0].expr).get("kind") == "BinaryOperator" else None, env) if strip(brs[0].expr).get("kind") == "BinaryOperator" else None
        if hi is None:
            hi = const_eval(strip(brs[0].expr)["inner"][1], env)
        init = g.loop_init(h, iv)
        lo = const_eval(init, env) if init is not None else None
        body_reads = [mm for mm, ie in index_reads(g, inb) if g.r(ie) == iv and g.dominates(brs[0], mm)]
        if lo is not None and hi is not None and body_reads:
            covered |= set(range(lo, hi))
            how.append("loop %s in [%d,%d)" % (iv, lo, hi))
    # memcpy(temp, in, K) / reads through callee readers that dominate the accept site
    for m, call in g.calls():
        cn = callee_name(call)
        args = call["inner"][1:]
        if not g.dominates(m, n):
            continue
        if cn == "memcpy" and g.r(args[1]) == inb:
            k = const_eval(args[2], env)
            if k:
                covered |= set(range(0, k))
                how.append("memcpy %d" % k)
        # a byte-wise helper of the glue `H(p, n)` that reads p[0..n-1] in one counted loop, applied to in+off
        if cn in c.p.funcs and len(args) == 2 and depth < 2:
            a0 = g.r(args[0])
            off = 0 if a0 == inb else None
            mo = re.match(r"\(%s \+ (\d+)\)$" % re.escape(inb), a0) or re.match(r"&%s\[(\d+)\]$" % re.escape(inb), a0)
            if mo:
                off = int(mo.group(1))
            k = const_eval(args[1], env)
            if off is not None and k:
                try:
                    hg = c.p.cfg(cn)
                    hps = [p_["name"] for p_ in c.p.params(cn)]
                    whole = False
                    for hh in hg.nodes:
                        if hh.kind != "loophead":
                            continue
                        hbrs = [s_ for s_ in hh.succ if s_ is not None and s_.kind == "branch"]
                        if not hbrs:
                            continue
                        hm = re.match(r"\((\w+) < (\w+)\)$", hg.r(hbrs[0].expr))
                        if not hm or hm.group(2) != hps[1]:
                            continue
                        hinit = hg.loop_init(hh, hm.group(1))
                        if hinit is None or const_eval(hinit, env) != 0:
                            continue
                        if any(hg.r(ie_) == hm.group(1) and hg.dominates(hbrs[0], mm_) for mm_, ie_ in index_reads(hg, hps[0])):
                            whole = True
                    if whole:
                        covered |= set(range(off, off + k))
                        how.append("helper %s over [%d,%d)" % (cn, off, off + k))
                except Exception:
                    pass
        if cn in ("Fp_read_bytes", "Fp2_read_bytes") and base_name(g.r(args[1])) == inb:
            k = const_eval(args[2], env)
            off = 0
            mo = re.match(r"&%s\[(\d+)\]" % inb, g.r(args[1]))
            if mo:
                off = int(mo.group(1))
            if k:
                covered |= set(range(off, off + k))
    return covered, how


def reads_at_stride(c, g, ptr, src, idx, stride):
    """is `ptr` (rendered pointer argument of a per-element reader inside a loop over idx) the address
    src + stride·idx?  Accepts the computed offset (&src[stride*idx] / &src[idx*stride]) and a cursor that
    is initialised to src before the loop and advanced by `stride` exactly once per iteration, on every way to
    the index increment."""
    if ptr in ("&%s[(%s * %d)]" % (src, idx, stride), "&%s[(%d * %s)]" % (src, stride, idx)):
        return True
    if stride == 1 and ptr == "&%s[%s]" % (src, idx):
        return True
    if not re.fullmatch(r"\w+", ptr):
        return False
    ev = " ".join(compound_events(g))
    heads = [h for h in g.nodes if h.kind == "loophead"]
    for h in heads:
        init = g.loop_init(h, ptr)
        if init is None or base_name(g.r(init)) != src or g.r(init) not in (src, "(%s)" % src):
            continue
        if ("%s += %d" % (ptr, stride)) not in ev:
            continue
        advs = [x for x in g.nodes if x.kind == "stmt" and x.expr is not None and ("(%s += %d)" % (ptr, stride)) in g.r(x.expr)]
        incs = [x for x in g.nodes if x.kind == "stmt" and x.expr is not None and any(y.get("kind") == "UnaryOperator" and y.get("opcode") == "++" and g.r(y["inner"][0]) == idx for y in walk(x.expr))]
        if len(advs) == 1 and incs and all(g.dominates(advs[0], i_) for i_ in incs):
            return True
    return False


def head_of(g, n):
    """innermost loop head dominating n (entry node if none)"""
    best = g.entry
    for h in g.nodes:
        if h.kind == "loophead" and g.dominates(h, n) and h.id in g.reach_from(n):
            if g.dominates(best, h):
                best = h
    return best


def rule_vector_loop(c, rule, key_elem, key_stride=None):
    """G2_vector_read_bytes: wherever the loop moves on to the next element (the statement that increments
    the index), element i was read from byte offset 96·i of the source with a VALID result and tested for
    G2 membership.  Recognised addressing: a cursor that starts at the source and advances by 96 per
    iteration, or the offset `src + i*96` computed from the index."""
    g = c.cfg(rule, "G2_vector_read_bytes")
    if not g:
        return
    A, src, ln = [p["name"] for p in c.p.params("G2_vector_read_bytes")]
    # index variable: the one compared with the length in the loop condition
    idx = None
    for n in g.nodes:
        if n.kind == "branch":
            m = re.fullmatch(r"\((\w+) < %s\)" % re.escape(ln), g.r(n.expr))
            if m:
                idx = m.group(1)
    if idx is None:
        c.und(rule, key_elem, c.p.pos(g.f), "loop over the vector elements not recognised")
        return
    steps = []
    for n in g.nodes:
        if n.kind == "stmt" and n.expr is not None:
            for x in walk(n.expr):
                if x.get("kind") == "UnaryOperator" and x.get("opcode") == "++" and g.r(x["inner"][0]) == idx:
                    steps.append(n)
                if x.get("kind") == "CompoundAssignOperator" and x.get("opcode") == "+=" and g.r(x["inner"][0]) == idx:
                    steps.append(n)
    if not steps:
        c.und(rule, key_elem, c.p.pos(g.f), "index increment not recognised")
        return
    # a byte cursor advanced in the body moves on before the index does: judge at the earliest moving statement
    movers = list(steps)
    for n in g.nodes:
        if n.kind == "stmt" and n.expr is not None and n not in movers:
            if any(x.get("kind") == "CompoundAssignOperator" and x.get("opcode") == "+=" and const_eval(x["inner"][1], c.p.enums) == 96 for x in walk(n.expr)):
                movers.append(n)
    steps = [n for n in movers if not any(m is not n and g.dominates(m, n) and not g.dominates(n, m) and g.dominates(head_of(g, n), m) for m in movers)]
    obj = "&%s[%s]" % (A, idx)
    stride_ok = True
    why = ""
    for n in steps:
        facts = g.resolved_facts(n)
        reads = [f for f in facts if f.startswith("E2_read_bytes(%s, " % obj) and f.endswith(", 96) == VALID")]
        okk = bool(reads) and ("E2_in_G2(%s) != 0" % obj) in facts
        c.check(okk, rule, key_elem, c.pos(g, n), "each element: read checked and G2 membership tested before moving on", "an element can be skipped past without read==VALID and the G2 membership test", facts)
        # where the bytes come from
        good = False
        for f in reads:
            ptr = f[len("E2_read_bytes(%s, " % obj):-len(", 96) == VALID")]
            if re.fullmatch(r"\(%s \+ \((%s \* 96|96 \* %s)\)\)" % (re.escape(src), idx, idx), ptr) or ptr == "&%s[(%s * 96)]" % (src, idx) or ptr == "&%s[(96 * %s)]" % (src, idx):
                good = True
            elif re.fullmatch(r"\w+", ptr):
                # cursor: initialised to the source before the loop, advanced by 96 exactly once on the way to the increment
                ev = " ".join(compound_events(g))
                heads = [h for h in g.nodes if h.kind == "loophead"]
                init = g.loop_init(heads[0], ptr) if heads else None
                if init is not None and base_name(g.r(init)) == src and ("%s += 96" % ptr) in ev:
                    advs = [x for x in g.nodes if x.kind == "stmt" and x.expr is not None and ("(%s += 96)" % ptr) in g.r(x.expr)]
                    incs = [x for x in g.nodes if x.kind == "stmt" and x.expr is not None and any(y.get("kind") == "UnaryOperator" and y.get("opcode") == "++" and g.r(y["inner"][0]) == idx for y in walk(x.expr))]
                    # exactly one advance, on every way to the index increment
                    if len(advs) == 1 and incs and all(g.dominates(advs[0], i_) for i_ in incs):
                        good = True
        if not good:
            stride_ok, why = False, "element %s is not read from byte offset 96·%s of the source" % (idx, idx)
    if key_stride:
        c.check(stride_ok, rule, key_stride, c.p.pos(g.f), "elements are 96 bytes apart", "element stride is not G2_SER_BYTES: " + why)


def rule_reader_coverage(c, rule, readers):
    """every accepting path of a point reader inspects every input byte (shape rule, see DESIGN C05.R1)"""
    # ---- R1 byte coverage of the infinity branch in the point readers
    for fn, N in readers:
        g = c.cfg(rule, fn)
        if not g:
            continue
        a, inb, inl = [p["name"] for p in c.p.params(fn)]
        # accept sites: return VALID
        for n in g.nodes:
            if g.valid_accept_facts(n) is None:
                continue
            facts = g.valid_accept_facts(n)
            # the infinity branch is the one that set the output to infinity (whatever the flag test looks like)
            inf_branch = any(callee_name(cl) in ("E1_set_infty", "E2_set_infty") and g.dominates(m_, n) for m_, cl in g.calls())
            covered = set()
            how = []
            if "%s == %d" % (inl, N) not in facts:
                c.viol(rule, "%s/accept:%s/length" % (fn, "infinity" if inf_branch else "point"), c.pos(g, n), "acceptance without the length being fixed to %d" % N, facts)
                continue
            cov, hw = coverage_at(c, g, n, inb, c.p.enums)
            covered |= cov
            how += hw
            # a predicate helper the rules do not know (`if (!encoding_is_clear(in, 48)) reject`): what it inspected when it said yes
            for f in facts:
                mo = re.match(r"^([A-Za-z_]\w*)\((.*)\) != 0$", f)
                if not mo or mo.group(1) not in c.p.funcs:
                    continue
                try:
                    from cvocab import CVOCAB
                except Exception:
                    CVOCAB = set()
                hn = mo.group(1)
                if hn in CVOCAB:
                    continue
                hargs = cast.split_args(mo.group(2))
                hparams = [p_["name"] for p_ in c.p.params(hn)]
                if len(hargs) != len(hparams) or inb not in hargs:
                    continue
                env = dict(c.p.enums)
                for pn, av in zip(hparams, hargs):
                    if re.fullmatch(r"-?\d+", av):
                        env["$param:" + pn] = int(av)
                hg = c.p.cfg(hn)
                hb = hparams[hargs.index(inb)]
                sets = []
                for hn_ in hg.nodes:
                    if hn_.kind == "ret" and hn_.expr is not None and const_eval(hn_.expr, c.p.enums) not in (None, 0):
                        cv, _ = coverage_at(c, hg, hn_, hb, env)
                        sets.append(cv)
                if sets:
                    covered |= set.intersection(*sets)
                    how.append("helper %s" % hn)
            missing = sorted(set(range(N)) - covered)
            key = "%s/accept:%s/byte-coverage" % (fn, "infinity" if inf_branch else "point")
            c.check(not missing, rule, key, c.pos(g, n), "every input byte is inspected before acceptance (%s)" % ", ".join(how),
                    "accepted without reading input byte(s) %s: two byte strings differing there decode to the same object and cannot both re-encode to themselves" % (missing if len(missing) < 6 else "%s..%s" % (missing[0], missing[-1])), facts)


def rule_reader_header(c, rule, readers):
    """header checks, x read checked, on-curve via sqrt, sign selection dominate acceptance in the point readers"""
    # point readers: header checks, x read checked, on-curve via sqrt, sign selection
    for fn, N, fpread, sqrt, xlen in readers:
        g = c.cfg(rule, fn)
        if not g:
            continue
        a, inb, inl = [p["name"] for p in c.p.params(fn)]
        for n in g.nodes:
            if g.valid_accept_facts(n) is None:
                continue
            facts = g.valid_accept_facts(n)
            # the infinity branch is the one that set the output to infinity (whatever the flag test looks like)
            inf_branch = any(callee_name(cl) in ("E1_set_infty", "E2_set_infty") and g.dominates(m_, n) for m_, cl in g.calls())
            br = "infinity" if inf_branch else "point"
            need = ["%s == %d" % (inl, N), "((%s[0] >> 7) == 1) == 1" % inb]
            if inf_branch:
                need.append("(%s[0] & 63) == 0" % inb)
            else:
                need.append("(%s[0] & 64) == 0" % inb)
                need.append("%s(" % fpread)
                need.append("%s(" % sqrt)
            for nd in need:
                if nd.endswith("("):
                    if nd.startswith(fpread):
                        okk = any(f.startswith(nd) and f.endswith("== VALID") for f in facts)
                    else:
                        okk = any(f.startswith(nd) and f.endswith("!= 0") for f in facts)
                elif nd == "(%s[0] & 64) == 0" % inb:
                    # bit 6 clear, however the bit test is written
                    okk = any(f in (nd, "((%s[0] >> 6) & 1) == 0" % inb, "(%s[0] & 64) != 64" % inb) for f in facts)
                else:
                    okk = nd in facts or any(norm_eq(f, nd) for f in facts)
                c.check(okk, rule, "%s/accept:%s/%s" % (fn, br, nd), c.pos(g, n), "validation step dominates acceptance", "%s accepts (%s branch) without `%s…` being established" % (fn, br, nd), facts)
        ev = path_events(g, g.nodes)
        # header bits are cleared on the copy that is range-checked; sign bit taken from bit 5 and applied
        # by role: the buffer handed to the field reader; its byte 0 is `&= 31`-ed after the copy, or assigned
        # `in[0] & 31` (the constant possibly held in a const local)
        masked = "temp[0] &= 31" in " ".join(compound_events(g))
        bufs = set()
        for n_, call_ in g.calls(fpread):
            args_ = call_.get("inner", [])[1:]
            if len(args_) >= 2:
                bufs.add(g.r(args_[1]))
        for n_ in g.nodes:
            if n_.expr is None:
                continue
            for x_ in walk(n_.expr):
                if x_.get("kind") == "CompoundAssignOperator" and x_.get("opcode") == "&=" and g.r(x_["inner"][0]) in ["%s[0]" % b_ for b_ in bufs] and _const_at(c, g, x_["inner"][1], n_) == 31:
                    masked = True
                if x_.get("kind") == "BinaryOperator" and x_.get("opcode") == "=" and g.r(x_["inner"][0]) in ["%s[0]" % b_ for b_ in bufs]:
                    rhs_ = strip(x_["inner"][1])
                    if rhs_.get("kind") == "BinaryOperator" and rhs_.get("opcode") == "&":
                        l_, r_ = rhs_["inner"]
                        for a_, k_ in ((l_, r_), (r_, l_)):
                            if g.r(a_) == "%s[0]" % inb and _const_at(c, g, k_, n_) == 31:
                                masked = True
        c.check(masked, rule, fn + "/mask-header", c.p.pos(g.f), "header bits masked before the coordinate is range-checked", "header bits are not masked (31) on the coordinate copy")
        c.check(any(e.startswith("y_sign = ((%s[0] >> 5) & 1)" % inb) for e in ev), rule, fn + "/sign-bit", c.p.pos(g.f), "sign bit is bit 5 of the first byte", "sign bit is not read from bit 5 of the header byte")


# ---------------------------------------------------------------------------------------------------
# object extents in the glue: byte counts handed to BLST's vec_* helpers / memcpy / memset

SIZED_CALLS = {  # callee -> (indices of object pointer operands, index of the byte count, kind)
    "vec_is_zero": ((0,), 1, "pred"), "vec_is_equal": ((0, 1), 2, "pred"),
    "vec_copy": ((0, 1), 2, "copy"), "vec_zero": ((0,), 1, "copy"),
    "memcpy": ((0, 1), 2, "copy"), "memset": ((0,), 2, "copy"),
}
SCALAR_POINTEES = {"void", "byte", "unsigned char", "char", "uint8_t", "limb_t", "unsigned long", "unsigned long long", "uint64_t", "int", "bool", "_Bool"}


def _type_of(e):
    t = (e.get("type") or {})
    return t.get("desugaredQualType") or t.get("qualType")


def _sizeof_types(repo, flagset, types):
    """sizeof of each C type string, evaluated by clang on a probe appended to the glue's main unit"""
    import tempfile
    types = sorted(set(types))
    if not types:
        return {}
    with tempfile.TemporaryDirectory(prefix="verif_sz_") as d:
        probe = os.path.join(d, "probe.c")
        with open(probe, "w") as f:
            f.write('#include "%s"\n' % os.path.join(repo, "bls12381_utils.c"))
            for i, t in enumerate(types):
                f.write("typedef __typeof__(%s) vszq_t%d; char (*vszq_%d)[sizeof(vszq_t%d)];\n" % (t, i, i, i) if "[" not in t and "(" not in t else
                        "char (*vszq_%d)[sizeof(%s)];\n" % (i, t))
        cmd = ["clang-14", "-fsyntax-only", "-Xclang", "-ast-dump", "-Xclang", "-ast-dump-filter=vszq_"] + cast.cflags(repo, flagset) + ["-w", probe]
        r = subprocess.run(cmd, stdout=subprocess.PIPE, stderr=subprocess.PIPE, text=True)
        out = {}
        for m in re.finditer(r"VarDecl .* vszq_(\d+) 'char \(\*\)\[(\d+)\]'", r.stdout):
            out[types[int(m.group(1))]] = int(m.group(2))
        return out


def _sizeof_arg_type(node):
    at = (node.get("argType") or {}).get("desugaredQualType") or (node.get("argType") or {}).get("qualType")
    if not at:
        inner = [x for x in node.get("inner", []) if isinstance(x, dict)]
        at = _type_of(strip(inner[0])) if inner else None
    return re.sub(r"^const\s+", "", at) if at else None


def program_sizeof_hook(prog):
    """sizeof evaluation for cast.const_eval: the table is computed once per loaded program (one clang run) over every
    sizeof expression of the repository-owned function bodies"""
    def hook(node):
        if getattr(prog, "_sizeof_table", None) is None:
            need = set()
            for fd in prog.funcs.values():
                for e in walk(fd):
                    if e.get("kind") == "UnaryExprOrTypeTraitExpr" and e.get("name") == "sizeof":
                        t = _sizeof_arg_type(e)
                        if t:
                            need.add(t)
            prog._sizeof_table = _sizeof_types(prog.repo, prog.flagset, need)
        t = _sizeof_arg_type(node)
        return prog._sizeof_table.get(t) if t else None
    return hook


LIMB_GRANULAR = {"vec_is_zero": 1, "vec_is_equal": 2, "vec_copy": 2, "vec_zero": 1, "vec_select": 3, "vec_czero": 1, "vec_cswap": 2}


def rule_limb_granular(c, rule, only=None):
    """BLST's vec_* helpers work on whole machine limbs (`num /= sizeof(limb_t)`): a byte count that is not a multiple
    of the limb size silently leaves the trailing bytes out — not compared, not copied, not cleared. (The byte-wise
    siblings are bytes_are_zero / bytes_zero, and plain loops.) Every call of such a helper in the glue has a byte count
    that is a compile-time multiple of sizeof(limb_t); a count the analysis cannot evaluate is reported as not judged."""
    limb = 8
    n = 0
    seen = {}
    for fname, fd in sorted(c.p.funcs.items()):
        if only is not None and fname not in only:
            continue
        for e in walk(fd):
            if e.get("kind") != "CallExpr":
                continue
            cn = callee_name(e)
            if cn not in LIMB_GRANULAR:
                continue
            args = [a for a in e["inner"][1:]]
            ni = LIMB_GRANULAR[cn]
            if ni >= len(args):
                continue
            n += 1
            v = const_eval(args[ni], c.p.enums)
            txt = R(c.p.enums)(args[ni])
            key = "%s/%s/limb-count:%s" % (fname, cn, txt[:40])
            seen[key] = seen.get(key, 0) + 1
            if seen[key] > 1:
                key += "#%d" % seen[key]
            where = "%s:%s" % (c.p.where.get(fname, "?"), e.get("_line"))
            if v is None:
                c.info(rule, key, where, "byte count `%s` is not a compile-time constant: not judged" % txt)
            else:
                c.check(v % limb == 0, rule, key, where, "%d bytes = %d whole limbs" % (v, v // limb),
                        "%s is applied to %d bytes in %s: it works on whole %d-byte limbs, so the last %d byte(s) are ignored — an input that differs from the expected one only there is treated as equal / zero" % (cn, v, fname, limb, v % limb))
    if n == 0:
        c.und(rule, "anchor:limb-granular-calls", "?", "no call of a limb-granular BLST helper found in the glue")


def rule_object_extents(c, rule, only=None):
    """Every call of a sized primitive on an object of the glue (Fr, Fp, E1, … located by the pointee type of the
    operand, never by name) covers the object: a predicate (is-zero, is-equal) must inspect exactly sizeof(object)
    bytes of each operand — fewer and distinct objects compare equal / non-zero scalars count as zero; a copy or
    fill must not exceed sizeof(object). `only`: restrict to these glue functions (and report their count)."""
    sites = []
    need = set()
    for fname, fd in sorted(c.p.funcs.items()):
        if only is not None and fname not in only:
            continue
        for e in walk(fd):
            if e.get("kind") != "CallExpr":
                continue
            cn = callee_name(e)
            if cn not in SIZED_CALLS:
                continue
            args = [a for a in e["inner"][1:]]
            ops, ni, kind = SIZED_CALLS[cn]
            if ni >= len(args):
                continue
            objs = []
            for oi in ops:
                a = strip(args[oi])
                if a.get("kind") == "BinaryOperator":
                    continue   # base + offset: a sub-range, not a whole object
                if a.get("kind") == "UnaryOperator" and a.get("opcode") == "&":
                    inner = strip(a["inner"][0])
                    t = _type_of(inner)
                    if t and re.sub(r"^const\s+|\s+const$", "", t).strip() not in SCALAR_POINTEES:
                        objs.append((oi, t))   # &limbs[k] and the like address a sub-range of limbs, not an object
                    continue
                t = _type_of(a)
                if not t:
                    continue
                if t.endswith("*"):
                    pt = t[:-1].strip()
                    pt = re.sub(r"^const\s+|\s+const$", "", pt).strip()
                    if pt in SCALAR_POINTEES or pt.endswith("*"):
                        continue
                    objs.append((oi, pt))
                elif "[" in t:
                    objs.append((oi, t))   # an array object (decays at the call)
            for w_ in walk(args[ni]):
                if w_.get("kind") == "UnaryExprOrTypeTraitExpr" and w_.get("name") == "sizeof":
                    at = (w_.get("argType") or {}).get("desugaredQualType") or (w_.get("argType") or {}).get("qualType")
                    if not at:
                        inner = [x for x in w_.get("inner", []) if isinstance(x, dict)]
                        at = _type_of(strip(inner[0])) if inner else None
                    if at:
                        need.add(at)
            for _, t in objs:
                need.add(t)
            sites.append((fname, e, cn, kind, objs, args[ni]))
    table = _sizeof_types(c.p.repo, c.p.flagset, [re.sub(r"^const\s+", "", t) for t in need])

    def hook(node):
        at = (node.get("argType") or {}).get("desugaredQualType") or (node.get("argType") or {}).get("qualType")
        if not at:
            inner = [x for x in node.get("inner", []) if isinstance(x, dict)]
            at = _type_of(strip(inner[0])) if inner else None
        return table.get(re.sub(r"^const\s+", "", at)) if at else None

    seen = {}
    for fname, e, cn, kind, objs, nexpr in sites:
        prev_hook = cast.SIZEOF_HOOK
        cast.SIZEOF_HOOK = hook
        try:
            n = const_eval(nexpr, c.p.enums)
        finally:
            cast.SIZEOF_HOOK = prev_hook
        where = "%s:%s" % (c.p.where.get(fname, "?"), e.get("_line"))
        for oi, t in objs:
            sz = table.get(re.sub(r"^const\s+", "", t))
            key = "%s/%s/arg%d:%s" % (fname, cn, oi, t.replace(" ", ""))
            seen[key] = seen.get(key, 0) + 1
            if seen[key] > 1:
                key += "#%d" % seen[key]
            if n is None or sz is None:
                c.info(rule, key, where, "byte count or object size is not a compile-time constant here (count=%s, sizeof=%s): not judged" % (n, sz))
                continue
            if kind == "pred":
                c.check(n == sz, rule, key, where, "%s inspects all %d bytes of the %s object" % (cn, sz, t),
                        "%s inspects %d of the %d bytes of a `%s` object: objects that differ only in the remaining bytes are not told apart (a scalar with zero low limbs counts as zero, distinct points compare equal)" % (cn, n, sz, t))
            else:
                c.check(n <= sz, rule, key, where, "%s touches %d ≤ %d bytes of the %s object" % (cn, n, sz, t),
                        "%s touches %d bytes of a `%s` object of %d bytes: out-of-bounds access" % (cn, n, t, sz))




def rule_C05(c):
    # R10: limb-granular BLST helpers are given whole limbs (an infinity encoding with stray bits in its last bytes is refused)
    c.floor("C05.R10", 20)
    rule_limb_granular(c, "C05.R10")
    # R7: the serializers read coordinates of affine points only (conversion first): what is written is the encoding of the
    # point, not of its Jacobian representation (= C04.R5)
    c.floor("C05.R7", 2)
    rule_affine_casts(c, "C05.R7")
    rule_writer_infinity(c, "C05.R7")
    c.floor("C05.R6", 20)
    rule_object_extents(c, "C05.R6")
    c.floor("C05.R1", 4)
    c.floor("C05.R2", 20)
    c.floor("C05.R3", 2)
    rule_reader_coverage(c, "C05.R1", (("E1_read_bytes", 48), ("E2_read_bytes", 96)))
    # ---- R2 validation dominates acceptance in the scalar/field readers
    table = {
        "Fr_read_bytes": ["{len} == 32", "re:check_mod_256\\((\\w+), BLS12_381_r\\) != 0"],
        "Fr_star_read_bytes": ["Fr_read_bytes({a}, {in}, {len}) == VALID", "Fr_is_zero({a}) == 0"],
        "Fp_read_bytes": ["{len} == 48", "Fp_check({a}) != 0"],
        "Fp2_read_bytes": ["{len} == 96", "Fp_read_bytes({a}, {in}, 48) == VALID", "Fp_read_bytes(&{a}[1], &{in}[48], 48) == VALID"],
    }
    for fn, needs in table.items():
        g = c.cfg("C05.R2", fn)
        if not g:
            continue
        a, inb, inl = [p["name"] for p in c.p.params(fn)]
        nacc = 0
        for n in g.nodes:
            if g.valid_accept_facts(n) is not None:
                nacc += 1
                facts = g.valid_accept_facts(n)
                for nd in needs:
                    w = nd.format(a=a, len=inl, **{"in": inb})
                    # tolerate the field-access rendering of real()/imag() macros
                    alt = w.replace("(%s, " % a, "((*%s), " % a).replace("&%s[1]" % a, "&(*%s)[1]" % a)
                    okk = w in facts or alt in facts or any(norm_eq(f, w) for f in facts)
                    if nd.startswith("re:"):
                        okk = any(re.fullmatch(nd[3:], f) for f in facts)
                        w = nd[3:]
                    c.check(okk, "C05.R2", "%s/accept/%s" % (fn, nd), c.pos(g, n), "validation step dominates acceptance", "%s accepts on a path where `%s` was not established" % (fn, w), facts)
        if nacc == 0:
            c.viol("C05.R2", fn + "/accept", c.p.pos(g.f), "reader never accepts")
    # scalar reader: the value checked is the value stored (same input, full width)
    g = c.cfg("C05.R2", "Fr_read_bytes")
    if g:
        a, inb, inl = [p["name"] for p in c.p.params("Fr_read_bytes")]
        ev = path_events(g, g.nodes)
        tmps = set()
        for n in g.nodes:
            if g.valid_accept_facts(n) is not None:
                for f in g.valid_accept_facts(n):
                    mo = re.fullmatch(r"check_mod_256\((\w+), BLS12_381_r\) != 0", f)
                    if mo:
                        tmps.add(mo.group(1))
        c.check(any("pow256_from_be_bytes(%s, %s)" % (t, inb) in ev for t in tmps) and "limbs_from_be_bytes(%s, %s, 32)" % (a, inb) in ev, "C05.R2", "Fr_read_bytes/same-bytes", c.p.pos(g.f),
                "range check and import read the same 32 input bytes", "the bytes compared with r are not the 32 bytes imported into the scalar")
    g = c.cfg("C05.R2", "Fp_read_bytes")
    if g:
        a, inb, inl = [p["name"] for p in c.p.params("Fp_read_bytes")]
        ev = path_events(g, g.nodes)
        c.check("limbs_from_be_bytes(%s, %s, 48)" % (a, inb) in ev, "C05.R2", "Fp_read_bytes/full-width", c.p.pos(g.f), "all 48 bytes imported", "field element is not imported from all 48 input bytes")
    rule_reader_header(c, "C05.R2", (("E1_read_bytes", 48, "Fp_read_bytes", "Fp_sqrt_montg", 48), ("E2_read_bytes", 96, "Fp2_read_bytes", "Fp2_sqrt_montg", 96)))
    # G2 vector reader
    g = c.cfg("C05.R2", "G2_vector_read_bytes")
    if g:
        A, src, ln = [p["name"] for p in c.p.params("G2_vector_read_bytes")]
        for n in g.nodes:
            if g.valid_accept_facts(n) is not None:
                facts = g.valid_accept_facts(n)
                c.check("i >= %s" % ln in facts, "C05.R2", "G2_vector_read_bytes/accept/all-elements", c.pos(g, n), "accepts only after the loop over all elements finished", "vector accepted before all %s elements were read" % ln, facts)
        rule_vector_loop(c, "C05.R2", "G2_vector_read_bytes/element", "G2_vector_read_bytes/stride")
    # ---- R3 Fp2 layout: reader = writer, and vs. the cited ZCash order (c1 first)
    lay = {}
    for fn, sub in (("Fp2_read_bytes", "Fp_read_bytes"), ("Fp2_write_bytes", "Fp_write_bytes")):
        g = c.cfg("C05.R3", fn)
        if not g:
            continue
        ps = [p["name"] for p in c.p.params(fn)]
        m = {}
        for n, call in g.calls(sub):
            args = [g.r(x) for x in call["inner"][1:]]
            if fn == "Fp2_read_bytes":
                comp, buf = args[0], args[1]
            else:
                buf, comp = args[0], args[1]
            off = 0
            mo = re.search(r"\+ (\d+)\)", buf) or re.fullmatch(r"&\w+\[(\d+)\]", buf)
            if mo:
                off = int(mo.group(1))
            mi = re.search(r"\[(\d)\]", comp)
            if mi:
                m[off] = int(mi.group(1))
            elif re.fullmatch(r"\(?\*?\w+\)?", comp):
                m[off] = 0   # `&real(a)` = &(*a)[0] renders as the bare object (canonical pointer form)
        lay[fn] = m
    if len(lay) == 2:
        r_, w_ = lay["Fp2_read_bytes"], lay["Fp2_write_bytes"]
        c.check(r_ == w_ and len(r_) == 2, "C05.R3", "Fp2/reader-writer-agree", "bls12381_utils.c", "reader and writer use the same byte-offset → coefficient map %s" % r_,
                "Fp2 reader layout %s differs from writer layout %s: encodings would not round-trip" % (r_, w_))
        zc = {0: 1, 48: 0}
        c.check(w_ == zc, "C05.R3", "Fp2/zcash-order", "bls12381_utils.c", "coefficient c1 is serialized first (ZCash)", "F_p² coefficients are serialized c0‖c1 (offset→coefficient %s); the cited ZCash format is c1‖c0 %s" % (w_, zc))
    # writers: infinity encoding covers all N bytes; header composed with the same constants
    for fn, N in (("E1_write_bytes", 48), ("E2_write_bytes", 96)):
        g = c.cfg("C05.R3", fn)
        if not g:
            continue
        out, a = [p["name"] for p in c.p.params(fn)]
        ev = path_events(g, g.nodes)
        okk = ("memset(%s, 0, %d)" % (out, N) in ev) or ("memset(&%s[1], 0, %d)" % (out, N - 1) in ev)
        c.check(okk, "C05.R3", fn + "/infinity-all-bytes", c.p.pos(g.f), "infinity encoding zeroes every byte after the header", "infinity encoding does not clear all %d bytes" % N)
        # the header byte written on the infinity path evaluates to 0xC0 (locals holding header bits are followed to their
        # reaching definitions)
        hdr_ok = any(e.startswith("%s[0] = 192" % out) or e.startswith("%s[0] = ((1 << 7) | (1 << 6))" % out) for e in ev)
        if not hdr_ok:
            for n_ in g.nodes:
                if n_.kind != "stmt" or n_.expr is None:
                    continue
                x_ = strip(n_.expr)
                if x_.get("kind") == "BinaryOperator" and x_.get("opcode") == "=" and g.r(x_["inner"][0]) == "%s[0]" % out:
                    facts_ = g.resolved_facts(n_)
                    if not any(f_.startswith(("E1_is_infty(", "E2_is_infty(")) and f_.endswith("!= 0") for f_ in facts_):
                        continue
                    if _const_at(c, g, x_["inner"][1], n_) == 0xC0:
                        hdr_ok = True
        c.check(hdr_ok, "C05.R3", fn + "/infinity-header", c.p.pos(g.f), "infinity header is compression|infinity (0xC0)", "infinity header byte is not 0xC0")


def _const_at(c, g, e, n, depth=0):
    """integer value of e at node n, with locals replaced by the constant their reaching definition assigns"""
    v = const_eval(e, c.p.enums)
    if v is not None or depth > 4:
        return v
    e = strip(e)
    k = e.get("kind")
    if k == "DeclRefExpr" and e["referencedDecl"].get("kind") == "VarDecl":
        d = g.def_of(e["referencedDecl"]["name"], n)
        rhs = g.rhs_of(d, e["referencedDecl"]["name"]) if d is not None else None
        return _const_at(c, g, rhs, d, depth + 1) if rhs is not None else None
    if k == "BinaryOperator" and e.get("opcode") in ("|", "&", "+", "-", "<<", ">>", "^", "*"):
        a = _const_at(c, g, e["inner"][0], n, depth + 1)
        b = _const_at(c, g, e["inner"][1], n, depth + 1)
        if a is None or b is None:
            return None
        return {"|": a | b, "&": a & b, "+": a + b, "-": a - b, "<<": a << b, ">>": a >> b, "^": a ^ b, "*": a * b}[e["opcode"]]
    if k in ("ParenExpr", "ImplicitCastExpr", "CStyleCastExpr"):
        inner = [x for x in e.get("inner", []) if isinstance(x, dict)]
        return _const_at(c, g, inner[-1], n, depth + 1) if inner else None
    return None


def compound_events(g):
    out = []
    for n in g.nodes:
        if n.expr is None:
            continue
        for x in walk(n.expr):
            if x.get("kind") == "CompoundAssignOperator":
                out.append("%s %s %s" % (g.r(x["inner"][0]), x["opcode"], g.r(x["inner"][1])))
    return out


def norm_eq(f, w):
    """tolerant equality of fact strings (outer parens / `!= 0` vs `== 1` for boolean comparisons)"""
    def n(s):
        return s.replace(" ", "")
    return n(f) == n(w)


# ------------------------------------------------------------------ C06

NARROW_INT_TYPES = {"byte", "unsigned char", "uint8_t", "char", "signed char", "int8_t", "short", "unsigned short", "uint16_t", "int16_t"}


def _holds_only_codes(c, fd, e):
    """e is a local variable whose every definition in fd is an enumeration constant or the result of a glue function
    that returns only enumeration constants (VALID, INVALID, …)"""
    if e.get("kind") != "DeclRefExpr" or e.get("referencedDecl", {}).get("kind") != "VarDecl":
        return False
    name = e["referencedDecl"].get("name")
    defs = []
    for x in walk(fd):
        if x.get("kind") == "VarDecl" and x.get("name") == name:
            init = [y for y in x.get("inner", []) if isinstance(y, dict) and "kind" in y and not y["kind"].endswith("Attr")]
            if init:
                defs.append(init[-1])
        if x.get("kind") == "BinaryOperator" and x.get("opcode") == "=":
            l = strip(x["inner"][0])
            if l.get("kind") == "DeclRefExpr" and l.get("referencedDecl", {}).get("name") == name:
                defs.append(x["inner"][1])
        if x.get("kind") in ("CompoundAssignOperator",) or (x.get("kind") == "UnaryOperator" and x.get("opcode") in ("++", "--")):
            l = strip(x["inner"][0])
            if l.get("kind") == "DeclRefExpr" and l.get("referencedDecl", {}).get("name") == name:
                return False
    if not defs:
        return False
    for d in defs:
        d = strip(d)
        if d.get("kind") == "DeclRefExpr" and d.get("referencedDecl", {}).get("kind") == "EnumConstantDecl":
            continue
        if d.get("kind") == "CallExpr" and callee_name(d) in c.p.funcs:
            try:
                codes = return_codes(c, callee_name(d))
            except cast.Unsupported:
                return False
            if codes and all(not x.startswith("?") for x, _ in codes):
                continue
        return False
    return True


def rule_no_index_narrowing(c, rule, fns):
    """In the glue functions whose sizes are caller-controlled `int`s (batch length, number of groups), no value derived
    from a loop counter / length is converted to an 8- or 16-bit integer — as an explicit cast or implicitly at a call of
    a helper whose parameter is narrower: entries i and i+256k would silently be treated alike."""
    n = 0
    for fn in fns:
        fd = c.p.funcs.get(fn)
        if fd is None:
            c.und(rule, "anchor:" + fn, "?", "unresolved anchor: C function %s" % fn)
            continue
        seen = {}
        for e in walk(fd):
            if e.get("kind") not in ("ImplicitCastExpr", "CStyleCastExpr") or e.get("castKind") != "IntegralCast":
                continue
            to = (e.get("type") or {}).get("desugaredQualType") or (e.get("type") or {}).get("qualType") or ""
            to = re.sub(r"^const\s+", "", to)
            if to not in NARROW_INT_TYPES:
                continue
            inner = [x for x in e.get("inner", []) if isinstance(x, dict)]
            if not inner or const_eval(inner[-1], c.p.enums) is not None:
                continue
            frm = (strip(inner[-1]).get("type") or {}).get("qualType", "")
            if re.sub(r"^const\s+", "", frm) in NARROW_INT_TYPES or frm in ("bool", "_Bool"):
                continue
            # only values that vary with a variable (a counter, a length)
            if not any(x.get("kind") == "DeclRefExpr" and x.get("referencedDecl", {}).get("kind") in ("VarDecl", "ParmVarDecl") for x in walk(inner[-1])):
                continue
            if _holds_only_codes(c, fd, strip(inner[-1])):
                continue  # a verdict / error code kept in an int, not a position or a size
            n += 1
            txt = R(c.p.enums)(inner[-1])
            key = "%s/narrowing:%s->%s" % (fn, txt[:40], to)
            seen[key] = seen.get(key, 0) + 1
            if seen[key] > 1:
                continue
            c.viol(rule, key, "%s:%s" % (c.p.where.get(fn, "?"), e.get("_line")), "`%s` (%s) is converted to %s in %s, whose sizes are caller-controlled ints: positions that differ by a multiple of %d are treated alike" % (txt, frm, to, fn, 256 if "8" in to or "char" in to or to == "byte" else 65536))
        if not seen:
            c.ok(rule, fn + "/no-narrowing", c.p.pos(fd), "no counter or length is narrowed to 8/16 bits")


INT_WIDTHS = {"limb_t": 64, "unsigned long": 64, "long": 64, "uint64_t": 64, "unsigned long long": 64, "long long": 64, "size_t": 64,
              "unsigned int": 32, "unsigned": 32, "int": 32, "uint32_t": 32, "short": 16, "unsigned short": 16, "uint16_t": 16,
              "byte": 8, "unsigned char": 8, "uint8_t": 8, "char": 8, "signed char": 8}


def _int_width(t):
    q = (t or {}).get("desugaredQualType") or (t or {}).get("qualType") or ""
    q = re.sub(r"^const\s+", "", q)
    return INT_WIDTHS.get(q), q


def rule_no_limb_narrowing(c, rule, fns):
    """Agreement between a producer of 64-bit quantities and the helper that consumes them: in the functions that batch
    small integers into one machine limb (products of up to eight 8-bit indices, evaluation points) no non-constant
    64-bit value is implicitly converted to a narrower integer — at a call whose parameter was declared narrower, in an
    assignment or a return. The C compiler performs such a conversion silently; the value keeps its low bits, and only
    inputs whose product exceeds the narrower type notice (large groups, high indices)."""
    for fn in fns:
        fd = c.p.funcs.get(fn)
        if fd is None:
            c.und(rule, "anchor:" + fn, "?", "unresolved anchor: C function %s" % fn)
            continue
        bad = 0
        for e in walk(fd):
            if e.get("kind") != "ImplicitCastExpr" or e.get("castKind") != "IntegralCast":
                continue
            inner = [x for x in e.get("inner", []) if isinstance(x, dict)]
            if not inner or const_eval(inner[-1], c.p.enums) is not None:
                continue
            src = strip(inner[-1])
            if src.get("kind") == "UnaryExprOrTypeTraitExpr":
                continue  # sizeof: a compile-time constant
            tw, tq = _int_width(e.get("type"))
            sw, sq = _int_width(src.get("type"))
            if not (tw and sw and sw == 64 and tw < 64):
                continue
            if not any(x.get("kind") == "DeclRefExpr" and x.get("referencedDecl", {}).get("kind") in ("VarDecl", "ParmVarDecl") for x in walk(inner[-1])):
                continue
            bad += 1
            txt = R(c.p.enums)(inner[-1])
            c.viol(rule, "%s/limb-narrowed:%s->%s" % (fn, txt[:40], tq), "%s:%s" % (c.p.where.get(fn, "?"), e.get("_line")),
                   "in %s the %d-bit value `%s` (%s) is implicitly converted to %s (%d bits): only its low bits survive, so batches whose product reaches 2^%d give a wrong field element (large groups / high indices only)" % (fn, sw, txt, sq, tq, tw, tw))
        if not bad:
            c.ok(rule, fn + "/no-limb-narrowing", c.p.pos(fd), "no non-constant 64-bit value is implicitly narrowed (call arguments, assignments, returns)")
    # the consumer: the helper that turns a limb into a field element takes a full limb
    fn = "Fr_set_limb"
    ps = c.p.params(fn) if (fn in c.p.funcs or fn in c.p.protos) else []
    if len(ps) < 2:
        c.und(rule, "anchor:" + fn, "?", "unresolved anchor: Fr_set_limb(Fr*, limb)")
    else:
        w_, q = _int_width(ps[1].get("type"))
        c.check(w_ == 64, rule, fn + "/limb-parameter", c.p.pos(c.p.funcs.get(fn) or c.p.protos.get(fn)), "Fr_set_limb takes a 64-bit limb", "Fr_set_limb's value parameter is `%s`, not a 64-bit limb: callers batch up to 64 bits into it" % q)
        fd = c.p.funcs.get(fn)
        if fd is not None:
            # the store into the element keeps the full width
            nar = [e for e in walk(fd) if e.get("kind") in ("ImplicitCastExpr", "CStyleCastExpr") and e.get("castKind") == "IntegralCast"
                   and (_int_width(e.get("type"))[0] or 64) < 64]
            c.check(not nar, rule, fn + "/limb-stored-whole", c.p.pos(fd), "the limb is stored without narrowing", "Fr_set_limb narrows its value before storing it")


def rule_paired_indexing(c, rule, fn, a_param_idx, b_param_idx):
    """Two arrays that are consumed pairwise (points and their scalars) are indexed by the same variables: every variable
    that positions the reads of one must position the reads of the other, except the counter of a loop that only walks one
    of them element by element while the other is handed over as a block starting at the same offset."""
    fd = c.p.funcs.get(fn)
    if fd is None:
        c.und(rule, "anchor:" + fn, "?", "unresolved anchor: C function %s" % fn)
        return
    params = [p_["name"] for p_ in c.p.params(fn)]
    A, B = params[a_param_idx], params[b_param_idx]
    rend = R(c.p.enums)

    def offset_vars(name):
        out, sites = set(), 0
        for e in walk(fd):
            k = e.get("kind")
            off = None
            if k == "BinaryOperator" and e.get("opcode") in ("+",) and strip(e["inner"][0]).get("kind") == "DeclRefExpr" and strip(e["inner"][0])["referencedDecl"].get("name") == name:
                off = e["inner"][1]
            elif k == "ArraySubscriptExpr" and strip(e["inner"][0]).get("kind") == "DeclRefExpr" and strip(e["inner"][0])["referencedDecl"].get("name") == name:
                off = e["inner"][1]
            if off is None:
                continue
            sites += 1
            for x in walk(off):
                if x.get("kind") == "DeclRefExpr" and x["referencedDecl"].get("kind") in ("VarDecl", "ParmVarDecl"):
                    out.add(x["referencedDecl"]["name"])
        # a bare use of the parameter (whole array handed over) positions it at offset 0: no variables
        return out, sites
    va, sa = offset_vars(A)
    vb, sb = offset_vars(B)
    # counters of loops whose body reads only one of the two arrays
    one_sided = set()
    for e in walk(fd):
        if e.get("kind") != "ForStmt":
            continue
        names = {x["referencedDecl"]["name"] for x in walk(e) if x.get("kind") == "DeclRefExpr" and x["referencedDecl"].get("kind") == "ParmVarDecl"}
        if (A in names) != (B in names):
            init = e["inner"][0]
            for d in walk(init) if isinstance(init, dict) else []:
                if d.get("kind") == "VarDecl":
                    one_sided.add(d["name"])
    bad_a = sorted(v for v in va - vb if v not in one_sided)
    bad_b = sorted(v for v in vb - va if v not in one_sided)
    c.check(not bad_a and not bad_b, rule, "%s/paired-index:%s~%s" % (fn, A, B), c.p.pos(fd),
            "`%s` and `%s` are positioned by the same variables %s" % (A, B, sorted(va | vb)),
            "`%s` is positioned by %s but `%s` by %s: element k of one is combined with another element of the other (%s)" % (A, sorted(va), B, sorted(vb), ", ".join(bad_a + bad_b)))


def rule_C06(c):
    # R10: the Horner evaluations behind private and public shares have one shape
    c.floor("C06.R10", 8)
    rule_horner(c, "C06.R10")
    # R12: limb producers and the limb consumer agree on 64 bits
    c.floor("C06.R12", 5)
    rule_no_limb_narrowing(c, "C06.R12", ["Fr_lagrange_coeff_at_zero", "E1_lagrange_interpolate_at_zero", "Fr_polynomial_image", "E2_polynomial_images"])
    # R7: the multi-scalar multiplication behind the interpolation pairs point k with coefficient k
    c.floor("C06.R7", 1)
    rule_paired_indexing(c, "C06.R7", "E1_multi_scalar", 1, 2)
    c.floor("C06.R4", 4)
    c.floor("C06.R5", 3)
    fn = "Fr_lagrange_coeff_at_zero"
    g = c.cfg("C06.R4", fn)
    if g:
        res, i, indices, degree = [p["name"] for p in c.p.params(fn)]
        # batch width: the constant added to the batch start in the inner loop bound min(degree+1, start+W)
        loops = None
        def cond_text(b):
            # a bound held in a single-definition local (`batch_end = MIN(count, j + W)`) is looked through
            s_ = g.r(b.expr)
            e = strip(b.expr)
            if e.get("kind") == "BinaryOperator" and strip(e["inner"][1]).get("kind") == "DeclRefExpr":
                v = g.r(e["inner"][1])
                d = g.def_of(v, b)
                if d is not None and d.expr is not None and g.rhs_of(d, v) is not None:
                    s_ = "(%s %s %s)" % (g.r(e["inner"][0]), e["opcode"], g.render_resolved(g.rhs_of(d, v), d, b, 0))
            return s_
        for b in g.nodes:
            if b.kind != "branch":
                continue
            s_ = cond_text(b)
            if "(%s + 1)" % degree not in s_:
                continue
            for mo in re.finditer(r"\((\w+) \+ (\w+)\)", s_):
                if mo.group(1) == degree:
                    continue
                tok = mo.group(2)
                if tok.isdigit():
                    loops = int(tok)
                else:
                    for n in g.nodes:
                        if n.kind == "decl" and n.tag == tok and n.expr is not None:
                            loops = const_eval(n.expr, c.p.enums)
        # element width of indices
        pt = [p for p in c.p.params(fn) if p["name"] == indices][0]["type"]["qualType"]
        width = 8 if ("byte" in pt or "uint8" in pt or "unsigned char" in pt) else None
        limb_bits = 64
        c.check(loops is not None and width is not None and loops * width <= limb_bits, "C06.R4", fn + "/batch-width", c.p.pos(g.f),
                "%s indices of %s bits per %d-bit limb cannot overflow" % (loops, width, limb_bits), "batching %s indices of %s bits into one %d-bit limb can overflow" % (loops, width, limb_bits))
        # inner loop bound uses k + loops, and j==i skipped, sign toggled exactly under indices[j] < indices[i]
        conds = [cond_text(b) for b in g.nodes if b.kind == "branch"]
        c.check(loops is not None and any(re.search(r"\(\w+ \+ (%s|\w+)\)" % loops, s) and "(%s + 1)" % degree in s and "?" in s for s in conds), "C06.R4", fn + "/batch-bound", c.p.pos(g.f), "inner loop runs to min(degree+1, k+loops)", "inner batch bound is not min(degree+1, k+loops): %s" % conds)
        # the accumulators by role: what is handed to Fr_set_limb in this function; the sign: the variable toggled with ^=
        accs = set()
        for n_, call_ in g.calls("Fr_set_limb"):
            args_ = [a_ for a_ in call_.get("inner", [])[1:]]
            if len(args_) >= 2:
                accs.add(g.r(args_[1]))
        if not accs:
            accs = {"limb_denominator", "limb_numerator"}
        for n in g.nodes:
            if n.expr is None:
                continue
            for x in walk(n.expr):
                if x.get("kind") == "CompoundAssignOperator" and (g.r(x["inner"][0]) == "sign" or x.get("opcode") == "^="):
                    facts = g.resolved_facts(n)
                    c.check("%s[j] < %s[%s]" % (indices, indices, i) in facts and "j != %s" % i in facts, "C06.R4", fn + "/sign-toggle", c.pos(g, n), "sign toggles exactly when indices[j] < indices[i], j ≠ i", "sign of the denominator toggles under the wrong condition", facts)
                if x.get("kind") == "CompoundAssignOperator" and g.r(x["inner"][0]) in accs:
                    facts = g.resolved_facts(n)
                    c.check("j != %s" % i in facts, "C06.R4", fn + "/skip-self:" + g.r(x["inner"][0]), c.pos(g, n), "own index skipped", "own index is not skipped in the product", facts)
    fn = "E1_lagrange_interpolate_at_zero_write"
    g = c.cfg("C06.R5", fn)
    if g:
        dest, shares, indices, degree = [p["name"] for p in c.p.params(fn)]
        rd = g.calls("E1_read_bytes")
        okk = len(rd) == 1 and reads_at_stride(c, g, g.r(rd[0][1]["inner"][2]), shares, "i", 48) and const_eval(rd[0][1]["inner"][3], c.p.enums) == 48
        c.check(okk, "C06.R5", fn + "/stride", c.p.pos(g.f), "i-th share read at 48·i, 48 bytes", "shares are not read at stride 48")
        w = g.calls("E1_write_bytes")
        it = g.calls("E1_lagrange_interpolate_at_zero")
        for n, call in w + it:
            facts = g.resolved_facts(n)
            c.check("i >= (%s + 1)" % degree in facts, "C06.R5", fn + "/" + callee_name(call) + "-after-all-read", c.pos(g, n), "runs only after all degree+1 shares were read", "interpolation/output happens before all %s+1 shares were read" % degree, facts)
        c.check(bool(it) and g.r(it[0][1]) == "E1_lagrange_interpolate_at_zero(&res, E1_shares, %s, %s)" % (indices, degree), "C06.R5", fn + "/interpolate-args", c.p.pos(g.f), "interpolates the parsed shares at the given indices", "interpolation arguments changed")
    rule_reader_discipline_one(c, "C06.R5", "E1_lagrange_interpolate_at_zero_write")
    g = c.cfg("C06.R5", "E1_lagrange_interpolate_at_zero")
    if g:
        out, shares, indices, degree = [p["name"] for p in c.p.params("E1_lagrange_interpolate_at_zero")]
        ms = g.calls("E1_multi_scalar")
        c.check(bool(ms) and g.r(ms[0][1]) == "E1_multi_scalar(%s, %s, lagrange_coeffs, (%s + 1))" % (out, shares, degree), "C06.R5", "E1_lagrange_interpolate_at_zero/msm", c.p.pos(g.f), "multi-scalar product over all degree+1 (share, coefficient) pairs", "multi-scalar multiplication does not cover degree+1 pairs")
        lc = g.calls("Fr_lagrange_coeff_at_zero")
        c.check(bool(lc) and g.r(lc[0][1]) == "Fr_lagrange_coeff_at_zero(&lagrange_coeffs[i], i, %s, %s)" % (indices, degree), "C06.R5", "E1_lagrange_interpolate_at_zero/coeff-index", c.p.pos(g.f), "i-th coefficient computed for position i", "coefficient/position pairing changed")


def rule_reader_discipline_one(c, rule, fn):
    saved = c.p.funcs
    try:
        c.p.funcs = {fn: saved[fn]} if fn in saved else {}
        rule_reader_discipline(c, rule, skip=())
    finally:
        c.p.funcs = saved



# ------------------------------------------------------------------ verdict codes (C01.R9 / C02.R8 / C17.R5)

VERDICT_CODES = ("VALID", "INVALID", "UNDEFINED")


def return_codes(c, fn, depth=0, seen=None):
    """the set of values a C function can return, as enum-constant names where resolvable: return operands, the
    values assigned to a returned variable, and (recursively) the codes of a function whose result is returned.
    Anything else is reported as `?<expr>`."""
    seen = seen if seen is not None else set()
    if fn in seen or depth > 4:
        return set()
    seen.add(fn)
    g = c.p.cfg(fn)
    out = set()

    def classify(e):
        e = strip(e)
        s = g.r(e)
        if e.get("kind") == "DeclRefExpr" and e["referencedDecl"].get("kind") == "EnumConstantDecl":
            out.add((s, g.f["loc"].get("line", 0)))
            return
        if e.get("kind") == "CallExpr":
            cn = callee_name(e)
            if cn in c.p.funcs:
                for code in return_codes(c, cn, depth + 1, seen):
                    out.add(code)
                return
            out.add(("?" + s, 0))
            return
        if e.get("kind") == "ConditionalOperator":
            classify(e["inner"][1])
            classify(e["inner"][2])
            return
        if e.get("kind") == "DeclRefExpr" and e["referencedDecl"].get("kind") == "VarDecl":
            v = s
            found = False
            for n in g.nodes:
                if n.kind == "decl" and n.tag == v and n.expr is not None:
                    found = True
                    classify(n.expr)
                if n.kind in ("stmt", "branch") and n.expr is not None:
                    for x in walk(n.expr):
                        if x.get("kind") == "BinaryOperator" and x["opcode"] == "=" and g.r(x["inner"][0]) == v:
                            found = True
                            classify(x["inner"][1])
            if not found:
                out.add(("?" + s, 0))
            return
        out.add(("?" + s, 0))

    for n in g.nodes:
        if n.kind == "ret" and n.expr is not None:
            classify(n.expr)
    return out


def rule_verdict_codes(c, rule, only=None):
    """Every int-returning entry point of the BLS glue that can report INVALID is a verdict function: the Go
    callers map INVALID to (false, nil), VALID to (true, nil) and anything else to an error.  A rejected signature
    or key (malformed, off the curve, outside the subgroup) is an invalid signature, not an error: such a
    function may only return VALID, INVALID or UNDEFINED (the allocation-failure code)."""
    n = 0
    for fn, f in sorted(c.p.funcs.items()):
        rtype = (f.get("type", {}).get("qualType", "") or "").split("(")[0].strip()
        if rtype != "int":
            continue
        if f.get("storageClass") == "static":
            continue
        if only is not None and not any(fn.startswith(o) for o in only):
            continue
        try:
            codes = return_codes(c, fn)
        except cast.Unsupported as e:
            continue
        names = {x for x, _ in codes}
        if "INVALID" not in names:
            continue
        n += 1
        bad = sorted(x for x in names if x not in VERDICT_CODES)
        c.check(not bad, rule, fn + "/verdict-codes", c.p.pos(f), "returns only VALID / INVALID / UNDEFINED (%s)" % ", ".join(sorted(names)),
                "verdict function %s can return %s: the Go caller treats every code other than VALID/INVALID as an unexpected error, so a rejected input is reported as an error instead of an invalid signature" % (fn, ", ".join(bad)))
    return n


# ------------------------------------------------------------------ Horner evaluation (C06.R10 / C07.R14)

def rule_horner(c, rule):
    """The two polynomial evaluations of the glue — private shares in Fr, public shares in E2 — are Horner loops of the
    same shape: the accumulator starts at the neutral element, the counter runs from `degree` down to 0 inclusive, and every
    iteration multiplies the accumulator by the evaluation point and then adds coefficient [counter] (nothing else writes
    the accumulator).  The Fr variant multiplies by the Montgomery form of the point and derives the public share as
    generator * image.  A share computed by one and checked against the other (g2^x == y) only agrees when both walk the
    same coefficients in the same order."""
    specs = (("Fr_polynomial_image", 0, 2, 3, 4, "Fr_set_zero", "Fr_mul_montg", "Fr_add"),
             ("E2_polynomial_image", 0, 1, 2, 3, "E2_set_infty", "E2_mult_small_expo", "E2_add"))
    shapes = {}
    for fn, iacc, icoef, ideg, ix, zero, mul, add in specs:
        g = c.cfg(rule, fn)
        if not g:
            continue
        ps = [p_["name"] for p_ in c.p.params(fn)]
        acc, coef, deg, x = ps[iacc], ps[icoef], ps[ideg], ps[ix]
        heads = [n for n in g.nodes if n.kind == "loophead"]
        if len(heads) != 1:
            c.und(rule, fn + "/loop", c.p.pos(g.f), "expected exactly one loop, found %d" % len(heads))
            continue
        h = heads[0]
        br = [s_ for s_ in h.succ if s_ is not None and s_.kind == "branch"]
        m = re.match(r"^\(?(\w+) >= 0\)?$", g.r(br[0].expr)) if br else None
        cnt = m.group(1) if m else None
        # the counter starts at `degree` (its last definition before the loop) and is decremented exactly once per iteration,
        # in the `for` header or as a statement of the body (`while` form)
        init_e = g.loop_init(h, cnt) if cnt else None
        dec_forms = ("(%s--)" % cnt, "(--%s)" % cnt, "%s--" % cnt, "--%s" % cnt, "(%s -= 1)" % cnt, "%s -= 1" % cnt, "(%s = (%s - 1))" % (cnt, cnt), "%s = (%s - 1)" % (cnt, cnt))
        in_loop = [n for n in g.nodes if n.kind == "stmt" and g.dominates(h, n) and h.id in g.reach_from(n)]
        decs = [n for n in in_loop if n.expr is not None and g.r(n.expr) in dec_forms]
        others = [n for n in in_loop if n not in decs and n.expr is not None and cnt in g.writes(n)] if cnt else []
        ok_range = bool(cnt) and init_e is not None and g.r(init_e) == deg and len(decs) == 1 and not others
        c.check(ok_range, rule, fn + "/range", c.p.pos(g.f), "coefficients degree..0 are all consumed, highest first",
                "the Horner loop of %s does not run its counter from `%s` down to 0 inclusive with one decrement per iteration (condition `%s`): a coefficient is skipped or the order changes" % (fn, deg, g.r(br[0].expr) if br else "?"))
        body = [n for n in in_loop if n not in decs]
        ev = path_events(g, body)
        want_mul = re.compile(r"^%s\(%s, %s, (.+)\)$" % (mul, re.escape(acc), re.escape(acc)))
        want_add = "%s(%s, %s, &%s[%s])" % (add, acc, acc, coef, cnt)
        mm = want_mul.match(ev[0]) if ev else None
        ok_body = len(ev) == 2 and bool(mm) and ev[1] == want_add
        c.check(ok_body, rule, fn + "/step", c.p.pos(g.f), "each iteration: accumulator = accumulator * point, then + coefficient[counter]",
                "the loop body of %s is not `acc = acc*point; acc += %s[%s]`: %s" % (fn, coef, cnt, "; ".join(ev)))
        pre = path_events(g, [n for n in g.nodes if n.kind in ("stmt", "decl") and n not in body and n not in decs and h.id in g.reach_from(n) and not g.dominates(h, n)])
        c.check("%s(%s)" % (zero, acc) in pre, rule, fn + "/start", c.p.pos(g.f), "accumulator starts at the neutral element", "the accumulator `%s` is not reset with %s before the loop" % (acc, zero))
        if mm:
            mult = mm.group(1)
            if fn.startswith("Fr_"):
                t = mult.lstrip("&")
                okm = ("Fr_set_limb(&%s, %s)" % (t, x) in pre or "Fr_set_limb(&%s, (limb_t)%s)" % (t, x) in pre) and "Fr_to_montg(&%s, &%s)" % (t, t) in pre
                c.check(okm, rule, fn + "/point", c.p.pos(g.f), "multiplier is the Montgomery form of the evaluation point", "the multiplier `%s` of the Horner step is not the evaluation point `%s` brought to Montgomery form" % (mult, x))
            else:
                c.check(mult == x, rule, fn + "/point", c.p.pos(g.f), "multiplier is the evaluation point", "the multiplier `%s` of the Horner step is not the evaluation point `%s`" % (mult, x))
        shapes[fn] = (ok_range, ok_body)
        if fn.startswith("Fr_"):
            y = ps[1]
            post = path_events(g, [n for n in g.nodes if n.kind == "stmt" and not g.dominates(h, n) or (n.kind == "stmt" and n not in body and n not in decs and g.dominates(h, n))])
            c.check("G2_mult_gen(%s, %s)" % (y, acc) in post, rule, fn + "/public-share", c.p.pos(g.f), "public share = generator * image", "the public share written to `%s` is not G2_mult_gen of the image just computed" % y)
    if len(shapes) == 2:
        c.check(all(all(v) for v in shapes.values()), rule, "siblings/horner-shape", "dkg_core.c", "private and public share evaluations walk the coefficients alike", "the Fr and E2 polynomial evaluations no longer have the same Horner shape: shares and the public data derived from the verification vector disagree")


# ------------------------------------------------------------------ Montgomery degree (dimension) analysis: C01.R12

# Every F_r value of the glue is stored as v·R^k for a statically known k ("degree"): 0 = plain, 1 = Montgomery form.
# Z = the zero element (any degree), T = unknown / conflicting.  The arithmetic primitives shift degrees
# (mul_montg: ka+kb-1, to_montg: +1, from_montg: -1, inverse: 1-k), additions and comparisons need equal degrees, and every
# consumer outside the arithmetic (serialisation, scalar multiplication, the Go side) needs degree 0.
MD_Z, MD_T = "Z", "T"
MD_CONST = {"BLS12_381_rR": 1, "BLS12_381_rRR": 2}
# reviewed exception: uses R as the radix 2^256 of the byte string (value-level), ends with from_montg; result is plain
MD_TRUSTED_OUT0 = {"Fr_from_be_bytes": (0,), "map_bytes_to_Fr": (0,), "Fr_read_bytes": (0,), "Fr_star_read_bytes": (0,)}
MD_PRIMS = ("Fr_is_zero", "Fr_is_equal", "Fr_set_limb", "Fr_copy", "Fr_set_zero", "Fr_add", "Fr_sub", "Fr_neg", "Fr_mul_montg", "Fr_squ_montg",
            "Fr_to_montg", "Fr_from_montg", "Fr_inv_montg_eucl", "Fr_from_be_bytes")


def _md_join(a, b):
    if a == b:
        return a
    if a is None:
        return b
    if b is None:
        return a
    if a == MD_Z:
        return b
    if b == MD_Z:
        return a
    return MD_T


def _md_path(s):
    s = s.strip()
    while True:
        m = re.match(r"^\(\s*(?:const\s+)?\w+\s*\*\s*\)\s*(.*)$", s)
        if not m:
            break
        s = m.group(1)
    s = s.lstrip("&*").strip()
    s = s.strip("()")
    s = re.sub(r"\[[^\]]*\]", "[]", s)
    return s


def rule_montgomery_degrees(c, rule):
    n_ops = 0
    summaries = {}      # fn -> {param index: degree at exit} for non-const F_r parameters
    in_progress = set()
    fr_ptr = lambda t: re.match(r"^(const )?Fr \*?(const)?$|^(const )?Fr ?\[.*\]$", t.strip()) is not None or t.strip() in ("Fr *", "const Fr *", "const Fr *const", "Fr *const")
    def analyse(fn, emit):
        nonlocal n_ops
        if fn in MD_PRIMS or fn in MD_TRUSTED_OUT0 or fn not in c.p.funcs:
            return
        if not emit and (fn in summaries or fn in in_progress):
            return
        in_progress.add(fn)
        try:
            _analyse(fn, emit)
        finally:
            in_progress.discard(fn)

    def _analyse(fn, emit):
        nonlocal n_ops
        fd = c.p.funcs[fn]
        # only functions that touch F_r arithmetic / values
        uses = any(callee_name(x) and (callee_name(x).startswith("Fr_") or callee_name(x) in ("pow256_from_Fr",)) for x in walk(fd) if x.get("kind") == "CallExpr")
        params = c.p.params(fn)
        fr_params = [p_ for p_ in params if fr_ptr(p_["type"]["qualType"])]
        if not uses and not fr_params:
            summaries[fn] = {}
            return
        try:
            g = c.p.cfg(fn)
        except cast.Unsupported:
            summaries[fn] = {}
            return
        init = {}
        outs = []
        for p_ in fr_params:
            qt = p_["type"]["qualType"]
            if qt.strip().startswith("const"):
                init[p_["name"]] = 0
            else:
                init[p_["name"]] = MD_T
                outs.append(p_["name"])
        for k_, v_ in MD_CONST.items():
            init[k_] = v_
        preds = {n.id: [] for n in g.nodes}
        for n in g.nodes:
            for s_ in n.succ:
                if s_ is not None:
                    preds[s_.id].append(n)
        state_in, state_out = {}, {}
        reports = {}

        def deg(st, arg):
            pth = _md_path(g.r(arg))
            if pth in st:
                return st[pth], pth
            # element of an array parameter / local: same as the array
            base = pth.split("[")[0]
            if base in st:
                return st[base], pth
            if base + "[]" in st:
                return st[base + "[]"], pth
            return None, pth

        def setd(st, arg, d):
            pth = _md_path(g.r(arg))
            base = pth.split("[")[0]
            if pth.endswith("[]") and base in st and st[base] not in (None, d):
                st[pth] = _md_join(st.get(pth), d)
            st[pth] = d
            if "[" in pth:
                st[base + "[]"] = d if st.get(base + "[]") in (None, d, MD_T) else _md_join(st[base + "[]"], d)

        def need(ok, key, node, msg):
            reports.setdefault(key, (ok, c.pos(g, node), msg))
            if not ok:
                reports[key] = (False, c.pos(g, node), msg)

        def shift(d, f):
            if d in (None, MD_T):
                return MD_T
            if d == MD_Z:
                return MD_Z
            return f(d)

        def transfer(n, st, check):
            st = dict(st)
            exprs = []
            if n.expr is not None:
                exprs = calls_in(n.expr)
            for call in reversed(exprs):  # inner calls first
                cn = callee_name(call)
                if cn is None:
                    continue
                args = call["inner"][1:]
                if cn == "Fr_set_zero" or (cn == "vec_zero" and args and _md_path(g.r(args[0])) in st):
                    setd(st, args[0], MD_Z)
                elif cn == "Fr_set_limb" or cn == "limbs_from_be_bytes":
                    if args and (cn == "Fr_set_limb" or _md_path(g.r(args[0])) in st or True):
                        if cn == "Fr_set_limb" or re.search(r"Fr|digit|limb_t \*\)&", g.r(args[0])):
                            setd(st, args[0], 0)
                elif cn == "Fr_copy":
                    d, _ = deg(st, args[1])
                    setd(st, args[0], d if d is not None else MD_T)
                elif cn in ("Fr_add", "Fr_sub"):
                    da, pa = deg(st, args[1])
                    db, pb = deg(st, args[2])
                    if check:
                        okk = da not in (None, MD_T) and db not in (None, MD_T) and (da == db or MD_Z in (da, db))
                        need(okk, "%s/%s:%s,%s" % (fn, cn, pa, pb), n, "operands `%s` (degree %s) and `%s` (degree %s) of %s are in different representations (plain vs Montgomery)" % (pa, da, pb, db, cn))
                    setd(st, args[0], _md_join(da, db) if None not in (da, db) else MD_T)
                elif cn == "Fr_neg":
                    d, _ = deg(st, args[1])
                    setd(st, args[0], d if d is not None else MD_T)
                elif cn == "Fr_mul_montg":
                    da, _ = deg(st, args[1])
                    db, _ = deg(st, args[2])
                    if MD_Z in (da, db):
                        r = MD_Z
                    elif None in (da, db) or MD_T in (da, db):
                        r = MD_T
                    else:
                        r = da + db - 1
                    setd(st, args[0], r)
                elif cn == "Fr_squ_montg":
                    d, _ = deg(st, args[1])
                    setd(st, args[0], shift(d, lambda k: 2 * k - 1))
                elif cn == "Fr_to_montg":
                    d, _ = deg(st, args[1])
                    setd(st, args[0], shift(d, lambda k: k + 1))
                elif cn == "Fr_from_montg":
                    d, _ = deg(st, args[1])
                    setd(st, args[0], shift(d, lambda k: k - 1))
                elif cn == "Fr_inv_montg_eucl":
                    d, _ = deg(st, args[1])
                    setd(st, args[0], shift(d, lambda k: 1 - k))
                elif cn == "Fr_is_equal":
                    da, pa = deg(st, args[0])
                    db, pb = deg(st, args[1])
                    if check:
                        okk = da not in (None, MD_T) and db not in (None, MD_T) and (da == db or MD_Z in (da, db))
                        need(okk, "%s/Fr_is_equal:%s,%s" % (fn, pa, pb), n, "`%s` (degree %s) is compared with `%s` (degree %s): one is in Montgomery form and the other is not, so the comparison does not test equality of the scalars" % (pa, da, pb, db))
                elif cn == "Fr_is_zero":
                    pass
                elif cn in MD_TRUSTED_OUT0:
                    for i_ in MD_TRUSTED_OUT0[cn]:
                        if i_ < len(args):
                            setd(st, args[i_], 0)
                else:
                    # any other function handed an F_r object: plain form expected for inputs, plain form produced
                    cps = c.p.params(cn) if cn in c.p.protos or cn in c.p.funcs else []
                    for i_, a_ in enumerate(args):
                        t_ = cps[i_]["type"]["qualType"] if i_ < len(cps) else ""
                        is_fr = fr_ptr(t_) if t_ else False
                        if cn == "pow256_from_Fr" and i_ == 1:
                            is_fr = True
                            t_ = "const Fr *"
                        if not is_fr:
                            continue
                        d, pa = deg(st, a_)
                        if t_.strip().startswith("const") or cn == "Fr_write_bytes":
                            if check:
                                need(d in (0, MD_Z), "%s/%s:arg%d:%s" % (fn, cn, i_, pa), n, "`%s` is handed to %s in degree %s: scalars leave the field arithmetic (serialisation, scalar multiplication, other glue functions) in plain form only" % (pa, cn, d))
                        else:
                            # what the callee leaves there: its own summary (static helpers may hand back Montgomery values)
                            if cn in c.p.funcs and cn not in summaries:
                                analyse(cn, False)
                            setd(st, a_, summaries.get(cn, {}).get(i_, 0))
            if n.kind == "decl" and n.tag and n.expr is not None:
                # pointer local bound to an F_r object (`const Fr *term = x;`, `Fr *p = &a[i];`): it denotes that object
                qt = (n.stmt or {}).get("type", {}).get("qualType", "") if isinstance(n.stmt, dict) else ""
                if "Fr" in qt and "*" in qt and strip(n.expr).get("kind") != "CallExpr" and not any(x.get("kind") == "CallExpr" for x in walk(n.expr)):
                    d, _ = deg(st, n.expr)
                    st[n.tag] = d if d is not None else MD_T
            return st

        # fixpoint
        order = list(g.nodes)
        entry = [n for n in g.nodes if n.kind == "entry"]
        state_in[entry[0].id] = dict(init)
        work = [entry[0]]
        it = 0
        while work and it < 5000:
            it += 1
            n = work.pop(0)
            sin = state_in.get(n.id, {})
            sout = transfer(n, sin, False)
            if state_out.get(n.id) == sout:
                continue
            state_out[n.id] = sout
            for s_ in n.succ:
                if s_ is None:
                    continue
                old = state_in.get(s_.id)
                if old is None:
                    new = dict(sout)
                else:
                    new = dict(old)
                    for k_ in set(old) | set(sout):
                        new[k_] = _md_join(old.get(k_), sout.get(k_))
                if new != old:
                    state_in[s_.id] = new
                    work.append(s_)
        for n in order:
            if n.id in state_in:
                transfer(n, state_in[n.id], True)
        # outputs at exit: the summary callers use; functions visible outside the glue (non-static) hand back plain scalars
        exits = [n for n in g.nodes if n.kind == "exit"]
        summ = {}
        if exits and exits[0].id in state_in:
            st = state_in[exits[0].id]
            names = [p_["name"] for p_ in params]
            for o_ in outs:
                d = st.get(o_)
                if d is None:
                    continue
                summ[names.index(o_)] = d if d != MD_Z else 0
                if fd.get("storageClass") != "static" and d != MD_T:
                    need(d in (0, MD_Z), "%s/result:%s" % (fn, o_), exits[0], "result `%s` of %s is left in degree %s: callers (and the Go side) take it as a plain scalar" % (o_, fn, d))
        summaries[fn] = summ
        if not emit:
            return
        for key, (okk, pos, msg) in sorted(reports.items()):
            n_ops += 1
            c.check(okk, rule, key, pos, "representations agree", msg)
    for fn in sorted(c.p.funcs):
        analyse(fn, True)
    if n_ops == 0:
        c.und(rule, "montgomery/no-sites", "bls12381_utils.c", "no F_r operation found")

# ------------------------------------------------------------------ C07.R5 (vector intake in C)

def rule_C08(c):
    # R10: a malformed verification vector is rejected by the reader whatever precedes the malformed entry (every element
    # read VALID and subgroup-checked, element i taken from byte offset 96·i, VALID only after all elements) = C07.R5
    c.floor("C08.R10", 3)
    g = c.cfg("C08.R10", "G2_vector_read_bytes")
    if g:
        A, src, ln = [p["name"] for p in c.p.params("G2_vector_read_bytes")]
        for n in g.nodes:
            if g.valid_accept_facts(n) is not None:
                facts = g.valid_accept_facts(n)
                c.check("i >= %s" % ln in facts, "C08.R10", "G2_vector_read_bytes/all-elements", c.pos(g, n), "VALID only after all elements", "vector accepted early", facts)
        rule_vector_loop(c, "C08.R10", "G2_vector_read_bytes/element-in-G2", "G2_vector_read_bytes/stride")


def rule_C07(c):
    # R14: = C06.R10
    c.floor("C07.R14", 8)
    rule_horner(c, "C07.R14")
    # R10: points of the verification vector / public shares are used as affine points only after a conversion (= C04.R5)
    c.floor("C07.R10", 2)
    rule_affine_casts(c, "C07.R10")
    c.floor("C07.R5", 3)
    g = c.cfg("C07.R5", "G2_vector_read_bytes")
    if g:
        A, src, ln = [p["name"] for p in c.p.params("G2_vector_read_bytes")]
        for n in g.nodes:
            if g.valid_accept_facts(n) is not None:
                facts = g.valid_accept_facts(n)
                c.check("i >= %s" % ln in facts, "C07.R5", "G2_vector_read_bytes/all-elements", c.pos(g, n), "VALID only after all elements", "vector accepted early", facts)
        rule_vector_loop(c, "C07.R5", "G2_vector_read_bytes/element-in-G2")
    g = c.cfg("C07.R5", "G2_check_log")
    if g:
        x, y = [p["name"] for p in c.p.params("G2_check_log")]
        ev = path_events(g, g.nodes)
        rets = [g.r(n.expr) for n in g.nodes if n.kind == "ret" and n.expr is not None]
        c.check("G2_mult_gen(&tmp, %s)" % x in ev and rets == ["E2_is_equal(&tmp, %s)" % y], "C07.R5", "G2_check_log/relation", c.p.pos(g.f), "share check is g2^x == y", "share check is not E2_is_equal(g2^x, y)")
    g = c.cfg("C07.R5", "E2_polynomial_images")
    if g:
        y, len_y, A, degree = [p["name"] for p in c.p.params("E2_polynomial_images")]
        calls = g.calls("E2_polynomial_image")
        c.check(bool(calls) and g.r(calls[0][1]) == "E2_polynomial_image(&%s[i], %s, %s, (i + 1))" % (y, A, degree), "C07.R5", "E2_polynomial_images/index", c.p.pos(g.f), "y[i] = Q(i+1)", "public share i is not the image at i+1")


# ------------------------------------------------------------------ C09.R6 / X.table / C19.R3

def pointer_params(c, fn):
    out = []
    for i, p in enumerate(c.p.params(fn)):
        t = p["type"]["qualType"]
        if "*" in t or "[" in t:
            const = t.strip().startswith("const ")
            out.append((i, p["name"], const, t))
    return out


def writes_through(c, fn, pname, depth=0, seen=None, fresh=frozenset()):
    """does fn (or a glue callee) store through pointer parameter pname?  BLST/libc functions: first
    parameter written, the rest read (trusted table).  `fresh` = parameters of fn that the caller bound
    to its own distinct local objects: a store guarded by `pname == q` with q fresh (the in-place idiom
    `if ((uptr_t)ret == (uptr_t)a) swap in place`) cannot execute for this call and is skipped."""
    seen = seen or set()
    if (fn, pname, fresh) in seen or depth > 6:
        return False
    seen.add((fn, pname, fresh))
    if fn not in c.p.funcs:
        return None  # external
    g = c.p.cfg(fn)
    pnames = [p["name"] for p in c.p.params(fn)]
    aliases = {pname}
    changed = True
    while changed:
        changed = False
        for n in g.nodes:
            if n.kind == "decl" and n.expr is not None and n.tag not in aliases:
                if base_name(g.r(n.expr)) in aliases and "*" in n.stmt.get("type", {}).get("qualType", ""):
                    aliases.add(n.tag)
                    changed = True

    def infeasible(n):
        # a dominating branch taken on `p == q` (entry values: neither written before the branch)
        for br, pol in g.dominating_edges(n):
            f = g.norm(br.expr, pol)
            m = re.match(r"^(\w+) == (\w+)$", f)
            if not m:
                continue
            x, y = m.group(1), m.group(2)
            if not ((x == pname and y in fresh) or (y == pname and x in fresh)):
                continue
            early = [w for w in g.nodes if w.kind in ("stmt", "decl") and (g.writes(w) & {x, y}) and br.id in g.reach_from(w) and not g.dominates(br, w)]
            if not early:
                return True
        return False

    READERS = ("vec_is_zero", "vec_is_equal", "free", "check_mod_256", "POINTonE1_in_G1", "POINTonE2_in_G2",
               "POINTonE1_is_equal", "POINTonE2_is_equal", "POINTonE1_affine_on_curve", "POINTonE2_affine_on_curve",
               "sgn0_pty_mont_384", "sgn0_pty_mont_384x", "printf", "strlen", "assert", "__assert_fail")
    for n in g.nodes:
        if n.expr is None:
            continue
        for x in walk(n.expr):
            k = x.get("kind")
            if (k == "BinaryOperator" and x["opcode"] == "=") or k == "CompoundAssignOperator" or (k == "UnaryOperator" and x["opcode"] in ("++", "--")):
                lhs = strip(x["inner"][0])
                if lhs.get("kind") in ("ArraySubscriptExpr", "MemberExpr") or (lhs.get("kind") == "UnaryOperator" and lhs["opcode"] == "*"):
                    if g.base_var(lhs) in aliases:
                        if lhs.get("kind") == "MemberExpr" and not lhs.get("isArrow") and strip(lhs["inner"][0]).get("kind") == "DeclRefExpr":
                            continue
                        if infeasible(n):
                            continue
                        return True
            if k == "CallExpr":
                cn = callee_name(x)
                args = x["inner"][1:]
                for j, a in enumerate(args):
                    s = g.r(a)
                    if base_name(s) not in aliases:
                        continue
                    if cn in c.p.funcs:
                        cps = c.p.params(cn)
                        if j < len(cps) and ("*" in cps[j]["type"]["qualType"] or "[" in cps[j]["type"]["qualType"]):
                            # parameters of the callee bound to this function's own local objects
                            locs = set()
                            for jj, aa in enumerate(args):
                                if jj < len(cps):
                                    bn = base_name(g.r(aa))
                                    if bn not in pnames and bn not in aliases and any(d.kind == "decl" and d.tag == bn for d in g.nodes):
                                        locs.add(cps[jj]["name"])
                            if infeasible(n):
                                continue
                            if writes_through(c, cn, cps[j]["name"], depth + 1, seen, frozenset(locs)):
                                return True
                    else:
                        if j == 0 and cn not in READERS and not infeasible(n):
                            return True
    return False


def rule_table(c, rule):
    """validate the hand-written contract table against the C prototypes and bodies"""
    tab = json.loads(subprocess.run([os.path.join(os.path.dirname(os.path.dirname(os.path.abspath(__file__))), "bin", "cryptolint"), "-contracts"],
                                    stdout=subprocess.PIPE, check=True).stdout)
    n = 0
    for row in tab:
        fn = row["name"]
        if fn not in c.p.protos:
            c.und(rule, "contract:" + fn, "?", "contract row for a C function that no longer exists")
            continue
        ps = c.p.params(fn)
        if len(ps) != len(row["params"] or []):
            c.viol(rule, "contract:%s/arity" % fn, c.p.pos(c.p.protos[fn]), "contract row has %d parameters, C prototype has %d" % (len(row["params"] or []), len(ps)))
            continue
        for i, (p, spec) in enumerate(zip(ps, row["params"] or [])):
            t = p["type"]["qualType"]
            isptr = "*" in t or "[" in t
            n += 1
            key = "contract:%s/param%d" % (fn, i)
            if spec["Mode"] == "v":
                c.check(not isptr, rule, key, c.p.pos(p), "by-value parameter", "contract says by-value but the C parameter is a pointer (%s)" % t)
                continue
            if not isptr:
                c.viol(rule, key, c.p.pos(p), "contract says pointer but the C parameter is %s" % t)
                continue
            if "W" not in spec["Mode"]:
                w = writes_through(c, fn, p["name"]) if fn in c.p.funcs else False
                c.check(not w, rule, key, c.p.pos(p), "declared read-only and no store through it in the glue", "contract (and callers) treat parameter `%s` of %s as read-only, but the C code writes through it" % (p["name"], fn))
            else:
                c.ok(rule, key, c.p.pos(p), "written parameter")
    return n


def rule_C09(c):
    c.floor("C09.R9", 20)
    rule_object_extents(c, "C09.R9")
    c.floor("C09.R6", 6)
    # readers compare their length parameter before touching the buffer
    for fn, N in (("Fr_read_bytes", 32), ("Fp_read_bytes", 48), ("E1_read_bytes", 48), ("E2_read_bytes", 96), ("Fp2_read_bytes", 96), ("map_to_G1", 128)):
        g = c.cfg("C09.R6", fn)
        if not g:
            continue
        ps = [p["name"] for p in c.p.params(fn)]
        buf, ln = ps[1], ps[2]
        for n in g.nodes:
            if n.expr is None:
                continue
            uses = False
            for x in walk(n.expr):
                if x.get("kind") == "ArraySubscriptExpr" and g.r(x["inner"][0]) == buf:
                    uses = True
                if x.get("kind") == "CallExpr":
                    if any(base_name(g.r(a)) == buf and g.r(a) != ln for a in x["inner"][1:]):
                        uses = True
            if not uses:
                continue
            facts = g.resolved_facts(n)
            okk = "%s == %d" % (ln, N) in facts
            c.check(okk, "C09.R6", "%s/buffer-use-after-length-check" % fn, c.pos(g, n), "buffer touched only after %s == %d" % (ln, N), "%s touches the input buffer without having checked %s == %d" % (fn, ln, N), facts)
    # E1_sum_vector_byte: multiple-of-48 check
    g = c.cfg("C09.R6", "E1_sum_vector_byte")
    if g:
        out, inb, inl = [p["name"] for p in c.p.params("E1_sum_vector_byte")]
        for n, call in g.calls("E1_read_bytes"):
            facts = g.resolved_facts(n)
            c.check("(%s %% 48) == 0" % inl in facts, "C09.R6", "E1_sum_vector_byte/multiple-of-48", c.pos(g, n), "length is a multiple of 48 before the points are read", "input length is not checked to be a multiple of 48", facts)
    # unchecked malloc: reviewed exceptions (allocation failure is outside the property's input quantifier)
    for fn in sorted(c.p.funcs):
        try:
            g = c.p.cfg(fn)
        except cast.Unsupported:
            continue
        for n, call in g.calls("malloc"):
            var = n.tag if n.kind == "decl" else None
            checked = False
            for b in g.nodes:
                if b.kind == "branch" and var and re.search(r"\b%s\b" % var, g.r(b.expr)):
                    checked = True
            if not checked:
                c.info("C09.R6", "%s/malloc-unchecked" % fn, c.pos(g, n), "malloc result not checked; accepted: allocation failure is outside the property's input quantifier")
    # R12: scratch space whose size comes from the caller lives on the heap: no variable-length array and no alloca in the
    # glue (cgo calls run on a fixed-size thread stack; a list of a few thousand entries would run past it)
    c.floor("C09.R12", 1)
    nvla = 0
    for fn, fd in sorted(c.p.funcs.items()):
        for e in walk(fd):
            if e.get("kind") == "VarDecl":
                qt = (e.get("type") or {}).get("qualType", "")
                m = re.search(r"\[([^\]]*)\]", qt)
                if m and m.group(1).strip() and not re.match(r"^[0-9]+$", m.group(1).strip()):
                    nvla += 1
                    c.viol("C09.R12", "%s/vla:%s" % (fn, e.get("name")), "%s:%s" % (c.p.where.get(fn, "?"), e.get("_line")),
                           "`%s %s` is a variable-length array on the cgo thread stack: its size is decided by the caller, so a long enough input overruns the stack (crash instead of an error)" % (qt, e.get("name")))
            if e.get("kind") == "CallExpr" and callee_name(e) in ("alloca", "__builtin_alloca"):
                nvla += 1
                c.viol("C09.R12", "%s/alloca" % fn, "%s:%s" % (c.p.where.get(fn, "?"), e.get("_line")), "alloca with a caller-controlled size on the cgo thread stack")
    if nvla == 0:
        c.ok("C09.R12", "glue/no-vla", "bls12381_utils.c", "no variable-length array or alloca in %d glue functions" % len(c.p.funcs))
    c.floor("X.table", 60)
    c.stats["contract_params_validated"] = rule_table(c, "X.table")


# ------------------------------------------------------------------ reject provenance (C01.R11 / C02.R9 / C17.R6)

BRANCH_OK = (
    r"^\w*read_bytes\(.*\) (==|!=) \w+$",          # a reader's result
    r"^\w*_in_G[12]\(.*\) (==|!=) 0$",              # subgroup membership
    r"^map_to_G1\(.*\) (==|!=) \w+$",               # hash-to-curve
    r"^Fp12_is_one\(.*\) (==|!=) 0$",                # the pairing product
    r"^\(?\w+\)? (==|!=) (VALID|INVALID|0)$",       # a local holding one of those results, or an allocation
    r"^[\w\[\]\.\->\(\) \+\-\*]+ (<|<=|>|>=) [\w\[\]\.\->\(\) \+\-\*]+$",  # loop bounds / sizes
)


def rule_reject_provenance(c, rule, fns):
    """A verdict function decides on nothing but what the property names: whether the signature / proof bytes parse,
    whether the point is in the subgroup, whether the hash can be mapped, whether the pairing product is one (plus allocation
    results and loop bounds).  Every branch condition of the function — and of the code-returning glue helpers it calls,
    which are checked the same way — is of one of these kinds.  Any other condition (an equality shortcut between proofs or
    keys, a special case on infinity) makes the verdict differ from the verification equation for some inputs."""
    seen = set()

    def codes_fn(fn):
        f = c.p.funcs.get(fn)
        if f is None:
            return False
        rtype = (f.get("type", {}).get("qualType", "") or "").split("(")[0].strip()
        return rtype in ("int", "ERROR")

    def visit(fn, top):
        if fn in seen:
            return
        seen.add(fn)
        try:
            g = c.p.cfg(fn)
        except cast.Unsupported:
            c.und(rule, fn + "/branches", "?", "CFG not available")
            return
        n_br, bad = 0, []
        for n in g.nodes:
            if n.kind != "branch" or n.expr is None:
                continue
            cond = g.norm(n.expr, True)
            n_br += 1
            ok = any(re.match(p_, cond) for p_ in BRANCH_OK)
            if not ok:
                # result of another code-returning glue helper: that helper is checked in turn
                m = re.match(r"^(\w+)\(.*\) (==|!=) \w+$", cond)
                if m and m.group(1) in c.p.funcs and codes_fn(m.group(1)) and not m.group(1).endswith("is_equal"):
                    visit(m.group(1), top)
                    ok = True
            if not ok:
                bad.append((cond, c.pos(g, n)))
            for call in calls_in(n.expr):
                cn = callee_name(call)
                if cn in c.p.funcs and codes_fn(cn) and cn not in ("E1_read_bytes", "E2_read_bytes", "map_to_G1"):
                    visit(cn, top)
        for n in g.nodes:
            if n.kind in ("stmt", "decl", "ret") and n.expr is not None:
                for call in calls_in(n.expr):
                    cn = callee_name(call)
                    if cn in c.p.funcs and codes_fn(cn) and cn not in ("E1_read_bytes", "E2_read_bytes", "map_to_G1") and cn.startswith(("bls_", "read_", "batch_")):
                        visit(cn, top)
        key = "%s/decides-on" % fn if fn == top else "%s>%s/decides-on" % (top, fn)
        if bad:
            cond, pos = bad[0]
            c.viol(rule, key, pos, "%s branches on `%s`, which is none of the property's causes (bytes that do not parse, a point outside the subgroup, an unmappable hash, a pairing product that is not one; allocation results and loop bounds aside): inputs satisfying the verification equation can get a different verdict" % (fn, cond))
        else:
            c.ok(rule, key, c.p.pos(g.f), "all %d branch conditions are parse / membership / mapping / pairing results, allocation checks or loop bounds" % n_br)

    for fn in fns:
        if fn not in c.p.funcs:
            c.und(rule, "anchor:" + fn, "?", "unresolved anchor: C function %s" % fn)
            continue
        visit(fn, fn)


def rule_C19(c):
    c.floor("C19.R3", 60)
    c.stats["contract_params_validated"] = rule_table(c, "C19.R3")
    # R7: the glue keeps no writable storage that outlives a call: no function-static or file-scope variable that is not
    # const (two concurrent calls from Go would share it; the Go race detector does not see C memory)
    nst = 0
    for fn, fd in sorted(c.p.funcs.items()):
        for e in walk(fd):
            if e.get("kind") == "VarDecl" and e.get("storageClass") == "static":
                qt = (e.get("type") or {}).get("qualType", "")
                nst += 1
                c.check(qt.startswith("const ") or " const" in qt.split("[")[0], "C19.R7", "%s/static:%s" % (fn, e.get("name")), "%s:%s" % (c.p.where.get(fn, "?"), e.get("_line")),
                        "function-static object is const", "`static %s %s` in %s is writable storage shared by every call of the function: concurrent calls from different goroutines overwrite each other's data" % (qt, e.get("name"), fn))
    for tu in c.p.tus:
        for name, d in sorted(tu.globals.items()):
            qt = (d.get("type") or {}).get("qualType", "")
            if d.get("storageClass") == "extern":
                continue
            nst += 1
            c.check(qt.startswith("const ") or " const" in qt.split("[")[0], "C19.R7", "global:%s" % name, "%s:%s" % (tu.unit, d.get("_line")),
                    "file-scope object of the glue is const", "file-scope variable `%s %s` of the glue is writable: state shared by all calls" % (qt, name))
    if nst == 0:
        c.ok("C19.R7", "glue/no-static-storage", "bls_core.c", "the glue declares no function-static or file-scope variables")


# ------------------------------------------------------------------ C20.R2 glue invariance under build flags

def preprocess(repo, unit, flagset):
    cmd = ["clang-14", "-E"] + cast.cflags(repo, flagset) + ["-w", os.path.join(repo, unit)]
    r = subprocess.run(cmd, stdout=subprocess.PIPE, stderr=subprocess.PIPE, text=True)
    if r.returncode != 0:
        raise RuntimeError(r.stderr[-800:])
    own, cur = [], None
    for line in r.stdout.splitlines():
        m = re.match(r'# (\d+) "([^"]+)"', line)
        if m:
            cur = m.group(2)
            continue
        if cur and cur.startswith(repo.rstrip("/") + "/") and "/blst_src/" not in cur and line.strip():
            own.append((os.path.basename(cur), line))
    return own


def rename_table(repo):
    """BLST's own ADX rename table: `# define mul_mont_384 mulx_mont_384` lines inside #if defined(__ADX__)"""
    ren = {}
    for root, _, files in os.walk(os.path.join(repo, "blst_src")):
        for f in files:
            if not f.endswith((".h", ".c")):
                continue
            txt = open(os.path.join(root, f), errors="replace").read()
            for m in re.finditer(r"#\s*define\s+(\w+)\s+(\w+x\w*)\s*$", txt, re.M):
                a, b = m.group(1), m.group(2)
                if b.replace("mulx", "mul").replace("sqrx", "sqr").replace("redcx", "redc").replace("fromx", "from").replace("ctx_", "ct_").replace("sgn0x", "sgn0") == a or b in (a.replace("mul_", "mulx_"), a.replace("sqr_", "sqrx_"), a.replace("redc_", "redcx_"), a.replace("from_", "fromx_"), a.replace("ct_", "ctx_"), a.replace("sgn0_", "sgn0x_")):
                    ren[b] = a
    return ren


def rule_C20(c):
    c.floor("C20.R2", 4)
    ren = rename_table(c.p.repo)
    c.stats["blst_adx_renames"] = len(ren)
    for unit in cast.REPO_UNITS:
        try:
            a = preprocess(c.p.repo, unit, "adx")
            b = preprocess(c.p.repo, unit, "portable")
        except Exception as e:
            c.und("C20.R2", "glue:" + unit, unit, "preprocessing failed: %s" % e)
            continue
        def toks(lines):
            out = []
            for f, l in lines:
                for t in re.findall(r"[A-Za-z_]\w*|\d+\w*|\S", l):
                    out.append((f, ren.get(t, t)))
            return out
        ta, tb = toks(a), toks(b)
        diff = None
        if len(ta) != len(tb):
            diff = "token counts differ (%d vs %d)" % (len(ta), len(tb))
        else:
            for x, y in zip(ta, tb):
                if x[1] != y[1]:
                    diff = "%s: `%s` (ADX) vs `%s` (portable)" % (x[0], x[1], y[1])
                    break
        c.check(diff is None, "C20.R2", "glue:" + unit, unit, "repository-owned preprocessed C is token-identical under ADX and portable flags modulo BLST's %d ADX renames (%d tokens)" % (len(ren), len(ta)),
                "repository C glue differs between the ADX and portable builds beyond BLST's rename table: %s" % diff)
    # cgo directives select flags by GOARCH only
    src = open(os.path.join(c.p.repo, "bls12381_utils.go")).read()
    dirs = re.findall(r"//\s*#cgo\s+([^\n]*?)CFLAGS:", src)
    bad = []
    goarch = {"amd64", "arm64", "386", "arm", "loong64", "mips64", "mips64le", "ppc64", "ppc64le", "riscv64", "s390x", "wasm", "mips", "mipsle"}
    for d in dirs:
        for t in d.split():
            if t not in goarch:
                bad.append(t)
    c.check(not bad, "C20.R2", "cgo-directives", "bls12381_utils.go", "C flag selection depends on GOARCH only", "cgo CFLAGS are conditioned on something other than GOARCH: %s" % bad)


def rule_C12(c):
    # the non-zero test of the key-generation retry (and every other object predicate of the glue) covers the object
    c.floor("C12.R5", 20)
    rule_object_extents(c, "C12.R5")


def rule_C16(c):
    # R9: BLSVerifyPOP's verdict is bls_verify's: the candidate string is parsed by the validating reader, the parsed
    # point itself is G1-checked, and only then paired (= C01.R1); INVALID only for the property's causes (= C01.R11)
    c.floor("C16.R9", 3)
    rule_sanitised(c, "C16.R9", "bls_verify", 1)
    rule_pairing_core(c, "C16.R9")
    c.floor("C16.R10", 2)
    rule_reject_provenance(c, "C16.R10", ("bls_verify", "bls_verify_E1"))
    # R11: the PoP message is the key's encoding: the serializers write the coordinates of the *affine* point (conversion
    # first), so Equal keys have one encoding whatever their internal representation (= C05.R7)
    c.floor("C16.R11", 2)
    rule_affine_casts(c, "C16.R11")
    rule_writer_infinity(c, "C16.R11")


RULES = {"C16": rule_C16, "C08": rule_C08, "C12": rule_C12, "C01": rule_C01, "C02": rule_C02, "C03": rule_C03, "C04": rule_C04, "C05": rule_C05, "C06": rule_C06,
         "C07": rule_C07, "C09": rule_C09, "C17": rule_C17, "C19": rule_C19, "C20": rule_C20}
