#!/usr/bin/env python3
"""Writes /verif/MANIFEST.json from rules_index (claimed properties) + the table below."""
import json, os, sys
HERE = os.path.dirname(os.path.abspath(__file__))
sys.path.insert(0, HERE)
import rules_index

VERIF = os.path.dirname(HERE)

LEVEL_TEXT = {
    "C01": "Repository-specific static analysis (Go SSA dominance facts + clang-AST CFG must-facts) decides necessary structural conditions of the acceptance set: the untrusted signature is parsed, result-checked and G1-checked before any pairing or VALID result, all Go guards dominate the cgo call, `true` only from C VALID, identity flag recomputed on every constructed key. It holds for all inputs because it is a statement about every path; it does not decide the pairing arithmetic.",
    "C02": "Static must-fact analysis of both C grouping paths (sanitisation + sibling agreement + infinity skipping in the multi-pairing) and of the Go guards/def-use of VerifyBLSSignatureManyMessages/OneMessage, hash provenance/alignment, offset advance on every path of the C grouping loops. Decides necessary conditions for every input; the algebraic equality of the verdict with the pairing-product definition is not decided.",
    "C03": "Path enumeration of the C batch loop body (every path multiplies both by one coefficient or rejects-and-neutralises), coefficient provenance (≥128 fresh bits, non-zero, per-index), tree split agreement between builder and verifier, Go-side seed provenance from crypto/rand and all-false-on-error. Necessary conditions; the 2^-128 bound is not decided.",
    "C04": "Identity-flag recomputation for every constructed key, documented error clauses, reader-result discipline of every ERROR-returning parser call in the C glue. Necessary conditions; group arithmetic is not decided.",
    "C05": "Byte-coverage of accepting decoder paths, validation-dominates-acceptance for every C reader and Go decoder, reader/writer layout tables (and vs. the cited ZCash order), fixed-width encoders. Necessary conditions of canonicity; exactness of the accepted set needs field arithmetic and is not decided.",
    "C06": "Post-verification dominates the stateful result, stateless validation guards, flat-buffer extents for the interpolation call, Lagrange limb-batching overflow/sign/skip rules and read-before-interpolate ordering in C. Necessary conditions; polynomial consistency is not decided.",
    "C07": "Only necessary conditions of agreement that are visible in one participant's code: information flow into the disqualification verdict, completion-site agreement, no blind overwrite of complaint records or of an already received answer, monotone verdict, vector intake checks, Joint-Feldman key selection and failure comparison.",
    "C08": "Typestate fixpoint over the DKG handler set (abstract states = valuations of the instance's boolean fields + ghost predicates) for complaint-once, effect-free duplicates, dealer answers, invalid-vector ⇒ never keys, unanswered/unchecked own complaint ⇒ never keys; plus ownership of validKey and shape of the disqualification rules.",
    "C09": "cgo extent contracts proved at every call site (with requirements propagated through unexported wrappers to the exported API), range guards before every index/narrowing of untrusted integers, interval proof of computed fixed-array indices, reachable explicit panics = documented set, no index of unallocated slice fields in any reachable handler state, C readers re-check lengths. Over-approximating (every report is a CFG path), so `no report` covers all inputs for the constructs enumerated.",
    "C10": "Per-path guard/effect discipline and typestate fixpoint of the three DKG state machines: refusals are typed and effect-free, NextTimeout twice, End after both and clears running, range before index.",
    "C11": "Narrow: hasher/length rejection clauses decided exactly; verdict is exactly crypto/ecdsa.Verify on (key, hash(data), r, s); format-check comparison shapes; algorithm↔curve tables agree. The ECDSA equation lives in the standard library and is not decided.",
    "C12": "Narrow: seed-length clause in both signers, no nondeterminism reaches a generated key, BLS key returned only if non-zero, key material written only by constructors, HKDF parameter constants.",
    "C13": "Narrow: KMAC argument rejection, Reset/Clone ordering (ComputeHash independent of prior writes, shared state untouched), init-block provenance, FIPS-202 parameter relations of every sponge literal, rate table ⊆ xor helper support, bytepad congruence, sponge buffer discipline.",
    "C14": "Narrow: length rejections, Store/Restore layout agreement, byte counter updated on every Read path, zero message really zero, one block-size constant in Restore.",
    "C15": "Narrow: UnitN returns only under random ≤ n-1 with no remainder on the sample, Fisher–Yates index shapes, argument-error clauses, no other randomness source.",
    "C16": "Sufficient (under KMAC key separation): for all tags tag‖SIG-suite ≠ POP-suite decided from the constants, key provenance is exactly tag‖const, PoP hasher confined to the two PoP functions and never handed out, identity key rejected.",
    "C17": "Both SPoCK proofs parsed, result-checked and G1-checked before the pairing; operands (p1,-pk2),(p2,pk1); Go guards on both pairs; prove/verify-against-data delegate exactly and refuse non-BLS keys.",
    "C18": "Sufficient condition for linearizability: lock discipline (every access to the mutable fields under the one mutex, writes under the exclusive lock, one critical section per method, no re-entry), immutability of all other fields, monotone share map.",
    "C19": "Sufficient condition for race freedom: no-write effect analysis of the listed read-only operations over the module call graph, hasher method-set restriction, cgo arguments bound to C parameters the glue never stores through (validated against the C bodies).",
    "C20": "Build-configuration closure: non-BLS code is the same source with the same resolved references with and without cgo; repository C glue is token-identical under ADX/portable flags modulo BLST's rename table; build-tagged Go siblings agree on symbols and supported parameter tables.",
}

TECH = {
    "C01": "dominating-guard (must-fact) analysis on Go SSA and on a CFG built from the clang AST of the C glue; def-use provenance of the verdict; escape/ordering rule for the identity flag",
    "C02": "must-fact analysis on clang-AST CFG with sibling cross-check; Go SSA guard domination and def-use",
    "C03": "loop-body path enumeration on the C CFG; constant/def-use provenance of the coefficient; reader/writer split-table agreement; Go SSA value provenance (crypto/rand) and write-set of returned slices",
    "C04": "escape/ordering dataflow for the identity flag; error-class tables on Go SSA; result-checked-ness of parser calls on the C CFG",
    "C05": "index-coverage (counted loops, constant extents) and guard domination on the C CFG; layout table extraction; Go SSA guard domination for decoders",
    "C06": "Go SSA guard domination + symbolic length bounds (engine X); constant relations and guard facts on the C CFG",
    "C07": "backward information-flow slices and guard domination on Go SSA; typestate fixpoint; C CFG must-facts",
    "C08": "typestate analysis: path summaries of handler methods + fixpoint over abstract states",
    "C09": "interprocedural extent/range obligation propagation over Go SSA with a validated Go↔C contract table; typestate for nil slice fields; call-graph reachability of panics",
    "C10": "typestate analysis: path summaries (guard-before-effect, effect-free rejection) + fixpoint over abstract states",
    "C11": "Go SSA guard domination, def-use provenance of the verdict, constant/table extraction",
    "C12": "call-graph reachability of nondeterminism sources, guard domination, field write ownership",
    "C13": "call-ordering analysis on Go SSA, receiver provenance, constant relations over composite literals, residue-class evaluation of bytepad",
    "C14": "layout table extraction (writer vs reader), must-pass-through on Go SSA paths, constants",
    "C15": "def-use slice of the returned sample, guard domination, shape matching of index expressions, call-graph reachability",
    "C16": "constant evaluation (go/types), def-use provenance of the KMAC key, who-may-read/flow analysis of the PoP hasher global",
    "C17": "must-fact analysis on the C CFG for both parsed objects; Go SSA guard domination and delegation def-use",
    "C18": "lockset analysis (must-held sets, critical-section shape), field write ownership, guard domination for map updates",
    "C19": "write-effect analysis over the module call graph with allocation-site classification; contract table validated against C bodies",
    "C20": "build-configuration closure: per-function syntax/reference comparison across go/packages configurations; clang -E token comparison modulo BLST's rename table; build-constraint partition check",
}

NA_REASON = "rules for this property are not yet armed in this revision (see DESIGN.md §5); nothing is claimed until they are"


def main():
    claimed = sorted(rules_index.GO_RULES | {p for p in rules_index.C_RULES if p in rules_index.GO_RULES or p in getattr(rules_index, "C_ONLY", set())})
    checks = []
    for p in claimed:
        meta = rules_index.META[p]
        checks.append({
            "property_id": p,
            "quick_cmd": "./check %s quick" % p,
            "thorough_cmd": "./check %s thorough" % p,
            "evidence_file": "/verif/evidence/%s.json" % p,
            "replay_cmd_template": "./check replay {path}",
            "engine": "cryptolint",
            "level_claimed": {"category": "other", "text": LEVEL_TEXT[p], "design_ref": "DESIGN.md §5 " + p},
            "level_note": "Decides the structural clauses listed in the evidence `explanation`; NOT decided: " + "; ".join(meta["not_decided"] or ["-"]) +
                          ". Trusted: " + "; ".join(meta["trusted_base"][:3]) + (". Assumptions: " + "; ".join(meta["assumptions"]) if meta["assumptions"] else ""),
            "technique": "static analysis: " + TECH[p],
        })
    allp = ["C%02d" % i for i in range(1, 21)]
    na = [{"property_id": p, "reason": NA_REASON} for p in allp if p not in claimed]
    m = {
        "version": 1,
        "setup_cmd": "./setup.sh",
        "hooks": {"guard": "verif", "enable": "none needed: the checks only read /repo's sources (no instrumentation, nothing from /repo is executed)",
                  "baseline_off_cmd": "cd /repo && GOFLAGS=-mod=mod go test -vet=off -count=1 -timeout 25m ./...", "source_commits": [], "add_only": True},
        "engines": [
            {"name": "cryptolint", "path": "tools/cmd/cryptolint", "serves_properties": sorted(rules_index.GO_RULES),
             "kind_free_text": "Go: go/packages + go/ssa (x/tools v0.50.0): dominating-fact engine, symbolic length bounds + Go↔C contract table, locksets/effects, typestate path summaries, build-configuration closure"},
            {"name": "cast", "path": "driver/cast.py + driver/crules.py", "serves_properties": sorted(p for p in rules_index.C_RULES if p in claimed),
             "kind_free_text": "C: clang-14 JSON AST of the glue with the cgo flags, own CFG + dominators + must-facts, path enumeration, layout tables, clang -E comparison"},
        ],
        "checks": checks,
        "not_applicable": na,
        "notes": "All checks are static analyses of /repo's current working tree (family: static analysis). Known findings: known_findings.json. Mutant corpus: mutants/, seeded changes: seeded/.",
    }
    json.dump(m, open(os.path.join(VERIF, "MANIFEST.json"), "w"), indent=1)
    print("claimed:", claimed)


if __name__ == "__main__":
    main()
