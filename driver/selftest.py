"""Checker self-test: every stored mutant (one broken rule instance each, or a seeded change kept
under /verif/seeded) is applied to a scratch copy of /repo, *analysed only* (never built or run),
and must be reported by the named rule.  Header lines of a mutant patch:
    # property: C01
    # rule: C01.R1            (rule expected to fire; prefix match)
    # expect: bls_verify      (substring of the reported construct key; optional)
"""
import glob, json, os, re, shutil, subprocess, sys, tempfile

HERE = os.path.dirname(os.path.abspath(__file__))
VERIF = os.path.dirname(HERE)


def parse_header(path):
    h = {}
    for line in open(path, errors="replace"):
        m = re.match(r"#\s*(\w+):\s*(.*)", line)
        if m:
            h[m.group(1)] = m.group(2).strip()
        elif line.startswith("diff ") or line.startswith("--- "):
            break
    return h


def mutants_for(prop):
    out = []
    for p in sorted(glob.glob(os.path.join(VERIF, "mutants", "*", "*.patch"))):
        h = parse_header(p)
        if h.get("property") == prop:
            out.append((p, h))
    for d in sorted(glob.glob(os.path.join(VERIF, "seeded", "*"))):
        mp = os.path.join(d, "meta.json")
        if not os.path.exists(mp):
            continue
        m = json.load(open(mp))
        for det in m.get("detected_by", []):
            if det.get("property") == prop:
                out.append((os.path.join(d, "patch.diff"), {"property": prop, "rule": det["rule"], "expect": det.get("expect", ""), "seeded": os.path.basename(d)}))
    return out


def scratch_copy(repo="/repo"):
    d = tempfile.mkdtemp(prefix="verif_scratch_")
    dst = os.path.join(d, "repo")
    subprocess.run(["rsync", "-a", "--exclude", ".git", repo.rstrip("/") + "/", dst + "/"], check=True)
    return d, dst


def run_mutant(patch, h, baseline_keys=None):
    import check
    d, dst = scratch_copy()
    try:
        r = subprocess.run(["git", "apply", "--unsafe-paths", "--directory=" + dst, patch], cwd="/", stdout=subprocess.PIPE, stderr=subprocess.STDOUT, text=True)
        if r.returncode != 0:
            r = subprocess.run(["patch", "-p1", "-s", "-i", patch], cwd=dst, stdout=subprocess.PIPE, stderr=subprocess.STDOUT, text=True)
        if r.returncode != 0:
            return {"name": os.path.basename(patch), "patch": patch, "rule": h.get("rule", "?"), "detected": False, "why": "patch does not apply: " + r.stdout[-300:]}
        import cast
        obls, floors, stats, notes = check.analyse(h["property"], "quick", repo=dst)
        cast._cache.pop((dst, "adx"), None)
        hits = [o for o in obls if o["status"] in ("violation", "undecided") and o["rule"].startswith(h.get("rule", ""))
                and (not h.get("expect") or h["expect"] in o["key"] or h["expect"] in o["detail"])]
        if baseline_keys is not None:
            hits = [o for o in hits if (o["rule"], o["key"]) not in baseline_keys]
        others = [o for o in obls if o["status"] in ("violation", "undecided") and not o["rule"].startswith(h.get("rule", ""))
                  and (baseline_keys is None or (o["rule"], o["key"]) not in baseline_keys)]
        return {"name": h.get("seeded") or os.path.basename(patch), "patch": os.path.relpath(patch, VERIF), "rule": h.get("rule", "?"),
                "detected": bool(hits), "reported": ["%s %s @%s" % (o["rule"], o["key"], o["where"]) for o in hits][:4],
                "other_rules_fired": sorted({o["rule"] for o in others}),
                "why": "" if hits else "no new violation of %s matching `%s`" % (h.get("rule"), h.get("expect", ""))}
    finally:
        shutil.rmtree(d, ignore_errors=True)


def baseline(prop):
    import check
    obls, _, _, _ = check.analyse(prop, "quick")
    return {(o["rule"], o["key"]) for o in obls if o["status"] in ("violation", "undecided")}


def run_for(prop):
    ms = mutants_for(prop)
    if not ms:
        return []
    base = baseline(prop)
    import concurrent.futures as cf
    workers = int(os.environ.get("VERIF_JOBS", "8"))
    with cf.ProcessPoolExecutor(max_workers=workers) as ex:
        return list(ex.map(_run_one, [(p, h, base) for p, h in ms]))


def _run_one(a):
    return run_mutant(*a)


def main(argv):
    import check
    check.build_tool()
    props = argv or sorted({parse_header(p).get("property") for p in glob.glob(os.path.join(VERIF, "mutants", "*", "*.patch"))} |
                           {det["property"] for d in glob.glob(os.path.join(VERIF, "seeded", "*", "meta.json")) for det in json.load(open(d)).get("detected_by", [])})
    bad = 0
    for prop in props:
        if not prop:
            continue
        for m in run_for(prop):
            print("%s %-8s %-40s %s %s" % ("DETECTED" if m["detected"] else "MISSED  ", m["rule"], m["name"], ";".join(m.get("reported", []))[:160], ("(also: %s)" % ",".join(m["other_rules_fired"])) if m.get("other_rules_fired") else ""))
            if not m["detected"]:
                bad += 1
    return 1 if bad else 0
