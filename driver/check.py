#!/usr/bin/env python3
"""Driver: runs the static rules of one property against /repo's current working tree,
applies the known-findings file, writes evidence/<id>.json and prints the verdict lines.

usage: check.py <property-id> quick|thorough
       check.py replay <replay-file>
       check.py selftest [<property-id>]
"""
import json, os, subprocess, sys, time, shutil, tempfile, hashlib

HERE = os.path.dirname(os.path.abspath(__file__))
VERIF = os.path.dirname(HERE)
REPO = os.environ.get("VERIF_REPO", "/repo")
BIN = os.path.join(VERIF, "bin", "cryptolint")
GOROOT_BIN = "/opt/veriftools/go1.26.8/bin"

sys.path.insert(0, HERE)


def goenv():
    env = dict(os.environ)
    env["PATH"] = GOROOT_BIN + ":" + env.get("PATH", "")
    env["GOTOOLCHAIN"] = "local"
    env["GOFLAGS"] = "-mod=mod"
    env["GOPROXY"] = "off"
    env.pop("GOWORK", None)
    env.pop("GOSUMDB", None)
    return env


def build_tool():
    src = os.path.join(VERIF, "tools")
    r = subprocess.run(["go", "build", "-o", BIN, "./cmd/cryptolint"], cwd=src, env=goenv(),
                       stdout=subprocess.PIPE, stderr=subprocess.STDOUT, text=True)
    if r.returncode != 0:
        print(r.stdout)
        raise SystemExit("building cryptolint failed")


def run_go(prop, tier, repo=REPO, config="default"):
    out = tempfile.NamedTemporaryFile(prefix="cl_%s_" % prop, suffix=".json", delete=False)
    out.close()
    cmd = [BIN, "-repo", repo, "-prop", prop, "-tier", tier, "-config", config, "-out", out.name]
    r = subprocess.run(cmd, env=goenv(), stdout=subprocess.PIPE, stderr=subprocess.PIPE, text=True)
    try:
        data = json.load(open(out.name))
    except Exception as e:
        data = {"property": prop, "obligations": [
            {"rule": prop + ".engine", "key": "go-engine", "status": "undecided", "where": "?",
             "detail": "Go engine produced no result: %s %s" % (e, r.stderr[-2000:])}], "floors": {}, "stats": {}}
    os.unlink(out.name)
    if data.get("obligations") is None:
        data["obligations"] = []
    return data


# which engines serve which property
GO_PROPS = {"C01", "C02", "C03", "C04", "C05", "C06", "C07", "C08", "C09", "C10", "C11", "C12", "C13", "C14",
            "C15", "C16", "C17", "C18", "C19", "C20"}
C_PROPS = {"C01", "C02", "C03", "C04", "C05", "C06", "C07", "C08", "C09", "C12", "C17", "C19", "C20"}


def load_known():
    p = os.path.join(VERIF, "known_findings.json")
    if not os.path.exists(p):
        return []
    return json.load(open(p))


def run_go_many(props, tier, repo=REPO):
    """one load of the program, several properties: {prop: result}"""
    out = tempfile.NamedTemporaryFile(prefix="cl_many_", suffix=".json", delete=False)
    out.close()
    cmd = [BIN, "-repo", repo, "-prop", ",".join(props) + ",", "-tier", tier, "-out", out.name]   # trailing comma: always the multi-property output format
    r = subprocess.run(cmd, env=goenv(), stdout=subprocess.PIPE, stderr=subprocess.PIPE, text=True)
    try:
        data = json.load(open(out.name))
    except Exception as e:
        data = {}
    os.unlink(out.name)
    res = {}
    for p_ in props:
        d = data.get(p_)
        if d is None:
            d = {"property": p_, "obligations": [
                {"rule": p_ + ".engine", "key": "go-engine", "status": "undecided", "where": "?",
                 "detail": "Go engine produced no result: %s" % r.stderr[-1000:]}], "floors": {}, "stats": {}}
        if d.get("obligations") is None:
            d["obligations"] = []
        res[p_] = d
    return res


def analyse_many(props, repo=REPO):
    """quick-tier analysis of several properties sharing one program load / one C AST: {prop: obligations}"""
    import rules_index
    pre = run_go_many([p_ for p_ in props if p_ in rules_index.GO_RULES], "quick", repo)
    return {p_: analyse(p_, "quick", repo, pre_go=pre.get(p_))[0] for p_ in props}


def analyse(prop, tier, repo=REPO, pre_go=None):
    """returns (obligations, floors, stats, notes)"""
    obls, floors, stats, notes = [], {}, {}, []
    import rules_index
    go_on = prop in rules_index.GO_RULES
    c_on = prop in rules_index.C_RULES
    if go_on:
        cfgs = ["default"]
        if tier == "thorough":
            cfgs += rules_index.EXTRA_CONFIGS.get(prop, [])
        for cfg in cfgs:
            d = pre_go if (pre_go is not None and cfg == "default") else run_go(prop, tier, repo, cfg)
            for o in d["obligations"]:
                if cfg != "default":
                    o["key"] = o["key"] + "@" + cfg
                    o["config"] = cfg
                obls.append(o)
            if cfg == "default":
                floors.update(d.get("floors") or {})
            for k, v in (d.get("stats") or {}).items():
                stats[k + ("" if cfg == "default" else "@" + cfg)] = v
            notes += d.get("notes") or []
    if c_on:
        import crules
        flagsets = ["adx"]
        if tier == "thorough":
            flagsets.append("portable")
        for fl in flagsets:
            d = crules.run(prop, repo, fl, tier)
            for o in d["obligations"]:
                if fl != "adx":
                    o["key"] = o["key"] + "@" + fl
                    o["config"] = fl
                obls.append(o)
            if fl == "adx":
                floors.update(d.get("floors") or {})
            for k, v in (d.get("stats") or {}).items():
                stats[k + ("" if fl == "adx" else "@" + fl)] = v
            notes += d.get("notes") or []
    if not go_on and not c_on:
        obls.append({"rule": prop + ".none", "key": "no-rules", "status": "undecided", "where": "?",
                     "detail": "no rules registered for this property"})
    # vacuity guard
    counts = {}
    for o in obls:
        if o.get("config"):
            continue
        counts[o["rule"]] = counts.get(o["rule"], 0) + 1
    for rule, fl in floors.items():
        if counts.get(rule, 0) < fl:
            obls.append({"rule": rule, "key": "floor", "status": "undecided", "where": "?",
                         "detail": "rule matched %d constructs, fewer than the %d confirmed by hand: the rule may have gone vacuous (anchors moved?)" % (counts.get(rule, 0), fl)})
    return obls, floors, stats, notes


def verdict(prop, tier, obls, known):
    """split into ok / known / new violations"""
    kn = [k for k in known if k.get("property") == prop and k.get("status") == "known"]
    new, hit, oks, infos = [], [], [], []
    for o in obls:
        if o["status"] == "ok":
            oks.append(o)
        elif o["status"] == "info":
            infos.append(o)
        else:
            base_key = o["key"].split("@")[0]
            m = [k for k in kn if k["rule"] == o["rule"] and k["key"] == base_key]
            if m and o["status"] == "violation":
                hit.append((o, m[0]))
            else:
                new.append(o)
    return oks, infos, hit, new


def main():
    if len(sys.argv) >= 2 and sys.argv[1] == "benign":
        import benign
        sys.exit(benign.main(sys.argv[2:]))
    if len(sys.argv) >= 2 and sys.argv[1] == "selftest":
        import selftest
        sys.exit(selftest.main(sys.argv[2:]))
    if len(sys.argv) >= 3 and sys.argv[1] == "replay":
        rp = json.load(open(sys.argv[2]))
        prop, tier = rp["property"], rp.get("tier", "quick")
        only = (rp["rule"], rp["key"])
    else:
        prop, tier = sys.argv[1], (sys.argv[2] if len(sys.argv) > 2 else os.environ.get("VERIF_TIER", "quick"))
        only = None
    seed = int(os.environ.get("VERIF_SEED", "0") or 0)
    t0 = time.time()
    build_tool()
    obls, floors, stats, notes = analyse(prop, tier)
    mutants = None
    if tier == "thorough" and only is None:
        import selftest
        mutants = selftest.run_for(prop)
        for m in mutants:
            if not m["detected"]:
                obls.append({"rule": m["rule"], "key": "selftest:" + m["name"], "status": "undecided", "where": m["patch"],
                             "detail": "checker self-test: stored mutant was NOT reported by its rule (rule lost its teeth): " + m.get("why", "")})
    known = load_known()
    oks, infos, hit, new = verdict(prop, tier, obls, known)
    if only is not None:
        new = [o for o in new if (o["rule"], o["key"]) == only]
    os.makedirs(os.path.join(VERIF, "evidence", "replay"), exist_ok=True)
    lines = []
    for o, k in hit:
        lines.append("KNOWN-FINDING: property=%s %s [%s %s at %s]" % (prop, k["what"], o["rule"], o["key"], o["where"]))
    nrep = 0
    for o in new:
        nrep += 1
        rp = os.path.join(VERIF, "evidence", "replay", "%s-%d.json" % (prop, nrep))
        json.dump({"property": prop, "tier": tier, "rule": o["rule"], "key": o["key"], "where": o["where"],
                   "status": o["status"], "detail": o["detail"], "facts": o.get("facts"),
                   "replay": "./check replay " + rp}, open(rp, "w"), indent=1)
        kind = "violation" if o["status"] == "violation" else "UNDECIDED (treated as failure)"
        lines.append("  %s %s %s at %s: %s" % (kind, o["rule"], o["key"], o["where"], o["detail"]))
        lines.append("VIOLATION property=%s replay=%s" % (prop, rp))
    wall = time.time() - t0
    import rules_index
    meta = rules_index.META.get(prop, {})
    n_obl = len(oks) + len(hit) + len(new)
    samples = []
    seen_rules = set()
    for o in oks:
        if o["rule"] not in seen_rules and len(samples) < 12:
            seen_rules.add(o["rule"])
            samples.append({"rule": o["rule"], "construct": o["key"], "where": o["where"], "verdict": "ok",
                            "why": o["detail"], "dominating_facts": (o.get("facts") or [])[:8]})
    for o, k in hit:
        samples.append({"rule": o["rule"], "construct": o["key"], "where": o["where"], "verdict": "known-finding", "why": o["detail"]})
    for o in new[:10]:
        samples.append({"rule": o["rule"], "construct": o["key"], "where": o["where"], "verdict": o["status"], "why": o["detail"]})
    per_rule = {}
    for o in obls:
        d = per_rule.setdefault(o["rule"], {"ok": 0, "violation": 0, "undecided": 0, "info": 0})
        d[o["status"]] = d.get(o["status"], 0) + 1
    ev = {
        "property_id": prop, "tier": tier, "seed": seed, "level": "other",
        "coverage": {
            "explanation": meta.get("explanation", ""),
            "obligations": n_obl,
            "discharged": len(oks),
            "known_findings_hit": [{"rule": o["rule"], "key": o["key"], "where": o["where"], "what": k["what"]} for o, k in hit],
            "new_violations": len([o for o in new if o["status"] == "violation"]),
            "undecided": len([o for o in new if o["status"] == "undecided"]),
            "per_rule": per_rule,
            "instance_floors": floors,
            "analysed": stats,
            "evaluations": n_obl,
            "distinct_nontrivial": len({(o["rule"], o["key"]) for o in oks + [h[0] for h in hit] + new}),
            "rule": "one obligation per (rule, construct key); constructs are located by role/type in the type-checked program and the C AST, never by line",
            "samples": samples,
            "not_decided": meta.get("not_decided", []),
            "reviewed_exceptions": [{"rule": o["rule"], "key": o["key"], "where": o["where"], "reason": o["detail"]} for o in infos],
            "checker_cmd": "./check %s %s" % (prop, tier),
            "trusted_base": meta.get("trusted_base", []),
            "exhaustive": False,
        },
        "assumptions": meta.get("assumptions", []),
        "wall_s": round(wall, 2),
        "violations": len(new),
    }
    if mutants is not None:
        ev["coverage"]["selftest_mutants"] = mutants
    if notes:
        ev["coverage"]["notes"] = notes
    if only is None:
        json.dump(ev, open(os.path.join(VERIF, "evidence", "%s.json" % prop), "w"), indent=1)
    print("property %s tier %s: %d obligations, %d discharged, %d known findings, %d new (%.1fs)" %
          (prop, tier, n_obl, len(oks), len(hit), len(new), wall))
    for r in sorted(per_rule):
        print("  %-10s %s" % (r, per_rule[r]))
    for l in lines:
        print(l)
    sys.exit(1 if new else 0)


if __name__ == "__main__":
    main()
