package main

import (
	"go/token"
	"sort"
	"strings"

	"golang.org/x/tools/go/ssa"
)

// Entry-relative queries: rules anchor on an exported entry point and locate the sink (a library
// call, a cgo call, a return) wherever it sits in the module functions the entry calls, instead of
// naming the internal helper that holds it today. Values and guards are expressed in the entry's
// own vocabulary by substituting parameters with the arguments along the call chain.

type deepSite struct {
	ins   ssa.Instruction
	chain []*ssa.Call // chain[i] is the call in function i (entry = 0) that enters function i+1
}

func (s deepSite) fn() *ssa.Function { return s.ins.Parent() }

// deepSites finds instructions satisfying pred in entry and in the module functions it calls
// statically (depth-limited, each function once per chain).
func (w *World) deepSites(entry *ssa.Function, pred func(ssa.Instruction) bool, maxDepth int) []deepSite {
	var out []deepSite
	var walk func(fn *ssa.Function, chain []*ssa.Call, on map[*ssa.Function]bool)
	walk = func(fn *ssa.Function, chain []*ssa.Call, on map[*ssa.Function]bool) {
		if on[fn] || len(chain) > maxDepth {
			return
		}
		on[fn] = true
		defer delete(on, fn)
		instrsFlat(fn, func(ins ssa.Instruction) {
			if pred(ins) {
				out = append(out, deepSite{ins, append([]*ssa.Call(nil), chain...)})
			}
			if c, ok := ins.(*ssa.Call); ok {
				if callee := c.Call.StaticCallee(); callee != nil && inModule(callee) && callee.Blocks != nil {
					if _, isCgo := cgoName(callee); !isCgo {
						walk(callee, append(chain, c), on)
					}
				}
			}
		})
	}
	walk(entry, nil, map[*ssa.Function]bool{})
	return out
}

// substParams rewrites an expression over callee's parameter names into the caller's vocabulary:
// simultaneous replacement of parameter identifiers (not selectors after '.', not function names).
func substParams(expr string, callee *ssa.Function, c *ssa.CallCommon) string {
	repl := map[string]string{}
	for i, p := range callee.Params {
		if i < len(c.Args) && render(p) == p.Name() {
			repl[p.Name()] = render(c.Args[i])
		}
	}
	if len(repl) == 0 {
		return expr
	}
	var b strings.Builder
	for i := 0; i < len(expr); {
		ch := expr[i]
		if ch == '_' || ch >= 'a' && ch <= 'z' || ch >= 'A' && ch <= 'Z' || ch >= 0x80 {
			j := i
			for j < len(expr) && isIdentChar(expr[j]) {
				j++
			}
			id := expr[i:j]
			sel := i > 0 && expr[i-1] == '.'
			call := j < len(expr) && expr[j] == '('
			// &heap:name, free:name, func:name, closure:name, dyn:name denote objects, not parameters; the ':' of a
			// slice expression x[lo:hi] does not
			colon := false
			if i > 0 && expr[i-1] == ':' {
				for _, pre := range []string{"heap:", "free:", "func:", "closure:", "dyn:", "local:"} {
					if strings.HasSuffix(expr[:i], pre) && (i == len(pre) || !isIdentChar(expr[i-len(pre)-1])) {
						colon = true
					}
				}
			}
			if r, ok := repl[id]; ok && !sel && !call && !colon {
				b.WriteString(r)
			} else {
				b.WriteString(id)
			}
			i = j
			continue
		}
		b.WriteByte(ch)
		i++
	}
	return b.String()
}

// up maps an expression rendered inside the site's function to the entry's vocabulary.
func (s deepSite) up(expr string) string {
	for i := len(s.chain) - 1; i >= 0; i-- {
		expr = substParams(expr, s.chain[i].Call.StaticCallee(), &s.chain[i].Call)
	}
	return expr
}

func (s deepSite) upFrom(level int, expr string) string {
	for i := level - 1; i >= 0; i-- {
		expr = substParams(expr, s.chain[i].Call.StaticCallee(), &s.chain[i].Call)
	}
	return expr
}

// enter: make the site's call chain the current context of the virtual inliner (parameter rendering,
// context facts of extracted helpers follow enteredBy)
func (s deepSite) enter() {
	for _, c := range s.chain {
		if h := helperCallee(c); h != nil {
			enteredBy[h] = c
		}
	}
}

// render a value of the site's function in the entry's vocabulary
func (s deepSite) render(v ssa.Value) string { s.enter(); return s.up(render(v)) }

// facts: guards dominating the site in its own function and, for every call on the chain, the
// guards dominating that call — all in the entry's vocabulary.
func (w *World) deepFacts(s deepSite) []string {
	s.enter()
	seen := map[string]bool{}
	var out []string
	add := func(level int, ins ssa.Instruction) {
		for _, f := range w.factsAt(ins) {
			x := s.upFrom(level, f.Expr)
			if !seen[x] {
				seen[x] = true
				out = append(out, x)
			}
		}
	}
	add(len(s.chain), s.ins)
	for i, c := range s.chain {
		add(i, c)
	}
	sort.Strings(out)
	return out
}

// returnsAll: the Return instructions that produce fn's results, following `return g(args)` tail
// calls into any module function (the chain records how we got there).
func (w *World) returnsAll(entry *ssa.Function) []deepSite {
	var out []deepSite
	var walk func(fn *ssa.Function, chain []*ssa.Call)
	walk = func(fn *ssa.Function, chain []*ssa.Call) {
		for _, r := range returnsFlat(fn) {
			if c := tailCall(r); c != nil && len(chain) < 4 {
				if callee := c.Call.StaticCallee(); callee != nil && inModule(callee) && callee.Blocks != nil {
					if _, isCgo := cgoName(callee); !isCgo {
						walk(callee, append(append([]*ssa.Call(nil), chain...), c))
						continue
					}
				}
			}
			out = append(out, deepSite{r, chain})
		}
	}
	walk(entry, nil)
	return out
}

func returnsFlat(fn *ssa.Function) []*ssa.Return {
	var out []*ssa.Return
	for _, r := range returnsD(fn, 99) { // depth ≥ limit: no helper expansion
		out = append(out, r)
	}
	return out
}

// tailCall: the call whose results this return hands on unchanged.
func tailCall(r *ssa.Return) *ssa.Call {
	var call *ssa.Call
	for i, v := range r.Results {
		var c *ssa.Call
		switch x := v.(type) {
		case *ssa.Call:
			if len(r.Results) != 1 {
				return nil
			}
			c = x
		case *ssa.Extract:
			cc, ok := x.Tuple.(*ssa.Call)
			if !ok || x.Index != i {
				return nil
			}
			c = cc
		default:
			return nil
		}
		if call != nil && c != call {
			return nil
		}
		call = c
	}
	return call
}

// bigIntSource: the byte-slice expression a *big.Int value was filled from (SetBytes), rendered in
// the vocabulary of fn's caller chain given by `s` (nil chain = fn's own vocabulary). Follows
// locals (var r big.Int; r.SetBytes(x)), new(big.Int).SetBytes(x), results of module helpers and
// parameters bound along the chain.
func (w *World) bigIntSource(v ssa.Value, s deepSite, level int, depth int) (string, bool) {
	if depth > 6 {
		return "", false
	}
	v = stripConv(v)
	switch x := v.(type) {
	case *ssa.Alloc:
		var src string
		n := 0
		for _, ref := range *x.Referrers() {
			c, ok := ref.(*ssa.Call)
			if !ok {
				continue
			}
			f := c.Call.StaticCallee()
			if f == nil {
				continue
			}
			switch f.String() {
			case "(*math/big.Int).SetBytes":
				if len(c.Call.Args) == 2 && c.Call.Args[0] == ssa.Value(x) {
					src = s.upFrom(level, render(c.Call.Args[1]))
					n++
				}
			case "(*math/big.Int).Set", "(*math/big.Int).SetInt64", "(*math/big.Int).SetUint64", "(*math/big.Int).SetString", "(*math/big.Int).Add", "(*math/big.Int).Sub", "(*math/big.Int).Mod", "(*math/big.Int).Mul", "(*math/big.Int).Neg", "(*math/big.Int).Rsh", "(*math/big.Int).Lsh", "(*math/big.Int).SetBit", "(*math/big.Int).FillBytes":
				if len(c.Call.Args) > 0 && c.Call.Args[0] == ssa.Value(x) && f.String() != "(*math/big.Int).FillBytes" {
					return "", false // the integer is modified by something else than SetBytes
				}
			}
		}
		if n == 1 {
			return src, true
		}
		return "", false
	case *ssa.Call:
		f := x.Call.StaticCallee()
		if f != nil && f.String() == "(*math/big.Int).SetBytes" && len(x.Call.Args) == 2 {
			if al, ok := stripConv(x.Call.Args[0]).(*ssa.Alloc); ok {
				// fresh integer: only this SetBytes may write it
				for _, ref := range *al.Referrers() {
					if c, ok := ref.(*ssa.Call); ok && c != x {
						if g := c.Call.StaticCallee(); g != nil && strings.HasPrefix(g.String(), "(*math/big.Int).Set") && len(c.Call.Args) > 0 && c.Call.Args[0] == ssa.Value(al) {
							return "", false
						}
					}
				}
				return s.upFrom(level, render(x.Call.Args[1])), true
			}
			return "", false
		}
		if f != nil && inModule(f) && f.Blocks != nil && f.Signature.Results().Len() == 1 {
			return w.helperBigInt(x, 0, s, level, depth)
		}
	case *ssa.Extract:
		if c, ok := x.Tuple.(*ssa.Call); ok {
			if f := c.Call.StaticCallee(); f != nil && inModule(f) && f.Blocks != nil {
				return w.helperBigInt(c, x.Index, s, level, depth)
			}
		}
	case *ssa.Parameter:
		// bound by the call that entered this function
		if level > 0 && level <= len(s.chain) {
			c := s.chain[level-1]
			idx := paramIndex(x.Parent(), x)
			if idx >= 0 && idx < len(c.Call.Args) {
				return w.bigIntSource(c.Call.Args[idx], s, level-1, depth+1)
			}
		}
	case *ssa.Phi:
		var srcs []string
		for _, e := range x.Edges {
			r, ok := w.bigIntSource(e, s, level, depth+1)
			if !ok {
				return "", false
			}
			srcs = append(srcs, r)
		}
		sort.Strings(srcs)
		srcs = uniq(srcs)
		if len(srcs) == 1 {
			return srcs[0], true
		}
	}
	return "", false
}

// helperBigInt: result idx of a module helper call, when every return that yields a non-nil value
// for it fills the integer from the same bytes (in the caller's vocabulary).
func (w *World) helperBigInt(c *ssa.Call, idx int, s deepSite, level int, depth int) (string, bool) {
	f := c.Call.StaticCallee()
	var srcs []string
	if isNewHelper(f) {
		// the helper is looked at through this call: its parameters stand for this call's arguments
		if old, had := enteredBy[f]; had {
			defer func() { enteredBy[f] = old }()
		} else {
			defer delete(enteredBy, f)
		}
		enteredBy[f] = c
	}
	for _, r := range returnsFlat(f) {
		if idx >= len(r.Results) {
			return "", false
		}
		if isNilConst(r.Results[idx]) {
			continue
		}
		inner, ok := w.bigIntSource(r.Results[idx], deepSite{ins: r}, 0, depth+1)
		if !ok {
			return "", false
		}
		srcs = append(srcs, s.upFrom(level, substParams(inner, f, &c.Call)))
	}
	sort.Strings(srcs)
	srcs = uniq(srcs)
	if len(srcs) == 1 {
		return srcs[0], true
	}
	return "", false
}

// sliceParts splits a rendered slice expression `X[lo:hi]` (top-level, last bracket pair).
func sliceParts(s string) (base, lo, hi string, ok bool) {
	if !strings.HasSuffix(s, "]") {
		return
	}
	depth := 0
	open := -1
	for i := len(s) - 1; i >= 0; i-- {
		switch s[i] {
		case ']', ')':
			depth++
		case '(':
			depth--
		case '[':
			depth--
			if depth == 0 {
				open = i
			}
		}
		if open >= 0 {
			break
		}
	}
	if open < 0 {
		return
	}
	inner := s[open+1 : len(s)-1]
	d := 0
	colon := -1
	for i := 0; i < len(inner); i++ {
		switch inner[i] {
		case '(', '[':
			d++
		case ')', ']':
			d--
		case ':':
			if d == 0 && colon < 0 {
				colon = i
			}
		}
	}
	if colon < 0 {
		return
	}
	return s[:open], inner[:colon], inner[colon+1:], true
}

// sameHalf: does `got` denote base[lo:hi] given that len(base) == total is known? Bounds are
// compared after normalisation: "" low = 0; "" high = len(base) = total.
func sameHalf(got, base, lo, hi, total string, lenKnown bool) bool {
	b, l, h, ok := sliceParts(got)
	if !ok || b != base {
		return false
	}
	norm := func(x string, isHi bool) string {
		x = strings.TrimSpace(x)
		if x == "" {
			if isHi {
				return "len"
			}
			return "0"
		}
		if isHi && (x == "len("+base+")" || lenKnown && x == total) {
			return "len"
		}
		return x
	}
	return norm(l, false) == norm(lo, false) && norm(h, true) == norm(hi, true)
}

var _ = token.NoPos

// deepSitesHelpers: like deepSites, but descends only into helpers the rules do not know (vinline.go):
// the sites a function has "as if the helpers were inlined", one per call chain.
func (w *World) deepSitesHelpers(entry *ssa.Function, pred func(ssa.Instruction) bool) []deepSite {
	var out []deepSite
	var walk func(fn *ssa.Function, chain []*ssa.Call)
	walk = func(fn *ssa.Function, chain []*ssa.Call) {
		if len(chain) > 3 {
			return
		}
		instrsFlat(fn, func(ins ssa.Instruction) {
			if pred(ins) {
				out = append(out, deepSite{ins, append([]*ssa.Call(nil), chain...)})
			}
			if c, ok := ins.(*ssa.Call); ok {
				if h := helperCallee(c); h != nil {
					enteredBy[h] = c
					walk(h, append(chain, c))
				}
			}
		})
	}
	walk(entry, nil)
	return out
}
