package main

import (
	"fmt"
	"go/token"
	"go/types"
	"strings"

	"golang.org/x/tools/go/ssa"
)

// ---------- shared anchors (resolved by role) ----------

type blsAnchors struct {
	pubT, prT          *types.Named
	flagField, ptFld   string // identity flag and point field of the public key struct
	sigLen, pkLen      int64
	hashLen            int64
	valid, invalid     int64
	verify, sign       *ssa.Function
	checkHasher        *ssa.Function
	isInfinity, isZero *ssa.Function
}

func (w *World) bls(rule string) *blsAnchors {
	a := &blsAnchors{}
	a.pubT = w.blsKeyType("PublicKey")
	a.prT = w.blsKeyType("PrivateKey")
	if a.pubT == nil || a.prT == nil {
		w.undecided(rule, "anchor:bls-key-types", token.NoPos, "unresolved anchor: no implementation of PublicKey/PrivateKey whose Algorithm() returns BLSBLS12381")
		return nil
	}
	bf := boolFieldNames(a.pubT)
	if len(bf) > 1 {
		// several boolean fields: the identity flag is the one written from the infinity / zero predicate (by name when
		// the key type gained other cached booleans)
		var ids []string
		for _, n := range bf {
			if strings.Contains(strings.ToLower(n), "identity") || strings.Contains(strings.ToLower(n), "infinity") {
				ids = append(ids, n)
			}
		}
		if len(ids) == 1 {
			bf = ids
		}
	}
	if len(bf) != 1 {
		w.undecided(rule, "anchor:identity-flag", a.pubT.Obj().Pos(), fmt.Sprintf("unresolved anchor: expected exactly one bool field in %s, found %v", a.pubT.Obj().Name(), bf))
		return nil
	}
	a.flagField = bf[0]
	for _, f := range structFields(a.pubT) {
		if !isBool(f.Type()) {
			if _, ok := f.Type().Underlying().(*types.Struct); ok {
				a.ptFld = f.Name()
			}
		}
	}
	var ok1, ok2, ok3, ok4, ok5 bool
	a.sigLen, ok1 = w.constInt(rootPath, "SignatureLenBLSBLS12381")
	a.pkLen, ok2 = w.constInt(rootPath, "PubKeyLenBLSBLS12381")
	a.hashLen, ok3 = w.constInt(rootPath, "expandMsgOutput")
	a.valid, ok4 = w.constInt(rootPath, "valid")
	a.invalid, ok5 = w.constInt(rootPath, "invalid")
	if !(ok1 && ok2 && ok3 && ok4 && ok5) || a.ptFld == "" {
		w.undecided(rule, "anchor:bls-constants", token.NoPos, "unresolved anchor: BLS length/verdict constants")
		return nil
	}
	a.verify = w.method(a.pubT, "Verify")
	a.sign = w.method(a.prT, "Sign")
	a.checkHasher = w.fn(rootPath, "checkBLSHasher")
	if a.verify == nil || a.sign == nil {
		w.undecided(rule, "anchor:Verify/Sign", token.NoPos, "unresolved anchor: BLS Verify/Sign methods")
		return nil
	}
	return a
}

// hasherGuardFn finds the function used to validate a hasher: the module function that takes a
// hash.Hasher, returns error, and is called by BLS Verify before ComputeHash.
func (w *World) hasherGuard(a *blsAnchors, rule string) *ssa.Function {
	var cand *ssa.Function
	instrs(a.verify, func(ins ssa.Instruction) {
		if c, ok := ins.(*ssa.Call); ok {
			f := c.Call.StaticCallee()
			if f != nil && inModule(f) && len(f.Params) == 1 && f.Signature.Results().Len() == 1 && isErrorType(f.Signature.Results().At(0).Type()) {
				if strings.HasSuffix(typeShort(f.Params[0].Type()), "Hasher") {
					cand = f
				}
			}
		}
	})
	return cand // nil when the validation is inlined: the rules then rely on the direct facts
}

// ruleHasherGuardBody: the helper returns nil only when hasher != nil and Size() == expandMsgOutput.
func (w *World) ruleHasherGuardBody(rule string, a *blsAnchors, g *ssa.Function) {
	h := P(g, 0)
	n := 0
	for _, r := range returns(g) {
		if isNilConst(r.Results[0]) {
			n++
			w.requireFacts(rule, fnKey(g)+"/return-nil", r, h+" != nil", fmt.Sprintf("%s.Size() == %d", h, a.hashLen))
		}
	}
	if n == 0 {
		w.viol(rule, fnKey(g)+"/return-nil", g.Pos(), "hasher guard never returns nil")
	}
	// error classes on the failing edges
	for _, r := range returns(g) {
		fs := w.factsAt(r)
		if hasFact(fs, h+" == nil") {
			w.check(w.errClass(r.Results[0]) == "sentinel:errNilHasher", rule, fnKey(g)+"/nil-hasher-error", r.Pos(),
				"nil hasher yields errNilHasher", "nil hasher does not yield errNilHasher: "+w.errClass(r.Results[0]))
		}
		if _, ok := hasFactPrefix(fs, h+".Size() != "); ok {
			w.check(w.errClass(r.Results[0]) == "ctor:invalidHasherSizeErrorf", rule, fnKey(g)+"/size-error", r.Pos(),
				"wrong size yields invalidHasherSizeError", "wrong hasher size does not yield invalidHasherSizeError: "+w.errClass(r.Results[0]))
		}
	}
}

// ---------- C01 ----------

func init() {
	register("C01", ruleC01)
	register("C02", ruleC02)
	register("C03", ruleC03)
	register("C04", ruleC04)
	register("C16", ruleC16)
	register("C17", ruleC17)
}

func ruleC01(w *World) {
	a := w.bls("C01.R2")
	if a == nil {
		return
	}
	w.floor("C01.R2", 8)
	w.floor("C01.R3", 2)
	w.floor("C01.R4", 4)
	g := w.hasherGuard(a, "C01.R2")
	if g != nil {
		w.ruleHasherGuardBody("C01.R2", a, g)
	}
	w.ruleVerifyGuards("C01.R2", a, g)
	w.ruleSignGuards("C01.R2", a, g)
	w.ruleVerdictProvenance("C01.R3", a.verify, "bls_verify", a)
	// R10: a signature handed to the caller is the caller's own value
	w.floor("C01.R10", 1)
	w.ruleFreshResult("C01.R10", a.sign, 0, "signature")
	w.ruleIdentityFlag("C01.R4", a)
	// R16: the hasher Sign / Verify are handed is a function of (key, message): KMAC's ComputeHash works on a clone that
	// is reset and re-keyed, Reset re-absorbs the key block into the object's own state (= C13.R2 call sequences)
	w.floor("C01.R16", 3)
	w.ruleKmacSequences("C01.R16")
	w.floor("C01.R13", 1)
	w.ruleSigContent("C01.R13", a.verify, 1)
	// R15: hashing a message only reads it: no ComputeHash / Write of the hash package writes memory reachable from its
	// byte-slice argument (an append onto the message writes into the caller's array when it has spare capacity — the
	// bytes that follow the message in a framed packet `msg ‖ sig` are the signature about to be verified)
	w.floor("C01.R15", 4)
	{
		ea := w.effects()
		for _, fn := range w.srcFuncs(hashPath) {
			if isTestFile(w, fn.Pos()) || fn.Signature.Recv() == nil || (fn.Name() != "ComputeHash" && fn.Name() != "Write") {
				continue
			}
			bad, at := w.argumentWrite(ea, fn)
			pos := fn.Pos()
			if bad != "" {
				pos = at
			}
			w.check(bad == "", "C01.R15", fnKey(fn)+"/message-read-only", pos, "the message argument is only read", fn.Name()+": "+bad+" — hashing changes the caller's memory next to the message (the signature of a framed packet, the next record of a batch)")
		}
	}
	// R5: the domain tag and ciphersuite are folded into the KMAC key and reach the hash unmodified
	w.floor("C01.R5", 4)
	w.ruleKmacInitBlock("C01.R5")
	if ctor := w.fn(rootPath, "NewExpandMsgXOFKMAC128"); ctor != nil {
		suite, _ := w.constStr(rootPath, "blsSigCipherSuite")
		for _, r := range returns(ctor) {
			s := render(r.Results[0])
			w.check(strings.Contains(s, fmt.Sprintf("(%s + %q)", P(ctor, 0), suite)), "C01.R5", fnKey(ctor)+"/key", r.Pos(), "hasher key = domainTag ‖ signature ciphersuite", "signature hasher is not keyed with domainTag ‖ ciphersuite: "+s)
		}
	} else {
		w.undecided("C01.R5", "anchor:NewExpandMsgXOFKMAC128", token.NoPos, "unresolved anchor")
	}
}

func (w *World) ruleVerifyGuards(rule string, a *blsAnchors, g *ssa.Function) {
	fn := a.verify
	sites := cgoCalls(fn, "bls_verify")
	if len(sites) != 1 {
		w.undecided(rule, fnKey(fn)+"/cgo:bls_verify", fn.Pos(), fmt.Sprintf("expected exactly one call of C.bls_verify in Verify, found %d", len(sites)))
		return
	}
	c := sites[0]
	recv, sig, data, hasher := P(fn, 0), P(fn, 1), P(fn, 2), P(fn, 3)
	key := fnKey(fn) + "/cgo:bls_verify"
	wants := []string{fmt.Sprintf("len(%s) == %d", sig, a.sigLen), fmt.Sprintf("%s.%s == false", recv, a.flagField)}
	wants = append(wants, hasherFacts(hasher, a)...)
	w.requireFacts(rule, key, c, wants...)
	// argument binding
	H := fmt.Sprintf("%s.ComputeHash(%s)", hasher, data)
	exp := []string{"&" + recv + "." + a.ptFld, "&" + sig + "[0]", "&" + H + "[0]", "len(" + H + ")"}
	for i, e := range exp {
		got := normReslice(render(c.Call.Args[i]), a.sigLen)
		if i == 1 && got != e && w.localCopyOf(c.Call.Args[i], fn.Params[1], c, a.sigLen) {
			w.ok(rule, fmt.Sprintf("%s/arg%d", key, i), c.Pos(), "argument is a local array that a dominating copy filled from "+sig+" (whose length is guarded)")
			continue
		}
		w.check(got == e, rule, fmt.Sprintf("%s/arg%d", key, i), c.Pos(), "argument is "+e, "argument "+fmt.Sprint(i)+" of C.bls_verify is `"+got+"`, expected `"+e+"`")
	}
	// the hasher is only used after it was validated
	for _, ch := range callsTo(fn, "ComputeHash") {
		w.requireFacts(rule, fnKey(fn)+"/ComputeHash", ch.(ssa.Instruction), hasherFacts(hasher, a)...)
	}
}

// localCopyOf: arg is &L[0] of a local n-byte array L, and a call copy(L[:], src) dominates `at` with no other store into L.
func (w *World) localCopyOf(arg ssa.Value, src *ssa.Parameter, at ssa.Instruction, n int64) bool {
	ia, ok := stripConv(arg).(*ssa.IndexAddr)
	if !ok {
		return false
	}
	al, ok := ia.X.(*ssa.Alloc)
	if !ok {
		return false
	}
	arr, ok := deref(al.Type()).Underlying().(*types.Array)
	if !ok || arr.Len() != n {
		return false
	}
	copies, others := 0, 0
	for _, ref := range *al.Referrers() {
		switch r := ref.(type) {
		case *ssa.Slice:
			for _, rr := range *r.Referrers() {
				if cl, ok := rr.(*ssa.Call); ok {
					if b, ok := cl.Call.Value.(*ssa.Builtin); ok && b.Name() == "copy" && cl.Call.Args[0] == ssa.Value(r) && r.Low == nil && r.High == nil {
						if stripConv(cl.Call.Args[1]) == ssa.Value(src) && instrDominatesFlat(cl, at) {
							copies++
							continue
						}
					}
				}
				others++
			}
		case *ssa.IndexAddr:
			if r != ia {
				// the same array handed to a second call (two C paths): an element address that is only passed on,
				// never stored through
				passedOnly := true
				var chk func(v ssa.Value, d int)
				chk = func(v ssa.Value, d int) {
					for _, u := range *v.Referrers() {
						switch x := u.(type) {
						case *ssa.Convert:
							if d < 3 {
								chk(x, d+1)
							}
						case *ssa.ChangeType:
							if d < 3 {
								chk(x, d+1)
							}
						case *ssa.Call:
						default:
							passedOnly = false
						}
					}
				}
				chk(r, 0)
				if passedOnly {
					continue
				}
				others++
			}
		default:
			others++
		}
	}
	return copies == 1 && others == 0
}

// hasherFacts: what "the hasher was validated" means, whether the test is inlined or sits in a helper
// (helper guards are expanded into these facts by the summary mechanism of the fact engine).
func hasherFacts(h string, a *blsAnchors) []string {
	return []string{h + " != nil", fmt.Sprintf("%s.Size() == %d", h, a.hashLen)}
}

func (w *World) ruleSignGuards(rule string, a *blsAnchors, g *ssa.Function) {
	fn := a.sign
	sites := cgoCalls(fn, "bls_sign")
	if len(sites) != 1 {
		w.undecided(rule, fnKey(fn)+"/cgo:bls_sign", fn.Pos(), fmt.Sprintf("expected exactly one call of C.bls_sign in Sign, found %d", len(sites)))
		return
	}
	c := sites[0]
	data, hasher := P(fn, 1), P(fn, 2)
	key := fnKey(fn) + "/cgo:bls_sign"
	w.requireFacts(rule, key, c, hasherFacts(hasher, a)...)
	for _, ch := range callsTo(fn, "ComputeHash") {
		w.requireFacts(rule, fnKey(fn)+"/ComputeHash", ch.(ssa.Instruction), hasherFacts(hasher, a)...)
	}
	H := fmt.Sprintf("%s.ComputeHash(%s)", hasher, data)
	w.check(render(c.Call.Args[2]) == "&"+H+"[0]" && render(c.Call.Args[3]) == "len("+H+")", rule, key+"/hash-args", c.Pos(),
		"hash pointer and length describe the same buffer", "hash pointer/length arguments of C.bls_sign do not describe the hasher output: "+render(c.Call.Args[2])+", "+render(c.Call.Args[3]))
	// out buffer: fresh make of SignatureLen, and it is what is returned
	lo, hi, ok := w.lenBound(sliceBase(c.Call.Args[0]), c)
	w.check(ok && lo == a.sigLen && hi == a.sigLen, rule, key+"/out-extent", c.Pos(), "output buffer has exactly SignatureLen bytes",
		fmt.Sprintf("output buffer of C.bls_sign is not provably %d bytes (bound %d..%d known=%v)", a.sigLen, lo, hi, ok))
}

// ruleVerdictProvenance: `true` is returned only on the cgo-result == valid edge.
func (w *World) ruleVerdictProvenance(rule string, fn *ssa.Function, cname string, a *blsAnchors) {
	sites := cgoCalls(fn, cname)
	if len(sites) == 0 {
		w.undecided(rule, fnKey(fn)+"/cgo:"+cname, fn.Pos(), "no call of C."+cname)
		return
	}
	call := render(sites[0])
	n := 0
	for _, r := range returns(fn) {
		v := r.Results[0]
		if isConstBool(v, false) {
			continue
		}
		n++
		key := fmt.Sprintf("%s/return-true#%d", fnKey(fn), n)
		if !isConstBool(v, true) {
			w.viol(rule, key, r.Pos(), "verdict returned is not a constant: `"+render(v)+"`; cannot be tied to the C verdict")
			continue
		}
		want := fmt.Sprintf("%s == %d", call, a.valid)
		fs := w.factsAt(r)
		w.check(hasFact(fs, want) && isNilConst(r.Results[1]), rule, key, r.Pos(), "true returned only when C."+cname+" returned VALID",
			"`true` is returned on a path where C."+cname+" did not return VALID", factStrings(fs)...)
	}
	if n == 0 {
		w.viol(rule, fnKey(fn)+"/return-true", fn.Pos(), "function never returns true")
	}
	// the other defined verdict gives (false, nil); anything else an error
	for _, r := range returns(fn) {
		fs := w.factsAt(r)
		if hasFact(fs, fmt.Sprintf("%s == %d", call, a.invalid)) {
			w.check(isConstBool(r.Results[0], false) && isNilConst(r.Results[1]), rule, fnKey(fn)+"/return-invalid", r.Pos(),
				"INVALID maps to (false, nil)", "C verdict INVALID is not mapped to (false, nil)")
		}
	}
}

// ruleIdentityFlag (C01.R4 / C04.R1): every constructed public key object gets its identity flag
// recomputed after the last write of its point and before it escapes.
func (w *World) ruleIdentityFlag(rule string, a *blsAnchors) {
	T := a.pubT
	isT := func(t types.Type) bool { return types.Identical(deref(t), T) }
	accepted := func(v ssa.Value) (string, bool) {
		v = stripConv(v)
		if c, ok := v.(*ssa.Call); ok {
			if f := c.Call.StaticCallee(); f != nil && inModule(f) {
				// wrapper whose body returns the C predicate
				for _, cc := range cgoCalls(f, "") {
					n, _ := cgoName(cc.Call.StaticCallee())
					if n == "E2_is_infty" || n == "Fr_is_zero" {
						return f.Name() + "→C." + n, true
					}
				}
			}
		}
		return render(v), false
	}
	for _, fn := range w.moduleFuncs() {
		if isTestFile(w, fn.Pos()) {
			continue
		}
		instrs(fn, func(ins ssa.Instruction) {
			al, ok := ins.(*ssa.Alloc)
			if !ok || !isT(al.Type()) {
				return
			}
			key := fmt.Sprintf("%s/new:%s", fnKey(fn), T.Obj().Name())
			if al.Comment != "" {
				key += ":" + al.Comment
			}
			type flagSet struct {
				Val ssa.Value
				ins ssa.Instruction
			}
			var flagStores []flagSet
			var pointWrites []ssa.Instruction
			var escapes []ssa.Instruction
			wholeCopy := false
			for _, ref := range *al.Referrers() {
				switch r := ref.(type) {
				case *ssa.FieldAddr:
					st := deref(r.X.Type()).Underlying().(*types.Struct)
					fname := st.Field(r.Field).Name()
					for _, r2 := range *r.Referrers() {
						switch x := r2.(type) {
						case *ssa.Store:
							if x.Addr == r {
								if fname == a.flagField {
									flagStores = append(flagStores, flagSet{x.Val, x})
								} else if fname == a.ptFld {
									pointWrites = append(pointWrites, x)
								}
							}
						case ssa.CallInstruction:
							if fname == a.ptFld && w.callMayWritePointArg(x, r) {
								pointWrites = append(pointWrites, x)
							}
						case *ssa.ChangeType:
							for _, r3 := range *x.Referrers() {
								if ci, ok := r3.(ssa.CallInstruction); ok && fname == a.ptFld && w.callMayWritePointArg(ci, x) {
									pointWrites = append(pointWrites, ci)
								}
							}
						}
					}
				case *ssa.Call:
					// a setter method of the key type applied to the object under construction: `k.setFlag(v)` whose body is
					// `k.<flag> = v`
					if h := r.Call.StaticCallee(); h != nil && inModule(h) && h.Blocks != nil && len(h.Params) == 2 && len(r.Call.Args) == 2 && r.Call.Args[0] == al && len(h.Blocks) == 1 {
						for _, hi := range h.Blocks[0].Instrs {
							if st, ok := hi.(*ssa.Store); ok && st.Val == h.Params[1] {
								if fa, ok := st.Addr.(*ssa.FieldAddr); ok && fa.X == h.Params[0] {
									if f := addrField(fa); f != nil && f.Name() == a.flagField {
										flagStores = append(flagStores, flagSet{r.Call.Args[1], r})
									}
								}
							}
						}
					}
				case *ssa.Store:
					if r.Val == al {
						escapes = append(escapes, r)
					} else if r.Addr == al {
						wholeCopy = true // *al = <struct value>: whole-struct copy keeps flag and point consistent
					}
				case *ssa.Return:
					escapes = append(escapes, r)
				case *ssa.MakeInterface:
					for _, r2 := range *r.Referrers() {
						switch x := r2.(type) {
						case *ssa.Return:
							escapes = append(escapes, x)
						case *ssa.Store:
							escapes = append(escapes, x)
						case *ssa.Phi:
							escapes = append(escapes, x)
						}
					}
				case *ssa.Phi:
					escapes = append(escapes, r)
				}
			}
			if len(escapes) == 0 {
				return // local temporary that never leaves the function
			}
			if wholeCopy && len(flagStores) == 0 && len(pointWrites) == 0 {
				w.ok(rule, key, al.Pos(), "object is a whole-struct copy of an existing key (flag copied with the point)")
				return
			}
			// unreachable constructor branch: dominated by `<param> == nil` while every caller passes an address
			if len(flagStores) == 0 {
				fs := w.factsAt(al)
				for _, p := range fn.Params {
					if hasFact(fs, p.Name()+" == nil") {
						all, cnt := true, 0
						for _, cs := range w.callersOf(fn) {
							cnt++
							arg := cs.Common().Args[paramIndex(fn, p)]
							if !isAddressValue(arg) {
								all = false
								w.viol(rule, key+"/caller:"+fnKey(cs.Parent()), cs.Pos(), "caller may pass nil to the public-key constructor, reaching the branch that builds a key without computing the identity flag")
							}
						}
						if all {
							w.ok(rule, key, al.Pos(), fmt.Sprintf("flag-less branch is unreachable: all %d call sites pass a non-nil address", cnt))
						}
						return
					}
				}
				w.viol(rule, key, al.Pos(), "a "+T.Obj().Name()+" object is built and escapes without its identity flag `"+a.flagField+"` being computed")
				return
			}
			fi := w.info4(fn)
			for _, esc := range escapes {
				good := false
				why := ""
				for _, s := range flagStores {
					src, acc := accepted(s.Val)
					if !acc {
						why = "flag assigned from `" + src + "`, not from the infinity/zero predicate"
						continue
					}
					if !(s.ins.Block().Dominates(esc.Block())) {
						why = "flag store does not dominate the escape"
						continue
					}
					late := false
					for _, pw := range pointWrites {
						if pw == s.ins {
							continue
						}
						if pw.Block() == s.ins.Block() {
							if instrIndex(pw) > instrIndex(s.ins) {
								late = true
							}
						} else if fi.reachable(s.ins.Block(), pw.Block()) && fi.reachable(pw.Block(), esc.Block()) {
							late = true
						}
					}
					if late {
						why = "point is written again after the flag was computed"
						continue
					}
					good = true
					why = "flag := " + src + " after the last point write, before the object escapes"
				}
				w.check(good, rule, key, posOf(esc), why, "identity flag not recomputed before the key escapes: "+why)
			}
		})
	}
	// package-level key objects
	for _, sp := range []*ssa.Package{w.SSA[rootPath]} {
		for name, m := range sp.Members {
			g, ok := m.(*ssa.Global)
			if !ok || !isT(g.Type()) {
				continue
			}
			key := "global:" + name
			found := false
			for _, fn := range w.srcFuncs(rootPath) {
				var flagSt []*ssa.Store
				var ptW []ssa.Instruction
				instrs(fn, func(ins ssa.Instruction) {
					switch x := ins.(type) {
					case *ssa.Store:
						if fa, ok := x.Addr.(*ssa.FieldAddr); ok && fa.X == g {
							st := deref(fa.X.Type()).Underlying().(*types.Struct)
							if st.Field(fa.Field).Name() == a.flagField {
								flagSt = append(flagSt, x)
							} else {
								ptW = append(ptW, x)
							}
						}
					case ssa.CallInstruction:
						for _, arg := range x.Common().Args {
							if rootedAt(arg, g) && w.callMayWritePointArg(x, arg) {
								ptW = append(ptW, x)
							}
						}
					}
				})
				if len(ptW) == 0 && len(flagSt) == 0 {
					continue
				}
				found = true
				okk := len(flagSt) > 0
				detail := ""
				for _, pw := range ptW {
					n := ""
					if ci, ok := pw.(ssa.CallInstruction); ok {
						n, _ = cgoName(ci.Common().StaticCallee())
					}
					for _, s := range flagSt {
						after := s.Block() == pw.Block() && instrIndex(s) > instrIndex(pw) || (s.Block() != pw.Block() && pw.Block().Dominates(s.Block()))
						if !after {
							okk = false
							detail = "flag store does not follow the point write"
						}
						if n == "E2_set_infty" && !isConstBool(s.Val, true) {
							okk = false
							detail = "point set to infinity but flag is not set to true"
						}
					}
				}
				w.check(okk, rule, key+"/"+fnKey(fn), fn.Pos(), "global key: flag set consistently with its point", "global key "+name+": "+detail)
			}
			if !found {
				w.viol(rule, key, g.Pos(), "package-level key object is never initialised consistently")
			}
		}
	}
}

func instrIndex(ins ssa.Instruction) int {
	for i, x := range ins.Block().Instrs {
		if x == ins {
			return i
		}
	}
	return -1
}

func paramIndex(fn *ssa.Function, p *ssa.Parameter) int {
	for i, q := range fn.Params {
		if q == p {
			return i
		}
	}
	return -1
}

func isAddressValue(v ssa.Value) bool {
	return isAddressValueD(v, 0)
}

func isAddressValueD(v ssa.Value, d int) bool {
	switch x := stripConv(v).(type) {
	case *ssa.Alloc, *ssa.FieldAddr, *ssa.IndexAddr, *ssa.Global:
		return true
	case *ssa.Extract:
		// result of a module function all of whose returns yield an address
		if c, ok := x.Tuple.(*ssa.Call); ok && d < 3 {
			if f := c.Call.StaticCallee(); f != nil && inModule(f) && f.Blocks != nil {
				for _, r := range returns(f) {
					if !isAddressValueD(r.Results[x.Index], d+1) {
						return false
					}
				}
				return true
			}
		}
	case *ssa.Call:
		if f := x.Call.StaticCallee(); f != nil && inModule(f) && f.Blocks != nil && d < 3 {
			for _, r := range returns(f) {
				if !isAddressValueD(r.Results[0], d+1) {
					return false
				}
			}
			return true
		}
	}
	return false
}

// callMayWritePointArg: does the call write through the pointer argument `arg`?
// cgo: the contract table's W parameters; module functions: their own effect (first param written
// for the wrappers of writers). Unknown callees are treated as writers.
func (w *World) callMayWritePointArg(ci ssa.CallInstruction, arg ssa.Value) bool {
	cc := ci.Common()
	idx := -1
	for i, x := range cc.Args {
		if x == arg {
			idx = i
		}
	}
	if idx < 0 {
		return false
	}
	callee := cc.StaticCallee()
	if callee == nil {
		return true
	}
	if n, ok := cgoName(callee); ok {
		return cgoWrites(n, idx)
	}
	if inModule(callee) && callee.Blocks != nil {
		// does the callee (transitively through one more level) write through its parameter idx?
		return w.paramWritten(callee, idx, 3)
	}
	return true
}

func (w *World) paramWritten(fn *ssa.Function, idx int, depth int) bool {
	if idx >= len(fn.Params) || depth == 0 {
		return true
	}
	p := fn.Params[idx]
	written := false
	var visit func(v ssa.Value)
	seen := map[ssa.Value]bool{}
	visit = func(v ssa.Value) {
		if seen[v] || written {
			return
		}
		seen[v] = true
		refs := v.Referrers()
		if refs == nil {
			return
		}
		for _, r := range *refs {
			switch x := r.(type) {
			case *ssa.Store:
				if x.Addr == v {
					written = true
				}
			case *ssa.FieldAddr:
				visit(x)
			case *ssa.IndexAddr:
				visit(x)
			case *ssa.ChangeType:
				visit(x)
			case *ssa.Convert:
				visit(x)
			case *ssa.Phi:
				visit(x)
			case ssa.CallInstruction:
				if w.callMayWritePointArg(x, v) {
					// recursion bounded through paramWritten(depth-1) inside callMayWritePointArg for module callees
					written = true
				}
			}
		}
	}
	visit(p)
	return written
}

// ---------- C02 ----------

func ruleC02(w *World) {
	a := w.bls("C02.R2")
	if a == nil {
		return
	}
	w.floor("C02.R2", 12)
	w.floor("C02.R3", 2)
	g := w.hasherGuard(a, "C02.R2")
	fn := w.mustFn("C02.R2", rootPath, "VerifyBLSSignatureManyMessages")
	if fn != nil {
		pks, sig, msgs, hs := P(fn, 0), P(fn, 1), P(fn, 2), P(fn, 3)
		w.floor("C02.R10", 2)
		w.ruleSigContent("C02.R10", fn, 1)
		w.ruleSigContent("C02.R10", w.fn(rootPath, "VerifyBLSSignatureOneMessage"), 1)
		for _, cn := range []string{"bls_verifyPerDistinctMessage", "bls_verifyPerDistinctKey"} {
			sites := cgoCalls(fn, cn)
			if len(sites) != 1 {
				w.undecided("C02.R2", fnKey(fn)+"/cgo:"+cn, fn.Pos(), "expected one call of C."+cn)
				continue
			}
			c := sites[0]
			key := fnKey(fn) + "/cgo:" + cn
			w.requireFacts("C02.R2", key, c,
				fmt.Sprintf("len(%s) == %d", sig, a.sigLen),
				fmt.Sprintf("len(%s) != 0", pks),
				fmt.Sprintf("len(%s) == len(%s)", msgs, pks),
				fmt.Sprintf("len(%s) == len(%s)", hs, msgs))
			// `&s[0]` itself, or a local array that a dominating copy filled from s (whose exact length is guarded above)
			okArg := normReslice(render(c.Call.Args[0]), a.sigLen) == "&"+sig+"[0]" || w.localCopyOf(c.Call.Args[0], fn.Params[1], c, a.sigLen)
			w.check(okArg, "C02.R2", key+"/arg0", c.Pos(), "signature pointer is &sig[0]", "first argument is not the signature buffer: "+render(c.Call.Args[0]))
		}
		// R7: the group count handed to C is the number of entries of the per-group arrays handed with it: either it is
		// len() of one of them, or it is len(M) of the grouping map and every per-group array receives exactly one
		// append per iteration of the one `range M` loop (and none elsewhere)
		w.floor("C02.R7", 4)
		perGroup := map[string][]int{"bls_verifyPerDistinctMessage": {3, 4}, "bls_verifyPerDistinctKey": {2, 3}}
		for _, cn := range []string{"bls_verifyPerDistinctMessage", "bls_verifyPerDistinctKey"} {
			sites := cgoCalls(fn, cn)
			if len(sites) != 1 {
				continue
			}
			c := sites[0]
			cnt := stripConv(c.Call.Args[1])
			var cntOf ssa.Value
			if cl, ok := cnt.(*ssa.Call); ok {
				if b, ok := cl.Call.Value.(*ssa.Builtin); ok && b.Name() == "len" {
					cntOf = cl.Call.Args[0]
				}
			}
			for _, ai := range perGroup[cn] {
				key := fmt.Sprintf("%s/cgo:%s/group-count:arg%d", fnKey(fn), cn, ai)
				if ai >= len(c.Call.Args) {
					w.undecided("C02.R7", key, c.Pos(), "C."+cn+" is called with fewer arguments than the rules know")
					continue
				}
				arr := sliceBaseNoHelper(c.Call.Args[ai])
				if cntOf == nil {
					w.viol("C02.R7", key, c.Pos(), "the group count `"+render(cnt)+"` is not the length of a collection: C would walk a number of groups unrelated to the arrays it is given")
					continue
				}
				if render(cntOf) == render(arr) {
					w.ok("C02.R7", key, c.Pos(), "count is the length of this array")
					continue
				}
				// count is the length of another per-group array: both grow by one in every iteration of the same loop
				if h1, why1 := w.appendLoopOf(arr); h1 != nil {
					if h2, _ := w.appendLoopOf(cntOf); h2 == h1 {
						w.ok("C02.R7", key, c.Pos(), "count is the length of an array that is extended in step with this one (one append each per iteration of the same loop)")
						continue
					}
					_ = why1
				}
				// count is len(M): the array must grow by exactly one per iteration of range M
				why := w.oneAppendPerRange(arr, cntOf)
				w.check(why == "", "C02.R7", key, c.Pos(), "one entry is appended per iteration of the loop over `"+render(cntOf)+"`, whose length is the count", "the group count is `"+render(cnt)+"` but `"+shortCond(render(arr))+"` does not hold exactly one entry per element of `"+render(cntOf)+"`: "+why+" — C reads a number of groups different from what the arrays hold (trailing groups ignored, or reads past the arrays)")
			}
		}
		// hashers validated before use
		for _, ch := range callsTo(fn, "ComputeHash") {
			recv := render(ch.Common().Value)
			w.requireFacts("C02.R2", fnKey(fn)+"/ComputeHash", ch.(ssa.Instruction), hasherFacts(recv, a)...)
		}
		_ = g
		// the hash used at position i is exactly hasher_i(message_i): every element appended to the hash list
		// is `k.ComputeHash(messages[i])` with k the hasher at the same index
		nh := 0
		instrs(fn, func(ins ssa.Instruction) {
			cc, ok := ins.(*ssa.Call)
			if !ok {
				return
			}
			if b, ok := cc.Call.Value.(*ssa.Builtin); !ok || b.Name() != "append" || len(cc.Call.Args) != 2 {
				return
			}
			if !strings.Contains(typeShort(cc.Call.Args[0].Type()), "[][]byte") {
				return
			}
			if _, isLookup := stripConv(cc.Call.Args[0]).(*ssa.Lookup); isLookup {
				return // per-key grouping list, handled with the map updates below
			}
			// element value: the single store into the varargs array
			sl, ok := cc.Call.Args[1].(*ssa.Slice)
			if !ok {
				return
			}
			al, ok := sl.X.(*ssa.Alloc)
			if !ok {
				return
			}
			for _, ref := range *al.Referrers() {
				ia, ok := ref.(*ssa.IndexAddr)
				if !ok {
					continue
				}
				for _, r2 := range *ia.Referrers() {
					st, ok := r2.(*ssa.Store)
					if !ok || st.Addr != ia {
						continue
					}
					nh++
					v := render(st.Val)
					// expected: <hs>[i].ComputeHash(<msgs>[i]) with the same index expression
					okk := false
					if c2, ok := stripConv(st.Val).(*ssa.Call); ok && c2.Call.IsInvoke() && c2.Call.Method.Name() == "ComputeHash" {
						recv, arg := render(c2.Call.Value), render(c2.Call.Args[0])
						if strings.HasPrefix(recv, hs+"[") && strings.HasPrefix(arg, msgs+"[") && recv[len(hs):] == arg[len(msgs):] {
							okk = true
						}
					}
					w.check(okk, "C02.R2", fnKey(fn)+"/hash-provenance", st.Pos(), "hash i = hasher_i(message_i)", "a hash entered into the verification is `"+v+"`, not hasher[i].ComputeHash(messages[i]) for the same i (cached/reused digests ignore the per-index hasher)")
				}
			}
		})
		if nh == 0 {
			w.undecided("C02.R2", fnKey(fn)+"/hash-provenance", fn.Pos(), "hash list construction not recognised")
		}
		// map insertions only of BLS, non-identity keys
		nmu := 0
		instrs(fn, func(ins ssa.Instruction) {
			mu, ok := ins.(*ssa.MapUpdate)
			if !ok || !strings.Contains(typeShort(mu.Map.Type()), a.ptFldType()) {
				return // only the two grouping maps (their key or value holds key points)
			}
			nmu++
			fs := w.factsAt(mu)
			// positions stay aligned: the hash taken for this key has the same index as the key
			var pkIdx string
			for _, f := range fs {
				if i := strings.Index(f.Expr, ".(*"+a.pubT.Obj().Name()+")#1 == true"); i > 0 && strings.HasPrefix(f.Expr, pks+"[") {
					pkIdx = f.Expr[len(pks):i]
				}
			}
			for _, v := range []ssa.Value{mu.Key, mu.Value} {
				for _, hx := range hashIndexExprs(v, 0) {
					w.check(pkIdx != "" && hx == pkIdx, "C02.R2", fmt.Sprintf("%s/mapupdate#%d/aligned", fnKey(fn), nmu), mu.Pos(), "key i is grouped with hash i", "key at index "+pkIdx+" is grouped with the hash at index "+hx+" (positions of keys and messages no longer aligned)")
				}
			}
			okT, okI := false, false
			for _, f := range fs {
				if strings.HasSuffix(f.Expr, ".(*"+a.pubT.Obj().Name()+")#1 == true") {
					okT = true
				}
				if strings.HasSuffix(f.Expr, "."+a.flagField+" == false") {
					okI = true
				}
			}
			key := fmt.Sprintf("%s/mapupdate#%d", fnKey(fn), nmu)
			w.check(okT, "C02.R2", key+"/typeok", mu.Pos(), "key inserted only after a successful BLS type assertion", "key grouped without a successful BLS type assertion", factStrings(fs)...)
			w.check(okI, "C02.R2", key+"/non-identity", mu.Pos(), "key inserted only if not the identity", "an identity public key can be grouped and reach the pairing (the identity-key rejection is missing on this path)", factStrings(fs)...)
		})
		if nmu < 2 {
			w.undecided("C02.R2", fnKey(fn)+"/mapupdate", fn.Pos(), "expected the two grouping maps to be filled")
		}
		w.ruleErrorClauses("C02.R2", fn, map[string][]string{
			fmt.Sprintf("len(%s) == 0", pks):             {"wrap:sentinel:errBLSAggregateEmptyList", "sentinel:errBLSAggregateEmptyList"},
			fmt.Sprintf("len(%s) != len(%s)", msgs, pks): {"ctor:invalidInputsErrorf"},
			".(*" + a.pubT.Obj().Name() + ")#1 == false": {"wrap:sentinel:errNotBLSKey", "sentinel:errNotBLSKey"},
		})
		// identity key ⇒ (false, nil)
		for _, r := range returns(fn) {
			fs := w.factsAt(r)
			for _, f := range fs {
				if strings.HasSuffix(f.Expr, "."+a.flagField+" == true") {
					w.check(isConstBool(r.Results[0], false) && isNilConst(r.Results[1]), "C02.R2", fnKey(fn)+"/identity-key-verdict", r.Pos(), "identity key ⇒ (false, nil)", "identity key does not give (false, nil)")
				}
			}
		}
		w.ruleVerdictProvenancePhi("C02.R2", fn, a)
	}
	// R3: one-message = aggregate then Verify
	one := w.mustFn("C02.R3", rootPath, "VerifyBLSSignatureOneMessage")
	if one != nil {
		pks, sig, msg, h := P(one, 0), P(one, 1), P(one, 2), P(one, 3)
		n := 0
		for _, r := range returns(one) {
			if isConstBool(r.Results[0], false) {
				// error path: must wrap the aggregation error
				cls := w.errClass(r.Results[1])
				w.check(strings.HasPrefix(cls, "wrap:result:AggregateBLSPublicKeys"), "C02.R3", fnKey(one)+"/agg-error", r.Pos(), "aggregation error is wrapped with %w", "aggregation error is not propagated with %w (typed error lost): "+cls)
				continue
			}
			n++
			want0 := fmt.Sprintf("AggregateBLSPublicKeys(%s)#0.Verify(%s, %s, %s)#0", pks, sig, msg, h)
			want1 := fmt.Sprintf("AggregateBLSPublicKeys(%s)#0.Verify(%s, %s, %s)#1", pks, sig, msg, h)
			g0, g1 := render(r.Results[0]), render(r.Results[1])
			w.check(g0 == want0 && g1 == want1, "C02.R3", fnKey(one)+"/delegation", r.Pos(), "returns exactly Verify(s,m,h) of the aggregated key",
				"verdict is not exactly Verify of the aggregated key on (s, message, hasher): returns `"+g0+"`, `"+g1+"`")
			w.requireFacts("C02.R3", fnKey(one)+"/delegation", r, fmt.Sprintf("AggregateBLSPublicKeys(%s)#1 == nil", pks))
		}
		if n == 0 {
			w.viol("C02.R3", fnKey(one)+"/delegation", one.Pos(), "no delegating return found")
		}
	}
}

func (a *blsAnchors) ptFldType() string {
	for _, f := range structFields(a.pubT) {
		if f.Name() == a.ptFld {
			return typeShort(f.Type())
		}
	}
	return "?"
}

// hashIndexExprs: index expressions X of every `<list of hashes>[X]` element read feeding v.
func hashIndexExprs(v ssa.Value, d int) []string {
	if d > 6 {
		return nil
	}
	var out []string
	switch x := v.(type) {
	case *ssa.UnOp:
		if ia, ok := x.X.(*ssa.IndexAddr); ok && strings.Contains(typeShort(ia.X.Type()), "[][]byte") {
			if _, isLookup := stripConv(ia.X).(*ssa.Lookup); !isLookup {
				out = append(out, "["+render(ia.Index)+"]")
			}
		}
	}
	if ins, ok := v.(ssa.Instruction); ok {
		if _, isPhi := v.(*ssa.Phi); !isPhi {
			for _, op := range ins.Operands(nil) {
				if *op != nil {
					out = append(out, hashIndexExprs(*op, d+1)...)
				}
			}
		}
	}
	// values stored into the varargs array of an append
	if sl, ok := v.(*ssa.Slice); ok {
		if al, ok := sl.X.(*ssa.Alloc); ok {
			for _, ref := range *al.Referrers() {
				if ia, ok := ref.(*ssa.IndexAddr); ok {
					for _, r2 := range *ia.Referrers() {
						if st, ok := r2.(*ssa.Store); ok && st.Addr == ia {
							out = append(out, hashIndexExprs(st.Val, d+1)...)
						}
					}
				}
			}
		}
	}
	return uniq(sortStr(out))
}

// ruleVerdictProvenancePhi: verdict depends on a C result that may come from two sibling calls (phi).
func (w *World) ruleVerdictProvenancePhi(rule string, fn *ssa.Function, a *blsAnchors) {
	n := 0
	for _, r := range returns(fn) {
		if !isConstBool(r.Results[0], true) {
			if !isConstBool(r.Results[0], false) {
				w.viol(rule, fnKey(fn)+"/return-nonconst", r.Pos(), "verdict returned is not a constant: "+render(r.Results[0]))
			}
			continue
		}
		n++
		fs := w.factsAt(r)
		good := false
		for _, f := range fs {
			if strings.HasSuffix(f.Expr, fmt.Sprintf(" == %d", a.valid)) && f.If != nil {
				// the compared value must be (a phi of) cgo verdict calls only
				if bo, ok := stripConv(f.If.Cond).(*ssa.BinOp); ok {
					good = onlyCgoVerdicts(bo.X, map[ssa.Value]bool{})
				}
			}
		}
		w.check(good && isNilConst(r.Results[1]), rule, fnKey(fn)+"/return-true", r.Pos(), "true only when the C verdict is VALID", "`true` returned without the C verdict being VALID", factStrings(fs)...)
	}
	if n == 0 {
		w.viol(rule, fnKey(fn)+"/return-true", fn.Pos(), "function never returns true")
	}
}

func onlyCgoVerdicts(v ssa.Value, seen map[ssa.Value]bool) bool {
	v = stripConv(v)
	if seen[v] {
		return true
	}
	seen[v] = true
	switch x := v.(type) {
	case *ssa.Call:
		if _, ok := cgoName(x.Call.StaticCallee()); ok {
			return true
		}
		// a helper the rules do not know that hands the C verdict on unchanged
		if h := helperCallee(x); h != nil {
			rs := returnsD(h, 99)
			if len(rs) == 0 {
				return false
			}
			for _, r := range rs {
				if len(r.Results) != 1 || !onlyCgoVerdicts(r.Results[0], seen) {
					return false
				}
			}
			return true
		}
		return false
	case *ssa.Phi:
		for _, e := range x.Edges {
			if !onlyCgoVerdicts(e, seen) {
				return false
			}
		}
		return true
	case *ssa.UnOp:
		// load of a local holding the verdict: all stores must be cgo calls
		if al, ok := x.X.(*ssa.Alloc); ok && x.Op == token.MUL {
			for _, r := range *al.Referrers() {
				if st, ok := r.(*ssa.Store); ok && st.Addr == al {
					if !onlyCgoVerdicts(st.Val, seen) {
						return false
					}
				}
			}
			return true
		}
	}
	return false
}

// ruleErrorClauses: for every branch edge that establishes the trigger condition (suffix match on
// one of the edge's atomic facts) and leads directly to a returning block, the returned error must
// belong to the allowed classes; each trigger must decide at least one return.
func (w *World) ruleErrorClauses(rule string, fn *ssa.Function, table map[string][]string) {
	edges := w.errorEdges(fn, func(x string) string { return x }, 0)
	for trig, allowed := range table {
		n := 0
		for _, e := range edges {
			if !(e.fact == trig || strings.HasSuffix(e.fact, trig)) {
				continue
			}
			n++
			good := false
			for _, al := range allowed {
				if e.cls == al || strings.HasPrefix(e.cls, al) {
					good = true
				}
			}
			w.check(good, rule, fnKey(fn)+"/error-clause:"+trig, e.pos, "documented error class "+e.cls, "condition `"+trig+"` yields error class "+e.cls+", documented: "+strings.Join(allowed, " or "))
		}
		if n == 0 {
			w.viol(rule, fnKey(fn)+"/error-clause:"+trig, fn.Pos(), "no error return is decided by condition `"+trig+"` (the documented error clause is missing)")
		}
	}
}

type errEdge struct {
	fact string
	cls  string
	pos  token.Pos
	top  *ssa.BasicBlock // the deciding block in the function the query started from
}

// errorEdges: (condition, error class) of every branch edge of fn that leads straight to an error
// return. An edge `h(args) != nil` that returns h's error unchanged contributes h's own edges, with
// h's parameters replaced by the arguments (a check moved into a helper keeps its clause).
func (w *World) errorEdges(fn *ssa.Function, subst func(string) string, depth int) []errEdge {
	return w.errorEdgesT(fn, subst, depth, nil)
}

func (w *World) errorEdgesT(fn *ssa.Function, subst func(string) string, depth int, top *ssa.BasicBlock) []errEdge {
	var out []errEdge
	if depth > 0 {
		// a helper's edges are phrased over its own parameter names (the caller substitutes the arguments)
		if via, had := enteredBy[fn]; had {
			delete(enteredBy, fn)
			defer func() { enteredBy[fn] = via }()
		}
	}
	// every way out with a non-nil error (early return, or an assignment to a named result that reaches the single
	// return): the condition that decides it is the last branch taken on the way there
	rets := returnsD(fn, 99)
	for _, r := range rets {
		if len(r.Results) == 0 {
			continue
		}
		errv := r.Results[len(r.Results)-1]
		if !isErrorType(errv.Type()) {
			continue
		}
		cls := w.errClass(errv)
		if cls == "nil" {
			continue
		}
		// deciding branches: the conditional edges that lead straight to this way out (several for `a || b`),
		// walking up through blocks with a single predecessor
		type decide struct {
			ifi *ssa.If
			pol bool
		}
		var ds []decide
		var collect func(blk *ssa.BasicBlock, hops int)
		collect = func(blk *ssa.BasicBlock, hops int) {
			if blk == nil || hops > 4 {
				return
			}
			for _, p := range blk.Preds {
				if x, ok := p.Instrs[len(p.Instrs)-1].(*ssa.If); ok && len(p.Succs) == 2 && p.Succs[0] != p.Succs[1] {
					ds = append(ds, decide{x, p.Succs[0] == blk})
				} else if len(blk.Preds) == 1 {
					collect(p, hops+1)
				}
			}
		}
		if v, isV := virtReturns[r]; isV {
			last := v.pred.Instrs[len(v.pred.Instrs)-1]
			if x, ok := last.(*ssa.If); ok && len(v.pred.Succs) == 2 && v.pred.Succs[0] != v.pred.Succs[1] {
				ds = append(ds, decide{x, v.pred.Succs[0] == v.succ})
			} else {
				collect(v.pred, 0)
			}
		} else {
			collect(r.Block(), 0)
		}
		for _, dd := range ds {
			ifi, pol := dd.ifi, dd.pol
			var fs []Fact
			condFacts(ifi.Cond, pol, ifi, &fs)
			b := ifi.Block()
			// pass-through of a helper's error
			if depth < 2 {
				var hc *ssa.Call
				switch x := stripConv(errv).(type) {
				case *ssa.Call:
					hc = x
				case *ssa.Extract:
					hc, _ = x.Tuple.(*ssa.Call)
				}
				if hc != nil {
					if h := hc.Call.StaticCallee(); h != nil && inModule(h) && h.Blocks != nil && isNewHelper(h) {
						through := false
						for _, f := range fs {
							if strings.HasSuffix(f.Expr, " != nil") && strings.HasPrefix(f.Expr, render(hc)) {
								through = true
							}
							// `if ok, err := h(…); !ok { return …, err }`: decided by another result of the same call
							if _, isEx := stripConv(errv).(*ssa.Extract); isEx && strings.HasPrefix(f.Expr, render(hc)+"#") {
								through = true
							}
						}
						if through {
							hsub := func(x string) string {
								for i, p := range h.Params {
									if i < len(hc.Call.Args) && render(p) == p.Name() {
										x = replaceIdent(x, p.Name(), render(hc.Call.Args[i]))
									}
								}
								return subst(renormCmp(x))
							}
							t := top
							if t == nil {
								t = b
							}
							out = append(out, w.errorEdgesT(h, hsub, depth+1, t)...)
							continue
						}
					}
				}
			}
			t := top
			if t == nil {
				t = b
			}
			for _, f := range fs {
				out = append(out, errEdge{subst(f.Expr), cls, retPos(r), t})
				// the condition is the verdict of a predicate helper (`!s.validParticipant(i)`): the branch conditions under
				// which the helper gives that verdict decide the error too, in the caller's vocabulary
				for _, pc := range f.calls {
					h := helperCallee(pc)
					if h == nil || !isBool(pc.Type()) || depth > 1 {
						continue
					}
					var val bool
					switch f.Expr {
					case render(pc) + " == false":
						val = false
					case render(pc) + " == true":
						val = true
					default:
						continue
					}
					restore := bindHelper(pc)
					for _, hr := range returnsD(h, 99) {
						if len(hr.Results) != 1 {
							continue
						}
						k, isC := hr.Results[0].(*ssa.Const)
						if isC && (k.Value == nil || (k.Value.String() == "true") != val) {
							continue
						}
						hfs := w.factsAtK(hr, true)
						if !isC {
							// `return a && b`: the last operand is returned as a value; the verdict `val` on this way out means
							// that operand has that value
							condFacts(hr.Results[0], val, nil, &hfs)
						}
						for _, hf := range hfs {
							out = append(out, errEdge{subst(hf.Expr), cls, retPos(r), t})
						}
					}
					restore()
				}
			}
		}
	}
	return out
}

// ---------- C03 (Go side) ----------

func ruleC03(w *World) {
	a := w.bls("C03.R3")
	if a == nil {
		return
	}
	w.floor("C03.R3", 8)
	w.floor("C03.R4", 3)
	fn := w.mustFn("C03.R3", rootPath, "BatchVerifyBLSSignaturesOneMessage")
	if fn == nil {
		return
	}
	g := w.hasherGuard(a, "C03.R3")
	pks, sigs, kmac := P(fn, 0), P(fn, 1), P(fn, 3)
	sites := cgoCalls(fn, "bls_batch_verify")
	if len(sites) != 1 {
		w.undecided("C03.R3", fnKey(fn)+"/cgo:bls_batch_verify", fn.Pos(), "expected one call of C.bls_batch_verify")
		return
	}
	c := sites[0]
	key := fnKey(fn) + "/cgo:bls_batch_verify"
	wants := []string{fmt.Sprintf("len(%s) != 0", pks), fmt.Sprintf("len(%s) == len(%s)", pks, sigs)}
	wants = append(wants, hasherFacts(kmac, a)...)
	_ = g
	w.requireFacts("C03.R3", key, c, wants...)
	// R8: the hash every signature is verified against is the hasher's output for *this call's* message: the data pointer
	// and length handed to C are &h[0], len(h) with h = hasher.ComputeHash(message) computed in this activation
	w.floor("C03.R8", 1)
	w.floor("C03.R9", 1)
	w.ruleSigContent("C03.R9", fn, 1)
	{
		msg := P(fn, 2)
		wantH := fmt.Sprintf("%s.ComputeHash(%s)", kmac, msg)
		found := false
		for i, a := range c.Call.Args {
			r := render(a)
			if strings.Contains(r, "ComputeHash(") || strings.HasPrefix(r, "&") && i >= 3 && i <= 4 {
				if r == "&"+wantH+"[0]" {
					found = true
					if i+1 < len(c.Call.Args) {
						w.check(render(c.Call.Args[i+1]) == "len("+wantH+")", "C03.R8", key+"/hash-length", c.Pos(), "hash length is len(hasher.ComputeHash(message))", "the hash length handed to C is `"+render(c.Call.Args[i+1])+"`, not the length of this call's hash")
					}
				}
			}
		}
		got := ""
		if len(c.Call.Args) > 4 {
			got = render(c.Call.Args[4])
		}
		w.check(found, "C03.R8", key+"/hash-provenance", c.Pos(), "signatures are verified against hasher.ComputeHash(message) of this call", "the hash handed to C.bls_batch_verify is `"+shortCond(got)+"`, not `&"+wantH+"[0]`: every boolean of the batch must be the verdict for this call's message under this call's hasher (a cached or shared expansion can be stale)")
	}
	// seed: the last argument's buffer is filled by crypto/rand.Read, whose error is checked
	seed := sliceBase(c.Call.Args[len(c.Call.Args)-1])
	secBits, _ := w.constInt(rootPath, "securityBits")
	var rd *ssa.Call
	instrs(fn, func(ins ssa.Instruction) {
		if cc, ok := ins.(*ssa.Call); ok {
			if f := cc.Call.StaticCallee(); f != nil && f.Pkg != nil && f.Pkg.Pkg.Path() == "crypto/rand" && f.Name() == "Read" {
				if sliceBase(cc.Call.Args[0]) == seed {
					rd = cc
				}
			}
		}
	})
	if w.check(rd != nil, "C03.R3", key+"/seed-source", c.Pos(), "seed buffer is filled by crypto/rand.Read", "the seed passed to C.bls_batch_verify is not filled by crypto/rand.Read (resolved callee)") {
		w.requireFacts("C03.R3", key+"/seed-error-checked", c, render(rd)+"#1 == nil")
		// when the buffer is allocated and filled in a helper, the helper's call stands for the Read in this function (the
		// helper's error result is what the seed-error-checked obligation looks at)
		rdBlock := rd.Block()
		if rd.Parent() != fn {
			var via []*ssa.Call
			instrsFlat(fn, func(ins ssa.Instruction) {
				if cc, ok := ins.(*ssa.Call); ok && cc.Call.StaticCallee() == rd.Parent() {
					via = append(via, cc)
				}
			})
			if len(via) == 1 {
				rdBlock = via[0].Block()
			}
		}
		w.check(rdBlock.Parent() == c.Parent() && rdBlock.Dominates(c.Block()), "C03.R3", key+"/seed-before-call", c.Pos(), "rand.Read precedes the call on every path", "rand.Read does not dominate the batch call")
		// the whole buffer is drawn: C reads block i for batch position i, so a Read of a prefix (or any proper
		// sub-slice) leaves the remaining positions with the zero bytes of make — a fixed coefficient
		whole := rd.Call.Args[0] == seed
		if sl, ok := rd.Call.Args[0].(*ssa.Slice); ok && sl.X == seed && sl.Low == nil && (sl.High == nil || render(sl.High) == "len("+render(seed)+")") {
			whole = true
		}
		w.check(whole, "C03.R3", key+"/seed-filled-entirely", rd.Pos(), "rand.Read fills the whole seed buffer", "rand.Read fills `"+shortCond(render(rd.Call.Args[0]))+"`, not the whole seed buffer: the positions it does not reach keep the zero bytes of make, i.e. a coefficient known in advance")
	}
	// seed length = (securityBits/8) * n where n = len of the results buffer = len(sigs)
	if ms, ok := seed.(*ssa.MakeSlice); ok {
		ls := render(ms.Len)
		per := secBits / 8
		okLen := strings.HasPrefix(ls, fmt.Sprintf("(%d * len(", per)) && per*8 >= 128
		w.check(okLen, "C03.R3", key+"/seed-length", ms.Pos(), fmt.Sprintf("seed has %d fresh bytes per signature", per), "seed length is `"+ls+"`, expected (securityBits/8)·n with at least 128 bits per signature")
	} else {
		w.viol("C03.R3", key+"/seed-length", c.Pos(), "seed buffer is not a fresh make([]byte, …): "+render(seed))
	}
	// no other writer of the seed buffer between rand.Read and the call (e.g. zeroing, copy)
	if rd != nil {
		bad := false
		for _, ref := range *seed.Referrers() {
			switch x := ref.(type) {
			case *ssa.IndexAddr:
				for _, r2 := range *x.Referrers() {
					if st, ok := r2.(*ssa.Store); ok && st.Addr == x {
						bad = true
					}
				}
			case *ssa.Call:
				if x != rd && x != c {
					if b, ok := x.Call.Value.(*ssa.Builtin); !ok || b.Name() != "len" {
						bad = true
					}
				}
			}
		}
		w.check(!bad, "C03.R3", key+"/seed-untouched", c.Pos(), "nothing else writes the seed buffer", "the seed buffer is written or handed to another function besides crypto/rand.Read and the batch call")
	}
	// pre-marking: appends of the caller's signature bytes are guarded
	nApp := 0
	instrs(fn, func(ins ssa.Instruction) {
		cc, ok := ins.(*ssa.Call)
		if !ok {
			return
		}
		if b, ok := cc.Call.Value.(*ssa.Builtin); !ok || b.Name() != "append" && b.Name() != "copy" || len(cc.Call.Args) != 2 {
			return
		}
		// append(flat, sigs[i]...) or copy(flat[...], sigs[i]): the caller's bytes enter the flat C buffer here
		chunk := render(cc.Call.Args[1])
		if strings.HasPrefix(chunk, sigs+"[") {
			nApp++
			fs := w.factsAt(cc)
			okL, okI := hasFact(fs, fmt.Sprintf("len(%s) == %d", chunk, a.sigLen)), false
			for _, f := range fs {
				if strings.HasSuffix(f.Expr, "."+a.flagField+" == false") {
					okI = true
				}
			}
			k := fnKey(fn) + "/append-sig"
			w.check(okL, "C03.R3", k+"/len", cc.Pos(), "signature bytes appended only when 48 bytes long", "a signature of the wrong length can be flattened into the C buffer (stride broken)", factStrings(fs)...)
			w.check(okI, "C03.R3", k+"/non-identity", cc.Pos(), "entry used only when the key is not the identity", "an identity key reaches the batch with its signature", factStrings(fs)...)
		}
	})
	if nApp == 0 {
		w.undecided("C03.R3", fnKey(fn)+"/append-sig", fn.Pos(), "flattening idiom not recognised")
	}
	// result merge: stores of a non-false value into the returned slice only under returnBool[i] (already true)
	var retSlice ssa.Value
	for _, r := range returns(fn) {
		if isNilConst(r.Results[1]) {
			retSlice = sliceBase(r.Results[0])
		}
	}
	if retSlice == nil {
		w.viol("C03.R3", fnKey(fn)+"/result", fn.Pos(), "no success return")
	} else {
		instrs(fn, func(ins ssa.Instruction) {
			st, ok := ins.(*ssa.Store)
			if !ok {
				return
			}
			ia, ok := st.Addr.(*ssa.IndexAddr)
			if !ok || sliceBase(ia.X) != retSlice {
				return
			}
			if isConstBool(st.Val, false) {
				return
			}
			if isConstBool(st.Val, true) {
				// default-true only on the branch where signature length and key were accepted
				fs := w.factsAt(st)
				okk := false
				for _, f := range fs {
					if strings.HasPrefix(f.Expr, "len("+sigs+"[") && strings.HasSuffix(f.Expr, fmt.Sprintf("== %d", a.sigLen)) {
						okk = true
					}
				}
				w.check(okk, "C03.R3", fnKey(fn)+"/result-default-true", st.Pos(), "entry pre-marked true only for well-formed input", "entry pre-marked true without the length/identity checks", factStrings(fs)...)
				return
			}
			// computed value: must be `verdict == valid` under guard "entry still true"
			fs := w.factsAt(st)
			guard := render(ia) // &X[i]
			want := strings.TrimPrefix(guard, "&") + " == true"
			val := render(st.Val)
			okv := strings.HasSuffix(val, fmt.Sprintf(" == %d)", a.valid))
			w.check(hasFact(fs, want) && okv, "C03.R3", fnKey(fn)+"/result-merge", st.Pos(), "C verdict merged only into entries not already false, as (v == valid)",
				"result entry overwritten without the `only if still true` guard or not from (v == valid): value `"+val+"`", factStrings(fs)...)
		})
	}
	// R4: on any error return, the first result is a slice that is never stored into
	for i, r := range returns(fn) {
		if isNilConst(r.Results[1]) {
			continue
		}
		base := sliceBase(r.Results[0])
		k := fmt.Sprintf("%s/error-return#%d", fnKey(fn), i)
		if ms, ok := base.(*ssa.MakeSlice); ok {
			stored := false
			for _, ref := range *ms.Referrers() {
				if ia, ok := ref.(*ssa.IndexAddr); ok {
					for _, r2 := range *ia.Referrers() {
						if st, ok := r2.(*ssa.Store); ok && st.Addr == ia {
							stored = true
						}
					}
				}
			}
			w.check(!stored, "C03.R4", k, r.Pos(), "error return carries the never-written all-false slice", "an error return carries a slice that is written elsewhere (booleans may be true on an input error)")
		} else {
			w.viol("C03.R4", k, r.Pos(), "error return does not carry a fresh all-false slice: "+render(r.Results[0]))
		}
	}
	w.ruleErrorClauses("C03.R4", fn, map[string][]string{
		fmt.Sprintf("len(%s) == 0", pks):             {"wrap:sentinel:errBLSAggregateEmptyList", "sentinel:errBLSAggregateEmptyList"},
		fmt.Sprintf("len(%s) != len(%s)", pks, sigs): {"ctor:invalidInputsErrorf"},
		".(*" + a.pubT.Obj().Name() + ")#1 == false": {"wrap:sentinel:errNotBLSKey", "sentinel:errNotBLSKey"},
	})
}

// sliceBase strips &x[i], x[a:b], conversions down to the slice/array-producing value.
func sliceBase(v ssa.Value) ssa.Value {
	var restores []func()
	defer func() {
		for i := len(restores) - 1; i >= 0; i-- {
			restores[i]()
		}
	}()
	for {
		switch x := v.(type) {
		case *ssa.IndexAddr:
			v = x.X
		case *ssa.Slice:
			v = x.X
		case *ssa.ChangeType:
			v = x.X
		case *ssa.Convert:
			v = x.X
		default:
			// a helper called several times in one function (`ptr := bytesPtr(x)`): what its parameters denote is taken
			// from *this* call, not from whichever call the helper was last entered through
			hc, _ := v.(*ssa.Call)
			if ex, ok := v.(*ssa.Extract); ok {
				hc, _ = ex.Tuple.(*ssa.Call)
			}
			if hc != nil && helperCallee(hc) != nil {
				restores = append(restores, bindHelper(hc))
			}
			if in := helperValue(v); in != nil {
				v = in
				continue
			}
			if up := enteringArg(v); up != nil {
				v = up
				continue
			}
			if src := loadSource(v); src != nil {
				v = src
				continue
			}
			return v
		}
	}
}

// ---------- C04 (Go side) ----------

// importCgoExtents emits, under `rule`, the buffer-extent obligations of C09.R1 for every function reachable from the
// entry points: a result "exact for every input" leaves no room for a panic or an out-of-bounds read on some input.
func (w *World) importCgoExtents(rule string, entries []*ssa.Function) {
	reach := map[*ssa.Function]bool{}
	var visit func(f *ssa.Function, d int)
	visit = func(f *ssa.Function, d int) {
		if f == nil || reach[f] || !inModule(f) || d > 8 {
			return
		}
		reach[f] = true
		for _, b := range f.Blocks {
			for _, ins := range b.Instrs {
				if c, ok := ins.(ssa.CallInstruction); ok {
					fns, _ := w.callees(c.Common())
					for _, g := range fns {
						visit(g, d+1)
					}
				}
			}
		}
	}
	for _, fn := range entries {
		visit(fn, 0)
	}
	keys := map[string]bool{}
	for f := range reach {
		keys[fnKey(f)] = true
	}
	saved := w.out
	tmp := &Out{Floors: map[string]int{}, Stats: map[string]int{}}
	w.out = tmp
	w.ruleCgoExtents(rule)
	w.out = saved
	for _, o := range tmp.Obligations {
		fk := o.Key
		if i := strings.Index(fk, "/"); i >= 0 {
			fk = fk[:i]
		}
		if keys[fk] && o.Status != "info" {
			w.out.Obligations = append(w.out.Obligations, o)
		}
	}
}

func ruleC04(w *World) {
	w.floor("C04.R7", 10)
	w.ruleCgoAliasing("C04.R7")
	// R9: the aggregation / removal functions are total on their documented domain: every &x[0] handed to C is of a
	// slice proved non-empty and long enough on that path (a list filtered in Go must be re-checked before &x[0])
	w.floor("C04.R9", 4)
	{
		var entries []*ssa.Function
		for _, n := range []string{"AggregateBLSSignatures", "AggregateBLSPrivateKeys", "AggregateBLSPublicKeys", "RemoveBLSPublicKeys"} {
			if f := w.fn(rootPath, n); f != nil {
				entries = append(entries, f)
			}
		}
		w.importCgoExtents("C04.R9", entries)
	}
	a := w.bls("C04.R1")
	if a == nil {
		return
	}
	w.floor("C04.R1", 4)
	w.floor("C04.R2", 10)
	w.ruleIdentityFlag("C04.R1", a)
	pubN := a.pubT.Obj().Name()
	prN := a.prT.Obj().Name()
	type spec struct {
		name   string
		cgo    string
		list   int
		clause map[string][]string
	}
	for _, s := range []spec{
		{"AggregateBLSSignatures", "E1_sum_vector_byte", 0, nil},
		{"AggregateBLSPrivateKeys", "Fr_sum_vector", 0, map[string][]string{".(*" + prN + ")#1 == false": {"wrap:sentinel:errNotBLSKey", "sentinel:errNotBLSKey"}}},
		{"AggregateBLSPublicKeys", "E2_sum_vector_to_affine", 0, map[string][]string{".(*" + pubN + ")#1 == false": {"wrap:sentinel:errNotBLSKey", "sentinel:errNotBLSKey"}}},
	} {
		fn := w.mustFn("C04.R2", rootPath, s.name)
		if fn == nil {
			continue
		}
		lst := P(fn, s.list)
		tbl := map[string][]string{fmt.Sprintf("len(%s) == 0", lst): {"sentinel:errBLSAggregateEmptyList", "wrap:sentinel:errBLSAggregateEmptyList"}}
		for k, v := range s.clause {
			tbl[k] = v
		}
		w.ruleErrorClauses("C04.R2", fn, tbl)
		for _, c := range cgoCalls(fn, s.cgo) {
			w.requireFacts("C04.R2", fnKey(fn)+"/cgo:"+s.cgo, c, fmt.Sprintf("len(%s) != 0", lst))
		}
		if len(cgoCalls(fn, s.cgo)) == 0 {
			w.undecided("C04.R2", fnKey(fn)+"/cgo:"+s.cgo, fn.Pos(), "expected call of C."+s.cgo)
		}
	}
	// AggregateBLSSignatures: per-element length guard and C result mapping
	if fn := w.fn(rootPath, "AggregateBLSSignatures"); fn != nil {
		sigs := P(fn, 0)
		n := 0
		instrs(fn, func(ins ssa.Instruction) {
			cc, ok := ins.(*ssa.Call)
			if !ok {
				return
			}
			// append(flat, sigs[i]...) or copy(flat[...], sigs[i]): the caller's bytes enter the flat C buffer here
			if b, ok := cc.Call.Value.(*ssa.Builtin); ok && (b.Name() == "append" || b.Name() == "copy") && len(cc.Call.Args) == 2 {
				chunk := render(cc.Call.Args[1])
				if strings.HasPrefix(chunk, sigs+"[") {
					n++
					if w.allElementsValidated(fn, fn.Params[0], a.sigLen, cc) {
						w.ok("C04.R2", fnKey(fn)+"/append-sig/guard:validated-by-an-earlier-complete-loop", cc.Pos(), fmt.Sprintf("every element was tested for length %d by a complete loop that refuses on the first mismatch, before the flattening starts", a.sigLen))
						return
					}
					w.requireFacts("C04.R2", fnKey(fn)+"/append-sig", cc, fmt.Sprintf("len(%s) == %d", chunk, a.sigLen))
				}
			}
		})
		if n == 0 {
			w.undecided("C04.R2", fnKey(fn)+"/append-sig", fn.Pos(), "flattening idiom not recognised")
		}
		w.ruleErrorClauses("C04.R2", fn, map[string][]string{
			fmt.Sprintf("]) != %d", a.sigLen): {"wrap:sentinel:errInvalidSignature", "sentinel:errInvalidSignature"},
			fmt.Sprintf(") == %d", a.invalid): {"sentinel:errInvalidSignature", "wrap:sentinel:errInvalidSignature"},
		})
		// success return only when C returned valid, returning the buffer C wrote
		sites := cgoCalls(fn, "E1_sum_vector_byte")
		if len(sites) == 1 {
			c := sites[0]
			for _, r := range returns(fn) {
				if isNilConst(r.Results[1]) {
					w.requireFacts("C04.R2", fnKey(fn)+"/success", r, fmt.Sprintf("%s == %d", render(c), a.valid))
					w.check(sliceBase(r.Results[0]) == sliceBase(c.Call.Args[0]), "C04.R2", fnKey(fn)+"/success-buffer", r.Pos(), "returns the buffer written by C", "returned signature is not the buffer written by C")
				}
			}
			w.check(render(c.Call.Args[2]) == "len("+render(sliceBase(c.Call.Args[1]))+")", "C04.R2", fnKey(fn)+"/cgo-len", c.Pos(), "length argument is len of the flattened buffer", "length argument does not describe the flattened buffer")
		}
	}
	// RemoveBLSPublicKeys
	if fn := w.mustFn("C04.R2", rootPath, "RemoveBLSPublicKeys"); fn != nil {
		agg, lst := P(fn, 0), P(fn, 1)
		w.ruleErrorClauses("C04.R2", fn, map[string][]string{".(*" + pubN + ")#1 == false": {"wrap:sentinel:errNotBLSKey", "sentinel:errNotBLSKey"}})
		for _, c := range cgoCalls(fn, "E2_subtract_vector") {
			w.requireFacts("C04.R2", fnKey(fn)+"/cgo:E2_subtract_vector", c, fmt.Sprintf("len(%s) != 0", lst))
		}
		for _, r := range returns(fn) {
			fs := w.factsAt(r)
			if hasFact(fs, fmt.Sprintf("len(%s) == 0", lst)) && isNilConst(r.Results[1]) {
				w.check(render(r.Results[0]) == agg, "C04.R2", fnKey(fn)+"/empty-list", r.Pos(), "empty removal list returns the input key", "empty removal list does not return the input key unchanged: "+render(r.Results[0]))
			}
		}
	}
	// IsBLSSignatureIdentity compares with the identity serialization global written only by init
	if fn := w.mustFn("C04.R2", rootPath, "IsBLSSignatureIdentity"); fn != nil {
		okk := false
		for _, r := range returns(fn) {
			s := render(r.Results[0])
			if strings.HasPrefix(s, "bytes.Equal(") && strings.Contains(s, "g1Serialization") && strings.Contains(s, P(fn, 0)) {
				okk = true
			}
		}
		w.check(okk, "C04.R2", fnKey(fn)+"/compare", fn.Pos(), "compares the input with the identity encoding", "IsBLSSignatureIdentity does not compare its input against the identity serialization")
		w.ruleIdentitySerialization("C04.R2", a)
	}
}

// ruleIdentitySerialization: g1Serialization is written only during initialisation, as
// header ‖ (g1BytesLen-1) zero bytes with the header derived from the compression predicate.
func (w *World) ruleIdentitySerialization(rule string, a *blsAnchors) {
	g := w.global(rootPath, "g1Serialization")
	if g == nil {
		w.undecided(rule, "global:g1Serialization", token.NoPos, "unresolved anchor: identity serialization global")
		return
	}
	n := 0
	for _, fn := range w.srcFuncs(rootPath) {
		if isTestFile(w, fn.Pos()) {
			continue
		}
		instrs(fn, func(ins ssa.Instruction) {
			st, ok := ins.(*ssa.Store)
			if !ok || st.Addr != g {
				return
			}
			n++
			isInit := strings.HasPrefix(fn.Name(), "init") && fn.Signature.Recv() == nil && (fn.Name() == "init" || strings.HasPrefix(fn.Name(), "init#")) || len(w.callersOf(fn)) > 0 && allCallersInit(w, fn)
			w.check(isInit, rule, "global:g1Serialization/writer:"+fnKey(fn), st.Pos(), "written during package initialisation only", "identity serialization is written outside package initialisation")
			s := render(st.Val)
			want := fmt.Sprintf("make([]byte,%d)", a.sigLen-1)
			// value is append(header-literal, make([]byte, g1BytesLen-1)...)
			w.check(strings.HasPrefix(s, "append(") && (strings.Contains(s, want) || strings.Contains(s, fmt.Sprintf("[:%d]", a.sigLen-1))), rule, "global:g1Serialization/shape", st.Pos(),
				"identity encoding = header ‖ SignatureLen-1 zero bytes", "identity serialization is not header ‖ (SignatureLen-1) zero bytes: "+s)
		})
	}
	if n == 0 {
		w.viol(rule, "global:g1Serialization/writer", g.Pos(), "identity serialization is never initialised")
	}
}

func allCallersInit(w *World, fn *ssa.Function) bool {
	for _, c := range w.callersOf(fn) {
		if n := c.Parent().Name(); n != "init" && !strings.HasPrefix(n, "init#") {
			return false
		}
	}
	return true
}

// ---------- C16 ----------

func ruleC16(w *World) {
	w.floor("C16.R1", 2)
	w.floor("C16.R2", 4)
	w.floor("C16.R3", 4)
	a := w.bls("C16.R2")
	if a == nil {
		return
	}
	sigSuite, ok1 := w.constStr(rootPath, "blsSigCipherSuite")
	popSuite, ok2 := w.constStr(rootPath, "blsPOPCipherSuite")
	if !ok1 || !ok2 {
		w.undecided("C16.R1", "const:ciphersuites", token.NoPos, "unresolved anchor: signature / PoP ciphersuite constants")
		return
	}
	// R7: BLSVerifyPOP's verdict is the verdict of the key's Verify on the candidate string: the guards of that call
	// (exact signature length, hasher, identity flag, arguments handed to C unchanged) = C01.R2 on Verify — a candidate
	// PoP string of another length, or whose prefix is a PoP, is not a PoP
	w.floor("C16.R7", 4)
	// R12: a key object does not accumulate verdicts: no field of an existing key is written by the PoP functions or
	// anything else (= C12.R6) — a cached "this key has a valid PoP" answers true for every later candidate string
	w.floor("C16.R12", 6)
	w.ruleKeyImmutability("C16.R12")
	w.floor("C16.R8", 2)
	w.ruleSigContent("C16.R8", a.verify, 1)
	w.ruleSigContent("C16.R8", w.fn(rootPath, "BLSVerifyPOP"), 1)
	{
		saved := w.out
		tmp := &Out{Floors: map[string]int{}, Stats: map[string]int{}}
		w.out = tmp
		g := w.hasherGuard(a, "C16.R7")
		w.ruleVerifyGuards("C16.R7", a, g)
		w.ruleVerdictProvenance("C16.R7", a.verify, "bls_verify", a)
		w.out = saved
		w.out.Obligations = append(w.out.Obligations, tmp.Obligations...)
	}
	// R1: for all tags, tag‖SIG ≠ POP  ⇔  POP does not end with SIG
	w.check(!strings.HasSuffix(popSuite, sigSuite), "C16.R1", "const:pop-vs-sig-suffix", token.NoPos,
		fmt.Sprintf("no tag t with t‖%q = %q (PoP suite does not end with the signature suite)", sigSuite, popSuite),
		fmt.Sprintf("tag %q makes tag‖signature-suite equal the PoP suite", strings.TrimSuffix(popSuite, sigSuite)))
	w.check(sigSuite != "" && popSuite != "" && sigSuite != popSuite, "C16.R1", "const:distinct", token.NoPos, "suites are distinct and non-empty", "signature and PoP suites coincide or are empty")
	// R2: exported constructor passes exactly domainTag + sigSuite to the internal constructor
	ctor := w.mustFn("C16.R2", rootPath, "NewExpandMsgXOFKMAC128")
	if ctor == nil {
		return
	}
	var inner *ssa.Function
	tag := P(ctor, 0)
	for _, r := range returns(ctor) {
		c, ok := stripConv(r.Results[0]).(*ssa.Call)
		if !ok || c.Call.StaticCallee() == nil || !inModule(c.Call.StaticCallee()) {
			w.viol("C16.R2", fnKey(ctor)+"/delegation", r.Pos(), "constructor does not return the internal KMAC constructor's result: "+render(r.Results[0]))
			continue
		}
		inner = c.Call.StaticCallee()
		got := render(c.Call.Args[0])
		want := fmt.Sprintf("(%s + %s)", tag, fmt.Sprintf("%q", sigSuite))
		w.check(got == want, "C16.R2", fnKey(ctor)+"/key", r.Pos(), "KMAC key is exactly domainTag ‖ signature-suite", "KMAC key is `"+got+"`, expected exactly `"+want+"` (tag first, suite last, nothing else)")
	}
	if inner == nil {
		return
	}
	// the internal constructor feeds its argument unchanged as the KMAC key with a constant customizer and the 128-byte output
	kcalls := callsTo(inner, "NewKMAC_128")
	if len(kcalls) != 1 {
		w.undecided("C16.R2", fnKey(inner)+"/NewKMAC_128", inner.Pos(), "expected one NewKMAC_128 call in the internal constructor")
	} else {
		kc := kcalls[0].Common()
		w.check(render(kc.Args[0]) == P(inner, 0), "C16.R2", fnKey(inner)+"/key-arg", kcalls[0].Pos(), "key argument is passed through unchanged", "internal constructor transforms the key: "+render(kc.Args[0]))
		_, isC := constOf(kc.Args[1])
		w.check(isC || strings.HasPrefix(render(kc.Args[1]), "\""), "C16.R2", fnKey(inner)+"/customizer", kcalls[0].Pos(), "customizer is a constant shared by both suites", "customizer depends on the input: "+render(kc.Args[1]))
		w.check(render(kc.Args[2]) == fmt.Sprint(a.hashLen), "C16.R2", fnKey(inner)+"/outsize", kcalls[0].Pos(), "output size is expandMsgOutput", "output size is not expandMsgOutput: "+render(kc.Args[2]))
	}
	// PoP hasher global: initialised with exactly the PoP suite through the same internal constructor
	var popG *ssa.Global
	vpop := w.mustFn("C16.R3", rootPath, "BLSVerifyPOP")
	gpop := w.mustFn("C16.R3", rootPath, "BLSGeneratePOP")
	if vpop == nil || gpop == nil {
		return
	}
	// located by role: the package-level hasher whose initialiser is the internal constructor applied to the PoP suite
	wantInit := fmt.Sprintf("%s(%q)", inner.Name(), popSuite)
	for _, fn := range w.srcFuncs(rootPath) {
		if !(fn.Name() == "init" || strings.HasPrefix(fn.Name(), "init#")) {
			continue
		}
		instrsFlat(fn, func(ins ssa.Instruction) {
			if st, ok := ins.(*ssa.Store); ok {
				if g, ok := st.Addr.(*ssa.Global); ok && render(st.Val) == wantInit {
					popG = g
				}
			}
		})
	}
	if popG == nil {
		w.viol("C16.R3", fnKey(vpop)+"/pop-hasher", vpop.Pos(), "no package-level hasher is initialised as "+wantInit+": BLSVerifyPOP does not verify with a package-level PoP hasher keyed with the PoP suite")
		return
	}
	popFn := func(fn *ssa.Function) bool {
		if fn == vpop || fn == gpop {
			return true
		}
		if !isNewHelper(fn) {
			return false
		}
		for _, cs := range w.callersOfCached(fn) {
			if cs.Parent() != vpop && cs.Parent() != gpop {
				return false
			}
		}
		return true
	}
	nInit := 0
	for _, fn := range w.srcFuncs(rootPath) {
		if isTestFile(w, fn.Pos()) {
			continue
		}
		instrs(fn, func(ins ssa.Instruction) {
			switch x := ins.(type) {
			case *ssa.Store:
				if x.Addr == popG {
					nInit++
					isInit := fn.Name() == "init" || strings.HasPrefix(fn.Name(), "init#")
					w.check(isInit, "C16.R3", "global:"+popG.Name()+"/writer:"+fnKey(fn), x.Pos(), "PoP hasher is written by the package initialiser only", "PoP hasher global is reassigned outside package initialisation")
					want := fmt.Sprintf("%s(%q)", inner.Name(), popSuite)
					w.check(render(x.Val) == want, "C16.R2", "global:"+popG.Name()+"/init", x.Pos(), "PoP hasher keyed with exactly the PoP suite", "PoP hasher is initialised with `"+render(x.Val)+"`, expected `"+want+"`")
				}
			case *ssa.UnOp:
				if x.Op == token.MUL && x.X == popG {
					// readers: only the two PoP functions, and the value only flows into Sign/Verify calls
					okFn := popFn(fn)
					w.check(okFn, "C16.R3", "global:"+popG.Name()+"/reader:"+fnKey(fn), x.Pos(), "PoP hasher read by a PoP function", "PoP hasher is read outside BLSGeneratePOP/BLSVerifyPOP (it could be handed out or used for ordinary signatures)")
					var uses func(v ssa.Value, in *ssa.Function, depth int)
					uses = func(v ssa.Value, in *ssa.Function, depth int) {
						for _, ref := range *v.Referrers() {
							switch rr := ref.(type) {
							case ssa.CallInstruction:
								m := ""
								if rr.Common().IsInvoke() {
									m = rr.Common().Method.Name()
								} else if sc := rr.Common().StaticCallee(); sc != nil && sc.Signature.Recv() != nil && (sc == a.sign || sc == a.verify) {
									m = sc.Name() // the BLS key's own Sign / Verify called on the concrete type
								}
								// passed as the hasher of Sign/Verify, or asked directly for the hash of the message (checked below to be the key encoding)
								direct := m == "ComputeHash" && rr.Common().Value == v
								w.check(m == "Sign" || m == "Verify" || direct, "C16.R3", "global:"+popG.Name()+"/use:"+fnKey(in), rr.Pos(), "PoP hasher only passed to Sign/Verify (or hashing the key encoding directly)", "PoP hasher flows into something other than Sign/Verify")
							case *ssa.Return:
								// an unexported accessor called by the PoP functions only: the value is followed into its callers
								if in != vpop && in != gpop && popFn(in) && depth < 2 && len(rr.Results) == 1 {
									for _, cs := range w.callersOfCached(in) {
										if cv, isV := cs.(ssa.Value); isV {
											uses(cv, cs.Parent(), depth+1)
										}
									}
									continue
								}
								w.viol("C16.R3", "global:"+popG.Name()+"/use:"+fnKey(in), ref.Pos(), "PoP hasher value escapes (stored/returned/converted)")
							default:
								w.viol("C16.R3", "global:"+popG.Name()+"/use:"+fnKey(in), ref.Pos(), "PoP hasher value escapes (stored/returned/converted)")
							}
						}
					}
					uses(x, x.Parent(), 0)
				}
			}
		})
	}
	if nInit == 0 {
		w.viol("C16.R2", "global:"+popG.Name()+"/init", popG.Pos(), "PoP hasher is never initialised")
	}
	// PoP = Sign/Verify of Encode() of the same key
	if len(callsTo(vpop, "Verify")) == 0 {
		// no Verify call: the verification core is reached directly; it must be fed popHasher(pk.Encode()), the
		// same key's point, and keep the guards Verify has (length, identity key)
		pk := P(vpop, 0)
		T := "(*" + a.pubT.Obj().Name() + ")"
		sites := w.deepSites(vpop, func(ins ssa.Instruction) bool {
			c, ok := ins.(*ssa.Call)
			if !ok {
				return false
			}
			n, isC := cgoName(c.Call.StaticCallee())
			return isC && n == "bls_verify"
		}, 3)
		if len(sites) != 1 {
			w.viol("C16.R3", fnKey(vpop)+"/message", vpop.Pos(), "BLSVerifyPOP neither calls Verify nor reaches exactly one C.bls_verify")
		} else {
			st := sites[0]
			c := st.ins.(*ssa.Call)
			facts := w.deepFacts(st)
			has := func(x string) bool {
				for _, f := range facts {
					if f == x {
						return true
					}
				}
				return false
			}
			key := pk + "." + T + "#0"
			hashArg := st.render(c.Call.Args[2])
			okMsg := st.render(c.Call.Args[0]) == "&"+key+"."+a.ptFld && strings.Replace(hashArg, "&*", "&", 1) == "&"+popG.Name()+".ComputeHash("+key+".Encode())[0]" && st.render(c.Call.Args[1]) == "&"+P(vpop, 1)+"[0]"
			w.check(okMsg, "C16.R3", fnKey(vpop)+"/message", c.Pos(), "verifies pop over pk.Encode() under pk", "BLSVerifyPOP does not verify the given proof over pk.Encode() under the same pk: "+st.render(c))
			w.check(has(pk+"."+T+"#1 == true"), "C16.R3", fnKey(vpop)+"/typeguard", c.Pos(), "BLS type guard", "PoP verification core reached without the BLS key type guard", facts...)
			w.check(has(key+"."+a.flagField+" == false"), "C16.R4", fnKey(vpop)+"/cgo:bls_verify", c.Pos(), "identity key rejected before the pairing", "BLSVerifyPOP reaches the verification core without rejecting the identity public key (the identity signature is a valid PoP for it)", facts...)
			w.check(has(fmt.Sprintf("len(%s) == %d", P(vpop, 1), a.sigLen)), "C16.R3", fnKey(vpop)+"/length", c.Pos(), "proof length checked", "PoP verification core reached without the signature length guard", facts...)
		}
	}
	// receiver and arguments of a method call, whether it goes through the interface or the asserted concrete type
	recvArgs := func(cc *ssa.CallCommon) (string, []string) {
		var vals []ssa.Value
		var recv ssa.Value
		if cc.IsInvoke() {
			recv, vals = cc.Value, cc.Args
		} else if len(cc.Args) > 0 {
			recv, vals = cc.Args[0], cc.Args[1:]
		}
		var out []string
		for _, v := range vals {
			out = append(out, render(v))
		}
		if recv == nil {
			return "", out
		}
		return render(recv), out
	}
	for _, c := range callsTo(vpop, "Verify") {
		cc := c.Common()
		pk := P(vpop, 0)
		asserted := pk + ".(*" + a.pubT.Obj().Name() + ")#0"
		rv, as := recvArgs(cc)
		okk := (rv == pk || rv == asserted) && len(as) >= 2 && (as[1] == pk+".Encode()" || as[1] == asserted+".Encode()") && as[0] == P(vpop, 1)
		w.check(okk, "C16.R3", fnKey(vpop)+"/message", c.Pos(),
			"verifies pop over pk.Encode() under pk", "BLSVerifyPOP does not verify the given proof over pk.Encode() under the same pk: "+render(c.(ssa.Value)))
		w.requireFacts("C16.R3", fnKey(vpop)+"/typeguard", c.(ssa.Instruction), pk+".(*"+a.pubT.Obj().Name()+")#1 == true")
	}
	for _, c := range callsTo(gpop, "Sign") {
		cc := c.Common()
		sk := P(gpop, 0)
		asserted := sk + ".(*" + a.prT.Obj().Name() + ")#0"
		rv, as := recvArgs(cc)
		okk := (rv == sk || rv == asserted) && len(as) >= 1 && (as[0] == sk+".PublicKey().Encode()" || as[0] == asserted+".PublicKey().Encode()")
		w.check(okk, "C16.R3", fnKey(gpop)+"/message", c.Pos(),
			"signs sk.PublicKey().Encode() with sk", "BLSGeneratePOP does not sign the encoding of its own public key: "+render(c.(ssa.Value)))
		w.requireFacts("C16.R3", fnKey(gpop)+"/typeguard", c.(ssa.Instruction), sk+".(*"+a.prT.Obj().Name()+")#1 == true")
	}
	w.ruleKmacInitBlock("C16.R2")
	// R5: the hasher stays keyed with tag‖suite in every state a caller can bring it to (Reset re-absorbs the key block,
	// ComputeHash re-keys its clone): otherwise two differently keyed hashers coincide after Reset
	w.floor("C16.R5", 3)
	w.ruleKmacSequences("C16.R5")
	// R6: the identity-key rejection R4 relies on tests a flag: every key object that can exist has it computed (= C01.R4)
	w.floor("C16.R6", 4)
	w.ruleIdentityFlag("C16.R6", a)
	// R4: identity key rejected in Verify (shared with C01.R2)
	sites := cgoCalls(a.verify, "bls_verify")
	if len(sites) == 1 {
		w.requireFacts("C16.R4", fnKey(a.verify)+"/cgo:bls_verify", sites[0], fmt.Sprintf("%s.%s == false", P(a.verify, 0), a.flagField))
	}
}

// ---------- C17 (Go side) ----------

func ruleC17(w *World) {
	a := w.bls("C17.R2")
	if a == nil {
		return
	}
	w.floor("C17.R2", 8)
	w.floor("C17.R3", 4)
	fn := w.mustFn("C17.R2", rootPath, "SPOCKVerify")
	// R8: "neither key is the identity" is read from the cached flag: every key object carries a recomputed flag (= C01.R4)
	w.floor("C17.R8", 4)
	w.ruleIdentityFlag("C17.R8", a)
	w.floor("C17.R7", 2)
	w.ruleSigContent("C17.R7", fn, 1, 3)
	w.ruleSigContent("C17.R7", w.fn(rootPath, "SPOCKVerifyAgainstData"), 1)
	if fn != nil {
		sites := cgoCalls(fn, "bls_spock_verify")
		if len(sites) != 1 {
			w.undecided("C17.R2", fnKey(fn)+"/cgo:bls_spock_verify", fn.Pos(), "expected one call of C.bls_spock_verify")
		} else {
			c := sites[0]
			pk1, p1, pk2, p2 := P(fn, 0), P(fn, 1), P(fn, 2), P(fn, 3)
			T := "(*" + a.pubT.Obj().Name() + ")"
			key := fnKey(fn) + "/cgo:bls_spock_verify"
			w.requireFacts("C17.R2", key, c,
				pk1+"."+T+"#1 == true", pk2+"."+T+"#1 == true",
				fmt.Sprintf("len(%s) == %d", p1, a.sigLen), fmt.Sprintf("len(%s) == %d", p2, a.sigLen),
				pk1+"."+T+"#0."+a.flagField+" == false", pk2+"."+T+"#0."+a.flagField+" == false")
			exp := []string{"&" + pk1 + "." + T + "#0." + a.ptFld, "&" + p1 + "[0]", "&" + pk2 + "." + T + "#0." + a.ptFld, "&" + p2 + "[0]"}
			if len(c.Call.Args) != len(exp) {
				w.undecided("C17.R2", key+"/args", c.Pos(), fmt.Sprintf("C.bls_spock_verify is called with %d arguments, the rules know the interface (pk1, proof1, pk2, proof2): the pairing of keys and proofs cannot be followed", len(c.Call.Args)))
				exp = nil
			}
			for i, e := range exp {
				got := normReslice(render(c.Call.Args[i]), a.sigLen)
				w.check(got == e, "C17.R2", fmt.Sprintf("%s/arg%d", key, i), c.Pos(), "argument is "+e, fmt.Sprintf("argument %d of C.bls_spock_verify is `%s`, expected `%s` (pairs must stay aligned)", i, got, e))
			}
			w.ruleVerdictProvenance("C17.R2", fn, "bls_spock_verify", a)
			w.ruleErrorClauses("C17.R2", fn, map[string][]string{T + "#1 == false": {"sentinel:errNotBLSKey", "wrap:sentinel:errNotBLSKey"}})
		}
	}
	for _, s := range []struct{ name, m string }{{"SPOCKProve", "Sign"}, {"SPOCKVerifyAgainstData", "Verify"}} {
		f := w.mustFn("C17.R3", rootPath, s.name)
		if f == nil {
			continue
		}
		blsC, _ := w.constInt(rootPath, "BLSBLS12381")
		key0 := P(f, 0)
		n := 0
		for _, r := range returns(f) {
			v := stripConv(r.Results[0])
			if ex, ok := v.(*ssa.Extract); ok {
				if c, ok := ex.Tuple.(*ssa.Call); ok && c.Call.IsInvoke() && c.Call.Method.Name() == s.m {
					n++
					var rest []string
					for _, p := range f.Params[1:] {
						rest = append(rest, p.Name())
					}
					want := fmt.Sprintf("%s.%s(%s)", key0, s.m, strings.Join(rest, ", "))
					w.check(render(c) == want, "C17.R3", fnKey(f)+"/delegation", r.Pos(), "returns exactly "+want, "does not delegate to "+want+": "+render(c))
					w.requireFacts("C17.R3", fnKey(f)+"/algo-guard", r, fmt.Sprintf("%s.Algorithm() == %d", key0, blsC))
					continue
				}
			}
			// refusal path
			cls := w.errClass(r.Results[1])
			w.check(cls == "sentinel:errNotBLSKey", "C17.R3", fnKey(f)+"/refusal", r.Pos(), "non-BLS key refused with errNotBLSKey", "non-BLS key refusal returns "+cls)
		}
		if n == 0 {
			w.viol("C17.R3", fnKey(f)+"/delegation", f.Pos(), "no delegating return")
		}
	}
}

// sliceBaseNoHelper: the slice value behind `&X[0]` / conversions, without looking through helpers
func sliceBaseNoHelper(v ssa.Value) ssa.Value {
	for {
		switch x := v.(type) {
		case *ssa.IndexAddr:
			v = x.X
		case *ssa.ChangeType:
			v = x.X
		case *ssa.Convert:
			v = x.X
		default:
			return v
		}
	}
}

// oneAppendPerRange: "" when the slice value arr (as seen after the loop) starts empty and is extended by exactly one
// append, executed on every iteration of the innermost loop it sits in, and that loop ranges over the collection m.
func (w *World) oneAppendPerRange(arr, m ssa.Value) string {
	hdr, why := w.appendLoopOf(arr)
	if hdr == nil {
		return why
	}
	// the loop is driven by range over m
	for _, ins := range hdr.Instrs {
		if nx, ok := ins.(*ssa.Next); ok {
			if rg, ok := nx.Iter.(*ssa.Range); ok && (render(rg.X) == render(m) || (helperValue(arr) != nil && paramOfSameCall(rg.X, m, arr))) {
				return ""
			}
		}
	}
	return "the append sits in a loop that does not range over `" + shortCond(render(m)) + "` (a nested or different loop)"
}

// paramOfSameCall: x is a parameter of the helper whose result arr is, and the call passes m for it
func paramOfSameCall(x, m, arr ssa.Value) bool {
	p, ok := stripConv(x).(*ssa.Parameter)
	if !ok {
		return false
	}
	var c *ssa.Call
	switch a := stripConv(arr).(type) {
	case *ssa.Call:
		c = a
	case *ssa.Extract:
		c, _ = a.Tuple.(*ssa.Call)
	}
	if c == nil || c.Call.StaticCallee() != p.Parent() {
		return false
	}
	i := paramIndex(p.Parent(), p)
	return i >= 0 && i < len(c.Call.Args) && render(c.Call.Args[i]) == render(m)
}

// appendLoopOf: the header of the loop in which the slice value (looked at after the loop, possibly the result of a helper
// the rules do not know) receives its one append per iteration, starting from an empty slice; nil and the reason otherwise.
func (w *World) appendLoopOf(arr ssa.Value) (*ssa.BasicBlock, string) {
	if hv := helperValue(stripConv(arr)); hv != nil {
		arr = hv
	}
	// collect the web of slice values: phis and appends
	var appends []*ssa.Call
	var inits []ssa.Value
	seen := map[ssa.Value]bool{}
	var walk func(v ssa.Value)
	walk = func(v ssa.Value) {
		v = stripConv(v)
		if seen[v] {
			return
		}
		seen[v] = true
		switch x := v.(type) {
		case *ssa.Phi:
			for _, e := range x.Edges {
				walk(e)
			}
		case *ssa.Call:
			if b, ok := x.Call.Value.(*ssa.Builtin); ok && b.Name() == "append" {
				appends = append(appends, x)
				walk(x.Call.Args[0])
				return
			}
			inits = append(inits, v)
		case *ssa.Slice:
			walk(x.X)
		default:
			inits = append(inits, v)
		}
	}
	walk(arr)
	for _, in := range inits {
		ms, ok := in.(*ssa.MakeSlice)
		if !ok {
			if _, isAlloc := in.(*ssa.Alloc); isAlloc {
				continue // make with constant size lowered to an array; length checked below through Slice
			}
			return nil, "it does not start as a fresh empty slice (`" + shortCond(render(in)) + "`)"
		}
		if l, h, k := w.intBound(ms.Len, ms); !k || l != 0 || h != 0 {
			return nil, "it does not start empty"
		}
	}
	if len(appends) != 1 {
		return nil, fmt.Sprintf("%d append sites extend it", len(appends))
	}
	ap := appends[0]
	// exactly one element per append: the variadic slice holds one value
	if sl, ok := ap.Call.Args[1].(*ssa.Slice); ok {
		if l, h, k := w.lenBound(sl, ap); !k || l != 1 || h != 1 {
			return nil, "an append adds a number of elements other than one"
		}
	} else {
		return nil, "an append adds a whole slice"
	}
	hdr := loopHeaderOf(ap.Block())
	if hdr == nil {
		return nil, "the append is not in a loop"
	}
	// executed on every iteration: dominates every back edge source
	for _, p := range hdr.Preds {
		if hdr.Dominates(p) && !ap.Block().Dominates(p) {
			return nil, "some iteration of the loop skips the append"
		}
	}
	return hdr, ""
}

// normReslice: `&x[:N][0]` (or `&x[0:N][0]`) is `&x[0]` when N is the guarded exact length n of x (the call sites that
// use it have `len(x) == n` among their required facts): a re-slice to the full length keeps the base pointer.
func normReslice(r string, n int64) string {
	for _, pre := range []string{"[:", "[0:"} {
		suf := fmt.Sprintf("%s%d][0]", pre, n)
		if strings.HasSuffix(r, suf) {
			return strings.TrimSuffix(r, suf) + "[0]"
		}
	}
	return r
}

// allElementsValidated: before `at`, a loop over the whole slice parameter `list` has run to completion whose body
// leaves the function with an error as soon as an element's length differs from n ("validate everything, then use"):
// there is an If on `len(list[X]) != n` whose taken edge reaches an error return, X runs over 0..len(list)-1 (a range or
// counted loop), and the loop's exit — not its body — dominates `at`.
func (w *World) allElementsValidated(fn *ssa.Function, list *ssa.Parameter, n int64, at ssa.Instruction) bool {
	for _, b := range fn.Blocks {
		ifi, ok := b.Instrs[len(b.Instrs)-1].(*ssa.If)
		if !ok || len(b.Succs) != 2 {
			continue
		}
		bo, ok := stripConv(ifi.Cond).(*ssa.BinOp)
		if !ok || bo.Op != token.NEQ {
			continue
		}
		lc, ok := stripConv(bo.X).(*ssa.Call)
		if !ok {
			continue
		}
		bi, ok := lc.Call.Value.(*ssa.Builtin)
		if !ok || bi.Name() != "len" {
			continue
		}
		if k, isC := constOf(bo.Y); !isC || k.Value == nil {
			continue
		} else if v, _ := constInt64(k.Value); v != n {
			continue
		}
		// the element: list[X] (an IndexAddr load) or the range value of `for _, e := range list`
		var idx ssa.Value
		switch e := stripConv(lc.Call.Args[0]).(type) {
		case *ssa.UnOp:
			if ia, ok := e.X.(*ssa.IndexAddr); ok && stripConv(ia.X) == ssa.Value(list) {
				idx = ia.Index
			}
		}
		if idx == nil {
			continue
		}
		ia := affineOf(idx)
		ph, isPhi := ia.base.(*ssa.Phi)
		if !isPhi {
			continue
		}
		first, lbase, loff, okS := inductionSpan(ph)
		if !okS || first+ia.c != 0 || loff+ia.c != -1 || lbase == nil || !lenCallOf(lbase, list) {
			continue
		}
		// the taken edge leaves with an error
		leaves := false
		for _, ins := range b.Succs[0].Instrs {
			if r, ok := ins.(*ssa.Return); ok && len(r.Results) > 0 && !isNilConst(r.Results[len(r.Results)-1]) {
				leaves = true
			}
		}
		if !leaves {
			continue
		}
		// the loop's exit dominates `at`, its body does not
		H := ph.Block()
		if b.Dominates(at.Block()) || !H.Dominates(at.Block()) {
			continue
		}
		for _, sc := range H.Succs {
			if sc.Dominates(at.Block()) && !sc.Dominates(b) {
				return true
			}
		}
		// rotated loops: the exit is a successor of the body's last block
		for _, blk := range fn.Blocks {
			if H.Dominates(blk) {
				for _, sc := range blk.Succs {
					if !H.Dominates(sc) || sc == H {
						continue
					}
					if sc.Dominates(at.Block()) && !sc.Dominates(b) && !b.Dominates(sc) {
						return true
					}
				}
			}
		}
	}
	return false
}
