package main

import (
	"regexp"
	"fmt"
	"go/ast"
	"go/token"
	"go/types"
	"sort"
	"strings"

	"golang.org/x/tools/go/ssa"
)

func init() {
	register("C11", ruleC11)
	register("C12", ruleC12)
	register("C13", ruleC13)
	register("C14", ruleC14)
	register("C15", ruleC15)
}

// ecdsaTypes: the non-BLS implementations of PublicKey / PrivateKey.
func (w *World) ecdsaTypes(rule string) (pub, pr *types.Named) {
	bp, bs := w.blsKeyType("PublicKey"), w.blsKeyType("PrivateKey")
	if w.Cfg != "default(cgo,amd64)" {
		// without cgo the BLS key types do not exist: every implementation is the ECDSA one
		bp, bs = nil, nil
	}
	for _, t := range w.implementors(rootPath, "PublicKey", rootPath) {
		if t != bp {
			pub = t
		}
	}
	for _, t := range w.implementors(rootPath, "PrivateKey", rootPath) {
		if t != bs {
			pr = t
		}
	}
	if pub == nil || pr == nil {
		w.undecided(rule, "anchor:ecdsa-key-types", token.NoPos, "unresolved anchor: ECDSA key types")
	}
	return
}

// ---------------- C11 ----------------

func ruleC11(w *World) {
	w.floor("C11.R1", 8)
	w.floor("C11.R2", 5)
	w.floor("C11.R3", 8)
	pub, pr := w.ecdsaTypes("C11.R1")
	if pub == nil || pr == nil {
		return
	}
	sign, verify := w.method(pr, "Sign"), w.method(pub, "Verify")
	if sign == nil || verify == nil {
		w.undecided("C11.R1", "anchor:Sign/Verify", token.NoPos, "unresolved anchor: ECDSA Sign/Verify")
		return
	}
	w.floor("C11.R5", 1) // sites merge when the key objects are built by one constructor
	w.ruleCurveObject("C11.R5")
	// R1: nil hasher and short hasher refused before ComputeHash
	for _, fn := range []*ssa.Function{sign, verify} {
		h := P(fn, len(fn.Params)-1)
		recv := P(fn, 0)
		nLen := fmt.Sprintf("bitsToBytes(%s.alg.curve.Params().N.BitLen())", recv)
		chs := callsTo(fn, "ComputeHash")
		if len(chs) != 1 {
			w.undecided("C11.R1", fnKey(fn)+"/ComputeHash", fn.Pos(), "expected exactly one ComputeHash call")
			continue
		}
		w.requireFacts("C11.R1", fnKey(fn)+"/ComputeHash", chs[0].(ssa.Instruction), h+" != nil", fmt.Sprintf("%s.Size() >= %s", h, nLen))
		w.check(render(chs[0].Common().Value) == h && render(chs[0].Common().Args[0]) == P(fn, len(fn.Params)-2), "C11.R1", fnKey(fn)+"/ComputeHash-args", chs[0].Pos(),
			"hashes the given data with the given hasher", "ComputeHash is not applied to the data argument with the hasher argument: "+render(chs[0].(ssa.Value)))
		w.ruleErrorClauses("C11.R1", fn, map[string][]string{
			h + " == nil":                          {"sentinel:errNilHasher"},
			fmt.Sprintf("%s.Size() < %s", h, nLen): {"ctor:invalidHasherSizeErrorf"},
		})
		// the refusals are unconditional: no error-free outcome (a verdict, a signature, the wrong-length clause) is
		// reachable for a hasher that was not validated
		for _, r := range w.returnsAll(fn) {
			ret := r.ins.(*ssa.Return)
			if len(ret.Results) == 0 || !isNilConst(ret.Results[len(ret.Results)-1]) {
				continue
			}
			fs := w.deepFacts(r)
			has := func(want string) bool {
				for _, f := range fs {
					if f == want {
						return true
					}
				}
				return false
			}
			okk := has(h+" != nil") && has(fmt.Sprintf("%s.Size() >= %s", h, nLen))
			w.check(okk, "C11.R1", fnKey(fn)+"/error-free-return/hasher-validated", retPos(ret), "error-free outcome only for a validated hasher",
				"an error-free outcome is reachable although the hasher was not tested (nil / too short): the documented refusal depends on the other arguments", fs...)
		}
		// nLen really is the byte length of the curve order (helper shape)
	}
	if b2b := w.fn(rootPath, "bitsToBytes"); b2b != nil {
		okk := false
		for _, r := range returns(b2b) {
			if render(r.Results[0]) == fmt.Sprintf("((%s + 7) >> 3)", P(b2b, 0)) {
				okk = true
			}
		}
		w.check(okk, "C11.R1", "bitsToBytes/shape", b2b.Pos(), "bitsToBytes = ceil(bits/8)", "bitsToBytes is not (bits+7)>>3")
	} else {
		w.undecided("C11.R1", "anchor:bitsToBytes", token.NoPos, "unresolved anchor bitsToBytes")
	}
	// R4: a signature handed to the caller is the caller's own value (not a buffer kept in the key object)
	w.floor("C11.R4", 1)
	w.ruleFreshResult("C11.R4", sign, 0, "signature")
	// R2: verdict provenance — entry-relative: wherever the library call sits below Verify
	w.ruleC11Verdict(verify)
	// R3: format check
	w.ruleC11Format()
	// algorithm ↔ instance tables
	w.ruleAlgoTables("C11.R3")
}

// ruleAlgoTables: newSigner / SignatureFormatCheck map each enum constant to the instance whose
// initialiser carries that constant and the matching curve constructor.
func (w *World) ruleAlgoTables(rule string) {
	// instance initialisers in init(): store &ecdsaAlgo{curve: X(), algo: K} to global G
	type inst struct {
		curve string
		algo  int64
	}
	insts := map[string]inst{}
	for _, fn := range w.srcFuncs(rootPath) {
		if !(fn.Name() == "init" || strings.HasPrefix(fn.Name(), "init#")) {
			continue
		}
		instrs(fn, func(ins ssa.Instruction) {
			st, ok := ins.(*ssa.Store)
			if !ok {
				return
			}
			g, ok := st.Addr.(*ssa.Global)
			if !ok {
				return
			}
			al, ok := st.Val.(*ssa.Alloc)
			if !ok {
				return
			}
			in := inst{}
			for _, ref := range *al.Referrers() {
				if fa, ok := ref.(*ssa.FieldAddr); ok {
					for _, r2 := range *fa.Referrers() {
						if s2, ok := r2.(*ssa.Store); ok && s2.Addr == fa {
							switch addrField(fa).Name() {
							case "curve":
								in.curve = render(s2.Val)
							case "algo":
								if c, ok := constOf(s2.Val); ok {
									in.algo, _ = constInt64(c.Value)
								}
							}
						}
					}
				}
			}
			insts[g.Name()] = in
		})
	}
	want := map[string]string{"ECDSAP256": "elliptic.P256()", "ECDSASecp256k1": "btcec.S256()"}
	for _, fname := range []string{"newSigner", "SignatureFormatCheck"} {
		fn := w.fn(rootPath, fname)
		if fn == nil {
			w.undecided(rule, "anchor:"+fname, token.NoPos, "unresolved anchor "+fname)
			continue
		}
		alg := P(fn, 0)
		for cname, curve := range want {
			k, ok := w.constInt(rootPath, cname)
			if !ok {
				w.undecided(rule, "const:"+cname, token.NoPos, "unresolved constant")
				continue
			}
			found := false
			for _, r := range returns(fn) {
				fs := w.factsAt(r)
				if !hasFact(fs, fmt.Sprintf("%s == %d", alg, k)) {
					continue
				}
				found = true
				s := render(r.Results[0])
				gname := ""
				for g := range insts {
					if strings.Contains(s, g) {
						gname = g
					}
				}
				in, okI := insts[gname]
				w.check(okI && in.algo == k && in.curve == curve, rule, fmt.Sprintf("%s/case:%s", fname, cname), r.Pos(),
					fmt.Sprintf("%s ↦ %s (curve %s)", cname, gname, curve), fmt.Sprintf("algorithm %s is mapped to `%s` whose instance has algo=%d curve=%s (expected curve %s)", cname, s, in.algo, in.curve, curve))
			}
			if !found {
				w.viol(rule, fmt.Sprintf("%s/case:%s", fname, cname), fn.Pos(), "no case for "+cname)
			}
		}
	}
}

// ---------------- C12 ----------------

var nondetPrefixes = []string{"crypto/rand.", "math/rand.", "math/rand/v2.", "time.Now", "time.Since", "os.Getpid", "runtime."}

func ruleC12(w *World) {
	w.floor("C12.R6", 6)
	w.ruleKeyImmutability("C12.R6")
	w.floor("C12.R7", 3)
	w.rulePubKeyCacheProvenance("C12.R7")
	w.floor("C12.R8", 4)
	w.ruleKeygenPure("C12.R8")
	w.floor("C12.R1", 4)
	w.floor("C12.R2", 3)
	w.floor("C12.R3", 2)
	minL, ok1 := w.constInt(rootPath, "KeyGenSeedMinLen")
	maxL, ok2 := w.constInt(rootPath, "KeyGenSeedMaxLen")
	if !ok1 || !ok2 {
		w.undecided("C12.R1", "const:KeyGenSeed*", token.NoPos, "unresolved seed-length constants")
		return
	}
	w.check(minL == 32 && maxL == 256, "C12.R1", "const:seed-bounds", token.NoPos, "documented seed bounds 32..256", fmt.Sprintf("seed bounds are %d..%d, documented 32..256", minL, maxL))
	// signer implementations by role: implementations of the unexported signer interface
	var gens []*ssa.Function
	for _, t := range w.implementors(rootPath, "signer", rootPath) {
		if f := w.method(t, "generatePrivateKey"); f != nil && !isPanicStub(f) {
			gens = append(gens, f)
		}
	}
	if len(gens) < 1 {
		w.undecided("C12.R1", "anchor:generatePrivateKey", token.NoPos, "unresolved anchor: signer implementations")
		return
	}
	for _, fn := range gens {
		seed := P(fn, 1)
		// every return of a non-nil key is dominated by both bounds
		n := 0
		for _, r := range returns(fn) {
			if isNilConst(r.Results[0]) {
				continue
			}
			n++
			w.requireFacts("C12.R1", fnKey(fn)+"/key-return", r, fmt.Sprintf("len(%s) >= %d", seed, minL), fmt.Sprintf("len(%s) <= %d", seed, maxL))
		}
		if n == 0 {
			w.viol("C12.R1", fnKey(fn)+"/key-return", fn.Pos(), "never returns a key")
		}
		w.ruleErrorClauses("C12.R1", fn, map[string][]string{
			fmt.Sprintf("len(%s) < %d", seed, minL): {"ctor:invalidInputsErrorf"},
			fmt.Sprintf("len(%s) > %d", seed, maxL): {"ctor:invalidInputsErrorf"},
		})
		// the seed is what feeds HKDF (not a prefix / not something else)
		hk := 0
		instrs(fn, func(ins ssa.Instruction) {
			c, ok := ins.(*ssa.Call)
			if !ok || c.Call.StaticCallee() == nil || c.Call.StaticCallee().String() != "crypto/hkdf.Key[hash.Hash]" && !strings.HasPrefix(c.Call.StaticCallee().String(), "crypto/hkdf.Key") {
				return
			}
			hk++
			secret := c.Call.Args[1]
			s := render(secret)
			good := s == seed
			if !good {
				// BLS: secret = make(len(seed)+1) with copy(secret, seed)
				if ms, ok := sliceBase(secret).(*ssa.MakeSlice); ok && render(ms.Len) == fmt.Sprintf("(len(%s) + 1)", seed) {
					isCopy := func(ref ssa.Instruction) bool {
						if cc, ok := ref.(*ssa.Call); ok {
							if b, ok := cc.Call.Value.(*ssa.Builtin); ok && b.Name() == "copy" && render(cc.Call.Args[1]) == seed {
								return true
							}
						}
						return false
					}
					for _, ref := range *ms.Referrers() {
						if isCopy(ref) {
							good = true
						}
						// copy(secret[:len(seed)], seed): the same bytes at the same place
						if sl, ok := ref.(*ssa.Slice); ok && sl.Low == nil && sl.High != nil && render(sl.High) == "len("+seed+")" {
							for _, r2 := range *sl.Referrers() {
								if isCopy(r2) {
									good = true
								}
							}
						}
					}
				}
			}
			if !good {
				// any other way of building `seed ‖ 0x00` in a fresh buffer (appends onto an empty make, or copies into a
				// make of len(seed)+1), possibly inside a helper
				sv := secret
				for i := 0; i < 3; i++ {
					if hv := helperValue(sv); hv != nil {
						sv = hv
						continue
					}
					break
				}
				if lay, ok := bufLayout(sv); ok && len(lay.pieces) >= 1 {
					first := lay.pieces[0]
					if up := enteringArgName(sv, first); up != "" {
						first = up
					}
					switch {
					case len(lay.pieces) == 1 && lay.pad != nil:
						if k, isC := constOf(lay.pad); isC {
							if n1, _ := constInt64(k.Value); n1 == 1 && first == seed {
								good = true
							}
						}
					case len(lay.pieces) == 2 && lay.pad == nil && first == seed && lay.zeroTail == 1:
						good = true
					}
				}
			}
			w.check(good, "C12.R1", fnKey(fn)+"/hkdf-secret", c.Pos(), "HKDF input keying material is the whole seed", "HKDF secret is `"+s+"`, not the whole seed")
			h := render(c.Call.Args[0])
			w.check(strings.Contains(h, "sha256.New"), "C12.R1", fnKey(fn)+"/hkdf-hash", c.Pos(), "HKDF over SHA-256", "HKDF hash is "+h)
		})
		if hk == 0 {
			w.viol("C12.R1", fnKey(fn)+"/hkdf", fn.Pos(), "no HKDF call")
		}
		// R9: ECDSA: the scalar placed in the key is ((int(OKM) mod (N-1)) + 1) of the whole HKDF output
		if len(cgoCallsDeep(w, fn, "", 3)) == 0 {
			w.floor("C12.R9", 1)
			w.ruleEcdsaScalarShape("C12.R9", fn)
		}
	}
	// R2: no nondeterminism reaches key generation / decoding / PublicKey()
	cg := w.callgraph("cha")
	_ = cg
	entries := []*ssa.Function{w.fn(rootPath, "GeneratePrivateKey"), w.fn(rootPath, "DecodePrivateKey"), w.fn(rootPath, "DecodePublicKey"), w.fn(rootPath, "DecodePublicKeyCompressed")}
	for _, t := range w.implementors(rootPath, "PrivateKey", rootPath) {
		entries = append(entries, w.method(t, "PublicKey"), w.method(t, "Encode"))
	}
	scrub := w.fn(rootPath, "overwrite")
	for _, e := range entries {
		if e == nil {
			continue
		}
		seen := map[*ssa.Function]bool{}
		var bad []string
		var visit func(fn *ssa.Function, path []string)
		visit = func(fn *ssa.Function, path []string) {
			if seen[fn] || fn == scrub {
				return
			}
			seen[fn] = true
			instrs(fn, func(ins ssa.Instruction) {
				c, ok := ins.(ssa.CallInstruction)
				if !ok {
					return
				}
				cs, _ := w.callees(c.Common())
				for _, callee := range cs {
					visit(callee, append(path, callee.Name()))
				}
				if sc := c.Common().StaticCallee(); sc != nil && !inModule(sc) {
					if hasAnyPrefix(sc.String(), nondetPrefixes) {
						bad = append(bad, strings.Join(append(path, sc.String()), " → ")+" at "+w.pos(ins.Pos()))
					}
				}
				// reading the global rand.Reader
			})
			instrs(fn, func(ins ssa.Instruction) {
				if u, ok := ins.(*ssa.UnOp); ok && u.Op == token.MUL {
					if g, ok := u.X.(*ssa.Global); ok && g.Pkg != nil && g.Pkg.Pkg.Path() == "crypto/rand" {
						bad = append(bad, strings.Join(append(path, "crypto/rand."+g.Name()), " → ")+" at "+w.pos(ins.Pos()))
					}
				}
				if _, ok := ins.(*ssa.Range); ok {
					if _, isMap := ins.(*ssa.Range).X.Type().Underlying().(*types.Map); isMap {
						bad = append(bad, strings.Join(append(path, "map iteration"), " → ")+" at "+w.pos(ins.Pos()))
					}
				}
			})
		}
		visit(e, []string{e.Name()})
		w.check(len(bad) == 0, "C12.R2", fnKey(e)+"/deterministic", e.Pos(), fmt.Sprintf("no nondeterminism source reachable (%d functions, scrubber excluded)", len(seen)), "nondeterminism reaches a key: "+strings.Join(bad, "; "))
	}
	// the scrubber is only ever called deferred, on a buffer that is not returned
	if scrub != nil {
		for _, cs := range w.callersOf(scrub) {
			_, isDefer := cs.(*ssa.Defer)
			buf := sliceBase(cs.Common().Args[0])
			escapes := false
			for _, r := range returns(cs.Parent()) {
				for _, res := range r.Results {
					if sliceBase(res) == buf {
						escapes = true
					}
				}
			}
			w.check(isDefer && !escapes, "C12.R2", fnKey(cs.Parent())+"/scrub:"+render(cs.Common().Args[0]), cs.Pos(), "scrubber runs deferred on a buffer that is not returned", "the randomising scrubber is applied to a buffer that is returned or before its last use (key bytes would become random)")
		}
	}
	// R3: BLS: key returned only if the mapped scalar is non-zero; retry updates the salt
	if w.Cfg == "default(cgo,amd64)" {
		if a := w.bls("C12.R3"); a != nil {
			var bg *ssa.Function
			for _, g := range gens {
				if strings.Contains(g.String(), "bls") {
					bg = g
				}
			}
			if bg == nil {
				w.undecided("C12.R3", "anchor:bls-keygen", token.NoPos, "unresolved anchor")
			} else {
				for _, r := range returns(bg) {
					if isNilConst(r.Results[0]) {
						continue
					}
					fs := w.factsAt(r)
					okk := false
					for _, f := range fs {
						if strings.HasPrefix(f.Expr, "mapToFr(") && strings.HasSuffix(f.Expr, "== false") {
							okk = true
						}
						// `for isZero := true; isZero; { isZero = mapToFr(…) }`: the loop variable is false after the loop, it
						// starts as the constant true, so its value is that of the last mapToFr
						if f.If != nil && strings.HasSuffix(f.Expr, " == false") {
							if ph, isPhi := stripConv(f.If.Cond).(*ssa.Phi); isPhi && strings.HasPrefix(f.Expr, render(ph)+" ") {
								all, saw := true, false
								for _, e := range ph.Edges {
									if k, isC := e.(*ssa.Const); isC {
										if k.Value == nil || k.Value.String() != "true" {
											all = false
										}
									} else if cc, isCall := e.(*ssa.Call); isCall && cc.Call.StaticCallee() != nil && cc.Call.StaticCallee().Name() == "mapToFr" {
										saw = true
									} else {
										all = false
									}
								}
								if all && saw {
									okk = true
								}
							}
						}
					}
					w.check(okk, "C12.R3", fnKey(bg)+"/non-zero", r.Pos(), "key returned only when the scalar is non-zero", "a zero private key can be returned", factStrings(fs)...)
				}
				// mapToFr returns the C predicate
				if m := w.fn(rootPath, "mapToFr"); m != nil {
					okk := false
					for _, r := range returns(m) {
						if strings.HasPrefix(render(r.Results[0]), "C.map_bytes_to_Fr(") {
							okk = true
						}
					}
					w.check(okk, "C12.R3", "mapToFr/returns-is-zero", m.Pos(), "mapToFr returns C's is-zero predicate", "mapToFr does not return map_bytes_to_Fr's result")
				}
				// PublicKey(): cached or computed via generator multiplication
				if pkf := w.method(a.prT, "PublicKey"); pkf != nil {
					for _, r := range returns(pkf) {
						s := render(r.Results[0])
						w.check(s == P(pkf, 0)+".pk", "C12.R4", fnKey(pkf)+"/returns-cache", r.Pos(), "returns the cached key", "PublicKey() returns `"+s+"`, not the cache field")
					}
					if cp := w.method(a.prT, "computePublicKey"); cp != nil {
						okk := len(cgoCallsDeep(w, cp, "G2_mult_gen_to_affine", 2)) > 0
						w.check(okk, "C12.R4", fnKey(cp)+"/generator-mult", cp.Pos(), "public key = scalar · g2", "computePublicKey does not multiply the generator by the scalar")
					}
				}
			}
		}
	}
}

func isPanicStub(fn *ssa.Function) bool {
	if len(fn.Blocks) != 1 {
		return false
	}
	_, ok := fn.Blocks[0].Instrs[len(fn.Blocks[0].Instrs)-1].(*ssa.Panic)
	return ok
}

func cgoCallsDeep(w *World, fn *ssa.Function, cname string, depth int) []*ssa.Call {
	out := cgoCalls(fn, cname)
	if depth == 0 {
		return out
	}
	instrs(fn, func(ins ssa.Instruction) {
		if c, ok := ins.(*ssa.Call); ok {
			if callee := c.Call.StaticCallee(); callee != nil && inModule(callee) && callee.Blocks != nil {
				out = append(out, cgoCallsDeep(w, callee, cname, depth-1)...)
			}
		}
	})
	return out
}

// ---------------- C13 ----------------

// callSeq returns, in dominance order, the method names invoked on values whose roots are `recvOK`.
type orderedCall struct {
	name string
	ins  ssa.CallInstruction
	recv string
	args []string
}

func methodCalls(fn *ssa.Function) []orderedCall { return methodCallsD(fn, 0) }

func methodCallsD(fn *ssa.Function, depth int) []orderedCall {
	var out []orderedCall
	var dead map[*ssa.BasicBlock]bool
	if depth > 0 {
		dead = infeasibleBlocks(fn)
	}
	for _, b := range fn.DomPreorder() {
		if dead[b] {
			continue
		}
		for _, ins := range b.Instrs {
			c, ok := ins.(ssa.CallInstruction)
			if !ok {
				continue
			}
			if h := helperCallee(ins); h != nil && depth < 3 {
				// extracted helper: its calls happen here, in order (rendered for this call site)
				enteredBy[h] = c
				for _, oc := range methodCallsD(h, depth+1) {
					if oc.name == "Write" && len(oc.args) == 1 && oc.args[0] == "nil" {
						continue // Write(nil) absorbs nothing
					}
					out = append(out, oc)
				}
				continue
			}
			cc := c.Common()
			var name, recv string
			var args []string
			if cc.IsInvoke() {
				name, recv = cc.Method.Name(), render(cc.Value)
				for _, a := range cc.Args {
					args = append(args, render(a))
				}
			} else if f := cc.StaticCallee(); f != nil && f.Signature.Recv() != nil && len(cc.Args) > 0 {
				name, recv = f.Name(), render(cc.Args[0])
				for _, a := range cc.Args[1:] {
					args = append(args, render(a))
				}
			} else {
				continue
			}
			out = append(out, orderedCall{name, c, recv, args})
		}
	}
	return out
}

func ruleC13(w *World) {
	w.floor("C13.R1", 3)
	w.floor("C13.R2", 10)
	w.floor("C13.R3", 12)
	w.floor("C13.R5", 1)
	w.floor("C13.R6", 3)
	minKey, _ := w.constInt(hashPath, "KmacMinKeyLen")
	// R1
	if fn := w.mustFn("C13.R1", hashPath, "NewKMAC_128"); fn != nil {
		key, out := P(fn, 0), P(fn, 2)
		for _, r := range returns(fn) {
			if isNilConst(r.Results[0]) {
				continue
			}
			w.requireFacts("C13.R1", fnKey(fn)+"/accept", r, fmt.Sprintf("%s >= 0", out), fmt.Sprintf("len(%s) >= %d", key, minKey))
		}
		w.check(minKey == 16, "C13.R1", "const:KmacMinKeyLen", token.NoPos, "minimum key length 16", fmt.Sprintf("KmacMinKeyLen is %d", minKey))
		w.ruleKmacInitBlock("C13.R2")
		bs, _ := w.constInt(hashPath, "cSHAKE128BlockSize")
		w.check(bs == 168, "C13.R3", "const:cSHAKE128BlockSize", token.NoPos, "cSHAKE128 rate 168", fmt.Sprintf("cSHAKE128 block size is %d", bs))
		// customizer and function name
		cs := callsTo(fn, "NewCShake128")
		okk := len(cs) == 1 && render(cs[0].Common().Args[1]) == P(fn, 1) && strings.Contains(render(cs[0].Common().Args[0]), "\"KMAC\"")
		w.check(okk, "C13.R2", fnKey(fn)+"/cshake-params", fn.Pos(), "cSHAKE128(N=\"KMAC\", S=customizer)", "cSHAKE is not instantiated with N=\"KMAC\" and the caller's customizer")
	}
	w.ruleKmacSequences("C13.R2")
	// R7: a digest handed to the caller is the caller's own value: nothing the hasher writes later (a further Write,
	// SumHash, Reset, Read) can change it — the returned slice is rooted in fresh memory, never in the receiver or a global
	w.floor("C13.R7", 6)
	w.ruleFreshDigests("C13.R7")
	// sponge ComputeHash: Reset → write(data) → sum; SHA2: Reset → Write → Sum
	var spongeT *types.Named
	if p := w.ByPath[hashPath]; p != nil {
		if tn, ok := p.Types.Scope().Lookup("spongeState").(*types.TypeName); ok {
			spongeT, _ = tn.Type().(*types.Named)
		}
	}
	if spongeT == nil {
		w.undecided("C13.R2", "anchor:spongeState", token.NoPos, "unresolved anchor: sponge state type")
	} else {
		if f := w.method(spongeT, "ComputeHash"); f != nil {
			s, data := P(f, 0), P(f, 1)
			var got []string
			for _, c := range methodCalls(f) {
				got = append(got, c.name+"@"+c.recv+"("+strings.Join(c.args, ", ")+")")
			}
			// the digest step is `sum`, or the exported SumHash that wraps / contains it
			want := []string{"Reset@" + s + "()", "write@" + s + "(" + data + ")", "sum@" + s + "()"}
			want2 := []string{"Reset@" + s + "()", "write@" + s + "(" + data + ")", "SumHash@" + s + "()"}
			g := strings.Join(got, ";")
			// the absorb step is the unexported worker or the exported Write that wraps / contains it
			g = strings.Replace(g, ";Write@"+s+"(", ";write@"+s+"(", 1)
			w.check(g == strings.Join(want, ";") || g == strings.Join(want2, ";"), "C13.R2", fnKey(f)+"/sequence", f.Pos(), "Reset→write(data)→sum", "sponge ComputeHash sequence is "+strings.Join(got, " ; "))
		}
		if f := w.method(spongeT, "Reset"); f != nil {
			// clears all 25 lanes and empties the buffer
			s := P(f, 0)
			// on every path: a return of Reset that the clearing code does not dominate leaves a used sponge as it
			// was (for a loop over the lanes the loop's entry, the immediate dominator of its body, stands for it)
			okBuf, okLanes := false, false
			inLoop := func(b *ssa.BasicBlock) bool {
				seen := map[*ssa.BasicBlock]bool{}
				var walk func(x *ssa.BasicBlock) bool
				walk = func(x *ssa.BasicBlock) bool {
					for _, y := range x.Succs {
						if y == b {
							return true
						}
						if !seen[y] {
							seen[y] = true
							if walk(y) {
								return true
							}
						}
					}
					return false
				}
				return walk(b)
			}
			everyReturn := func(b *ssa.BasicBlock) bool {
				if inLoop(b) && b.Idom() != nil {
					b = b.Idom()
				}
				for _, r := range returns(f) {
					if !b.Dominates(r.Block()) {
						return false
					}
				}
				return true
			}
			instrs(f, func(ins ssa.Instruction) {
				if c, ok := ins.(*ssa.Call); ok && c.Call.StaticCallee() != nil && c.Call.StaticCallee().Name() == "setBuf" && len(c.Call.Args) == 3 &&
					render(c.Call.Args[1]) == "0" && render(c.Call.Args[2]) == "0" {
					okBuf = okBuf || everyReturn(c.Block())
				}
				if st, ok := ins.(*ssa.Store); ok && strings.HasPrefix(render(st.Addr), "&"+s+".a[") && render(st.Val) == "0" {
					okLanes = okLanes || everyReturn(st.Block())
				}
				// `d.a = [25]uint64{}`: the whole lane array replaced by its zero value
				if st, ok := ins.(*ssa.Store); ok && render(st.Addr) == "&"+s+".a" {
					if k, isC := st.Val.(*ssa.Const); isC && k.Value == nil {
						okLanes = okLanes || everyReturn(st.Block())
					}
				}
				if c, ok := ins.(*ssa.Call); ok {
					if b, ok := c.Call.Value.(*ssa.Builtin); ok && b.Name() == "clear" && len(c.Call.Args) == 1 && strings.HasPrefix(render(c.Call.Args[0]), s+".a[:]") {
						okLanes = okLanes || everyReturn(c.Block())
					}
				}
			})
			w.check(okBuf && okLanes, "C13.R2", fnKey(f)+"/clears", f.Pos(), "Reset zeroes the state lanes and empties the buffer", "sponge Reset does not zero the lanes and empty the buffer")
		}
		sumFn := w.method(spongeT, "sum")
		if sumFn == nil {
			sumFn = tailWorker(w.method(spongeT, "SumHash"))
		}
		if sumFn == nil {
			w.undecided("C13.R2", "anchor:sponge-sum", token.NoPos, "unresolved anchor: the sponge's digest step (sum / SumHash)")
		}
		if f := sumFn; f != nil {
			var got []string
			for _, c := range methodCalls(f) {
				got = append(got, c.name)
			}
			okk := strings.Join(got, ";") == "padAndPermute"
			cps := callsTo(f, w.spongeRole("copyOut"))
			w.check(okk && len(cps) == 1 && instrDominates(callsTo(f, "padAndPermute")[0].(ssa.Instruction), cps[0].(ssa.Instruction)), "C13.R2", fnKey(f)+"/sequence", f.Pos(), "sum = pad+permute, then copy out", "sponge sum does not pad/permute before copying the digest out")
		}
	}
	for _, tn := range []string{"sha2_256Algo", "sha2_384Algo"} {
		if f := w.fn(hashPath, "(*"+tn+").ComputeHash"); f != nil {
			s, data := P(f, 0), P(f, 1)
			var got []string
			for _, c := range methodCalls(f) {
				got = append(got, c.name+"@"+c.recv+"("+strings.Join(c.args, ", ")+")")
			}
			// Sum(nil) or Sum of a fresh empty slice (make([]byte, 0, size)): the digest alone
			want := []string{"Reset@" + s + ".Hash()", "Write@" + s + ".Hash(" + data + ")", "Sum@" + s + ".Hash(nil)"}
			g := strings.ReplaceAll(strings.Join(got, ";"), ".Hash(make([]byte,0))", ".Hash(nil)")
			w.check(g == strings.Join(want, ";"), "C13.R2", fnKey(f)+"/sequence", f.Pos(), "Reset→Write(data)→Sum(nil)", "SHA-2 ComputeHash sequence is "+strings.Join(got, " ; "))
		} else {
			w.undecided("C13.R2", "anchor:"+tn, token.NoPos, "unresolved anchor")
		}
	}
	// R6: sponge buffer discipline — after bytes are appended to the partial block, the `buffer full ⇒ permute`
	// test runs before write returns or appends again, so the buffer never stays full (padAndPermute needs room
	// for the domain byte)
	if spongeT != nil {
		w.ruleSpongeBuffer("C13.R6", spongeT)
	}
	// R3: sponge literals (syntax level: composite literals of the sponge type)
	w.ruleSpongeLiterals("C13.R3", spongeT)
	// R5: bytepad congruence
	w.ruleBytepad("C13.R5")
}

func (w *World) ruleSpongeBuffer(rule string, spongeT *types.Named) {
	wr := w.method(spongeT, "write")
	if wr == nil {
		// by role: the absorb worker is the method of the sponge that both buffers (appendBuf) and absorbs whole blocks
		// (the lane xor) — whatever it is called after the exported/unexported pair was merged
		for _, f := range w.srcFuncs(hashPath) {
			if f.Signature.Recv() == nil || !types.Identical(deref(f.Signature.Recv().Type()), spongeT) || f.Name() == "padAndPermute" {
				continue
			}
			if len(callsTo(f, "appendBuf")) > 0 && len(callsTo(f, w.spongeRole("xorIn"))) > 0 {
				wr = f
			}
		}
	}
	if wr == nil {
		w.undecided(rule, "anchor:write", token.NoPos, "unresolved anchor: sponge write")
		return
	}
	d := P(wr, 0)
	full := "(" + d + ".bufSize == " + d + ".rate)"
	var isCheck func(b *ssa.BasicBlock) bool
	isCheck = func(b *ssa.BasicBlock) bool {
		ifi, ok := b.Instrs[len(b.Instrs)-1].(*ssa.If)
		if !ok || render(ifi.Cond) != full {
			return false
		}
		// the true edge permutes
		for _, ins := range b.Succs[0].Instrs {
			if c, ok := ins.(*ssa.Call); ok && c.Call.StaticCallee() != nil && c.Call.StaticCallee().Name() == "permute" {
				return true
			}
		}
		return false
	}
	apps := callsTo(wr, "appendBuf")
	if len(apps) == 0 {
		w.undecided(rule, fnKey(wr)+"/appendBuf", wr.Pos(), "buffered absorb path not recognised")
		return
	}
	// the same discipline for every other place that appends to the partial block (an exported Write that copies
	// short inputs itself, a helper): only the padding, which permutes unconditionally, is exempt. An append that a
	// dominating guard keeps strictly below the *rate* (not the storage size, which is the largest rate) cannot fill
	// the block and needs no test.
	type appSite struct {
		fn *ssa.Function
		c  ssa.CallInstruction
	}
	var sites []appSite
	for _, a := range apps {
		sites = append(sites, appSite{wr, a})
	}
	inWr := map[ssa.Instruction]bool{}
	for _, a := range apps {
		inWr[a.(ssa.Instruction)] = true
	}
	for _, f := range w.srcFuncs(hashPath) {
		if f == wr || isTestFile(w, f.Pos()) || f.Name() == "appendBuf" {
			continue
		}
		if f.Signature.Recv() == nil || !types.Identical(deref(f.Signature.Recv().Type()), spongeT) {
			continue
		}
		for _, a := range callsTo(f, "appendBuf") {
			if !inWr[a.(ssa.Instruction)] && a.Parent() == f {
				sites = append(sites, appSite{f, a})
			}
		}
	}
	for _, sa := range sites {
		a := sa.c
		ai := a.(ssa.Instruction)
		if sa.fn != wr {
			dd := P(sa.fn, 0)
			arg := render(a.Common().Args[len(a.Common().Args)-1])
			fs := w.factsAt(ai)
			if hasFact(fs, "len("+arg+") < ("+dd+".rate - "+dd+".bufSize)") || hasFact(fs, "(len("+arg+") + "+dd+".bufSize) < "+dd+".rate") {
				w.ok(rule, fnKey(sa.fn)+"/append-below-rate", ai.Pos(), "append guarded strictly below the rate")
				continue
			}
			full = "(" + dd + ".bufSize == " + dd + ".rate)"
		} else {
			full = "(" + d + ".bufSize == " + d + ".rate)"
		}
		wr0 := wr
		depthRet := 0
		wr := sa.fn
		// forward search from the append: reaching a return or another absorb step before the full-buffer test is a violation
		bad := ""
		seen := map[*ssa.BasicBlock]bool{}
		var walk func(b *ssa.BasicBlock, from int)
		walk = func(b *ssa.BasicBlock, from int) {
			if bad != "" {
				return
			}
			for i := from; i < len(b.Instrs); i++ {
				switch x := b.Instrs[i].(type) {
				case *ssa.Return:
					// an unexported part of the padding / absorbing code: what its callers do right after the call counts
					if pf := b.Parent(); depthRet < 1 && pf.Object() != nil && !pf.Object().Exported() && pf != wr0 {
						callers := w.callersOfCached(pf)
						n := 0
						for _, cs := range callers {
							if isTestFile(w, cs.Pos()) {
								continue
							}
							n++
							depthRet++
							savedFull := full
							cd := P(cs.Parent(), 0)
							full = "(" + cd + ".bufSize == " + cd + ".rate)"
							walk(cs.Block(), instrIndex(cs)+1)
							full = savedFull
							depthRet--
						}
						if n > 0 {
							return
						}
					}
					bad = "write can return right after appending to the buffer without testing whether it is full (at " + w.pos(posOf(x)) + ")"
					return
				case *ssa.Call:
					// the test moved into a helper `if bufSize == rate { permute }` called right here
					if h := x.Call.StaticCallee(); h != nil && inModule(h) && h.Blocks != nil && h.Signature.Recv() != nil && len(h.Params) == 1 && len(h.Blocks) >= 2 {
						hd := P(h, 0)
						if ifi, ok := h.Blocks[0].Instrs[len(h.Blocks[0].Instrs)-1].(*ssa.If); ok && render(ifi.Cond) == "("+hd+".bufSize == "+hd+".rate)" {
							perm := false
							for _, ins := range h.Blocks[0].Succs[0].Instrs {
								if c, ok := ins.(*ssa.Call); ok && c.Call.StaticCallee() != nil && c.Call.StaticCallee().Name() == "permute" {
									perm = true
								}
							}
							if perm {
								return
							}
						}
					}
					// an unconditional permute on the way (the padding): the block is absorbed and the buffer emptied
					if c := x.Call.StaticCallee(); c != nil && c.Name() == "permute" {
						return
					}
					if c := x.Call.StaticCallee(); c != nil && (c.Name() == "appendBuf" || c.Name() == w.spongeRole("xorIn")) && ssa.Instruction(x) != ai {
						bad = "another absorb step (" + c.Name() + ") can follow an append without the buffer-full test in between"
						return
					}
				}
			}
			if isCheck(b) {
				return
			}
			for _, s := range b.Succs {
				if !seen[s] {
					seen[s] = true
					walk(s, 0)
				}
			}
		}
		walk(ai.Block(), instrIndex(ai)+1)
		w.check(bad == "", rule, fnKey(wr)+"/full-buffer-test-after-append", ai.Pos(), "every append is followed by the buffer-full ⇒ permute test before write returns or absorbs again", bad+": a later SumHash pads a full buffer (digest wrong for inputs that end exactly on a block boundary after a split write)")
	}
	// the fast path absorbs whole blocks only when the buffer is empty
	for _, x := range callsTo(wr, w.spongeRole("xorIn")) {
		fs := w.factsAt(x.(ssa.Instruction))
		w.check(hasFact(fs, d+".bufSize == 0") && hasFact(fs, "len("+render(sliceBase(x.Common().Args[1]))+") >= "+d+".rate") || hasFactPrefixSuffix(fs, d+".bufSize == 0"), rule, fnKey(wr)+"/fast-path-empty-buffer", x.Pos(), "whole blocks are absorbed directly only when nothing is buffered", "the fast path absorbs input while bytes are still buffered (order of absorbed bytes changes)", factStrings(fs)...)
	}
	// padAndPermute: domain byte appended, zero fill to the rate, final bit, permute
	if pp := w.method(spongeT, "padAndPermute"); pp != nil {
		var seq []string
		for _, c := range methodCalls(pp) {
			seq = append(seq, c.name)
		}
		s2 := strings.Join(seq, ";")
		okk := strings.Contains(s2, "appendBuf") && strings.HasSuffix(strings.TrimSuffix(s2, ";setBuf"), "permute") && strings.Index(s2, "appendBuf") < strings.Index(s2, "permute")
		xor := false
		instrs(pp, func(ins ssa.Instruction) {
			if st, ok := ins.(*ssa.Store); ok && strings.Contains(render(st.Val), "^ 128") && strings.Contains(render(st.Addr), "("+P(pp, 0)+".rate - 1)") {
				xor = true
			}
		})
		w.check(okk && xor, rule, fnKey(pp)+"/padding-shape", pp.Pos(), "pad10*1: domain byte appended, last rate byte ^= 0x80, then permute", "padding sequence changed: calls "+s2+fmt.Sprintf(", final-bit xor at rate-1 present=%v", xor))
		// zero fill: every byte from the buffered length (after the domain byte) up to the rate is cleared — the block
		// buffer keeps bytes of earlier, longer inputs (Reset and permute do not wipe it), so a gap makes the digest depend
		// on the hasher's history.  Recognised: a byte loop `for i := bufSize; i < rate; i++ { buf[i] = 0 }` or
		// `clear(x[bufSize:rate])`, written in place or in a helper.
		recv := P(pp, 0)
		from, to := recv+".bufSize", recv+".rate"
		covered, seen := false, []string{}
		instrs(pp, func(ins ssa.Instruction) {
			switch x := ins.(type) {
			case *ssa.Call:
				if b, ok := x.Call.Value.(*ssa.Builtin); ok && b.Name() == "clear" && len(x.Call.Args) == 1 {
					if sl, ok := stripConv(x.Call.Args[0]).(*ssa.Slice); ok && sl.Low != nil && sl.High != nil {
						lo, hi := render(sl.Low), render(sl.High)
						seen = append(seen, "clear["+lo+":"+hi+"]")
						if lo == from && hi == to {
							if eb := elemBytes(sl.X.Type()); eb == 1 {
								covered = true
							}
						}
					}
				}
			case *ssa.Store:
				k, isC := constOf(x.Val)
				if !isC || k.Value == nil || k.Value.String() != "0" {
					return
				}
				ia, ok := x.Addr.(*ssa.IndexAddr)
				if !ok || elemBytes(ia.X.Type()) != 1 {
					if ok {
						seen = append(seen, "store 0 to "+render(x.Addr)+" (not a byte)")
					}
					return
				}
				// `for i := range b[from:to] { b[from:to][i] = 0 }` / a view b' := b[from:to] cleared entirely
				if sl, isSl := stripConv(ia.X).(*ssa.Slice); isSl && sl.Low != nil && sl.High != nil && render(sl.Low) == from && render(sl.High) == to {
					ixa := affineOf(ia.Index)
					if iph, isPhi := ixa.base.(*ssa.Phi); isPhi {
						if first, lbase, loff, okS := inductionSpan(iph); okS && first+ixa.c == 0 && loff+ixa.c == -1 && lenCallOf(lbase, ia.X) {
							seen = append(seen, "range over ["+from+":"+to+"]")
							covered = true
							return
						}
					}
				}
				// `for i := range to - from { b[from+i] = 0 }`: the offset form of the same loop
				if add, isAdd := stripConv(ia.Index).(*ssa.BinOp); isAdd && add.Op == token.ADD {
					bx, by := stripConv(add.X), stripConv(add.Y)
					if render(by) == from {
						bx, by = by, bx
					}
					if iph, isPhi := by.(*ssa.Phi); isPhi && render(bx) == from {
						if first, lbase, loff, okS := inductionSpan(iph); okS && first == 0 && loff == -1 && lbase != nil && render(lbase) == "("+to+" - "+from+")" {
							seen = append(seen, "offset loop over ["+from+":"+to+"]")
							covered = true
							return
						}
					}
				}
				ph, ok := stripConv(ia.Index).(*ssa.Phi)
				if !ok || len(ph.Edges) != 2 {
					seen = append(seen, "store 0 to "+render(x.Addr))
					return
				}
				var start ssa.Value
				step := false
				for _, e := range ph.Edges {
					if a := affineOf(e); a.base == ssa.Value(ph) && a.c == 1 {
						step = true
					} else {
						start = e
					}
				}
				hdr := ph.Block()
				ifi, isIf := hdr.Instrs[len(hdr.Instrs)-1].(*ssa.If)
				if start == nil || !step || !isIf {
					return
				}
				bo, isB := stripConv(ifi.Cond).(*ssa.BinOp)
				if !isB || bo.Op != token.LSS || stripConv(bo.X) != ssa.Value(ph) {
					seen = append(seen, "loop with condition "+render(ifi.Cond))
					return
				}
				lo, hi := render(start), render(bo.Y)
				seen = append(seen, "loop["+lo+":"+hi+"]")
				if lo == from && hi == to {
					covered = true
				}
			}
		})
		w.check(covered, rule, fnKey(pp)+"/zero-fill", pp.Pos(), "bytes bufSize..rate-1 of the block are cleared before the final bit is set",
			"the zero fill of the padding is not recognised as covering every byte from "+from+" to "+to+" (found: "+strings.Join(seen, "; ")+"): stale bytes of an earlier, longer input can be absorbed with the padding")
	}
}

// elemBytes: size in bytes of the elements of an array / slice / pointer-to-array type (0 if unknown)
func elemBytes(t types.Type) int64 {
	var el types.Type
	switch x := deref(t).Underlying().(type) {
	case *types.Array:
		el = x.Elem()
	case *types.Slice:
		el = x.Elem()
	default:
		return 0
	}
	if b, ok := el.Underlying().(*types.Basic); ok {
		switch b.Kind() {
		case types.Uint8, types.Int8:
			return 1
		case types.Uint16, types.Int16:
			return 2
		case types.Uint32, types.Int32:
			return 4
		case types.Uint64, types.Int64:
			return 8
		}
	}
	return 0
}

func hasFactPrefixSuffix(fs []Fact, want string) bool {
	for _, f := range fs {
		if f.Expr == want {
			return true
		}
	}
	return false
}

func instrDominates(a, b ssa.Instruction) bool {
	a, b = locOf(a), locOf(b)
	if a.Parent() != b.Parent() {
		// one of them sits in a virtually inlined helper: compare at the call site
		if la := liftTo(a, b.Parent()); la.Parent() == b.Parent() {
			a = la
		} else if lb := liftTo(b, a.Parent()); lb.Parent() == a.Parent() {
			b = lb
		} else {
			return false
		}
		if a == b {
			return false
		}
	}
	if a.Block() == b.Block() {
		return instrIndex(a) < instrIndex(b)
	}
	return a.Block().Dominates(b.Block())
}

type spongeLit struct {
	fn                  string
	algo                string
	rate, outLen, ds    int64
	okRate, okOut, okDs bool
	pos                 token.Pos
}

func (w *World) ruleSpongeLiterals(rule string, spongeT *types.Named) {
	p := w.ByPath[hashPath]
	if p == nil || spongeT == nil {
		return
	}
	var lits []spongeLit
	for _, f := range p.Syntax {
		if strings.HasSuffix(w.Fset.Position(f.Pos()).Filename, "_test.go") {
			continue
		}
		var curFn string
		ast.Inspect(f, func(n ast.Node) bool {
			if fd, ok := n.(*ast.FuncDecl); ok {
				curFn = fd.Name.Name
			}
			cl, ok := n.(*ast.CompositeLit)
			if !ok {
				return true
			}
			if t := p.TypesInfo.TypeOf(cl); t == nil || !types.Identical(t, spongeT) {
				return true
			}
			sl := spongeLit{fn: curFn, pos: cl.Pos()}
			for _, e := range cl.Elts {
				kv, ok := e.(*ast.KeyValueExpr)
				if !ok {
					continue
				}
				name := kv.Key.(*ast.Ident).Name
				tv := p.TypesInfo.Types[kv.Value]
				v, isC := constInt64(tv.Value)
				switch name {
				case "rate":
					sl.rate, sl.okRate = v, isC
				case "outputLen":
					sl.outLen, sl.okOut = v, isC
				case "dsByte":
					sl.ds, sl.okDs = v, isC
				case "algo":
					if id, ok := kv.Value.(*ast.Ident); ok {
						sl.algo = id.Name
					}
				}
			}
			lits = append(lits, sl)
			return true
		})
	}
	maxRate, _ := w.constInt(hashPath, "maxRate")
	byAlgo := map[string]spongeLit{}
	for _, l := range lits {
		key := l.fn + "/sponge-literal"
		if !(l.okRate && l.okOut && l.okDs) {
			w.viol(rule, key, l.pos, "sponge parameters are not compile-time constants")
			continue
		}
		w.check(l.rate+2*l.outLen == 200, rule, key+"/capacity", l.pos, fmt.Sprintf("rate %d + 2·%d = 200 (FIPS 202)", l.rate, l.outLen), fmt.Sprintf("rate %d and output length %d violate rate + 2·outputLen = 200", l.rate, l.outLen))
		w.check(l.outLen <= l.rate && l.rate <= maxRate && l.rate%8 == 0 && l.outLen%8 == 0, rule, key+"/ranges", l.pos, "outputLen ≤ rate ≤ maxRate, multiples of 8", fmt.Sprintf("rate %d / outputLen %d outside the supported ranges (maxRate %d)", l.rate, l.outLen, maxRate))
		wantDs := int64(0x06)
		if strings.Contains(strings.ToLower(l.fn), "keccak") || l.algo == "Keccak_256" {
			wantDs = 0x01
		}
		w.check(l.ds == wantDs, rule, key+"/domain-byte", l.pos, fmt.Sprintf("domain byte %#x", l.ds), fmt.Sprintf("domain separation byte is %#x, expected %#x", l.ds, wantDs))
		if l.algo != "" {
			byAlgo[l.algo] = l
			// output length constant of that algorithm
			if hl, ok := w.constInt(hashPath, "HashLen"+l.algo); ok {
				w.check(hl == l.outLen, rule, key+"/hashlen", l.pos, "outputLen equals the exported HashLen constant", fmt.Sprintf("outputLen %d differs from HashLen%s = %d", l.outLen, l.algo, hl))
			}
		}
	}
	// one-shot helper agrees with its constructor
	for _, l := range lits {
		if l.algo == "" && strings.HasPrefix(l.fn, "Compute") {
			alg := strings.TrimPrefix(l.fn, "Compute")
			c, ok := byAlgo[alg]
			w.check(ok && c.rate == l.rate && c.outLen == l.outLen && c.ds == l.ds, rule, l.fn+"/matches-constructor", l.pos, "one-shot helper uses the constructor's parameters", fmt.Sprintf("one-shot helper %s uses (rate %d, out %d, ds %#x) but the constructor uses (rate %d, out %d, ds %#x)", l.fn, l.rate, l.outLen, l.ds, c.rate, c.outLen, c.ds))
		}
	}
	// R4: rates ⊆ what the unrolled xor helper supports (13 or 17 words)
	var rates []int64
	for _, l := range lits {
		rates = append(rates, l.rate)
	}
	sort.Slice(rates, func(i, j int) bool { return rates[i] < rates[j] })
	for _, r := range rates {
		w.check(r == 104 || r == 136, "C13.R4", fmt.Sprintf("rate:%d", r), token.NoPos, "rate supported by the unrolled xor helper (13 or 17 words)", fmt.Sprintf("rate %d is not one of the two rates (104, 136) the unaligned xor helper implements", r))
	}
}

// ruleBytepad: evaluates bytepad's length arithmetic symbolically over the residues of the
// prefix length modulo w and requires the result to be the least multiple of w.
func (w *World) ruleBytepad(rule string) {
	fn := w.fn(hashPath, "bytepad")
	if fn == nil {
		w.undecided(rule, "anchor:bytepad", token.NoPos, "unresolved anchor")
		return
	}
	wp := P(fn, 1)
	// find padlen: the number of trailing zero bytes of the returned buffer (append or make+copy form)
	var padExpr ssa.Value
	var content []string
	var body ssa.Value
	for _, r := range returns(fn) {
		if lay, ok := bufLayout(r.Results[0]); ok && lay.pad != nil {
			padExpr, content, body = lay.pad, lay.content, lay.body
		}
	}
	if padExpr == nil {
		w.undecided(rule, fnKey(fn)+"/padlen", fn.Pos(), "padding idiom not recognised")
		return
	}
	// isContentLen: v is the length of the unpadded content: len(body) in the append form, or a sum of the pieces' lengths
	isContentLen := func(v ssa.Value) bool {
		if c, ok := stripConv(v).(*ssa.Call); ok {
			if b, ok := c.Call.Value.(*ssa.Builtin); ok && b.Name() == "len" && body != nil && (c.Call.Args[0] == body || render(c.Call.Args[0]) == render(body)) {
				return true
			}
		}
		var t []string
		var rest []ssa.Value
		lenTerms(v, map[*ssa.Call]string{}, &t, &rest)
		return len(rest) == 0 && len(t) > 0 && sameTerms(t, content)
	}
	s := render(padExpr)
	// accepted exact forms, each evaluated over all residues r = len(buf) mod w, for w in the call-site constants
	bs, _ := w.constInt(hashPath, "cSHAKE128BlockSize")
	// the padding length as a function of the residue r = len(buf) mod w: the SSA expression is evaluated with
	// `len(·) % w` ≡ r and w = the block size; comparisons and phis at the joins of ifs are followed (no string forms)
	var ev func(v ssa.Value, r, wv int64, d int) (int64, bool)
	ev = func(v ssa.Value, r, wv int64, d int) (int64, bool) {
		if d > 12 {
			return 0, false
		}
		v = stripConv(v)
		switch x := v.(type) {
		case *ssa.Const:
			return constInt64(x.Value)
		case *ssa.Parameter:
			if x.Name() == wp {
				return wv, true
			}
		case *ssa.BinOp:
			if x.Op == token.REM {
				// (content length) % w
				if isContentLen(x.X) {
					if m, ok := ev(x.Y, r, wv, d+1); ok && m == wv {
						return r, true
					}
				}
			}
			a, ok1 := ev(x.X, r, wv, d+1)
			b, ok2 := ev(x.Y, r, wv, d+1)
			if !ok1 || !ok2 {
				return 0, false
			}
			switch x.Op {
			case token.ADD:
				return a + b, true
			case token.SUB:
				return a - b, true
			case token.MUL:
				return a * b, true
			case token.REM:
				if b != 0 {
					return a % b, true
				}
			case token.QUO:
				if b != 0 {
					return a / b, true
				}
			case token.EQL:
				return b2i(a == b), true
			case token.NEQ:
				return b2i(a != b), true
			case token.LSS:
				return b2i(a < b), true
			case token.LEQ:
				return b2i(a <= b), true
			case token.GTR:
				return b2i(a > b), true
			case token.GEQ:
				return b2i(a >= b), true
			}
		case *ssa.Phi:
			// value at the join of an if: the edge whose branch condition holds for this residue
			for i, e := range x.Edges {
				pred := x.Block().Preds[i]
				// walk up through straight-line predecessors to the deciding If
				cur, prev := pred, x.Block()
				for len(cur.Preds) == 1 && len(cur.Succs) == 1 {
					prev, cur = cur, cur.Preds[0]
				}
				ifi, isIf := cur.Instrs[len(cur.Instrs)-1].(*ssa.If)
				if !isIf || len(cur.Succs) != 2 {
					return 0, false
				}
				cv, ok := ev(ifi.Cond, r, wv, d+1)
				if !ok {
					return 0, false
				}
				taken := cur.Succs[1]
				if cv != 0 {
					taken = cur.Succs[0]
				}
				if taken == prev || (cur == pred && taken == x.Block()) {
					return ev(e, r, wv, d+1)
				}
			}
			return 0, false
		}
		return 0, false
	}
	eval := func(r, wv int64) (int64, bool) { return ev(padExpr, r, wv, 0) }
	bad := []string{}
	known := true
	for r := int64(0); r < bs; r++ {
		pad, ok := eval(r, bs)
		if !ok {
			known = false
			break
		}
		least := (bs - r) % bs
		if pad != least {
			bad = append(bad, fmt.Sprintf("len≡%d: pads %d, least multiple needs %d", r, pad, least))
		}
	}
	if !known {
		w.undecided(rule, fnKey(fn)+"/padlen-form", fn.Pos(), "padding length expression `"+s+"` is not one of the recognised forms")
		return
	}
	w.check(len(bad) == 0, rule, fnKey(fn)+"/least-multiple", fn.Pos(), "bytepad pads to the least multiple of w for every residue", "bytepad does not pad to the least multiple of w (SP 800-185): "+strings.Join(bad, "; ")+" — padlen = "+s)
}

// ruleKmacInitBlock: the KMAC key (for BLS: domain tag ‖ ciphersuite) enters the hash exactly as
// bytepad(encode_string(key), 168): stored unmodified in the init-block field and absorbed by the
// constructor, Reset and ComputeHash.  Shared by C01 (tag folded into the key), C13 and C16.
func (w *World) ruleKmacInitBlock(rule string) {
	fn := w.fn(hashPath, "NewKMAC_128")
	if fn == nil {
		w.undecided(rule, "anchor:NewKMAC_128", token.NoPos, "unresolved anchor: KMAC constructor")
		return
	}
	key := P(fn, 0)
	bs, _ := w.constInt(hashPath, "cSHAKE128BlockSize")
	want := fmt.Sprintf("bytepad(encodeString(%s), %d)", key, bs)
	stored, written := false, false
	instrs(fn, func(ins ssa.Instruction) {
		switch x := ins.(type) {
		case *ssa.Store:
			if f := addrField(x.Addr); f != nil && f.Name() == "initBlock" {
				stored = render(x.Val) == want
				if !stored {
					w.viol(rule, fnKey(fn)+"/init-block-value", x.Pos(), "init block is `"+render(x.Val)+"`, expected exactly "+want)
				}
			}
		case ssa.CallInstruction:
			if x.Common().IsInvoke() && x.Common().Method.Name() == "Write" {
				a := render(x.Common().Args[0])
				if strings.HasSuffix(a, ".initBlock") || a == want {
					written = true // the stored block, or the very value that is stored
				}
			} else if f := x.Common().StaticCallee(); f != nil && f.Name() == "Write" && len(x.Common().Args) > 1 {
				if a := render(x.Common().Args[1]); strings.HasSuffix(a, ".initBlock") || a == want {
					written = true
				}
			}
		}
	})
	w.check(stored, rule, fnKey(fn)+"/init-block", fn.Pos(), "init block = bytepad(encode_string(key), 168), stored unmodified", "the KMAC init block is not stored as exactly "+want+" (e.g. copied into a fixed-size buffer, truncated or transformed): distinct keys/domain tags could collide")
	w.check(written, rule, fnKey(fn)+"/init-block-absorbed", fn.Pos(), "constructor absorbs the init block", "constructor does not absorb the stored init block")
	// the field is a slice (variable length), written nowhere else
	for _, f := range w.srcFuncs(hashPath) {
		if f == fn || isTestFile(w, f.Pos()) {
			continue
		}
		instrs(f, func(ins ssa.Instruction) {
			if st, ok := ins.(*ssa.Store); ok {
				if fld := rootField(st.Addr); fld != nil && fld.Name() == "initBlock" {
					w.viol(rule, fnKey(f)+"/init-block-rewritten", st.Pos(), "the KMAC init block is modified after construction")
				}
			}
		})
	}
	// encodeString / leftEncode feed the whole key: encodeString yields leftEncode(8·len) then all of s; bytepad yields
	// leftEncode(w), the whole input, then zeros — whether built by appends or by copies into a buffer of the full size
	if es := w.fn(hashPath, "encodeString"); es != nil {
		sArg := P(es, 0)
		okk, got := false, "?"
		for _, r := range returns(es) {
			if lay, ok := bufLayout(r.Results[0]); ok {
				got = strings.Join(lay.pieces, " ‖ ")
				okk = len(lay.pieces) == 2 && lay.pieces[0] == fmt.Sprintf("leftEncode((len(%s) * 8))", sArg) && lay.pieces[1] == sArg && lay.pad == nil
			}
		}
		w.check(okk, rule, fnKey(es)+"/shape", es.Pos(), "encode_string(S) = left_encode(8·|S|) ‖ S", "encodeString does not yield left_encode(8·len) followed by the whole string: "+got)
	}
	if bp := w.fn(hashPath, "bytepad"); bp != nil {
		in, wv := P(bp, 0), P(bp, 1)
		okk, got := false, "?"
		for _, r := range returns(bp) {
			if lay, ok := bufLayout(r.Results[0]); ok {
				got = strings.Join(lay.pieces, " ‖ ")
				okk = len(lay.pieces) == 2 && lay.pieces[0] == "leftEncode("+wv+")" && lay.pieces[1] == in && lay.pad != nil
			}
		}
		w.check(okk, rule, fnKey(bp)+"/shape", bp.Pos(), "bytepad(X,w) = left_encode(w) ‖ X ‖ 0…", "bytepad does not yield left_encode(w), the whole input, then zero padding: "+got)
	}
}

// bufLayout: the content of a byte slice built in one of two ways — a chain of appends onto an empty make, or a make of
// the full length filled front to back by copies — as the sequence of its source pieces, the length terms of that content
// and, if the buffer is longer than its content, the value giving the number of trailing zero bytes.
type bufLay struct {
	pieces  []string
	content []string  // canonical length terms of the pieces: len(<piece>)
	pad     ssa.Value // number of trailing zero bytes (nil: none)
	body    ssa.Value // append form: the slice value holding the content before the padding
	zeroTail int      // append form: the last piece is a literal of that many zero bytes (append(b, 0))
}

func lenTerms(v ssa.Value, copies map[*ssa.Call]string, out *[]string, rest *[]ssa.Value) {
	v = stripConv(v)
	if bo, ok := v.(*ssa.BinOp); ok && bo.Op == token.ADD {
		lenTerms(bo.X, copies, out, rest)
		lenTerms(bo.Y, copies, out, rest)
		return
	}
	if c, ok := v.(*ssa.Call); ok {
		if t, isCopy := copies[c]; isCopy {
			*out = append(*out, t)
			return
		}
		if b, ok := c.Call.Value.(*ssa.Builtin); ok && b.Name() == "len" {
			*out = append(*out, "len("+render(c.Call.Args[0])+")")
			return
		}
	}
	if k, ok := v.(*ssa.Const); ok {
		if n, _ := constInt64(k.Value); n == 0 {
			return
		}
	}
	*rest = append(*rest, v)
}

func sameTerms(a, b []string) bool {
	if len(a) != len(b) {
		return false
	}
	x, y := append([]string{}, a...), append([]string{}, b...)
	sort.Strings(x)
	sort.Strings(y)
	for i := range x {
		if x[i] != y[i] {
			return false
		}
	}
	return true
}

func bufLayout(v ssa.Value) (bufLay, bool) {
	var lay bufLay
	v = stripConv(v)
	// append form
	if c, ok := v.(*ssa.Call); ok {
		var chain []*ssa.Call
		cur := ssa.Value(c)
		for {
			cc, ok := stripConv(cur).(*ssa.Call)
			if !ok {
				break
			}
			b, ok := cc.Call.Value.(*ssa.Builtin)
			if !ok || b.Name() != "append" || len(cc.Call.Args) != 2 {
				return lay, false
			}
			chain = append([]*ssa.Call{cc}, chain...)
			cur = cc.Call.Args[0]
		}
		mk, ok := stripConv(cur).(*ssa.MakeSlice)
		if !ok || len(chain) == 0 {
			return lay, false
		}
		if k, isC := constOf(mk.Len); !isC {
			return lay, false
		} else if n, _ := constInt64(k.Value); n != 0 {
			return lay, false
		}
		for i, cc := range chain {
			arg := cc.Call.Args[1]
			if ms, isMk := sliceBase(arg).(*ssa.MakeSlice); isMk && i == len(chain)-1 && len(chain) > 1 {
				lay.pad = ms.Len
				lay.body = cc.Call.Args[0]
				continue
			}
			lay.pieces = append(lay.pieces, render(arg))
			lay.content = append(lay.content, "len("+render(arg)+")")
			if i == len(chain)-1 {
				lay.zeroTail = zeroLiteralLen(arg)
			}
		}
		return lay, true
	}
	// make + copies
	mk, ok := v.(*ssa.MakeSlice)
	if !ok {
		return lay, false
	}
	type cp struct {
		call *ssa.Call
		off  ssa.Value
	}
	var cps []cp
	for _, ref := range *mk.Referrers() {
		switch x := ref.(type) {
		case *ssa.Call:
			b, ok := x.Call.Value.(*ssa.Builtin)
			if !ok {
				return lay, false // handed to another function
			}
			switch b.Name() {
			case "copy":
				if x.Call.Args[0] != ssa.Value(mk) {
					return lay, false
				}
				cps = append(cps, cp{x, nil})
			case "len", "cap":
			default:
				return lay, false
			}
		case *ssa.Slice:
			if x.High != nil || x.Max != nil {
				return lay, false
			}
			for _, r2 := range *x.Referrers() {
				cc, ok := r2.(*ssa.Call)
				if !ok {
					return lay, false
				}
				b, ok := cc.Call.Value.(*ssa.Builtin)
				if !ok || b.Name() != "copy" || cc.Call.Args[0] != ssa.Value(x) {
					return lay, false
				}
				cps = append(cps, cp{cc, x.Low})
			}
		case *ssa.Return, *ssa.DebugRef:
		case *ssa.ChangeType, *ssa.MakeInterface:
		default:
			return lay, false
		}
	}
	sort.SliceStable(cps, func(i, j int) bool { return instrDominatesFlat(cps[i].call, cps[j].call) })
	copies := map[*ssa.Call]string{}
	for k, c := range cps {
		if k+1 < len(cps) && !instrDominatesFlat(c.call, cps[k+1].call) {
			return lay, false
		}
		var off []string
		var rest []ssa.Value
		if c.off != nil {
			lenTerms(c.off, copies, &off, &rest)
		}
		if len(rest) != 0 || !sameTerms(off, lay.content) {
			return lay, false // not written front to back
		}
		src := render(c.call.Call.Args[1])
		lay.pieces = append(lay.pieces, src)
		lay.content = append(lay.content, "len("+src+")")
		copies[c.call] = "len(" + src + ")"
	}
	// total length = content (+ padding)
	var tot []string
	var rest []ssa.Value
	lenTerms(mk.Len, map[*ssa.Call]string{}, &tot, &rest)
	if !sameTerms(tot, lay.content) || len(rest) > 1 {
		return lay, false
	}
	if len(rest) == 1 {
		lay.pad = rest[0]
	}
	return lay, true
}

// ---------------- C14 ----------------

func ruleC14(w *World) {
	w.floor("C14.R1", 3)
	w.floor("C14.R2", 4)
	w.floor("C14.R3", 3)
	w.floor("C14.R5", 1)
	w.floor("C14.R4", 3)
	keySize, _ := w.constInt(randomPath, "keySize")
	nonce, _ := w.constInt(randomPath, "nonceSize")
	cnt, _ := w.constInt(randomPath, "counterBytesLen")
	nf := w.mustFn("C14.R1", randomPath, "NewChacha20PRG")
	rf := w.mustFn("C14.R1", randomPath, "RestoreChacha20PRG")
	if nf == nil || rf == nil {
		return
	}
	w.check(keySize == 32 && nonce == 12 && cnt == 8, "C14.R1", "const:sizes", token.NoPos, "key 32, nonce 12, counter 8 bytes", fmt.Sprintf("sizes are key %d nonce %d counter %d", keySize, nonce, cnt))
	seed, cust := P(nf, 0), P(nf, 1)
	for _, r := range returns(nf) {
		if !isNilConst(r.Results[0]) {
			w.requireFacts("C14.R1", fnKey(nf)+"/accept", r, fmt.Sprintf("len(%s) == %d", seed, keySize), fmt.Sprintf("len(%s) <= %d", cust, nonce))
		}
	}
	st := P(rf, 0)
	for _, r := range returns(rf) {
		if !isNilConst(r.Results[0]) {
			w.requireFacts("C14.R1", fnKey(rf)+"/accept", r, fmt.Sprintf("len(%s) == %d", st, keySize+nonce+cnt))
		}
	}
	// New: cipher keyed with the copied seed/customizer arrays
	for _, c := range callsTo(nf, "NewUnauthenticatedCipher") {
		a0, a1 := render(c.Common().Args[0]), render(c.Common().Args[1])
		w.check(strings.HasSuffix(a0, ".seed[:]") && strings.HasSuffix(a1, ".customizer[:]"), "C14.R1", fnKey(nf)+"/cipher-key", c.Pos(), "cipher keyed with (seed, zero-padded customizer)", "cipher is not keyed with the stored seed / padded customizer: "+a0+", "+a1)
	}
	copies := 0
	instrs(nf, func(ins ssa.Instruction) {
		if c, ok := ins.(*ssa.Call); ok {
			if b, ok := c.Call.Value.(*ssa.Builtin); ok && b.Name() == "copy" {
				d, s := render(c.Call.Args[0]), render(c.Call.Args[1])
				if strings.HasSuffix(d, ".seed[:]") && s == seed || strings.HasSuffix(d, ".customizer[:]") && s == cust {
					copies++
				} else if s == seed || s == cust {
					// copied into a fresh local array that is then stored, whole, into the core's field of that name
					if sl, ok := stripConv(c.Call.Args[0]).(*ssa.Slice); ok && sl.Low == nil && sl.High == nil {
						if al, ok := sl.X.(*ssa.Alloc); ok {
							for _, r := range *al.Referrers() {
								if ld, ok := r.(*ssa.UnOp); ok && ld.Op == token.MUL {
									for _, r2 := range *ld.Referrers() {
										if st, ok := r2.(*ssa.Store); ok && st.Val == ssa.Value(ld) {
											if f := addrField(st.Addr); f != nil && (f.Name() == "seed" && s == seed || f.Name() == "customizer" && s == cust) && instrDominatesFlat(c, st) {
												copies++
											}
										}
									}
								}
							}
						}
					}
				}
			}
		}
	})
	w.check(copies == 2, "C14.R1", fnKey(nf)+"/copies", nf.Pos(), "seed and customizer copied into the core", "seed/customizer are not both copied into the core state")
	// R2 layout: Store appends seed, customizer, counter(LE) ; Restore slices [0:32], [32:44], [44:] LE
	var prgT *types.Named
	if p := w.ByPath[randomPath]; p != nil {
		if tn, ok := p.Types.Scope().Lookup("chachaPRG").(*types.TypeName); ok {
			prgT, _ = tn.Type().(*types.Named)
		}
	}
	if prgT == nil {
		w.undecided("C14.R2", "anchor:chachaPRG", token.NoPos, "unresolved anchor")
		return
	}
	if sf := w.method(prgT, "Store"); sf != nil {
		var order []string
		for _, b := range sf.DomPreorder() {
			for _, ins := range b.Instrs {
				if c, ok := ins.(*ssa.Call); ok {
					if bi, ok := c.Call.Value.(*ssa.Builtin); ok && bi.Name() == "append" {
						order = append(order, render(c.Call.Args[1]))
					}
				}
			}
		}
		c := P(sf, 0)
		want := []string{c + ".core.seed[:]", c + ".core.customizer[:]", fmt.Sprintf("make([]byte,%d)", cnt)}
		pu := callsTo(sf, "PutUint64")
		if len(order) == 0 {
			// the other way of writing the same layout: a buffer of the full length filled in place —
			// copy(buf[a:b], src) and PutUint64(buf[a:…], counter) — gives the table offset → (length, source)
			type piece struct {
				off, n int64
				src    string
			}
			type bpiece struct {
				piece
				buf  ssa.Value // base of the buffer written
				from ssa.Value // base of the source (for whole-buffer copies)
			}
			var all []bpiece
			var pieces []piece
			var buf ssa.Value
			bad := ""
			bounds := func(v ssa.Value, at ssa.Instruction) (ssa.Value, int64, int64, bool) {
				// a destination that is the parameter of a small writer helper (`putCounter(dst, v)`): what the caller passed
				for k := 0; k < 2; k++ {
					if hp, isP := stripConv(v).(*ssa.Parameter); isP && hp.Parent() != sf {
						if up := enteringArg(hp); up != nil {
							v = up
							if ci, ok := enteredBy[hp.Parent()]; ok && ci != nil {
								at = ci
							}
							continue
						}
					}
					break
				}
				sl, ok := stripConv(v).(*ssa.Slice)
				if !ok {
					// the whole buffer
					if l, h, k := w.lenBound(v, at); k && l == h {
						return v, 0, l, true
					}
					return nil, 0, 0, false
				}
				var lo, hi int64 = 0, -1
				if sl.Low != nil {
					l, h, k := w.intBound(sl.Low, at)
					if !k || l != h {
						return nil, 0, 0, false
					}
					lo = l
				}
				if sl.High != nil {
					l, h, k := w.intBound(sl.High, at)
					if !k || l != h {
						return nil, 0, 0, false
					}
					hi = l
				}
				return sl.X, lo, hi, true
			}
			instrs(sf, func(ins ssa.Instruction) {
				cl, ok := ins.(*ssa.Call)
				if !ok {
					return
				}
				if bi, ok := cl.Call.Value.(*ssa.Builtin); ok && bi.Name() == "copy" {
					b, lo, hi, k := bounds(cl.Call.Args[0], cl)
					if !k || hi < 0 {
						bad = "a copy into the state buffer has no constant bounds"
						return
					}
					all = append(all, bpiece{piece{lo, hi - lo, render(cl.Call.Args[1])}, sliceBase(b), sliceBase(cl.Call.Args[1])})
				}
			})
			for _, p := range pu {
				b, lo, hi, k := bounds(p.Common().Args[1], p.(ssa.Instruction))
				if !k {
					bad = "the counter is not written at a constant offset"
					continue
				}
				if hi >= 0 && hi-lo != int64(cnt) {
					bad = "the counter slot is not 8 bytes"
				}
				all = append(all, bpiece{piece{lo, int64(cnt), "counter"}, sliceBase(b), nil})
			}
			// the state may be assembled in a scratch buffer and copied as a whole into the buffer that is returned
			var scratch ssa.Value
			for _, bp := range all {
				if bp.off == 0 && bp.n == int64(keySize+nonce+cnt) && bp.from != nil {
					isScratch := false
					for _, o := range all {
						if o.buf == bp.from {
							isScratch = true
						}
					}
					if isScratch {
						scratch, buf = bp.from, bp.buf
					}
				}
			}
			for _, bp := range all {
				if scratch != nil && bp.buf == buf && bp.from == scratch {
					continue // the final whole copy
				}
				want := bp.buf
				if scratch != nil {
					if bp.buf != scratch {
						bad = "pieces are written into different buffers"
					}
				} else {
					if buf != nil && want != buf {
						bad = "pieces are written into different buffers"
					}
					buf = want
				}
				pieces = append(pieces, bp.piece)
			}
			sort.Slice(pieces, func(i, j int) bool { return pieces[i].off < pieces[j].off })
			okk := bad == "" && len(pieces) == 3 &&
				pieces[0] == piece{0, int64(keySize), want[0]} && pieces[1] == piece{int64(keySize), int64(nonce), want[1]} && pieces[2] == piece{int64(keySize + nonce), int64(cnt), "counter"}
			if okk {
				// the buffer is a make of exactly the total length and is what Store returns
				base := sliceBase(buf)
				switch base.(type) {
				case *ssa.MakeSlice, *ssa.Alloc: // make with a variable / a constant length
				default:
					okk = false
				}
				if okk {
					for _, r := range returns(sf) {
						l, h, k := w.lenBound(r.Results[0], r)
						if sliceBase(r.Results[0]) != base || !k || l != h || l != int64(keySize+nonce+cnt) {
							okk = false
						}
					}
				}
			}
			var got []string
			for _, p := range pieces {
				got = append(got, fmt.Sprintf("[%d,+%d)=%s", p.off, p.n, p.src))
			}
			w.check(okk, "C14.R2", fnKey(sf)+"/layout", sf.Pos(), "Store = seed ‖ customizer ‖ counter (buffer filled in place)", "Store writes "+strings.Join(got, " ")+" "+bad+", expected seed ‖ customizer ‖ counter in one buffer of the total length")
		} else {
			// counter buffer may be rendered as heap makeslice
			okk := len(order) == 3 && order[0] == want[0] && order[1] == want[1] && (order[2] == want[2] || strings.Contains(order[2], "makeslice"))
			w.check(okk, "C14.R2", fnKey(sf)+"/layout", sf.Pos(), "Store = seed ‖ customizer ‖ counter", "Store appends "+strings.Join(order, " ‖ ")+", expected seed ‖ customizer ‖ counter")
		}
		okk := len(pu) == 1 && strings.Contains(render(pu[0].Common().Args[0]), "LittleEndian") && render(pu[0].Common().Args[2]) == c+".core.bytesCounter"
		w.check(okk, "C14.R2", fnKey(sf)+"/counter-encoding", sf.Pos(), "counter stored little-endian from bytesCounter", "counter is not LittleEndian.PutUint64(bytesCounter)")
	}
	{
		// slice bounds are compared after normalisation: [0:k] = [:k]; [k:52] = [k:len] = [k:] (the state is exactly 52 bytes, R1)
		total := fmt.Sprint(keySize + nonce + 8)
		rn := func(v ssa.Value) string { return canonSlices(render(v), st, total) }
		sl := map[string]bool{}
		instrs(rf, func(ins ssa.Instruction) {
			if s, ok := ins.(*ssa.Slice); ok && render(s.X) == st {
				sl[rn(s)] = true
			}
		})
		want := []string{fmt.Sprintf("%s[:%d]", st, keySize), fmt.Sprintf("%s[%d:%d]", st, keySize, keySize+nonce), fmt.Sprintf("%s[%d:]", st, keySize+nonce)}
		for _, wv := range want {
			w.check(sl[wv], "C14.R2", fnKey(rf)+"/slice:"+wv, rf.Pos(), "Restore reads "+wv, "Restore does not slice the state as "+wv+" (layout disagrees with Store)")
		}
		u := callsTo(rf, "Uint64")
		okk := len(u) == 1 && strings.Contains(render(u[0].Common().Args[0]), "LittleEndian") && rn(u[0].Common().Args[1]) == want[2]
		w.check(okk, "C14.R2", fnKey(rf)+"/counter-decoding", rf.Pos(), "counter read little-endian from the last 8 bytes", "counter is not LittleEndian.Uint64 of the last 8 bytes")
		// values may be parked in the fields of the fresh core object before they are used (a worker method shared with
		// New keys the cipher from the core): field loads are resolved to what was stored there
		resolveKnownStructs = true
		defer func() { resolveKnownStructs = false }()
		for _, c := range callsTo(rf, "NewUnauthenticatedCipher") {
			// the key material may first be copied into the core's own arrays (a constructor shared with New): an
			// argument `X.f[:]` stands for what the copy that precedes the call put there — in the same function, or in
			// the caller when X is the object a helper received
			through := func(v ssa.Value) string {
				got := rn(v)
				// the object and field behind v
				var obj ssa.Value
				fld := -1
				if sl, ok := stripConv(v).(*ssa.Slice); ok && sl.Low == nil && sl.High == nil {
					if fa, ok := sl.X.(*ssa.FieldAddr); ok {
						obj, fld = fa.X, fa.Field
						if up := enteringArg(obj); up != nil {
							obj = up
						}
					}
				}
				instrs(rf, func(ins ssa.Instruction) {
					if cp, ok := ins.(*ssa.Call); ok {
						if b, ok := cp.Call.Value.(*ssa.Builtin); ok && b.Name() == "copy" {
							if cp.Parent() == c.Parent() && instrDominatesFlat(cp, c.(ssa.Instruction)) && render(cp.Call.Args[0]) == render(v) && strings.HasSuffix(render(v), "[:]") {
								got = rn(cp.Call.Args[1])
								return
							}
							if obj != nil && cp.Parent() != c.Parent() {
								if via, ok := enteredBy[c.Parent()]; ok && via.Parent() == cp.Parent() && instrDominatesFlat(cp, via.(ssa.Instruction)) {
									if sl, ok := stripConv(cp.Call.Args[0]).(*ssa.Slice); ok && sl.Low == nil && sl.High == nil {
										if fa, ok := sl.X.(*ssa.FieldAddr); ok && fa.X == obj && fa.Field == fld {
											got = rn(cp.Call.Args[1])
										}
									}
								}
							}
						}
					}
				})
				return got
			}
			w.check(through(c.Common().Args[0]) == want[0] && through(c.Common().Args[1]) == want[1], "C14.R2", fnKey(rf)+"/cipher-key", c.Pos(), "cipher rebuilt from the stored seed and customizer", "Restore keys the cipher with "+render(c.Common().Args[0])+", "+render(c.Common().Args[1]))
		}
		// R4: block arithmetic with one constant = 64
		ctr := "*LittleEndian.Uint64(" + want[2] + ")"
		sc := callsTo(rf, "SetCounter")
		okk = len(sc) == 1 && rn(sc[0].Common().Args[1]) == "("+ctr+" / 64)"
		if okk {
			// the quotient is formed in the counter's own 64-bit type and narrowed afterwards: narrowing
			// first drops the high bits of the byte counter (streams longer than 4 GiB)
			v := sc[0].Common().Args[1]
			wide := false
			for {
				if hv := helperValue(v); hv != nil {
					v = hv // computed in an extracted helper
					continue
				}
				if cv, ok := v.(*ssa.Convert); ok {
					v = cv.X
					continue
				}
				break
			}
			if bo, ok := v.(*ssa.BinOp); ok && bo.Op == token.QUO {
				// the dividend is 64 bits wide where the quotient is formed, and was never narrowed on its way there
				// (followed through conversions and through the parameters of extracted helpers to their call sites)
				if bt, ok := bo.X.Type().Underlying().(*types.Basic); ok && (bt.Kind() == types.Uint64 || bt.Kind() == types.Int64) {
					wide = w.neverNarrowed(bo.X, 0)
				}
			}
			w.check(wide, "C14.R4", fnKey(rf)+"/block-count-width", rf.Pos(), "bytes/64 is computed on the 64-bit counter and narrowed to the 32-bit block counter afterwards", "the byte counter is narrowed before the division by the block size: stored states at or beyond 2^32 bytes restore to the wrong block")
		}
		w.check(okk, "C14.R4", fnKey(rf)+"/block-count", rf.Pos(), "block counter = bytes / 64", "SetCounter argument is not bytesCounter/64: "+func() string {
			if len(sc) == 1 {
				return render(sc[0].Common().Args[1])
			}
			return "none"
		}())
		xk := callsTo(rf, "XORKeyStream")
		okk = false
		if len(xk) == 1 {
			if ms, ok := sliceBase(xk[0].Common().Args[1]).(*ssa.MakeSlice); ok && rn(ms.Len) == "("+ctr+" % 64)" && len(sc) == 1 && instrDominates(sc[0].(ssa.Instruction), xk[0].(ssa.Instruction)) {
				okk = true
			}
		}
		w.check(okk, "C14.R4", fnKey(rf)+"/discard", rf.Pos(), "discards bytes % 64 of keystream after positioning the block counter", "Restore does not discard bytesCounter%64 keystream bytes after SetCounter")
		// restored core fields
		fields := map[string]string{}
		instrs(rf, func(ins ssa.Instruction) {
			if s, ok := ins.(*ssa.Store); ok {
				if f := addrField(s.Addr); f != nil {
					fields[f.Name()] = rn(s.Val)
				}
			}
		})
		w.check(fields["bytesCounter"] == ctr, "C14.R4", fnKey(rf)+"/core-counter", rf.Pos(), "restored byte counter = stored counter", "restored bytesCounter is `"+fields["bytesCounter"]+"`")
		cp := 0
		instrs(rf, func(ins ssa.Instruction) {
			if c, ok := ins.(*ssa.Call); ok {
				if b, ok := c.Call.Value.(*ssa.Builtin); ok && b.Name() == "copy" {
					d, s := render(c.Call.Args[0]), rn(c.Call.Args[1])
					if strings.HasSuffix(d, ".seed[:]") && s == want[0] || strings.HasSuffix(d, ".customizer[:]") && s == want[1] {
						cp++
					}
				}
			}
		})
		w.check(cp == 2, "C14.R4", fnKey(rf)+"/core-seed", rf.Pos(), "restored core keeps seed and customizer (so Store after Restore round-trips)", "restored core does not keep both seed and customizer")
	}
	// R5: a stored state is a value of its own — Store returns memory of the call (a later Read or Store of the same
	// generator must not change a state handed out earlier), and Restore keeps no reference to the caller's bytes
	if sf := w.method(prgT, "Store"); sf != nil {
		ea := w.effects()
		bad := ""
		for _, r := range returns(sf) {
			if len(r.Results) == 0 {
				continue
			}
			for _, rr := range ea.roots(r.Results[0], sf, 0) {
				if rr.kind != rkFresh {
					bad = rootDesc(rr)
				}
			}
		}
		w.check(bad == "", "C14.R5", fnKey(sf)+"/fresh-result", sf.Pos(), "the stored state is memory of this call", "Store returns memory that is "+bad+": the state handed out shares storage with the generator (or with another stored state), so it changes when the generator moves on")
	}
	// R6: one core per generator: the object the sampling methods read from (the interface stored in the embedded PRG)
	// and the object Store serialises (the `core` field) are the same object in every constructor — with two copies the
	// stored counter freezes while the stream advances, and a second-generation restore replays bytes
	w.floor("C14.R6", 1) // sites merge when both constructors share a wrapping helper
	{
		var prgT, cT *types.Named
		if p := w.ByPath[randomPath]; p != nil {
			if tn, ok := p.Types.Scope().Lookup("chachaPRG").(*types.TypeName); ok {
				prgT, _ = tn.Type().(*types.Named)
			}
			if tn, ok := p.Types.Scope().Lookup("chachaCore").(*types.TypeName); ok {
				cT, _ = tn.Type().(*types.Named)
			}
		}
		if prgT == nil || cT == nil {
			w.undecided("C14.R6", "anchor:chachaPRG", token.NoPos, "unresolved anchor: generator / core types")
		} else {
			for _, fn := range w.srcFuncs(randomPath) {
				if isTestFile(w, fn.Pos()) {
					continue
				}
				instrsFlat(fn, func(ins ssa.Instruction) {
					al, ok := ins.(*ssa.Alloc)
					if !ok || !types.Identical(deref(al.Type()), prgT) {
						return
					}
					var coreVal, ifaceVal ssa.Value
					var coreIsPtr bool
					var coreAddr *ssa.FieldAddr
					var visit func(base ssa.Value, depth int)
					visit = func(base ssa.Value, depth int) {
						if depth > 2 {
							return
						}
						for _, r := range *base.Referrers() {
							fa, ok := r.(*ssa.FieldAddr)
							if !ok || fa.X != base {
								continue
							}
							fld := fieldOf(fa)
							if fld == nil {
								continue
							}
							ft := fld.Type()
							switch {
							case types.Identical(deref(ft), cT):
								_, coreIsPtr = ft.Underlying().(*types.Pointer)
								coreAddr = fa
								for _, r2 := range *fa.Referrers() {
									if st, ok := r2.(*ssa.Store); ok && st.Addr == fa {
										coreVal = st.Val
									}
								}
							case types.IsInterface(ft):
								for _, r2 := range *fa.Referrers() {
									if st, ok := r2.(*ssa.Store); ok && st.Addr == fa {
										ifaceVal = st.Val
									}
								}
							default:
								if _, isStruct := ft.Underlying().(*types.Struct); isStruct && fld.Embedded() {
									visit(fa, depth+1)
									// a nested composite literal is built in a local and stored as a whole
									for _, r2 := range *fa.Referrers() {
										if st, ok := r2.(*ssa.Store); ok && st.Addr == fa {
											if ld, ok := st.Val.(*ssa.UnOp); ok && ld.Op == token.MUL {
												if la, ok := ld.X.(*ssa.Alloc); ok {
													visit(la, depth+1)
												}
											}
										}
									}
								}
							}
						}
					}
					visit(al, 0)
					key := fnKey(fn) + "/one-core"
					if ifaceVal == nil {
						return // not a constructor (no source installed here)
					}
					src := ifaceVal
					if mi, ok := src.(*ssa.MakeInterface); ok {
						src = mi.X
					}
					okk, why := false, ""
					switch {
					case coreIsPtr:
						okk = coreVal != nil && stripConv(coreVal) == stripConv(src)
						why = fmt.Sprintf("the sampling source is `%s`, the stored core `%s`", render(src), render(coreVal))
					default:
						// the core is held by value: the source must be the address of that very field
						okk = coreAddr != nil && stripConv(src) == ssa.Value(coreAddr)
						why = fmt.Sprintf("the core is held by value (a copy of `%s`) while the sampling source is `%s`, another object", render(coreVal), render(src))
					}
					w.check(okk, "C14.R6", key, al.Pos(), "sampling source and stored core are one object", fn.Name()+" builds a generator with two cores: "+why+" — Read advances one, Store serialises the other, so a state stored after output was drawn carries a stale counter and the restored generator replays bytes")
				})
			}
		}
	}
	// R3 Read
	var coreT *types.Named
	if p := w.ByPath[randomPath]; p != nil {
		if tn, ok := p.Types.Scope().Lookup("chachaCore").(*types.TypeName); ok {
			coreT, _ = tn.Type().(*types.Named)
		}
	}
	if coreT == nil {
		w.undecided("C14.R3", "anchor:chachaCore", token.NoPos, "unresolved anchor")
		return
	}
	if rd := w.method(coreT, "Read"); rd != nil {
		c, buf := P(rd, 0), P(rd, 1)
		xk := callsTo(rd, "XORKeyStream")
		if len(xk) == 0 {
			w.viol("C14.R3", fnKey(rd)+"/xor", rd.Pos(), "no XORKeyStream call below Read")
			return
		}
		// every return is reached through exactly one keystream XOR (in Read itself or in a per-path helper) and the counter update
		var upd *ssa.Store
		instrs(rd, func(ins ssa.Instruction) {
			if s, ok := ins.(*ssa.Store); ok {
				if f := addrField(s.Addr); f != nil && f.Name() == "bytesCounter" {
					upd = s
				}
			}
		})
		okk := upd != nil && (render(upd.Val) == fmt.Sprintf("(%s.bytesCounter + len(%s))", c, buf))
		w.check(okk, "C14.R3", fnKey(rd)+"/counter-update", rd.Pos(), "byte counter += len(buffer)", "byte counter update is missing or not += len(buffer)")
		xorBlocks := map[*ssa.BasicBlock]int{}
		for _, x := range xk {
			xorBlocks[liftTo(x.(ssa.Instruction), rd).Block()]++
		}
		for _, r := range returns(rd) {
			// no path from the entry to this return avoids every XOR block; and no block holds two
			seen := map[*ssa.BasicBlock]bool{}
			var reach func(b *ssa.BasicBlock) bool
			reach = func(b *ssa.BasicBlock) bool {
				if seen[b] || xorBlocks[b] > 0 {
					return false
				}
				seen[b] = true
				if b == r.Block() {
					return true
				}
				for _, sc := range b.Succs {
					if reach(sc) {
						return true
					}
				}
				return false
			}
			d1 := !reach(rd.Blocks[0])
			for b, n := range xorBlocks {
				if n > 1 {
					d1 = false
				}
				// two XOR blocks on one path
				for b2 := range xorBlocks {
					if b != b2 && w.info4(rd).reachable(b, b2) {
						d1 = false
					}
				}
			}
			d2 := upd != nil && instrDominates(upd, r)
			w.check(d1 && d2, "C14.R3", fnKey(rd)+"/every-path", r.Pos(), "every path XORs once and updates the counter", "a path through Read returns without the keystream XOR (or with two) or without updating the byte counter")
		}
		lenEmpty, _ := w.constInt(randomPath, "lenEmptyMessage")
		for xi, x := range xk {
			xfn := x.Parent()
			bufHere := buf
			if xfn != rd {
				bufHere = "" // the helper's own name for the buffer: whatever it passes as destination
			}
			dst := render(x.Common().Args[1])
			w.check(dst == buf || xfn != rd && enteringArgIs(x.Common().Args[1], rd.Params[1]), "C14.R3", fnKey(rd)+"/dst", x.Pos(), "keystream written into the caller's buffer", "XORKeyStream destination is "+dst)
			if bufHere == "" {
				bufHere = dst
			}
			msg := x.Common().Args[2]
			var cands []ssa.Value
			var preds []*ssa.BasicBlock
			var ats []ssa.Instruction
			if ph, isPhi := msg.(*ssa.Phi); isPhi {
				for i, e := range ph.Edges {
					cands = append(cands, e)
					preds = append(preds, ph.Block().Preds[i])
					ats = append(ats, nil)
				}
			} else {
				cands = append(cands, msg)
				preds = append(preds, nil)
				ats = append(ats, nil)
			}
			// a message chosen by a helper (`message := c.zeroMessage(buffer)`): one candidate per way out of the helper,
			// judged where it is produced
			for i := 0; i < len(cands); i++ {
				hc, isCall := cands[i].(*ssa.Call)
				if !isCall || helperCallee(hc) == nil {
					continue
				}
				h := helperCallee(hc)
				bindHelper(hc)
				if in := helperValue(cands[i]); in != nil {
					cands[i] = in
					continue
				}
				var rs []*ssa.Return
				for _, r := range returns(h) {
					if r.Parent() == h && len(r.Results) == 1 {
						rs = append(rs, r)
					}
				}
				if len(rs) < 2 {
					continue
				}
				cands[i], ats[i] = rs[0].Results[0], rs[0]
				for _, r := range rs[1:] {
					cands = append(cands, r.Results[0])
					preds = append(preds, nil)
					ats = append(ats, r)
				}
			}
			xfn0, bufHere0 := xfn, bufHere
			for i, e := range cands {
				xfn, bufHere := xfn0, bufHere0
				s := strings.ReplaceAll(render(e), "[:][:", "[:") // x[:][:n] is x[:n]
				var at ssa.Instruction = x.(ssa.Instruction)
				if preds[i] != nil {
					at = preds[i].Instrs[len(preds[i].Instrs)-1]
				}
				if ats[i] != nil {
					// inside the helper: its own name for the buffer is the parameter the caller's buffer enters through
					at = ats[i]
					xfn = at.Parent()
					for _, hp := range xfn.Params {
						if enteringArgIs(hp, rd.Params[1]) {
							bufHere = hp.Name()
						}
					}
				}
				fs := w.factsAt(at)
				zg := zeroGlobalOf(e, bufHere)
				if zg == nil && bufHere != buf {
					zg = zeroGlobalOf(e, buf)
				}
				key := fnKey(rd)
				if len(xk) > 1 {
					key = fmt.Sprintf("%s#%d", key, xi+1)
				}
				if zg != nil {
					// the zero message as a package-level array shared by all generators: long enough, and never written anywhere
					w.check(hasFact(fs, fmt.Sprintf("len(%s) <= %d", buf, lenEmpty)) || hasFact(fs, fmt.Sprintf("len(%s) <= %d", bufHere, lenEmpty)), "C14.R3", key+"/message:zero-array", x.Pos(), "zero array used only when it is long enough", "the zero message is sliced beyond its length", factStrings(fs)...)
					written := ""
					for _, f := range w.moduleFuncs() {
						if isTestFile(w, f.Pos()) || f.Blocks == nil {
							continue
						}
						instrsFlat(f, func(ins ssa.Instruction) {
							if st, ok := ins.(*ssa.Store); ok && rootGlobalOf(st.Addr) == zg && f.Name() != "init" {
								written = "stored to in " + fnKey(f)
							}
							if cc, ok := ins.(ssa.CallInstruction); ok {
								for j, a := range cc.Common().Args {
									if rootGlobalOf(a) == zg && writesArg(cc.Common(), j) {
										written = "written by a call in " + fnKey(f)
									}
								}
							}
						})
					}
					w.check(written == "", "C14.R3", key+"/message:zero-array-never-written", rd.Pos(), "the zero message array is never written", "the zero message array is written somewhere (keystream would be XORed with non-zero bytes): "+written)
				} else if zf := zeroFieldSlice(e); zf != nil {
					// the zero message kept in a field of the core: sliced to the buffer's length, long enough, never written
					sl := stripConv(e).(*ssa.Slice)
					hi := ""
					if sl.High != nil {
						hi = render(sl.High)
						if hp, isP := sl.High.(*ssa.Parameter); isP && hp.Parent() != rd {
							if up := enteringArg(hp); up != nil {
								hi = render(up) // the length the helper was asked for
							}
						}
					}
					w.check(hi == "len("+bufHere+")" || hi == "len("+buf+")", "C14.R3", key+"/message:zero-array-length", x.Pos(), "the zero message has the buffer's length", "the zero message is sliced to `"+hi+"`, not to the buffer's length")
					w.check(hasFact(fs, fmt.Sprintf("len(%s) <= %d", buf, lenEmpty)) || hasFact(fs, fmt.Sprintf("len(%s) <= %d", bufHere, lenEmpty)), "C14.R3", key+"/message:zero-array", x.Pos(), "zero array used only when it is long enough", "the zero message is sliced beyond its length", factStrings(fs)...)
					written := false
					for _, f := range w.srcFuncs(randomPath) {
						instrsFlat(f, func(ins ssa.Instruction) {
							if st, ok := ins.(*ssa.Store); ok {
								if fld := rootField(st.Addr); fld == zf {
									written = true
								}
							}
							if cc, ok := ins.(ssa.CallInstruction); ok {
								for j, a := range cc.Common().Args {
									if fld := rootField(sliceAddr(a)); fld == zf && writesArg(cc.Common(), j) {
										written = true
									}
								}
							}
						})
					}
					w.check(!written, "C14.R3", key+"/message:zero-array-never-written", rd.Pos(), "the zero message array is never written", "the zero message array is written somewhere (keystream would be XORed with non-zero bytes)")
				} else if s == bufHere || s == buf {
					// the buffer is cleared (loop of zero stores, or clear) before it is used as its own message
					zero := false
					instrsFlat(xfn, func(ins ssa.Instruction) {
						if st, ok := ins.(*ssa.Store); ok && strings.HasPrefix(render(st.Addr), "&"+bufHere+"[") && render(st.Val) == "0" {
							zero = true
						}
						if cl, ok := ins.(*ssa.Call); ok {
							if b, ok := cl.Call.Value.(*ssa.Builtin); ok && b.Name() == "clear" && len(cl.Call.Args) == 1 && render(cl.Call.Args[0]) == bufHere && instrDominatesFlat(cl, at) {
								zero = true
							}
						}
					})
					w.check(zero, "C14.R3", key+"/message:zeroed-buffer", x.Pos(), "large buffers are zeroed before being used as the message", "buffer used as its own message without being zeroed")
				} else {
					w.viol("C14.R3", key+"/message", x.Pos(), "unexpected message operand "+s)
				}
			}
		}
	}
}

// enteringArgIs: v, a value of a helper, is the helper's parameter that the caller binds to p
func enteringArgIs(v ssa.Value, p *ssa.Parameter) bool {
	for i := 0; i < 3; i++ {
		if v == ssa.Value(p) {
			return true
		}
		up := enteringArg(stripConv(v))
		if up == nil {
			return false
		}
		v = stripConv(up)
	}
	return v == ssa.Value(p)
}

// writesArg: conservative — a call may write through a slice / pointer argument unless it is a known reader
func writesArg(c *ssa.CallCommon, j int) bool {
	if b, ok := c.Value.(*ssa.Builtin); ok {
		switch b.Name() {
		case "len", "cap":
			return false
		case "copy", "clear":
			return j == 0
		case "append":
			return false
		}
	}
	if f := c.StaticCallee(); f != nil && f.Name() == "XORKeyStream" {
		// (*Cipher).XORKeyStream(dst, src): args are (receiver, dst, src); only dst is written
		return j != 2
	}
	return true
}

func sliceAddr(v ssa.Value) ssa.Value {
	if s, ok := v.(*ssa.Slice); ok {
		return s.X
	}
	return v
}

// ---------------- C15 ----------------

func ruleC15(w *World) {
	w.floor("C15.R1", 4)
	w.floor("C15.R2", 4)
	w.floor("C15.R3", 4)
	// R6: equal (seed, customizer) byte strings give equal generators: the constructors only read their arguments. An
	// append onto an argument writes into the caller's array whenever it has spare capacity (which can overlap the other
	// argument: a parsed record tag‖seed), a copy into it or an element store changes it outright
	w.floor("C15.R6", 2)
	{
		ea := w.effects()
		for _, name := range []string{"NewChacha20PRG", "RestoreChacha20PRG"} {
			fn := w.fn(randomPath, name)
			if fn == nil {
				w.undecided("C15.R6", "anchor:"+name, token.NoPos, "unresolved anchor")
				continue
			}
			bad, at := w.argumentWrite(ea, fn)
			w.check(bad == "", "C15.R6", fnKey(fn)+"/arguments-read-only", func() token.Pos {
				if bad != "" {
					return at
				}
				return fn.Pos()
			}(), "seed and customizer are only read", name+": "+bad+" — two calls with equal seed / customizer bytes can key different generators, and the caller's buffers change under it")
		}
	}
	// R5: the byte source under the helpers: one keystream XOR of zeros per Read, counted in full (= C14.R3) — the
	// samples of two generators in the same state are equal only if Read consumes and accounts the same bytes
	w.floor("C15.R5", 3)
	{
		saved := w.out
		tmp := &Out{Floors: map[string]int{}, Stats: map[string]int{}}
		w.out = tmp
		ruleC14(w)
		w.out = saved
		for _, o := range tmp.Obligations {
			if o.Rule == "C14.R3" && o.Key != "floor" {
				o.Rule = "C15.R5"
				w.out.Obligations = append(w.out.Obligations, o)
			}
		}
	}
	var prgT *types.Named
	if p := w.ByPath[randomPath]; p != nil {
		if tn, ok := p.Types.Scope().Lookup("genericPRG").(*types.TypeName); ok {
			prgT, _ = tn.Type().(*types.Named)
		}
	}
	if prgT == nil {
		w.undecided("C15.R1", "anchor:genericPRG", token.NoPos, "unresolved anchor")
		return
	}
	un := w.method(prgT, "UintN")
	if un == nil {
		w.undecided("C15.R1", "anchor:UintN", token.NoPos, "unresolved anchor")
		return
	}
	p, n := P(un, 0), P(un, 1)
	for _, r := range returns(un) {
		v := r.Results[0]
		fs := w.factsAt(r)
		key := fnKey(un) + "/return"
		// the returned sample: the loop variable (all its non-initial definitions) or the value drawn in this iteration
		samples := []ssa.Value{v}
		if ph, ok := v.(*ssa.Phi); ok {
			samples = nil
			for _, e := range ph.Edges {
				if render(e) != n { // initial value n (> max) forces at least one draw
					samples = append(samples, e)
				}
			}
		}
		w.check(hasFact(fs, fmt.Sprintf("%s <= (%s - 1)", render(v), n)), "C15.R1", key+"/in-range", r.Pos(), "returns only when random ≤ n-1", "UintN can return a value that was not tested against n-1 with ≤", factStrings(fs)...)
		// definition of the sample: LittleEndian.Uint64(buffer[:]) & mask ; no Rem/Quo
		for _, e := range samples {
			bo, ok := e.(*ssa.BinOp)
			good := ok && bo.Op == token.AND
			if good {
				x, y := bo.X, bo.Y
				if !strings.Contains(render(x), "LittleEndian.Uint64("+p+".uintnBuffer[:])") {
					x, y = y, x
				}
				good = strings.Contains(render(x), "LittleEndian.Uint64("+p+".uintnBuffer[:])")
				// mask: 2^k-1 ≥ max: loop-exit invariant (mask&max)==max
				mfs := w.factsAt(bo)
				// … or the mask written in closed form: 2^bitlen(n-1) − 1 covers n−1 by the definition of the bit length
				closed := render(y) == fmt.Sprintf("((1 << bits.Len64((%s - 1))) - 1)", n)
				good = good && (closed || hasFact(mfs, fmt.Sprintf("((%s - 1) & %s) == (%s - 1)", n, render(y), n)))
			}
			w.check(good, "C15.R1", key+"/sample-definition", e.Pos(), "sample = LE(buffer) & mask with mask covering n-1; no modular reduction", "the sample is not defined as little-endian(buffer) & mask (mask ⊇ n-1): `"+render(e)+"` — a reduction or another mapping biases the distribution")
		}
		if len(samples) == 0 {
			w.viol("C15.R1", key+"/sample-definition", r.Pos(), "UintN returns a value that is never drawn: "+render(v))
		}
	}
	hasRem := false
	instrs(un, func(ins ssa.Instruction) {
		if bo, ok := ins.(*ssa.BinOp); ok && (bo.Op == token.REM || bo.Op == token.QUO) {
			// a division of the *sample* (or of anything computed from the drawn bytes); the byte count (bits+7)/8 of the
			// bound is not one
			for _, o := range []ssa.Value{bo.X, bo.Y} {
				ro := render(o)
				if strings.Contains(ro, "Uint64(") || strings.Contains(ro, "uintnBuffer") || strings.Contains(ro, "φrandom") {
					hasRem = true
				}
			}
			if _, isPhi := stripConv(bo.X).(*ssa.Phi); isPhi {
				hasRem = true
			}
		}
	})
	w.check(!hasRem, "C15.R1", fnKey(un)+"/no-remainder", un.Pos(), "the sample is never divided or reduced", "UintN uses % or / on the sample (modulo bias)")
	// the buffer read covers exactly `size` bytes where size = byte length of n-1, and the rest of the 8-byte buffer is never written
	rds := callsTo(un, "Read")
	okk := len(rds) == 1 && strings.HasPrefix(render(rds[0].Common().Args[0]), p+".uintnBuffer[:")
	w.check(okk, "C15.R1", fnKey(un)+"/read", un.Pos(), "fresh bytes are read into the prefix of the 8-byte buffer", "UintN does not read into uintnBuffer[:size]")
	writers := 0
	for _, f := range w.srcFuncs(randomPath) {
		if isTestFile(w, f.Pos()) {
			continue
		}
		instrs(f, func(ins ssa.Instruction) {
			if st, ok := ins.(*ssa.Store); ok {
				if fld := rootField(st.Addr); fld != nil && fld.Name() == "uintnBuffer" {
					writers++
				}
			}
		})
	}
	w.check(writers == 0, "C15.R1", "uintnBuffer/no-direct-writers", un.Pos(), "upper buffer bytes stay zero (no direct stores)", "uintnBuffer is written directly somewhere: stale high bytes would enter the sample")
	// panic on n == 0 only
	np := 0
	instrs(un, func(ins ssa.Instruction) {
		if pn, ok := ins.(*ssa.Panic); ok {
			np++
			w.requireFacts("C15.R1", fnKey(un)+"/panic", pn, n+" == 0")
		}
	})
	// R2 Fisher–Yates shapes
	if sm := w.method(prgT, "Samples"); sm != nil {
		nn, m := P(sm, 1), P(sm, 2)
		us := callsTo(sm, "UintN")
		okk := false
		var idx string
		if len(us) == 1 {
			a := render(us[0].Common().Args[1])
			// (n - i)
			if strings.HasPrefix(a, "("+nn+" - ") {
				idx = strings.TrimSuffix(strings.TrimPrefix(a, "("+nn+" - "), ")")
				okk = true
			}
		}
		w.check(okk, "C15.R2", fnKey(sm)+"/draw", sm.Pos(), "draws j uniformly from [0, n-i)", "Samples does not draw UintN(n - i)")
		if okk {
			okRange := false
			if bo, ok := stripConv(us[0].Common().Args[1]).(*ssa.BinOp); ok {
				if ph, ok := bo.Y.(*ssa.Phi); ok {
					if b, ok := countedLoop(ph); ok && render(b) == m {
						okRange = true
					}
				}
			}
			w.check(okRange, "C15.R2", fnKey(sm)+"/loop-range", us[0].Pos(), "i ranges over 0..m-1", "loop does not run i over exactly 0..m-1")
			// swap(i, i + int(j))
			sw := 0
			var swCall *ssa.Call
			instrs(sm, func(ins ssa.Instruction) {
				if c, ok := ins.(*ssa.Call); ok && !c.Call.IsInvoke() && c.Call.StaticCallee() == nil {
					if _, isB := c.Call.Value.(*ssa.Builtin); isB {
						return
					}
					if len(c.Call.Args) == 2 {
						a0, a1 := render(c.Call.Args[0]), render(c.Call.Args[1])
						if c.Parent() != sm {
							// the swap sits in a function literal of Samples: its parameters are what the (one) call passes
							var cc *ssa.CallCommon
							if ci, ok := enteredBy[c.Parent()]; ok && ci != nil {
								cc = ci.Common()
							} else if cs := w.callersOfCached(c.Parent()); len(cs) == 1 {
								cc = cs[0].Common()
							}
							if cc != nil {
								a0, a1 = substParams(a0, c.Parent(), cc), substParams(a1, c.Parent(), cc)
							}
						}
						j := render(us[0].(ssa.Value))
						if a0 == idx && a1 == "("+idx+" + "+j+")" {
							sw++
							swCall = c
						} else {
							w.viol("C15.R2", fnKey(sm)+"/swap", c.Pos(), "swap is called with ("+a0+", "+a1+"), expected (i, i+j)")
						}
					}
				}
			})
			w.check(sw == 1, "C15.R2", fnKey(sm)+"/swap", sm.Pos(), "swap(i, i+j)", "no swap(i, i+j) call found")
			// the swap is applied at every step (the callback is the only way the caller learns the draw: a step without a
			// call is a step whose draw is lost for callers that fill positions from it)
			if sw == 1 && swCall != nil && swCall.Parent() == us[0].Parent() {
				ub, sb := us[0].Block(), swCall.Block()
				skipped := false
				if ub != sb {
					if bo, ok := stripConv(us[0].Common().Args[1]).(*ssa.BinOp); ok {
						if ph, ok := bo.Y.(*ssa.Phi); ok {
							for _, s2 := range ub.Succs {
								if s2 == ph.Block() || (s2 != sb && reachAvoid(s2, ph.Block(), sb)) {
									skipped = true
								}
							}
						}
					}
				}
				w.check(!skipped, "C15.R2", fnKey(sm)+"/swap-every-step", swCall.Pos(), "every iteration that draws j calls swap(i, i+j)", "some iteration draws j and goes on to the next step without calling swap(i, i+j): the draw is lost for the caller")
			}
		}
		w.ruleErrorFacts("C15.R3", sm, []string{m + " < 0", nn + " < " + m})
	}
	if pm := w.method(prgT, "Permutation"); pm != nil {
		nn := P(pm, 1)
		us := callsTo(pm, "UintN")
		okk := len(us) == 1
		if okk {
			a := render(us[0].Common().Args[1])
			okk = strings.HasSuffix(a, " + 1)")
			idx := strings.TrimSuffix(strings.TrimPrefix(a, "("), " + 1)")
			j := render(us[0].(ssa.Value))
			// items[i] = items[j]; items[j] = i
			var stores []string
			instrs(pm, func(ins ssa.Instruction) {
				if st, ok := ins.(*ssa.Store); ok {
					stores = append(stores, render(st.Addr)+" = "+render(st.Val))
				}
			})
			items := fmt.Sprintf("make([]int,%s)", nn)
			w1 := fmt.Sprintf("&%s[%s] = %s[%s]", items, idx, items, j)
			w2 := fmt.Sprintf("&%s[%s] = %s", items, j, idx)
			got := strings.Join(stores, " ; ")
			w.check(okk && len(stores) == 2 && stores[0] == w1 && stores[1] == w2, "C15.R2", fnKey(pm)+"/inside-out", pm.Pos(), "inside-out Fisher–Yates: j=UintN(i+1); items[i]=items[j]; items[j]=i", "Permutation is not the inside-out Fisher–Yates (draw `"+a+"`, stores "+got+")")
		} else {
			w.viol("C15.R2", fnKey(pm)+"/draw", pm.Pos(), "Permutation does not draw exactly once per position")
		}
		w.ruleErrorFacts("C15.R3", pm, []string{nn + " < 0"})
	}
	if sp := w.method(prgT, "SubPermutation"); sp != nil {
		nn, m := P(sp, 1), P(sp, 2)
		w.ruleErrorFacts("C15.R3", sp, []string{m + " < 0", nn + " < " + m})
		// what Permutation(n) hands back on success, in case both share a worker the rules do not know
		permVal := ""
		if pm := w.method(prgT, "Permutation"); pm != nil {
			for _, r := range returns(pm) {
				if len(r.Results) == 2 && isNilConst(r.Results[1]) {
					pv := render(r.Results[0])
					pv = replaceIdent(replaceIdent(pv, P(pm, 1), nn), P(pm, 0), P(sp, 0))
					if permVal == "" || permVal == pv {
						permVal = pv
					} else {
						permVal = "?"
					}
				}
			}
		}
		for _, r := range returns(sp) {
			if isNilConst(r.Results[1]) {
				s := strings.ReplaceAll(render(r.Results[0]), "[0:", "[:") // x[0:m] is x[:m]
				okk := s == fmt.Sprintf("%s.Permutation(%s)#0[:%s]", P(sp, 0), nn, m) || (permVal != "" && permVal != "?" && s == permVal+"[:"+m+"]")
				w.check(okk, "C15.R2", fnKey(sp)+"/prefix", r.Pos(), "first m entries of a full permutation", "SubPermutation returns "+s)
			}
		}
	}
	if sh := w.method(prgT, "Shuffle"); sh != nil {
		nn := P(sh, 1)
		w.ruleErrorFacts("C15.R3", sh, []string{nn + " < 0"})
		for _, r := range returns(sh) {
			if !isNilConst(r.Results[0]) {
				s := render(r.Results[0])
				if strings.Contains(s, "Samples") {
					w.check(s == fmt.Sprintf("%s.Samples(%s, %s, %s)", P(sh, 0), nn, nn, P(sh, 2)), "C15.R2", fnKey(sh)+"/delegation", r.Pos(), "Shuffle = Samples(n, n, swap)", "Shuffle returns "+s)
				}
			}
		}
	}
	// R4: no other randomness
	for _, name := range []string{"UintN", "Permutation", "SubPermutation", "Shuffle", "Samples"} {
		f := w.method(prgT, name)
		if f == nil {
			continue
		}
		bad := ""
		instrs(f, func(ins ssa.Instruction) {
			if c, ok := ins.(ssa.CallInstruction); ok {
				if sc := c.Common().StaticCallee(); sc != nil && hasAnyPrefix(sc.String(), nondetPrefixes) {
					bad = sc.String()
				}
			}
			if rg, ok := ins.(*ssa.Range); ok {
				if _, isMap := rg.X.Type().Underlying().(*types.Map); isMap {
					bad = "map iteration"
				}
			}
		})
		w.check(bad == "", "C15.R4", fnKey(f)+"/only-prg", f.Pos(), "no randomness besides the embedded core", "uses another nondeterminism source: "+bad)
	}
	_ = np
}

// ruleErrorFacts: for each trigger fact there is a branch edge establishing it that leads directly
// to a return with a non-nil error, and no allocation or PRG read happens before those checks.
func (w *World) ruleErrorFacts(rule string, fn *ssa.Function, trigs []string) {
	edges := w.errorEdges(fn, func(x string) string { return x }, 0)
	for _, t := range trigs {
		found := false
		for _, e := range edges {
			if e.fact != t {
				continue
			}
			found = true
			// nothing effectful before the check
			eff := ""
			for _, d := range fn.Blocks {
				if d.Dominates(e.top) {
					for _, ins := range d.Instrs {
						switch x := ins.(type) {
						case *ssa.MakeSlice:
							eff = "allocation"
						case ssa.CallInstruction:
							if x.Common().IsInvoke() || x.Common().StaticCallee() != nil && x.Common().StaticCallee().Name() == "UintN" {
								eff = "call " + render(ins.(ssa.Value))
							}
						}
					}
				}
			}
			w.check(eff == "", rule, fnKey(fn)+"/reject:"+t, e.pos, "argument error returned before any allocation or PRG read", "the `"+t+"` rejection happens after "+eff)
		}
		if !found {
			w.viol(rule, fnKey(fn)+"/reject:"+t, fn.Pos(), "no error return decided by `"+t+"`")
		}
	}
}

// canonSlices normalises constant slice bounds of `base` inside a rendered expression:
// base[0:k] → base[:k]; base[k:total] and base[k:len(base)] → base[k:].
func canonSlices(s, base, total string) string {
	var b strings.Builder
	for i := 0; i < len(s); {
		if strings.HasPrefix(s[i:], base+"[") && (i == 0 || !isIdentChar(s[i-1])) {
			j := i + len(base) + 1
			k := strings.IndexByte(s[j:], ']')
			if k >= 0 {
				inner := s[j : j+k]
				if c := strings.IndexByte(inner, ':'); c >= 0 && !strings.Contains(inner, "[") {
					lo, hi := inner[:c], inner[c+1:]
					if lo == "0" {
						lo = ""
					}
					if hi == total || hi == "len("+base+")" {
						hi = ""
					}
					b.WriteString(base + "[" + lo + ":" + hi + "]")
					i = j + k + 1
					continue
				}
			}
		}
		b.WriteByte(s[i])
		i++
	}
	return b.String()
}

// neverNarrowed: no conversion to an integer type narrower than 64 bits lies on the way of v from where it was produced
// (followed through conversions and, for parameters of helpers the rules do not know, to the arguments of all call sites).
func (w *World) neverNarrowed(v ssa.Value, d int) bool {
	if d > 8 {
		return false
	}
	switch x := v.(type) {
	case *ssa.Convert:
		if bt, ok := x.Type().Underlying().(*types.Basic); ok && bt.Info()&types.IsInteger != 0 {
			switch bt.Kind() {
			case types.Uint64, types.Int64, types.Uint, types.Int, types.Uintptr:
			default:
				return false
			}
		}
		return w.neverNarrowed(x.X, d+1)
	case *ssa.ChangeType:
		return w.neverNarrowed(x.X, d+1)
	case *ssa.Parameter:
		fn := x.Parent()
		if !isNewHelper(fn) {
			return true
		}
		pi := paramIndex(fn, x)
		for _, c := range w.callersOfCached(fn) {
			if pi < 0 || pi >= len(c.Common().Args) || !w.neverNarrowed(c.Common().Args[pi], d+1) {
				return false
			}
		}
		return true
	case *ssa.Phi:
		for _, e := range x.Edges {
			if !w.neverNarrowed(e, d+1) {
				return false
			}
		}
		return true
	}
	return true
}

// ruleKmacSequences (C13.R2 / C16.R5): every KMAC method leaves and uses a *keyed* state: ComputeHash works on a clone that
// is reset and re-keyed with the init block, SumHash finalises a clone, Reset re-absorbs the init block.
func (w *World) ruleKmacSequences(rule string) {
	// R2: ordering in the KMAC methods
	var kmacT *types.Named
	for _, t := range w.implementors(hashPath, "Hasher", hashPath) {
		for _, f := range structFields(t) {
			if f.Name() == "initBlock" {
				kmacT = t
			}
		}
	}
	if kmacT == nil {
		w.undecided(rule, "anchor:kmac", token.NoPos, "unresolved anchor: KMAC type")
	} else {
		if f := w.method(kmacT, "ComputeHash"); f != nil {
			k, data := P(f, 0), P(f, 1)
			cl := k + ".ShakeHash.Clone()"
			want := []string{
				"Clone@" + k + ".ShakeHash()",
				"Reset@" + cl + "()",
				"Write@" + cl + "(" + k + ".initBlock)",
				"Write@" + cl + "(" + data + ")",
				"Write@" + cl + "(rightEncode((" + k + ".outputSize * 8)))",
				"Read@" + cl + "(make([]byte," + k + ".outputSize))",
			}
			var got []string
			for _, c := range methodCalls(f) {
				if !strings.HasPrefix(c.recv, k+".ShakeHash") {
					continue // calls inside an encoding helper (binary.BigEndian.PutUint64 …) are not steps on the sponge
				}
				a := strings.Join(c.args, ", ")
				if c.name == "Write" && w.kmacTrailer(a, k, kmacT) {
					a = "rightEncode((" + k + ".outputSize * 8))"
				}
				got = append(got, c.name+"@"+c.recv+"("+a+")")
			}
			w.check(strings.Join(got, ";") == strings.Join(want, ";"), rule, fnKey(f)+"/sequence", f.Pos(), "Clone→Reset→Write(initBlock)→Write(data)→Write(rightEncode(8·size))→Read, all on the clone",
				"KMAC ComputeHash call sequence is "+strings.Join(got, " ; ")+" — expected "+strings.Join(want, " ; "))
			for _, r := range returns(f) {
				w.check(render(r.Results[0]) == "make([]byte,"+k+".outputSize)", rule, fnKey(f)+"/result", r.Pos(), "returns the buffer read from the clone", "ComputeHash returns "+render(r.Results[0]))
			}
		}
		if f := w.method(kmacT, "SumHash"); f != nil {
			k := P(f, 0)
			cl := k + ".ShakeHash.Clone()"
			want := []string{"Clone@" + k + ".ShakeHash()", "Write@" + cl + "(rightEncode((" + k + ".outputSize * 8)))", "Read@" + cl + "(make([]byte," + k + ".outputSize))"}
			var got []string
			for _, c := range methodCalls(f) {
				if !strings.HasPrefix(c.recv, k+".ShakeHash") {
					continue
				}
				a := strings.Join(c.args, ", ")
				if c.name == "Write" && w.kmacTrailer(a, k, kmacT) {
					a = "rightEncode((" + k + ".outputSize * 8))"
				}
				got = append(got, c.name+"@"+c.recv+"("+a+")")
			}
			w.check(strings.Join(got, ";") == strings.Join(want, ";"), rule, fnKey(f)+"/sequence", f.Pos(), "SumHash finalises a clone (writing can continue)", "KMAC SumHash call sequence is "+strings.Join(got, " ; "))
		}
		if f := w.method(kmacT, "Reset"); f != nil {
			k := P(f, 0)
			var got []string
			for _, c := range methodCalls(f) {
				got = append(got, c.name+"@"+c.recv+"("+strings.Join(c.args, ", ")+")")
			}
			want := []string{"Reset@" + k + ".ShakeHash()", "Write@" + k + "(" + k + ".initBlock)"}
			alt := []string{"Reset@" + k + ".ShakeHash()", "Write@" + k + ".ShakeHash(" + k + ".initBlock)"}
			g := strings.Join(got, ";")
			w.check(g == strings.Join(want, ";") || g == strings.Join(alt, ";"), rule, fnKey(f)+"/sequence", f.Pos(), "Reset = cSHAKE reset + re-absorb the init block", "KMAC Reset sequence is "+g)
		}
		if f := w.method(kmacT, "Size"); f != nil {
			for _, r := range returns(f) {
				w.check(render(r.Results[0]) == P(f, 0)+".outputSize", rule, fnKey(f)+"/size", r.Pos(), "Size() is the output size", "Size() returns "+render(r.Results[0]))
			}
		}
	}
}

// zeroGlobalOf: v is `G[:len(buf)]` for a package-level byte array G
func zeroGlobalOf(v ssa.Value, buf string) *ssa.Global {
	sl, ok := stripConv(v).(*ssa.Slice)
	if !ok || sl.Low != nil || sl.High == nil || render(sl.High) != "len("+buf+")" {
		return nil
	}
	g, _ := sl.X.(*ssa.Global)
	if g == nil {
		return nil
	}
	if _, isArr := deref(g.Type()).Underlying().(*types.Array); !isArr {
		return nil
	}
	return g
}

// rootGlobalOf: the package-level variable an address / slice value is derived from, if any
func rootGlobalOf(v ssa.Value) *ssa.Global { return rootGlobalOfS(v, map[ssa.Value]bool{}) }

func rootGlobalOfS(v ssa.Value, seen map[ssa.Value]bool) *ssa.Global {
	for d := 0; d < 12; d++ {
		if v == nil || seen[v] {
			return nil
		}
		seen[v] = true
		switch x := v.(type) {
		case *ssa.Global:
			return x
		case *ssa.Slice:
			v = x.X
		case *ssa.IndexAddr:
			v = x.X
		case *ssa.FieldAddr:
			v = x.X
		case *ssa.ChangeType:
			v = x.X
		case *ssa.Convert:
			v = x.X
		case *ssa.Phi:
			for _, e := range x.Edges {
				if g := rootGlobalOfS(e, seen); g != nil {
					return g
				}
			}
			return nil
		default:
			return nil
		}
	}
	return nil
}

func b2i(b bool) int64 {
	if b {
		return 1
	}
	return 0
}


// ruleFreshDigests: for every implementation of hash.Hasher in the module, the slices returned by ComputeHash and
// SumHash are rooted only in memory allocated during the call (effects engine: roots of the returned value).
func (w *World) ruleFreshDigests(rule string) {
	ea := w.effects()
	n := 0
	for _, t := range w.implementors(hashPath, "Hasher", hashPath) {
		for _, mn := range []string{"ComputeHash", "SumHash"} {
			f := w.method(t, mn)
			if f == nil || f.Blocks == nil {
				continue
			}
			n++
			bad := ""
			for _, r := range returns(f) {
				if len(r.Results) == 0 {
					continue
				}
				for _, rt := range ea.roots(r.Results[0], f, 0) {
					if rt.kind == rkFresh {
						continue
					}
					if bad == "" {
						bad = fmt.Sprintf("the digest returned at %s is rooted in %s: a later operation on the hasher (or another caller) can change a digest the caller already holds", w.pos(retPos(r)), rootString(rt))
					}
				}
			}
			w.check(bad == "", rule, fnKey(f)+"/fresh-result", f.Pos(), "returned digest is freshly allocated", bad)
		}
	}
	if n == 0 {
		w.undecided(rule, "anchor:hashers", token.NoPos, "unresolved anchor: Hasher implementations")
	}
}

func rootString(r root) string {
	switch r.kind {
	case rkParam:
		return "parameter/receiver `" + r.name + "`"
	case rkGlobal:
		return "package variable `" + r.name + "`"
	case rkShared:
		return "shared memory (" + r.name + ")"
	}
	return "fresh memory"
}


// ruleFreshResult: the byte string a function hands to its caller (result idx) is rooted only in memory allocated during
// the call — never in the receiver, an argument or a package variable: a later call cannot change a value already returned.
func (w *World) ruleFreshResult(rule string, f *ssa.Function, idx int, what string) {
	if f == nil || f.Blocks == nil {
		w.undecided(rule, "anchor:"+what, token.NoPos, "unresolved anchor: "+what)
		return
	}
	ea := w.effects()
	bad := ""
	for _, r := range w.returnsAll(f) {
		ret := r.ins.(*ssa.Return)
		if idx >= len(ret.Results) || isNilConst(ret.Results[idx]) {
			continue
		}
		for _, rt := range ea.roots(ret.Results[idx], retParent(ret), 0) {
			if rt.kind == rkFresh {
				continue
			}
			// a parameter of an inner helper: what the caller passed
			if rt.kind == rkParam && retParent(ret) != f {
				if up := enteringArg(retParent(ret).Params[rt.param]); up != nil {
					allFresh := true
					for _, r2 := range ea.roots(up, f, 0) {
						if r2.kind != rkFresh {
							allFresh = false
						}
					}
					if allFresh {
						continue
					}
				}
			}
			if bad == "" {
				bad = fmt.Sprintf("the %s returned at %s is rooted in %s: a later call on the same object (or another caller) changes a value the caller already holds", what, w.pos(retPos(ret)), rootString(rt))
			}
		}
	}
	w.check(bad == "", rule, fnKey(f)+"/fresh-result", f.Pos(), "returned "+what+" is freshly allocated", bad)
}


// zeroLiteralLen: v is `lit[:]` of a local array literal all of whose elements are the constant 0 (the variadic tail
// of append(b, 0, 0)): its length, else 0.
func zeroLiteralLen(v ssa.Value) int {
	sl, ok := stripConv(v).(*ssa.Slice)
	if !ok || sl.Low != nil || sl.High != nil {
		return 0
	}
	al, ok := sl.X.(*ssa.Alloc)
	if !ok {
		return 0
	}
	arr, ok := deref(al.Type()).Underlying().(*types.Array)
	if !ok {
		return 0
	}
	n := 0
	for _, ref := range *al.Referrers() {
		ia, ok := ref.(*ssa.IndexAddr)
		if !ok {
			continue
		}
		for _, r2 := range *ia.Referrers() {
			st, ok := r2.(*ssa.Store)
			if !ok {
				continue
			}
			k, isC := constOf(st.Val)
			if !isC || k.Value == nil || k.Value.String() != "0" {
				return 0
			}
			n++
		}
	}
	if int64(n) != arr.Len() {
		return 0
	}
	return n
}

// enteringArgName: when the layout was found inside a helper, a piece named after the helper's parameter stands for
// the argument of the call that entered it
func enteringArgName(v ssa.Value, piece string) string {
	ins, ok := v.(ssa.Instruction)
	if !ok || ins.Parent() == nil {
		return ""
	}
	fn := ins.Parent()
	via, ok := enteredBy[fn]
	if !ok {
		cs := gWorld.callersOfCached(fn)
		if len(cs) != 1 {
			return ""
		}
		via = cs[0]
	}
	for i, p := range fn.Params {
		if p.Name() == piece && i < len(via.Common().Args) {
			return render(via.Common().Args[i])
		}
	}
	return ""
}


// zeroFieldSlice: v is a slice x.f[:n] of an array field of the generator core; returns the field
func zeroFieldSlice(v ssa.Value) *types.Var {
	sl, ok := stripConv(v).(*ssa.Slice)
	if !ok {
		return nil
	}
	x := sl.X
	if s2, ok := x.(*ssa.Slice); ok {
		x = s2.X
	}
	fa, ok := x.(*ssa.FieldAddr)
	if !ok {
		return nil
	}
	if _, isArr := deref(fa.Type()).Underlying().(*types.Array); !isArr {
		return nil
	}
	return addrField(fa)
}


// spongeRole: the name of the sponge's lane helpers, located by what they do rather than by name — among the two-parameter
// functions of the hash package taking the sponge state and a byte slice, "xorIn" is the one that stores into the 25-lane
// state array, "copyOut" the one that writes the byte slice.  Falls back to the conventional name.
func (w *World) spongeRole(role string) string {
	for _, fn := range w.srcFuncs(hashPath) {
		if isTestFile(w, fn.Pos()) || fn.Signature.Recv() != nil || len(fn.Params) != 2 {
			continue
		}
		var st, bs *ssa.Parameter
		for _, p := range fn.Params {
			if n, ok := deref(p.Type()).(*types.Named); ok && n.Obj().Name() == "spongeState" {
				st = p
			}
			if sl, ok := p.Type().Underlying().(*types.Slice); ok {
				if b, ok := sl.Elem().Underlying().(*types.Basic); ok && b.Kind() == types.Uint8 {
					bs = p
				}
			}
		}
		if st == nil || bs == nil {
			continue
		}
		lanes, bytesW := false, false
		instrsFlat(fn, func(ins ssa.Instruction) {
			switch x := ins.(type) {
			case *ssa.Store:
				if ia, ok := x.Addr.(*ssa.IndexAddr); ok {
					if arr, ok := deref(ia.X.Type()).Underlying().(*types.Array); ok && arr.Len() == 25 {
						lanes = true
					}
					if sliceBaseNoHelper(ia.X) == ssa.Value(bs) {
						bytesW = true
					}
				}
			case *ssa.Call:
				if b, ok := x.Call.Value.(*ssa.Builtin); ok && b.Name() == "copy" && len(x.Call.Args) == 2 && bufBase(stripConv(x.Call.Args[0])) == ssa.Value(bs) {
					bytesW = true
				}
				if f := x.Call.StaticCallee(); f != nil && f.Name() == "PutUint64" && len(x.Call.Args) >= 2 && bufBase(stripConv(x.Call.Args[1])) == ssa.Value(bs) {
					bytesW = true
				}
			}
		})
		if role == "xorIn" && lanes && !bytesW {
			return fn.Name()
		}
		if role == "copyOut" && bytesW && !lanes {
			return fn.Name()
		}
	}
	return role
}

// argumentWrite: the first construct of fn (its own body) that may write memory reachable from one of its slice /
// pointer arguments: an append onto an argument (writes the caller's array when it has spare capacity; a three-index
// slice x[:n:n] is exempt), a copy / clear into it, a store through it. "" if none.
func (w *World) argumentWrite(ea *effAnalysis, fn *ssa.Function) (string, token.Pos) {
	paramRooted := func(v ssa.Value) string {
		for _, r := range ea.roots(v, fn, 0) {
			if r.kind == rkParam && r.param > 0 || r.kind == rkParam && fn.Signature.Recv() == nil {
				return r.name
			}
		}
		return ""
	}
	bad := ""
	var at token.Pos
	instrsFlat(fn, func(ins ssa.Instruction) {
		if bad != "" {
			return
		}
		switch x := ins.(type) {
		case *ssa.Call:
			if b, ok := x.Call.Value.(*ssa.Builtin); ok {
				switch b.Name() {
				case "append":
					if p := paramRooted(x.Call.Args[0]); p != "" {
						if sl, ok := stripConv(x.Call.Args[0]).(*ssa.Slice); ok && sl.Max != nil {
							return
						}
						bad, at = "append onto the argument `"+p+"` (writes the caller's array when it has spare capacity)", x.Pos()
					}
				case "copy", "clear":
					if p := paramRooted(x.Call.Args[0]); p != "" {
						bad, at = b.Name()+" into the argument `"+p+"`", x.Pos()
					}
				}
			} else if h := x.Call.StaticCallee(); h != nil && inModule(h) && h.Blocks != nil {
				// an appending helper of the module (`appendX(dst, …)` whose body appends onto its first parameter)
				for i, a := range x.Call.Args {
					if p := paramRooted(a); p != "" && i < len(h.Params) {
						if hb, _ := w.argumentWriteParam(ea, h, i); hb != "" {
							bad, at = "passes the argument `"+p+"` to "+h.Name()+", which does an "+hb, x.Pos()
						}
					}
				}
			}
		case *ssa.Store:
			if _, isAlloc := x.Addr.(*ssa.Alloc); isAlloc {
				return
			}
			if p := paramRooted(x.Addr); p != "" {
				bad, at = "store through the argument `"+p+"`", x.Pos()
			}
		}
	})
	return bad, at
}

// argumentWriteParam: as argumentWrite, restricted to writes rooted at parameter idx of the (helper) function.
func (w *World) argumentWriteParam(ea *effAnalysis, fn *ssa.Function, idx int) (string, token.Pos) {
	bad := ""
	var at token.Pos
	rooted := func(v ssa.Value) bool {
		for _, r := range ea.roots(v, fn, 0) {
			if r.kind == rkParam && r.param == idx {
				return true
			}
		}
		return false
	}
	instrsFlat(fn, func(ins ssa.Instruction) {
		switch x := ins.(type) {
		case *ssa.Call:
			if b, ok := x.Call.Value.(*ssa.Builtin); ok && (b.Name() == "append" || b.Name() == "copy" || b.Name() == "clear") && rooted(x.Call.Args[0]) {
				bad, at = b.Name()+" onto it", x.Pos()
			}
		case *ssa.Store:
			if _, isAlloc := x.Addr.(*ssa.Alloc); !isAlloc && rooted(x.Addr) {
				bad, at = "store through it", x.Pos()
			}
		}
	})
	return bad, at
}

// kmacTrailer: the rendered argument is right_encode(8·outputSize) of this KMAC object: a call of the module's
// right-encode function (plain or appending onto nil) on `k.outputSize * 8`, or a field of the object that only the
// constructor stores, with that value computed from the output-size parameter it also stores into outputSize.
func (w *World) kmacTrailer(arg, k string, kmacT *types.Named) bool {
	call := func(a, size string) bool {
		return matchRe(`^\w*[rR]ightEncode\((nil, )?\(`+regexp.QuoteMeta(size)+` \* 8\)\)$`, a)
	}
	if call(arg, k+".outputSize") {
		return true
	}
	if !strings.HasPrefix(arg, k+".") || strings.ContainsAny(arg[len(k)+1:], ".([ ") {
		return false
	}
	fld := arg[len(k)+1:]
	stores, okStores := 0, 0
	for _, f := range w.srcFuncs(hashPath) {
		if isTestFile(w, f.Pos()) {
			continue
		}
		var sizeParam string
		instrsFlat(f, func(ins ssa.Instruction) {
			if st, ok := ins.(*ssa.Store); ok {
				if fv := addrField(st.Addr); fv != nil && fv.Name() == "outputSize" {
					if p, isP := stripConv(st.Val).(*ssa.Parameter); isP {
						sizeParam = p.Name()
					}
				}
			}
		})
		instrsFlat(f, func(ins ssa.Instruction) {
			st, ok := ins.(*ssa.Store)
			if !ok {
				return
			}
			fv := addrField(st.Addr)
			if fv == nil || fv.Name() != fld {
				return
			}
			if n, isN := deref(st.Addr.(*ssa.FieldAddr).X.Type()).(*types.Named); !isN || n != kmacT {
				return
			}
			stores++
			if sizeParam != "" && call(render(st.Val), sizeParam) {
				okStores++
			}
		})
	}
	return stores == 1 && okStores == 1
}
