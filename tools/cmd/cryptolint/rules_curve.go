package main

import (
	"fmt"
	"go/token"
	"go/types"

	"golang.org/x/tools/go/ssa"
)

// ruleCurveObject (C11.R5): the wrapper's curve (the signer's `curve` field, on which the repository's own code
// dispatches: sizes, the on-curve check, the scalar range) and the curve object the standard library dispatches on
// (the `Curve` field of the crypto/ecdsa key it is handed) are one and the same value. crypto/ecdsa and
// crypto/elliptic choose the implementation from the dynamic type of that interface: an *elliptic.CurveParams
// (what Params() returns) "implements" elliptic.Curve too, but with generic a = −3 arithmetic — for secp256k1
// (a = 0) Sign/Verify then compute on the wrong curve or panic on a valid key. So every value stored into the Curve
// field of a crypto/ecdsa key is the signer's curve field itself: loaded from it, or a parameter every caller fills
// with it; never an interface made here from a concrete value.
func (w *World) ruleCurveObject(rule string) {
	n := 0
	var fromAlgo func(v ssa.Value, depth int) (bool, string)
	fromAlgo = func(v ssa.Value, depth int) (bool, string) {
		switch x := v.(type) {
		case *ssa.UnOp:
			if x.Op == token.MUL {
				if fa, ok := x.X.(*ssa.FieldAddr); ok {
					if f := fieldOf(fa); f != nil && f.Name() == "curve" {
						return true, ""
					}
				}
				// a local variable holding it
				if al, ok := x.X.(*ssa.Alloc); ok {
					okAll, why, cnt := true, "", 0
					for _, r := range *al.Referrers() {
						if st, ok := r.(*ssa.Store); ok && st.Addr == al {
							cnt++
							if ok2, w2 := fromAlgo(st.Val, depth); !ok2 {
								okAll, why = false, w2
							}
						}
					}
					return okAll && cnt > 0, why
				}
			}
		case *ssa.Field:
			if st, ok := x.X.Type().Underlying().(*types.Struct); ok && st.Field(x.Field).Name() == "curve" {
				return true, ""
			}
		case *ssa.Phi:
			for _, e := range x.Edges {
				if ok, why := fromAlgo(e, depth); !ok {
					return false, why
				}
			}
			return true, ""
		case *ssa.ChangeInterface:
			return fromAlgo(x.X, depth)
		case *ssa.MakeInterface:
			return false, fmt.Sprintf("an interface made from a concrete %s", x.X.Type())
		case *ssa.Parameter:
			if depth >= 3 {
				return false, "a parameter (call chain too deep to follow)"
			}
			fn := x.Parent()
			idx := -1
			for i, p := range fn.Params {
				if p == x {
					idx = i
				}
			}
			callers := w.callersOfCached(fn)
			cnt := 0
			for _, c := range callers {
				if isTestFile(w, c.Pos()) {
					continue
				}
				args := c.Common().Args
				if idx < 0 || idx >= len(args) {
					return false, "a parameter whose argument cannot be identified"
				}
				cnt++
				if ok, why := fromAlgo(args[idx], depth+1); !ok {
					return false, why + " (argument at " + w.pos(c.Pos()) + ")"
				}
			}
			if cnt == 0 {
				return false, "a parameter of a function without callers"
			}
			return true, ""
		}
		return false, "`" + render(v) + "`"
	}
	for _, fn := range w.srcFuncs(rootPath) {
		if isTestFile(w, fn.Pos()) {
			continue
		}
		seen := 0
		instrsFlat(fn, func(ins ssa.Instruction) {
			st, ok := ins.(*ssa.Store)
			if !ok {
				return
			}
			fa, ok := st.Addr.(*ssa.FieldAddr)
			if !ok {
				return
			}
			f := fieldOf(fa)
			if f == nil || f.Name() != "Curve" || f.Pkg() == nil || f.Pkg().Path() != "crypto/ecdsa" {
				return
			}
			n++
			seen++
			key := fmt.Sprintf("%s/ecdsa-key-curve#%d", fnKey(fn), seen)
			ok2, why := fromAlgo(st.Val, 0)
			w.check(ok2, rule, key, st.Pos(), "the crypto/ecdsa key carries the signer's own curve object", fmt.Sprintf("%s stores %s into the Curve field of a crypto/ecdsa key instead of the signer's curve object: the standard library picks the arithmetic from the dynamic type of that value (an *elliptic.CurveParams means generic a=-3 code), so Sign/Verify on the resulting key compute on another curve than the wrapper's checks assumed (secp256k1: wrong verdicts or a panic)", fn.Name(), why))
		})
	}
	if n == 0 {
		w.undecided(rule, "anchor:ecdsa-key-curve", token.NoPos, "no store into the Curve field of a crypto/ecdsa key was found")
	}
}

func fieldOf(fa *ssa.FieldAddr) *types.Var {
	t := fa.X.Type()
	if p, ok := t.Underlying().(*types.Pointer); ok {
		t = p.Elem()
	}
	st, ok := t.Underlying().(*types.Struct)
	if !ok || fa.Field >= st.NumFields() {
		return nil
	}
	return st.Field(fa.Field)
}
