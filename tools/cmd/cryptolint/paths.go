package main

import (
	"fmt"
	"go/token"
	"go/types"
	"sort"
	"strings"

	"golang.org/x/tools/go/ssa"
)

// Engine P: abstract interpretation of the DKG handler methods.
//
// One protocol instance is modelled by an abstract state = valuation of its boolean fields plus a
// few ghost predicates (slice fields allocated, own complaint registered, saturating event
// counters).  A method is executed on a definite abstract state: branches on tracked locations are
// decided by the state, every other branch forks (one truth value per SSA value per activation),
// internal static callees are inlined, loops are unrolled a bounded number of times.  Each path
// yields the post-state, the ordered effects and the classified result.  A worklist explores the
// states reachable through any sequence of API calls (typestate fixpoint).

type tri int8

const (
	tF tri = 0
	tT tri = 1
	tU tri = 2
)

func (t tri) String() string { return [...]string{"F", "T", "?"}[t] }

func triOf(b bool) tri {
	if b {
		return tT
	}
	return tF
}

// AState: definite valuation of tracked locations (sorted keys for canonical form).
type AState map[string]int // bool locations: 0/1 ; counters: 0..2

func (s AState) key() string {
	var ks []string
	for k := range s {
		ks = append(ks, k)
	}
	sort.Strings(ks)
	var b strings.Builder
	for _, k := range ks {
		fmt.Fprintf(&b, "%s=%d ", k, s[k])
	}
	return b.String()
}

func (s AState) clone() AState {
	c := AState{}
	for k, v := range s {
		c[k] = v
	}
	return c
}

func (s AState) short() string {
	var on []string
	for k, v := range s {
		if v != 0 {
			if v == 1 {
				on = append(on, k)
			} else {
				on = append(on, fmt.Sprintf("%s=%d", k, v))
			}
		}
	}
	sort.Strings(on)
	return "{" + strings.Join(on, ",") + "}"
}

type Effect struct {
	Kind string // store, call, cgo, index, mapupdate, event
	What string
	Pos  token.Pos
	Fn   string
}

type PathOutcome struct {
	Post    AState
	Effects []Effect
	Ret     []string // classified results (error class for error results, tri for bools, "" otherwise)
	Trace   []string // inlined functions entered, in order
	Lines   []string // source positions of decisive branches (for counterexample printing)
	Viol    []Effect // safety violations observed on the path (e.g. index of unallocated slice)
}

type frame struct {
	fn     *ssa.Function
	args   []bval
	parent *frame
	id     int
}

type bval struct {
	v ssa.Value
	f *frame
}

type pmodel struct {
	w          *World
	tracked    map[*types.Var]string // bool fields -> location key
	slices     map[*types.Var]string // slice fields -> ghost key "<name>Alloc"
	idxOwn     *types.Var            // the own-index field
	idxDeal    *types.Var            // the dealer-index field
	cmap       *types.Var            // the complaints map field
	recvFld    *types.Var            // complaint.received
	ansFld     *types.Var            // complaint.answerReceived
	checkFn    string                // name of the answered-complaint check (role-resolved)
	noInline   map[string]bool
	instFields map[*types.Var]bool
	rel        map[*ssa.Function]int
	cur        *pstate // path state being executed (for valKey's iteration counts)
	maxPaths   int
	inlineD    int
	unroll     int
	nframes    int
	npaths     int
}

type pstate struct {
	retvals map[string][]bval // results of inlined calls on this path
	phiEdge map[string]int
	st      AState
	assume  map[string]tri // per-activation truth assignment of opaque boolean values, keyed by value id + frame id
	eq      map[string]tri // equality constraints between canonical expressions
	effects []Effect
	trace   []string
	lines   []string
	viol    []Effect
	visits  map[string]int // loop bounding: (frame id, block index) -> count
}

func (p *pstate) clone() *pstate {
	c := &pstate{st: p.st.clone(), assume: map[string]tri{}, eq: map[string]tri{}, visits: map[string]int{}, retvals: map[string][]bval{}, phiEdge: map[string]int{}}
	for k, v := range p.retvals {
		c.retvals[k] = v
	}
	for k, v := range p.phiEdge {
		c.phiEdge[k] = v
	}
	for k, v := range p.assume {
		c.assume[k] = v
	}
	for k, v := range p.eq {
		c.eq[k] = v
	}
	for k, v := range p.visits {
		c.visits[k] = v
	}
	c.effects = append([]Effect{}, p.effects...)
	c.trace = append([]string{}, p.trace...)
	c.lines = append([]string{}, p.lines...)
	c.viol = append([]Effect{}, p.viol...)
	return c
}

// canon renders a value with parameters substituted by what they are bound to, and receiver field
// chains collapsed to the field name (single-instance abstraction).
func (m *pmodel) canon(v ssa.Value, f *frame, d int) string {
	if d > 12 {
		return "…"
	}
	switch x := v.(type) {
	case *ssa.Parameter:
		if f != nil {
			i := paramIndex(f.fn, x)
			if i >= 0 && i < len(f.args) && f.args[i].v != nil {
				return m.canon(f.args[i].v, f.args[i].f, d+1)
			}
		}
		return "arg:" + x.Name()
	case *ssa.Const:
		return render(x)
	case *ssa.Convert:
		return m.canon(x.X, f, d+1)
	case *ssa.ChangeType:
		return m.canon(x.X, f, d+1)
	case *ssa.MakeInterface:
		return m.canon(x.X, f, d+1)
	case *ssa.UnOp:
		if x.Op == token.MUL {
			if fa, ok := x.X.(*ssa.FieldAddr); ok {
				fld := addrField(fa)
				if m.isInstanceField(fld) {
					return "fld:" + fld.Name()
				}
				return m.canon(fa.X, f, d+1) + "." + fld.Name()
			}
			return "*" + m.canon(x.X, f, d+1)
		}
		if x.Op == token.NOT {
			return "!" + m.canon(x.X, f, d+1)
		}
	case *ssa.FieldAddr:
		fld := addrField(x)
		if m.isInstanceField(fld) {
			return "&fld:" + fld.Name()
		}
		return "&" + m.canon(x.X, f, d+1) + "." + fld.Name()
	case *ssa.IndexAddr:
		return "&" + m.canon(x.X, f, d+1) + "[" + m.canon(x.Index, f, d+1) + "]"
	case *ssa.Index:
		return m.canon(x.X, f, d+1) + "[" + m.canon(x.Index, f, d+1) + "]"
	case *ssa.Slice:
		lo, hi := "", ""
		if x.Low != nil {
			lo = m.canon(x.Low, f, d+1)
		}
		if x.High != nil {
			hi = m.canon(x.High, f, d+1)
		}
		return m.canon(x.X, f, d+1) + "[" + lo + ":" + hi + "]"
	case *ssa.BinOp:
		return "(" + m.canon(x.X, f, d+1) + " " + x.Op.String() + " " + m.canon(x.Y, f, d+1) + ")"
	case *ssa.Extract:
		return m.canon(x.Tuple, f, d+1) + "#" + fmt.Sprint(x.Index)
	case *ssa.Lookup:
		return m.canon(x.X, f, d+1) + "[" + m.canon(x.Index, f, d+1) + "]"
	case *ssa.Call:
		if b, ok := x.Call.Value.(*ssa.Builtin); ok && b.Name() == "len" {
			return "len(" + m.canon(x.Call.Args[0], f, d+1) + ")"
		}
	}
	fid := 0
	if f != nil {
		fid = f.id
	}
	it := 0
	if ins, ok := v.(ssa.Instruction); ok && m.cur != nil && ins.Block() != nil {
		it = m.cur.visits[fmt.Sprintf("%d:%d", fid, ins.Block().Index)]
	}
	return fmt.Sprintf("%s@%d.%d", v.Name(), fid, it)
}

func (m *pmodel) isInstanceField(fld *types.Var) bool {
	if fld == nil {
		return false
	}
	if _, ok := m.tracked[fld]; ok {
		return true
	}
	if _, ok := m.slices[fld]; ok {
		return true
	}
	return fld == m.idxOwn || fld == m.idxDeal || fld == m.cmap || m.instFields[fld]
}

// instFields: every field of the instance structs (receiver chains collapse to these)
func (m *pmodel) init2(structs []*types.Named) {
	m.instFields = map[*types.Var]bool{}
	for _, t := range structs {
		for _, f := range structFields(t) {
			m.instFields[f] = true
		}
	}
}

// valKey identifies one dynamic instance of an SSA value: the activation (frame) and, for values
// defined inside loops, the iteration of their defining block on the current path.
func (m *pmodel) valKey(v ssa.Value, f *frame) string {
	fid := 0
	if f != nil {
		fid = f.id
	}
	it := 0
	if ins, ok := v.(ssa.Instruction); ok && m.cur != nil && ins.Block() != nil {
		it = m.cur.visits[fmt.Sprintf("%d:%d", fid, ins.Block().Index)]
	}
	return fmt.Sprintf("%p@%d#%d", v, fid, it)
}

// ownKeyClass: is the canonical key expression the instance's own index?
func (m *pmodel) keyClass(p *pstate, key string) tri {
	key = m.normRole(p, key)
	own := "fld:" + m.idxOwn.Name()
	if key == own {
		return tT
	}
	if t, ok := p.eq[eqKey(key, own)]; ok {
		return t
	}
	return tU
}

// normRole: for the dealer's own instance the dealer index and the own index are the same value.
func (m *pmodel) normRole(p *pstate, s string) string {
	if p.st["isDealer"] == 1 {
		return strings.ReplaceAll(s, "fld:"+m.idxDeal.Name(), "fld:"+m.idxOwn.Name())
	}
	return s
}

func eqKey(a, b string) string {
	if a > b {
		a, b = b, a
	}
	return a + " == " + b
}

// evalBool evaluates a boolean SSA value on the current path. tU means "not determined": the caller forks.
func (m *pmodel) evalBool(v ssa.Value, f *frame, p *pstate, prev *ssa.BasicBlock) tri {
	switch x := v.(type) {
	case *ssa.Const:
		if x.Value != nil && x.Value.String() == "true" {
			return tT
		}
		return tF
	case *ssa.Parameter:
		if f != nil {
			i := paramIndex(f.fn, x)
			if i >= 0 && i < len(f.args) && f.args[i].v != nil {
				return m.evalBool(f.args[i].v, f.args[i].f, p, nil)
			}
		}
	case *ssa.UnOp:
		if x.Op == token.NOT {
			t := m.evalBool(x.X, f, p, prev)
			if t == tU {
				return tU
			}
			return 1 - t
		}
		if x.Op == token.MUL {
			if fa, ok := x.X.(*ssa.FieldAddr); ok {
				fld := addrField(fa)
				if k, ok := m.tracked[fld]; ok {
					return tri(p.st[k])
				}
				// fields of the own complaint record
				if fld == m.recvFld || fld == m.ansFld {
					if m.ownRecordPtr(fa.X, f, p, 0) == tT {
						if fld == m.recvFld {
							return tri(p.st["ownComplaint"])
						}
						return tri(p.st["ownAns"])
					}
				}
			}
		}
	case *ssa.BinOp:
		switch x.Op {
		case token.EQL, token.NEQ:
			if isBool(x.X.Type()) {
				a, b := m.evalBool(x.X, f, p, prev), m.evalBool(x.Y, f, p, prev)
				if a != tU && b != tU {
					r := triOf(a == b)
					if x.Op == token.NEQ {
						r = 1 - r
					}
					return r
				}
				return tU
			}
			ca, cb := m.normRole(p, m.canon(x.X, f, 0)), m.normRole(p, m.canon(x.Y, f, 0))
			r := tU
			own, deal := "fld:"+m.idxOwn.Name(), "fld:"+m.idxDeal.Name()
			if ca == cb {
				r = tT
			} else if (ca == own && cb == deal) || (ca == deal && cb == own) {
				r = tri(p.st["isDealer"]) // role of the instance: fixed at construction
			} else if t, ok := p.eq[eqKey(ca, cb)]; ok {
				r = t
			} else if _, okA := parseInt(ca); okA {
				if _, okB := parseInt(cb); okB {
					r = tF
				}
			}
			// len(F) == 0 for a tracked slice field reads its allocated-ghost
			if r == tU {
				r = m.lenZeroGhost(x, f, p)
			}
			// nil comparison of a tracked slice field / inlined call result
			if r == tU {
				r = m.nilCompare(x, f, p)
			}
			if r == tU {
				return tU
			}
			if x.Op == token.NEQ {
				return 1 - r
			}
			return r
		}
	case *ssa.Extract:
		// ok of a lookup in the complaints map with the own key
		if lk, ok := x.Tuple.(*ssa.Lookup); ok && x.Index == 1 && m.isComplaintsMap(lk.X) {
			if m.keyClass(p, m.canon(lk.Index, f, 0)) == tT {
				return tri(p.st["ownExists"])
			}
		}
		// boolean member of the result tuple of an inlined call: what the callee returned on this path
		if tc, ok := x.Tuple.(*ssa.Call); ok {
			if rv, ok := p.retvals[m.valKey(tc, f)]; ok && x.Index < len(rv) && rv[x.Index].v != nil && isBool(rv[x.Index].v.Type()) {
				if t := m.evalBool(rv[x.Index].v, rv[x.Index].f, p, nil); t != tU {
					return t
				}
			}
		}
	case *ssa.Phi:
		if j, ok := p.phiEdge[m.valKey(x, f)]; ok {
			return m.evalBool(x.Edges[j], f, p, nil)
		}
	case *ssa.Call:
		if rv, ok := p.retvals[m.valKey(x, f)]; ok && len(rv) == 1 && isBool(rv[0].v.Type()) {
			return m.evalBool(rv[0].v, rv[0].f, p, nil)
		}
	}
	if t, ok := p.assume[m.valKey(v, f)]; ok {
		return t
	}
	return tU
}

// ownRecordPtr: does the pointer value denote the complaint record stored under the instance's own index?
func (m *pmodel) ownRecordPtr(v ssa.Value, f *frame, p *pstate, d int) tri {
	if d > 6 {
		return tU
	}
	switch x := v.(type) {
	case *ssa.Extract:
		switch t := x.Tuple.(type) {
		case *ssa.Call:
			// k-th result of an inlined helper (`c, isNew := s.record(k)`)
			if rv, ok := p.retvals[m.valKey(t, f)]; ok && x.Index < len(rv) && rv[x.Index].v != nil {
				return m.ownRecordPtr(rv[x.Index].v, rv[x.Index].f, p, d+1)
			}
		case *ssa.Lookup:
			if m.isComplaintsMap(t.X) && x.Index == 0 {
				return m.keyClass(p, m.canon(t.Index, f, 0))
			}
		case *ssa.Next:
			if rg, ok := t.Iter.(*ssa.Range); ok && m.isComplaintsMap(rg.X) && x.Index == 2 {
				return m.keyClass(p, m.canon(&ssa.Extract{Tuple: t, Index: 1}, f, 0))
			}
		}
	case *ssa.Lookup:
		if m.isComplaintsMap(x.X) {
			return m.keyClass(p, m.canon(x.Index, f, 0))
		}
	case *ssa.Alloc:
		// a fresh record that this function installs in the map under the own index
		for _, ref := range *x.Referrers() {
			if mu, ok := ref.(*ssa.MapUpdate); ok && mu.Value == ssa.Value(x) && m.isComplaintsMap(mu.Map) {
				return m.keyClass(p, m.canon(mu.Key, f, 0))
			}
		}
	case *ssa.Phi:
		if j, ok := p.phiEdge[m.valKey(x, f)]; ok {
			return m.ownRecordPtr(x.Edges[j], f, p, d+1)
		}
	case *ssa.Parameter:
		if f != nil {
			i := paramIndex(f.fn, x)
			if i >= 0 && i < len(f.args) && f.args[i].v != nil {
				return m.ownRecordPtr(f.args[i].v, f.args[i].f, p, d+1)
			}
		}
	case *ssa.Call:
		// result of an inlined helper (a get-or-create accessor of the complaints map)
		if rv, ok := p.retvals[m.valKey(x, f)]; ok && len(rv) == 1 && rv[0].v != nil {
			return m.ownRecordPtr(rv[0].v, rv[0].f, p, d+1)
		}
	}
	return tU
}

// resolvePtr follows a pointer value through the phis, parameters and inlined-call results of the current path.
func (m *pmodel) resolvePtr(v ssa.Value, f *frame, p *pstate, d int) ssa.Value {
	if d > 6 {
		return v
	}
	switch x := v.(type) {
	case *ssa.Phi:
		if j, ok := p.phiEdge[m.valKey(x, f)]; ok {
			return m.resolvePtr(x.Edges[j], f, p, d+1)
		}
	case *ssa.Parameter:
		if f != nil {
			i := paramIndex(f.fn, x)
			if i >= 0 && i < len(f.args) && f.args[i].v != nil {
				return m.resolvePtr(f.args[i].v, f.args[i].f, p, d+1)
			}
		}
	case *ssa.Call:
		if rv, ok := p.retvals[m.valKey(x, f)]; ok && len(rv) == 1 && rv[0].v != nil {
			return m.resolvePtr(rv[0].v, rv[0].f, p, d+1)
		}
	case *ssa.Extract:
		if t, isCall := x.Tuple.(*ssa.Call); isCall {
			if rv, ok := p.retvals[m.valKey(t, f)]; ok && x.Index < len(rv) && rv[x.Index].v != nil {
				return m.resolvePtr(rv[x.Index].v, rv[x.Index].f, p, d+1)
			}
		}
	}
	return v
}

func (m *pmodel) isComplaintsMap(v ssa.Value) bool {
	if u, ok := v.(*ssa.UnOp); ok && u.Op == token.MUL {
		if fa, ok := u.X.(*ssa.FieldAddr); ok {
			return addrField(fa) == m.cmap
		}
	}
	return false
}

func (m *pmodel) lenZeroGhost(x *ssa.BinOp, f *frame, p *pstate) tri {
	for _, pair := range [][2]ssa.Value{{x.X, x.Y}, {x.Y, x.X}} {
		c, ok := pair[0].(*ssa.Call)
		if !ok {
			continue
		}
		b, ok := c.Call.Value.(*ssa.Builtin)
		if !ok || b.Name() != "len" {
			continue
		}
		k, ok2 := constOf(pair[1])
		if !ok2 {
			continue
		}
		n, _ := constInt64(k.Value)
		if n != 0 {
			continue
		}
		if u, ok := c.Call.Args[0].(*ssa.UnOp); ok && u.Op == token.MUL {
			if fa, ok := u.X.(*ssa.FieldAddr); ok {
				if g, ok := m.slices[addrField(fa)]; ok {
					return triOf(p.st[g] == 0)
				}
			}
		}
	}
	return tU
}

func (m *pmodel) nilCompare(x *ssa.BinOp, f *frame, p *pstate) tri {
	for _, pair := range [][2]ssa.Value{{x.X, x.Y}, {x.Y, x.X}} {
		if !isNilConst(pair[1]) {
			continue
		}
		if t := m.isNilVal(pair[0], f, p); t != tU {
			return t
		}
		if u, ok := pair[0].(*ssa.UnOp); ok && u.Op == token.MUL {
			if fa, ok := u.X.(*ssa.FieldAddr); ok {
				if g, ok := m.slices[addrField(fa)]; ok {
					return triOf(p.st[g] == 0)
				}
			}
		}
	}
	return tU
}

// run executes fn from its entry on path state p and calls k for every way the function returns.
func (m *pmodel) run(fn *ssa.Function, f *frame, p *pstate, depth int, k func(p *pstate, rets []bval)) {
	m.block(fn.Blocks[0], nil, 0, f, p, depth, k)
}

func (m *pmodel) block(b *ssa.BasicBlock, prev *ssa.BasicBlock, start int, f *frame, p *pstate, depth int, k func(p *pstate, rets []bval)) {
	if m.npaths > m.maxPaths {
		return
	}
	m.cur = p
	if start == 0 {
		vk := fmt.Sprintf("%d:%d", f.id, b.Index)
		p.visits[vk]++
		bound := m.unroll + 1
		if ifi, ok := b.Instrs[len(b.Instrs)-1].(*ssa.If); ok && m.complaintsRangeNext(ifi.Cond) != nil {
			bound = 4 // own record, one other record, exit
		}
		if p.visits[vk] > bound {
			return // loop bound reached on this path: cut (the other branch of the loop test continues)
		}
	}
	for i := start; i < len(b.Instrs); i++ {
		ins := b.Instrs[i]
		switch x := ins.(type) {
		case *ssa.Phi:
			if prev != nil {
				for j, pred := range b.Preds {
					if pred == prev {
						p.phiEdge[m.valKey(x, f)] = j
					}
				}
			}
		case *ssa.Store:
			if alts := m.doStore(x, f, p); len(alts) > 0 {
				rest := i + 1
				for _, p2 := range alts {
					m.npaths++
					m.cur = p2
					m.block(b, prev, rest, f, p2, depth, k)
				}
				return
			}
		case *ssa.MapUpdate:
			m.doMapUpdate(x, f, p)
		case *ssa.Lookup:
			// a lookup in the complaints map with a key that is not known to be (or not to be) the own index: explore both
			if m.isComplaintsMap(x.X) {
				key := m.normRole(p, m.canon(x.Index, f, 0))
				if m.keyClass(p, key) == tU {
					rest := i + 1
					for _, cls := range []tri{tT, tF} {
						q := p.clone()
						m.cur = q
						m.npaths++
						q.eq[eqKey(key, "fld:"+m.idxOwn.Name())] = cls
						q.lines = append(q.lines, fmt.Sprintf("%s key %s is own index→%s", m.w.pos(posOf(x)), shortCond(render(x.Index)), cls))
						m.block(b, prev, rest, f, q, depth, k)
					}
					return
				}
			}
		case *ssa.IndexAddr:
			m.checkIndex(x.X, x, f, p)
		case *ssa.Index:
			m.checkIndex(x.X, x, f, p)
		case *ssa.Call:
			// calls may fork (inlined callees with several outcomes): continue the rest of the block in the continuation
			rest := i + 1
			m.doCall(x, &x.Call, f, p, depth, func(p2 *pstate) {
				m.block(b, prev, rest, f, p2, depth, k)
			})
			return
		case *ssa.Defer:
			// deferred calls in these functions are scrubbers/unlocks: record only
		case *ssa.Go:
		case *ssa.Panic:
			p.effects = append(p.effects, Effect{"panic", "explicit panic", x.Pos(), fnKey(f.fn)})
			k(p, nil)
			return
		case *ssa.Return:
			var rets []bval
			for _, r := range x.Results {
				rets = append(rets, bval{r, f})
			}
			k(p, rets)
			return
		case *ssa.Jump:
			m.block(b.Succs[0], b, 0, f, p, depth, k)
			return
		case *ssa.If:
			if nx := m.complaintsRangeNext(x.Cond); nx != nil {
				// `for k, c := range complaints`: the own record (if it exists) is visited first, then at most one
				// other record, then the loop ends
				cnt := p.visits["rng:"+m.valKeyNoIter(nx, f)]
				p.visits["rng:"+m.valKeyNoIter(nx, f)] = cnt + 1
				keyCanon := m.normRole(p, m.canon(&ssa.Extract{Tuple: nx, Index: 1}, f, 0))
				own := "fld:" + m.idxOwn.Name()
				type alt struct {
					take bool
					cls  tri
				}
				var alts []alt
				switch {
				case cnt == 0 && p.st["ownExists"] == 1:
					alts = []alt{{true, tT}}
				case cnt <= 1:
					alts = []alt{{true, tF}, {false, tU}}
				default:
					alts = []alt{{false, tU}}
				}
				for _, a := range alts {
					q := p
					if len(alts) > 1 {
						q = p.clone()
						m.npaths++
					}
					m.cur = q
					if a.take {
						q.eq[eqKey(keyCanon, own)] = a.cls
						m.block(b.Succs[0], b, 0, f, q, depth, k)
					} else {
						m.block(b.Succs[1], b, 0, f, q, depth, k)
					}
				}
				return
			}
			t := m.evalBool(x.Cond, f, p, prev)
			if t == tU {
				// map-range `next` and opaque conditions fork
				for _, choice := range []tri{tT, tF} {
					p2 := p.clone()
					m.cur = p2
					m.npaths++
					m.assumeCond(x.Cond, choice, f, p2)
					p2.lines = append(p2.lines, fmt.Sprintf("%s %s→%s", m.w.pos(posOf(x)), shortCond(render(x.Cond)), choice))
					succ := b.Succs[0]
					if choice == tF {
						succ = b.Succs[1]
					}
					m.block(succ, b, 0, f, p2, depth, k)
				}
				return
			}
			succ := b.Succs[0]
			if t == tF {
				succ = b.Succs[1]
			}
			m.block(succ, b, 0, f, p, depth, k)
			return
		}
	}
}

func shortCond(s string) string {
	s = strings.ReplaceAll(s, "feldmanVSSstate.", "")
	s = strings.ReplaceAll(s, "dkgCommon.", "")
	if len(s) > 70 {
		s = s[:70] + "…"
	}
	return s
}

// assumeCond records the outcome chosen for an opaque condition, decomposing equalities so that
// later tests of the same relation are decided consistently.
func (m *pmodel) assumeCond(c ssa.Value, t tri, f *frame, p *pstate) {
	p.assume[m.valKey(c, f)] = t
	switch x := c.(type) {
	case *ssa.UnOp:
		if x.Op == token.NOT {
			m.assumeCond(x.X, 1-t, f, p)
		}
	case *ssa.BinOp:
		if x.Op == token.EQL || x.Op == token.NEQ {
			if !isBool(x.X.Type()) {
				r := t
				if x.Op == token.NEQ {
					r = 1 - t
				}
				p.eq[eqKey(m.normRole(p, m.canon(x.X, f, 0)), m.normRole(p, m.canon(x.Y, f, 0)))] = r
			}
		}
	case *ssa.Extract:
		// ok of a complaints-map lookup with an undetermined key class: under ok==false with own key the own record does not exist
	case *ssa.Parameter:
		if f != nil {
			i := paramIndex(f.fn, x)
			if i >= 0 && i < len(f.args) && f.args[i].v != nil {
				m.assumeCond(f.args[i].v, t, f.args[i].f, p)
			}
		}
	}
}

// complaintsRangeNext: cond is `next(range(complaints))#0`.
func (m *pmodel) complaintsRangeNext(cond ssa.Value) *ssa.Next {
	ex, ok := cond.(*ssa.Extract)
	if !ok || ex.Index != 0 {
		return nil
	}
	nx, ok := ex.Tuple.(*ssa.Next)
	if !ok {
		return nil
	}
	rg, ok := nx.Iter.(*ssa.Range)
	if !ok || !m.isComplaintsMap(rg.X) {
		return nil
	}
	return nx
}

func (m *pmodel) valKeyNoIter(v ssa.Value, f *frame) string {
	fid := 0
	if f != nil {
		fid = f.id
	}
	return fmt.Sprintf("%p@%d", v, fid)
}

func (m *pmodel) isNilVal(v ssa.Value, f *frame, p *pstate) tri {
	switch x := v.(type) {
	case *ssa.Const:
		return triOf(x.Value == nil)
	case *ssa.MakeSlice, *ssa.Alloc, *ssa.MakeMap:
		return tF
	case *ssa.Slice:
		return m.isNilVal(x.X, f, p)
	case *ssa.Parameter:
		if f != nil {
			i := paramIndex(f.fn, x)
			if i >= 0 && i < len(f.args) && f.args[i].v != nil {
				return m.isNilVal(f.args[i].v, f.args[i].f, p)
			}
		}
	case *ssa.Extract:
		if rv, ok := p.retvals[m.valKey(x.Tuple, f)]; ok && x.Index < len(rv) {
			return m.isNilVal(rv[x.Index].v, rv[x.Index].f, p)
		}
	case *ssa.Call:
		if rv, ok := p.retvals[m.valKey(x, f)]; ok && len(rv) > 0 {
			return m.isNilVal(rv[0].v, rv[0].f, p)
		}
		if callee := x.Call.StaticCallee(); callee != nil {
			// error constructors never return nil
			if callee.String() == "fmt.Errorf" || callee.String() == "errors.New" || (inModule(callee) && strings.HasSuffix(callee.Name(), "Errorf")) {
				return tF
			}
		}
	case *ssa.MakeInterface:
		return m.isNilVal(x.X, f, p)
	case *ssa.ChangeInterface:
		return m.isNilVal(x.X, f, p)
	case *ssa.Phi:
		if j, ok := p.phiEdge[m.valKey(x, f)]; ok {
			return m.isNilVal(x.Edges[j], f, p)
		}
	}
	return tU
}

// doStore applies a store to the abstract state. When an opaque boolean is stored into a tracked
// flag it returns the two successor path states (value true / false) and the caller forks.
func (m *pmodel) doStore(x *ssa.Store, f *frame, p *pstate) []*pstate {
	fa, ok := x.Addr.(*ssa.FieldAddr)
	if !ok {
		return nil
	}
	fld := addrField(fa)
	if k, ok := m.tracked[fld]; ok {
		t := m.evalBool(x.Val, f, p, nil)
		apply := func(q *pstate, t tri) {
			old := q.st[k]
			q.st[k] = int(t)
			q.effects = append(q.effects, Effect{"store", fmt.Sprintf("%s:=%s (was %d) from %s", k, t, old, shortCond(render(x.Val))), x.Pos(), fnKey(f.fn)})
		}
		if t != tU {
			apply(p, t)
			return nil
		}
		var alts []*pstate
		for _, choice := range []tri{tT, tF} {
			q := p.clone()
			m.cur = q
			m.assumeCond(x.Val, choice, f, q)
			q.lines = append(q.lines, fmt.Sprintf("%s %s→%s", m.w.pos(posOf(x)), shortCond(render(x.Val)), choice))
			apply(q, choice)
			alts = append(alts, q)
		}
		return alts
	}
	if g, ok := m.slices[fld]; ok {
		n := m.isNilVal(x.Val, f, p)
		if n == tU {
			if ex, ok := x.Val.(*ssa.Extract); ok && ex.Index == 0 {
				if c, ok := ex.Tuple.(*ssa.Call); ok && correlatedNilErr(c.Call.StaticCallee()) {
					// (value, error) pair of an opaque callee: value nil ⇔ error non-nil
					var alts []*pstate
					for _, isNil := range []bool{false, true} {
						q := p.clone()
						m.cur = q
						errKey := m.canon(c, f, 0) + "#1"
						q.eq[eqKey(errKey, "nil")] = triOf(!isNil)
						q.st[g] = map[bool]int{true: 0, false: 1}[isNil]
						q.lines = append(q.lines, fmt.Sprintf("%s %s fails→%v", m.w.pos(posOf(x)), c.Call.StaticCallee().Name(), isNil))
						q.effects = append(q.effects, Effect{"store", fmt.Sprintf("%s:=%d", g, q.st[g]), x.Pos(), fnKey(f.fn)})
						alts = append(alts, q)
					}
					return alts
				}
			}
		}
		v := 1
		if n == tT {
			v = 0
		}
		p.st[g] = v
		p.effects = append(p.effects, Effect{"store", fmt.Sprintf("%s:=%d", g, v), x.Pos(), fnKey(f.fn)})
		return nil
	}
	if fld == m.recvFld || fld == m.ansFld {
		if m.ownRecordPtr(fa.X, f, p, 0) == tT {
			t := m.evalBool(x.Val, f, p, nil)
			if t == tU {
				t = tT
			}
			k := "ownComplaint"
			if fld == m.ansFld {
				k = "ownAns"
			}
			p.st[k] = int(t)
			p.effects = append(p.effects, Effect{"store", fmt.Sprintf("own record: %s:=%s", fld.Name(), t), x.Pos(), fnKey(f.fn)})
		} else if _, isLit := fa.X.(*ssa.Alloc); !isLit {
			// a record of another participant (or of unknown class): one that was looked up, or one that a
			// get-or-create helper has just installed on this path
			t := m.evalBool(x.Val, f, p, nil)
			kind := "record"
			if _, fresh := m.resolvePtr(fa.X, f, p, 0).(*ssa.Alloc); fresh {
				kind = "fresh record"
			}
			p.effects = append(p.effects, Effect{"store", fmt.Sprintf("%s: %s:=%s", kind, fld.Name(), t), x.Pos(), fnKey(f.fn)})
		}
		return nil
	}
	if m.instFields[fld] {
		p.effects = append(p.effects, Effect{"store", "field " + fld.Name(), x.Pos(), fnKey(f.fn)})
	}
	return nil
}

func (m *pmodel) doMapUpdate(x *ssa.MapUpdate, f *frame, p *pstate) {
	if !m.isComplaintsMap(x.Map) {
		return
	}
	key := m.canon(x.Key, f, 0)
	kc := m.keyClass(p, key)
	// value: a fresh record with constant `received` / `answerReceived` fields
	recv, ans := tU, tU
	fresh := false
	if al, ok := x.Value.(*ssa.Alloc); ok {
		fresh = true
		recv, ans = tF, tF
		for _, ref := range *al.Referrers() {
			if fa, ok := ref.(*ssa.FieldAddr); ok {
				for _, r2 := range *fa.Referrers() {
					if st, ok := r2.(*ssa.Store); ok && st.Addr == fa {
						switch addrField(fa) {
						case m.recvFld:
							recv = m.evalBool(st.Val, f, p, nil)
						case m.ansFld:
							ans = m.evalBool(st.Val, f, p, nil)
						}
					}
				}
			}
		}
	}
	what := fmt.Sprintf("complaints[%s] = record(fresh=%v, received=%s, answered=%s)", strings.TrimPrefix(key, "fld:"), fresh, recv, ans)
	p.effects = append(p.effects, Effect{"mapupdate", what, x.Pos(), fnKey(f.fn)})
	if kc == tT && fresh {
		p.st["ownExists"] = 1
		if recv != tU {
			p.st["ownComplaint"] = int(recv)
		}
		if ans != tU {
			p.st["ownAns"] = int(ans)
		}
		p.st["ownChecked"] = 0
	}
}

func (m *pmodel) checkIndex(base ssa.Value, at ssa.Instruction, f *frame, p *pstate) {
	if u, ok := base.(*ssa.UnOp); ok && u.Op == token.MUL {
		if fa, ok := u.X.(*ssa.FieldAddr); ok {
			if g, ok := m.slices[addrField(fa)]; ok {
				if p.st[g] == 0 {
					p.viol = append(p.viol, Effect{"nil-index", "index of slice field `" + addrField(fa).Name() + "` while it is unallocated (nil): runtime panic", at.Pos(), fnKey(f.fn)})
				}
				p.effects = append(p.effects, Effect{"index", addrField(fa).Name(), at.Pos(), fnKey(f.fn)})
			}
		}
	}
}

func (m *pmodel) doCall(ins ssa.Instruction, cc *ssa.CallCommon, f *frame, p *pstate, depth int, k func(p *pstate)) {
	if cc.IsInvoke() {
		name := cc.Method.Name()
		recvT := typeShort(cc.Value.Type())
		if strings.HasSuffix(recvT, "DKGProcessor") {
			arg := ""
			if len(cc.Args) > 0 {
				arg = m.canon(cc.Args[0], f, 0)
				if name == "Broadcast" || name == "PrivateSend" {
					arg = m.msgTag(cc.Args[len(cc.Args)-1], f)
				}
			}
			p.effects = append(p.effects, Effect{"call", "processor." + name + "(" + strings.TrimPrefix(arg, "fld:") + ")", ins.Pos(), fnKey(f.fn)})
			if name == "Broadcast" && strings.HasPrefix(arg, "tag:") {
				ev := "bcast:" + arg
				if p.st[ev] < 2 {
					p.st[ev]++
				}
			}
		}
		k(p)
		return
	}
	if b, ok := cc.Value.(*ssa.Builtin); ok {
		_ = b
		k(p)
		return
	}
	callee := cc.StaticCallee()
	if callee == nil {
		k(p)
		return
	}
	if n, ok := cgoName(callee); ok {
		p.effects = append(p.effects, Effect{"cgo", "C." + n, ins.Pos(), fnKey(f.fn)})
		// cgo calls taking &F[0] of a tracked slice field need it allocated
		for _, a := range cc.Args {
			if ia, ok := stripConv(a).(*ssa.IndexAddr); ok {
				m.checkIndex(m.resolveParam(ia.X, f), ins, f, p)
			}
		}
		k(p)
		return
	}
	// the answered-complaint check applied to the own record
	if callee.Name() == m.checkFn && len(cc.Args) >= 2 {
		if m.keyClass(p, m.canon(cc.Args[1], f, 0)) == tT {
			p.st["ownChecked"] = 1
			p.effects = append(p.effects, Effect{"event", "own complaint's answer checked", ins.Pos(), fnKey(f.fn)})
		}
	}
	// a tracked slice handed to a callee that indexes the parameter needs the slice allocated
	for j, a := range cc.Args {
		if u, ok := m.resolveParam(a, f).(*ssa.UnOp); ok && u.Op == token.MUL {
			if fa, ok := u.X.(*ssa.FieldAddr); ok {
				if _, tracked := m.slices[addrField(fa)]; tracked && inModule(callee) && callee.Blocks != nil && paramIsIndexed(callee, j, 2) {
					m.checkIndex(u, ins, f, p)
				}
			}
		}
	}
	if !inModule(callee) || callee.Blocks == nil || depth >= m.inlineD || m.noInline[callee.Name()] || !m.relevant(callee) {
		k(p)
		return
	}
	// inline
	m.nframes++
	nf := &frame{fn: callee, parent: f, id: m.nframes}
	for _, a := range cc.Args {
		nf.args = append(nf.args, bval{a, f})
	}
	p.trace = append(p.trace, callee.Name())
	callKey := m.valKey(ins.(ssa.Value), f)
	m.run(callee, nf, p, depth+1, func(p2 *pstate, rets []bval) {
		p2.retvals[callKey] = rets
		// boolean results become assumptions on the call value (single result) / extracts
		if len(rets) == 1 && isBool(rets[0].v.Type()) {
			t := m.evalBool(rets[0].v, rets[0].f, p2, nil)
			if t != tU {
				p2.assume[callKey] = t
			}
		}
		k(p2)
	})
}

func (m *pmodel) resolveParam(v ssa.Value, f *frame) ssa.Value {
	for {
		pr, ok := v.(*ssa.Parameter)
		if !ok || f == nil {
			return v
		}
		i := paramIndex(f.fn, pr)
		if i < 0 || i >= len(f.args) || f.args[i].v == nil {
			return v
		}
		v, f = f.args[i].v, f.args[i].f
	}
}

// msgTag: the constant first byte of a message buffer built in the current function.
func (m *pmodel) msgTag(v ssa.Value, f *frame) string {
	base := sliceBase(m.resolveParam(v, f))
	refs := base.Referrers()
	if refs == nil {
		return "msg"
	}
	for _, r := range *refs {
		ia, ok := r.(*ssa.IndexAddr)
		if !ok {
			// slice of an array literal: look one level deeper
			if sl, ok := r.(*ssa.Slice); ok {
				_ = sl
			}
			continue
		}
		if c, ok := constOf(ia.Index); ok {
			if n, _ := constInt64(c.Value); n == 0 {
				for _, r2 := range *ia.Referrers() {
					if st, ok := r2.(*ssa.Store); ok && st.Addr == ia {
						if cv, ok := constOf(st.Val); ok {
							n, _ := constInt64(cv.Value)
							return fmt.Sprintf("tag:%d", n)
						}
					}
				}
			}
		}
	}
	return "msg"
}

// classify a returned value for the outcome record.
func (m *pmodel) classifyRet(r bval, p *pstate) string {
	t := r.v.Type()
	if isErrorType(t) {
		return m.errClassP(r.v, r.f, p, 0)
	}
	if isBool(t) {
		return m.evalBool(r.v, r.f, p, nil).String()
	}
	if isNilConst(r.v) {
		return "nil"
	}
	return "value"
}

func (m *pmodel) errClassP(v ssa.Value, f *frame, p *pstate, d int) string {
	v = stripConv(v)
	if d > 5 {
		return "other"
	}
	if pr, ok := v.(*ssa.Parameter); ok && f != nil {
		i := paramIndex(f.fn, pr)
		if i >= 0 && i < len(f.args) && f.args[i].v != nil {
			return m.errClassP(f.args[i].v, f.args[i].f, p, d+1)
		}
	}
	if ex, ok := v.(*ssa.Extract); ok {
		if rv, ok := p.retvals[m.valKey(ex.Tuple, f)]; ok && ex.Index < len(rv) {
			return m.errClassP(rv[ex.Index].v, rv[ex.Index].f, p, d+1)
		}
	}
	if c, ok := v.(*ssa.Call); ok {
		if rv, ok := p.retvals[m.valKey(c, f)]; ok && len(rv) == 1 {
			return m.errClassP(rv[0].v, rv[0].f, p, d+1)
		}
		// fmt.Errorf("...%w", err): class of the wrapped error
		if callee := c.Call.StaticCallee(); callee != nil && callee.String() == "fmt.Errorf" {
			for _, cls := range m.varargErrP(c, f, p, d) {
				return cls
			}
		}
	}
	return m.w.errClass(v)
}

func (m *pmodel) varargErrP(call *ssa.Call, f *frame, p *pstate, d int) []string {
	var out []string
	if len(call.Call.Args) < 2 {
		return nil
	}
	sl, ok := call.Call.Args[1].(*ssa.Slice)
	if !ok {
		return nil
	}
	al, ok := sl.X.(*ssa.Alloc)
	if !ok {
		return nil
	}
	for _, ref := range *al.Referrers() {
		if ia, ok := ref.(*ssa.IndexAddr); ok {
			for _, r2 := range *ia.Referrers() {
				if st, ok := r2.(*ssa.Store); ok && st.Addr == ia {
					v := stripConv(st.Val)
					if isErrorType(v.Type()) || types.Implements(v.Type(), errorIface()) {
						out = append(out, m.errClassP(v, f, p, d+1))
					}
				}
			}
		}
	}
	return out
}

// explore runs an API method on a definite state and returns every path outcome.
func (m *pmodel) explore(fn *ssa.Function, st AState) []PathOutcome {
	var outs []PathOutcome
	m.nframes++
	root := &frame{fn: fn, id: m.nframes}
	for range fn.Params {
		root.args = append(root.args, bval{})
	}
	p := &pstate{st: st.clone(), assume: map[string]tri{}, eq: map[string]tri{}, visits: map[string]int{}, retvals: map[string][]bval{}, phiEdge: map[string]int{}}
	m.npaths++
	m.cur = p
	m.run(fn, root, p, 0, func(p2 *pstate, rets []bval) {
		o := PathOutcome{Post: p2.st.clone(), Effects: p2.effects, Trace: p2.trace, Lines: p2.lines, Viol: p2.viol}
		for _, r := range rets {
			o.Ret = append(o.Ret, m.classifyRet(r, p2))
		}
		outs = append(outs, o)
	})
	return outs
}

// relevant: does the function (transitively) touch what the abstraction tracks — instance fields,
// the processor callbacks, the complaints map?  Only such callees are inlined; the others are
// opaque (their results are unconstrained, correlated (value, error) pairs are handled at the store).
func (m *pmodel) relevant(fn *ssa.Function) bool {
	if m.rel == nil {
		m.rel = map[*ssa.Function]int{}
	}
	switch m.rel[fn] {
	case 1:
		return true
	case 2:
		return false
	case 3:
		return false // in progress (recursion)
	}
	m.rel[fn] = 3
	res := false
	instrsFlat(fn, func(ins ssa.Instruction) {
		switch x := ins.(type) {
		case *ssa.FieldAddr:
			if m.instFields[addrField(x)] {
				res = true
			}
		case ssa.CallInstruction:
			cc := x.Common()
			if cc.IsInvoke() && strings.HasSuffix(typeShort(cc.Value.Type()), "DKGProcessor") {
				res = true
			}
			if callee := cc.StaticCallee(); callee != nil && inModule(callee) && callee.Blocks != nil && m.relevant(callee) {
				res = true
			}
		}
	})
	if res {
		m.rel[fn] = 1
	} else {
		m.rel[fn] = 2
	}
	return res
}

// paramIsIndexed: the callee indexes (or hands to cgo as &p[0]) its idx-th parameter.
func paramIsIndexed(fn *ssa.Function, idx int, depth int) bool {
	if idx >= len(fn.Params) || depth == 0 {
		return false
	}
	p := fn.Params[idx]
	if p.Referrers() == nil {
		return false
	}
	for _, r := range *p.Referrers() {
		switch x := r.(type) {
		case *ssa.IndexAddr:
			if x.X == ssa.Value(p) {
				return true
			}
		case *ssa.Index:
			if x.X == ssa.Value(p) {
				return true
			}
		case ssa.CallInstruction:
			if callee := x.Common().StaticCallee(); callee != nil && inModule(callee) && callee.Blocks != nil {
				for j, a := range x.Common().Args {
					if a == ssa.Value(p) && paramIsIndexed(callee, j, depth-1) {
						return true
					}
				}
			}
		}
	}
	return false
}

// correlatedNilErr: every return of the (opaque) callee gives (nil, err≠nil) or (non-nil, nil).
func correlatedNilErr(fn *ssa.Function) bool {
	if fn == nil || fn.Blocks == nil || fn.Signature.Results().Len() != 2 || !isErrorType(fn.Signature.Results().At(1).Type()) {
		return false
	}
	n := 0
	for _, r := range returns(fn) {
		n++
		a, b := isNilConst(r.Results[0]), isNilConst(r.Results[1])
		if a == b {
			return false
		}
	}
	return n > 0
}
