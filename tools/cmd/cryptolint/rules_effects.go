package main

import (
	"fmt"
	"go/token"
	"go/types"
	"strings"

	"golang.org/x/tools/go/ssa"
)

func init() { register("C19", ruleC19) }

func ruleC19(w *World) {
	w.floor("C19.R1", 9)
	w.floor("C19.R2", 3)
	w.floor("C19.R4", 3)
	a := w.bls("C19.R1")
	if a == nil {
		return
	}
	ea := w.effects()
	type op struct {
		fn          *ssa.Function
		hasherParam int // index of the hash.Hasher parameter (excluded: per the property the hasher is per-goroutine or KMAC), -1 if none
		name        string
	}
	var ops []op
	add := func(fn *ssa.Function, name string) {
		if fn == nil {
			w.undecided("C19.R1", "anchor:"+name, token.NoPos, "unresolved anchor: "+name)
			return
		}
		hp := -1
		for i, p := range fn.Params {
			if strings.HasSuffix(typeShort(p.Type()), "Hasher") {
				hp = i
			}
		}
		ops = append(ops, op{fn, hp, name})
	}
	// KMAC ComputeHash: located by role = ComputeHash of the hash.Hasher implementation whose Algorithm() returns KMAC128
	var kmacT *types.Named
	if want, ok := w.constInt(hashPath, "KMAC128"); ok {
		for _, t := range w.implementors(hashPath, "Hasher", hashPath) {
			if f := w.method(t, "Algorithm"); f != nil {
				for _, r := range returns(f) {
					if c, ok := constOf(r.Results[0]); ok {
						if v, _ := constInt64(c.Value); v == want {
							kmacT = t
						}
					}
				}
			}
		}
	}
	if kmacT == nil {
		w.undecided("C19.R1", "anchor:kmac", token.NoPos, "unresolved anchor: KMAC128 hasher type")
	} else {
		add(w.method(kmacT, "ComputeHash"), "KMAC128.ComputeHash")
	}
	add(a.sign, "BLS Sign")
	add(a.verify, "BLS Verify")
	add(w.fn(rootPath, "BLSVerifyPOP"), "BLSVerifyPOP")
	add(w.fn(rootPath, "SPOCKVerify"), "SPOCKVerify")
	add(w.fn(rootPath, "VerifyBLSSignatureOneMessage"), "VerifyBLSSignatureOneMessage")
	add(w.fn(rootPath, "VerifyBLSSignatureManyMessages"), "VerifyBLSSignatureManyMessages")
	add(w.fn(rootPath, "BatchVerifyBLSSignaturesOneMessage"), "BatchVerifyBLSSignaturesOneMessage")
	for _, t := range w.implementors(rootPath, "PrivateKey", rootPath) {
		if t != a.prT {
			add(w.method(t, "Sign"), "ECDSA Sign")
		}
	}
	for _, t := range w.implementors(rootPath, "PublicKey", rootPath) {
		if t != a.pubT {
			add(w.method(t, "Verify"), "ECDSA Verify")
		}
	}
	// every other exported function of the module that is handed a caller's hasher (SPoCK proving / verification
	// against data, …) is such an operation too: the hasher, keys and data it receives are only read
	have := map[*ssa.Function]bool{}
	for _, o := range ops {
		have[o.fn] = true
	}
	for _, fn := range w.srcFuncs(rootPath) {
		if have[fn] || isTestFile(w, fn.Pos()) || fn.Object() == nil || !fn.Object().Exported() || fn.Signature.Recv() != nil {
			continue
		}
		for _, p := range fn.Params {
			if strings.HasSuffix(typeShort(p.Type()), "hash.Hasher") || typeShort(p.Type()) == "Hasher" {
				add(fn, fn.Name())
				break
			}
		}
	}
	for _, o := range ops {
		effs := ea.sharedWrites(o.fn, 0, map[*ssa.Function]bool{})
		n := 0
		seen := map[string]bool{}
		for _, e := range effs {
			if e.Root.kind == rkParam && e.Root.param == o.hasherParam && o.hasherParam >= 0 {
				continue // the hasher argument is excluded by the property (R2 restricts what is invoked on it)
			}
			desc := fmt.Sprintf("%s [%s]", e.What, rootDesc(e.Root))
			if seen[desc] {
				continue
			}
			seen[desc] = true
			n++
			w.viol("C19.R1", fnKey(o.fn)+"/shared-write:"+shortWhat(e.What), e.Ins.Pos(), o.name+" may write memory other goroutines can reach: "+desc)
		}
		if n == 0 {
			w.ok("C19.R1", fnKey(o.fn)+"/no-shared-write", o.fn.Pos(), o.name+": every store, map update, append/copy target, cgo out-parameter and callee effect is rooted at an allocation of this call")
		}
	}
	// KMAC ComputeHash: on the shared state only Clone is invoked; everything else goes to the clone
	if kmacT != nil {
		if f := w.method(kmacT, "ComputeHash"); f != nil {
			recv := f.Params[0]
			instrsFlat(f, func(ins ssa.Instruction) {
				c, ok := ins.(ssa.CallInstruction)
				if !ok || !c.Common().IsInvoke() {
					return
				}
				rs := ea.roots(c.Common().Value, f, 0)
				onShared := false
				for _, r := range rs {
					if r.kind != rkFresh {
						onShared = true
					}
				}
				_ = recv
				m := c.Common().Method.Name()
				key := fnKey(f) + "/invoke:" + m
				if onShared {
					w.check(m == "Clone", "C19.R1", key, ins.Pos(), "only Clone is invoked on the shared cSHAKE state", "method "+m+" is invoked on the shared cSHAKE state (receiver `"+render(c.Common().Value)+"`): concurrent ComputeHash calls would interfere")
				} else {
					w.ok("C19.R1", key, ins.Pos(), m+" operates on the private clone")
				}
			})
		}
	}
	// R5: the interface contracts R1 relies on when a listed operation calls a key through its interface
	// (Encode / EncodeCompressed / Equals / Size / Algorithm / String are readers; Encode* hand out memory
	// nobody else holds) hold for every implementation in the module.
	// R6: key objects are never written after construction, anywhere in the module (not only by the listed operations)
	w.floor("C19.R6", 6)
	w.ruleKeyImmutability("C19.R6")
	w.floor("C19.R5", 20)
	readers := []string{"Encode", "EncodeCompressed", "Equals", "Size", "Algorithm", "String"}
	freshRes := map[string]bool{"Encode": true, "EncodeCompressed": true}
	for _, iface := range []string{"PublicKey", "PrivateKey"} {
		for _, t := range w.implementors(rootPath, iface, rootPath) {
			for _, mn := range readers {
				f := w.method(t, mn)
				if f == nil || f.Blocks == nil {
					continue
				}
				effs := ea.sharedWrites(f, 0, map[*ssa.Function]bool{})
				key := fnKey(f) + "/reader"
				if len(effs) > 0 {
					e := effs[0]
					w.viol("C19.R5", key, e.Ins.Pos(), fmt.Sprintf("%s.%s is called by the read-only operations through the %s interface and assumed not to write, but it may write memory other goroutines can reach: %s [%s]", t.Obj().Name(), mn, iface, e.What, rootDesc(e.Root)))
				} else {
					w.ok("C19.R5", key, f.Pos(), mn+" writes only memory of its own activation")
				}
				if freshRes[mn] {
					bad := ""
					for _, r := range returns(f) {
						if len(r.Results) == 0 {
							continue
						}
						for _, rr := range ea.roots(r.Results[0], f, 0) {
							if rr.kind != rkFresh {
								bad = rootDesc(rr)
							}
						}
					}
					w.check(bad == "", "C19.R5", fnKey(f)+"/fresh-result", f.Pos(), "the returned encoding is memory of this call", fmt.Sprintf("%s.%s returns memory that is %s: two callers (or a caller and the key) share one buffer, so a write by one changes what the other sees", t.Obj().Name(), mn, bad))
				}
			}
		}
	}
	// R2: on hashers passed to the BLS operations only Size and ComputeHash are invoked (transitively through the guard)
	for _, o := range ops {
		// (ECDSA operations use per-goroutine hashers, per the property; every BLS-based operation — signatures,
		// aggregates, batches, PoP, SPoCK — may share one KMAC hasher)
		if o.hasherParam < 0 || strings.HasPrefix(o.name, "ECDSA") {
			continue
		}
		w.hasherUses(o.fn, o.fn.Params[o.hasherParam], "C19.R2", 0)
	}
	// R4: package-level variables are written only by initialisers
	for _, pp := range []string{rootPath, hashPath, randomPath} {
		for _, fn := range w.srcFuncs(pp) {
			if isTestFile(w, fn.Pos()) {
				continue
			}
			isInit := fn.Name() == "init" || strings.HasPrefix(fn.Name(), "init#") || allCallersInit(w, fn) && len(w.callersOf(fn)) > 0
			instrsFlat(fn, func(ins ssa.Instruction) {
				st, ok := ins.(*ssa.Store)
				if !ok {
					return
				}
				var g *ssa.Global
				v := st.Addr
				for g == nil {
					switch x := v.(type) {
					case *ssa.Global:
						g = x
					case *ssa.FieldAddr:
						v = x.X
					case *ssa.IndexAddr:
						v = x.X
					default:
						return
					}
				}
				if g.Pkg == nil || !strings.HasPrefix(g.Pkg.Pkg.Path(), rootPath) || strings.HasPrefix(g.Name(), "init$") {
					return
				}
				w.check(isInit, "C19.R4", "global:"+g.Name()+"/writer:"+fnKey(fn), st.Pos(), "package-level variable written during initialisation only", "package-level variable "+g.Name()+" is written by "+fnKey(fn)+" after initialisation (shared by all goroutines)")
			})
		}
	}
}

func rootDesc(r root) string {
	switch r.kind {
	case rkParam:
		return "rooted at parameter " + r.name
	case rkGlobal:
		return "rooted at package-level variable " + r.name
	case rkShared:
		return "rooted at shared memory: " + r.name
	}
	return "fresh"
}

func shortWhat(s string) string {
	if len(s) > 60 {
		s = s[:60]
	}
	return s
}

// hasherUses: every use of the hasher value is Size/ComputeHash, a nil comparison, or a pass-through
// to a module function that in turn satisfies the same restriction.
func (w *World) hasherUses(fn *ssa.Function, v ssa.Value, rule string, depth int) {
	if depth > 4 || v.Referrers() == nil {
		return
	}
	for _, ref := range *v.Referrers() {
		switch x := ref.(type) {
		case ssa.CallInstruction:
			cc := x.Common()
			if cc.IsInvoke() && cc.Value == v {
				m := cc.Method.Name()
				w.check(m == "Size" || m == "ComputeHash", rule, fnKey(fn)+"/hasher."+m, x.Pos(), "hasher."+m+" is read-only for KMAC128", "stateful hasher method "+m+" is invoked on the caller's hasher inside a read-only BLS operation")
				continue
			}
			if _, isB := cc.Value.(*ssa.Builtin); isB {
				continue // len/cap of a list of hashers
			}
			callee := cc.StaticCallee()
			if callee != nil && inModule(callee) && callee.Blocks != nil {
				for j, a := range cc.Args {
					if a == v && j < len(callee.Params) {
						w.hasherUses(callee, callee.Params[j], rule, depth+1)
					}
				}
				continue
			}
			if cc.IsInvoke() {
				// hasher passed as argument of an interface method (pk.Verify(s, m, hasher)): the implementations are checked as their own entry points
				continue
			}
			w.viol(rule, fnKey(fn)+"/hasher-escape", x.Pos(), "hasher is handed to "+render(x.(ssa.Value)))
		case *ssa.BinOp, *ssa.If, *ssa.DebugRef:
		case *ssa.ChangeInterface, *ssa.MakeInterface, *ssa.Phi:
			w.hasherUses(fn, x.(ssa.Value), rule, depth+1)
		case *ssa.Store:
			w.viol(rule, fnKey(fn)+"/hasher-stored", x.Pos(), "hasher is stored to "+render(x.Addr))
		case *ssa.IndexAddr, *ssa.Index, *ssa.Range, *ssa.UnOp, *ssa.Slice, *ssa.Next, *ssa.Extract, *ssa.Lookup:
			// slices of hashers: follow element loads
			if val, ok := x.(ssa.Value); ok {
				w.hasherUses(fn, val, rule, depth+1)
			}
		}
	}
}

// ruleKeyImmutability (C12.R6 / C19.R6): key objects are written only while they are being built. Every store into a
// field of a struct implementing PublicKey / PrivateKey — a Go store, or a C call that writes through the address of
// such a field — targets an object allocated by the current activation (or handed back fresh by a constructor); the
// only writes to an existing key are the lazily filled public-key cache of a private key, from a value built the same
// way. So a key handed to any operation keeps the value it was created with (determinism of PublicKey(), `keys are
// left unmodified`).
func (w *World) ruleKeyImmutability(rule string) {
	keyT := map[*types.Named]bool{}
	for _, iface := range []string{"PublicKey", "PrivateKey"} {
		for _, t := range w.implementors(rootPath, iface, rootPath) {
			keyT[t] = true
		}
	}
	if len(keyT) == 0 {
		w.undecided(rule, "anchor:key-types", token.NoPos, "no implementation of PublicKey / PrivateKey found")
		return
	}
	isKeyStruct := func(t types.Type) *types.Named {
		n, _ := deref(t).(*types.Named)
		if n != nil && keyT[n] {
			return n
		}
		return nil
	}
	// cache fields: fields of a private-key type whose type is (a pointer to) a public-key type of the module
	isCache := func(f *types.Var) bool {
		return isKeyStruct(f.Type()) != nil
	}
	ea := w.effects()
	n := 0
	seen := map[string]int{}
	for _, fn := range w.moduleFuncs() {
		if isTestFile(w, fn.Pos()) || fn.Blocks == nil {
			continue
		}
		check := func(ins ssa.Instruction, addr ssa.Value, how string, val ssa.Value) {
			// walk up to the field of a key struct
			var fld *types.Var
			var obj ssa.Value
			for v := addr; v != nil; {
				switch x := v.(type) {
				case *ssa.FieldAddr:
					if kt := isKeyStruct(x.X.Type()); kt != nil {
						fld, obj = addrField(x), x.X
						v = nil
						continue
					}
					v = x.X
				case *ssa.IndexAddr:
					v = x.X
				case *ssa.ChangeType:
					v = x.X
				case *ssa.Convert:
					v = x.X
				default:
					v = nil
				}
			}
			fname := ""
			if fld != nil {
				fname = fld.Name()
			} else if _, isPtr := addr.Type().Underlying().(*types.Pointer); isPtr && isKeyStruct(addr.Type()) != nil && how == "store" {
				// `*k = value`: the whole key object is overwritten
				if _, isAlloc := addr.(*ssa.Alloc); !isAlloc {
					obj, fname = addr, "(whole object)"
				}
			}
			if fname == "" {
				return
			}
			if fld == nil {
				fld = types.NewVar(token.NoPos, nil, fname, types.Typ[types.Invalid])
			}
			n++
			key := fmt.Sprintf("%s/key-write:%s.%s", fnKey(fn), typeShort(deref(obj.Type())), fld.Name())
			seen[key]++
			if seen[key] > 1 {
				key += fmt.Sprintf("#%d", seen[key])
			}
			fresh := true
			desc := ""
			for _, r := range ea.roots(obj, fn, 0) {
				if r.kind != rkFresh {
					fresh = false
					desc = rootDesc(r)
				}
			}
			if fresh {
				w.ok(rule, key, ins.Pos(), "written while the object is under construction ("+how+")")
				return
			}
			onlyGlobals := true
			for _, r := range ea.roots(obj, fn, 0) {
				if r.kind != rkFresh && r.kind != rkGlobal {
					onlyGlobals = false
				}
			}
			if onlyGlobals && (fn.Name() == "init" || allCallersInit(w, fn)) {
				w.ok(rule, key, ins.Pos(), "package-level key object written during package initialisation only ("+how+")")
				return
			}
			// an unexported setter used while the object is under construction: every root is a parameter of this function
			// and every call site hands an object built in the caller's own activation for it
			if fn.Object() != nil && !fn.Object().Exported() {
				allParam, cnt := true, 0
				for _, r := range ea.roots(obj, fn, 0) {
					if r.kind == rkFresh {
						continue
					}
					if r.kind != rkParam || r.param < 0 {
						allParam = false
						break
					}
					for _, cs := range w.callersOfCached(fn) {
						if isTestFile(w, cs.Pos()) {
							continue
						}
						cnt++
						if r.param >= len(cs.Common().Args) {
							allParam = false
							continue
						}
						for _, ar := range ea.roots(cs.Common().Args[r.param], cs.Parent(), 0) {
							if ar.kind != rkFresh {
								allParam = false
							}
						}
					}
				}
				if allParam && cnt > 0 {
					w.ok(rule, key, ins.Pos(), "setter applied only to objects under construction at its call sites ("+how+")")
					return
				}
			}
			if isCache(fld) && val != nil {
				// the cache of the derived public key: filled with an object built in this activation
				vf := true
				for _, r := range ea.roots(val, fn, 0) {
					if r.kind != rkFresh {
						vf = false
					}
				}
				w.check(vf, rule, key, ins.Pos(), "lazily filled public-key cache, from a key built in this activation", "the public-key cache of an existing private key is assigned a key that is not built here ("+render(val)+")")
				return
			}
			w.viol(rule, key, ins.Pos(), fmt.Sprintf("field %s of an existing %s object (%s) is written (%s): keys are values — one that was handed to a caller or is shared between goroutines changes under them", fld.Name(), typeShort(deref(obj.Type())), desc, how))
		}
		instrsFlat(fn, func(ins ssa.Instruction) {
			switch x := ins.(type) {
			case *ssa.Store:
				check(ins, x.Addr, "store", x.Val)
			case ssa.CallInstruction:
				cc := x.Common()
				callee := cc.StaticCallee()
				if callee == nil {
					return
				}
				if cn, ok := cgoName(callee); ok {
					for i, a := range cc.Args {
						if cgoWrites(cn, i) {
							check(ins, a, "written by C."+cn, nil)
						}
					}
				} else if inModule(callee) && callee.Blocks != nil {
					for i, a := range cc.Args {
						if _, isPtr := a.Type().Underlying().(*types.Pointer); isPtr && i < len(callee.Params) && w.callMayWritePointArg(x, a) {
							check(ins, a, "written through "+callee.Name(), nil)
						}
					}
				}
			}
		})
	}
	if n == 0 {
		w.undecided(rule, "key-writes", token.NoPos, "no write to a key object found (anchors moved?)")
	}
}

// rulePubKeyCacheProvenance (C12.R7): the public-key cache of a private key only ever holds the public key *of that
// private key*: every store into a cache field (a field of a PrivateKey implementation whose type is a PublicKey
// implementation of the module) stores nil, or an object built in the same activation whose key material is derived from
// the scalar of the very object whose cache is written — for BLS the generator multiple of `obj.scalar`, for ECDSA the
// embedded public part `&obj.goPrKey.PublicKey`. A cache filled any other way (sums of other keys' caches, a caller's
// key) makes PublicKey() depend on call history.
func (w *World) rulePubKeyCacheProvenance(rule string) {
	pubT, prT := map[*types.Named]bool{}, map[*types.Named]bool{}
	for _, t := range w.implementors(rootPath, "PublicKey", rootPath) {
		pubT[t] = true
	}
	for _, t := range w.implementors(rootPath, "PrivateKey", rootPath) {
		prT[t] = true
	}
	named := func(t types.Type) *types.Named { n, _ := deref(t).(*types.Named); return n }
	n := 0
	for _, fn := range w.moduleFuncs() {
		if isTestFile(w, fn.Pos()) || fn.Blocks == nil {
			continue
		}
		instrsFlat(fn, func(ins ssa.Instruction) {
			st, ok := ins.(*ssa.Store)
			if !ok {
				return
			}
			fa, ok := st.Addr.(*ssa.FieldAddr)
			if !ok {
				return
			}
			fld := addrField(fa)
			if fld == nil || !prT[named(fa.X.Type())] || !pubT[named(fld.Type())] {
				return
			}
			n++
			key := fmt.Sprintf("%s/cache-store:%s.%s", fnKey(fn), typeShort(deref(fa.X.Type())), fld.Name())
			if isNilConst(st.Val) {
				w.ok(rule, key, st.Pos(), "cache starts empty")
				return
			}
			obj := render(fa.X)
			val := stripConv(st.Val)
			for d := 0; d < 3; d++ {
				// a key built by a small worker the rules do not know (`sk.pk = publicKeyOf(&sk.scalar)`): the object it builds
				if hv := helperValue(val); hv != nil {
					val = stripConv(hv)
					continue
				}
				break
			}
			al, isAl := val.(*ssa.Alloc)
			if !isAl {
				w.viol(rule, key, st.Pos(), "the public-key cache of `"+obj+"` is assigned `"+shortCond(render(val))+"`, a key that is not built here from that private key: PublicKey() would not be scalar·generator of this key in every call history")
				return
			}
			// how is the key material of the new object filled? (followed through a local the point is first computed into)
			derived := false
			detail := ""
			var fromAddr func(addr ssa.Value, d int)
			fromAddr = func(addr ssa.Value, d int) {
				if d > 3 || addr.Referrers() == nil {
					return
				}
				for _, r2 := range *addr.Referrers() {
					switch x := r2.(type) {
					case *ssa.Store:
						if x.Addr != addr {
							continue
						}
						// ECDSA: goPubKey := &obj.goPrKey.PublicKey
						if strings.HasPrefix(render(x.Val), "&"+obj+".") && strings.HasSuffix(render(x.Val), ".PublicKey") {
							derived, detail = true, "public part embedded in the same private key"
						}
						// a value copied from a local: how was the local filled?
						if ld, ok := stripConv(x.Val).(*ssa.UnOp); ok && ld.Op == token.MUL {
							if l2, ok := ld.X.(*ssa.Alloc); ok {
								fromAddr(l2, d+1)
							}
						}
					case ssa.CallInstruction:
						// BLS: generatorScalarMultG2(&new.point, &obj.scalar) / C.G2_mult_gen_to_affine
						args := x.Common().Args
						if len(args) == 2 && stripConv(args[0]) == addr {
							isGen := false
							if callee := x.Common().StaticCallee(); callee != nil {
								if cn, isC := cgoName(callee); isC && cn == "G2_mult_gen_to_affine" {
									isGen = true
								} else if len(cgoCallsDeep(w, callee, "G2_mult_gen_to_affine", 1)) > 0 {
									isGen = true
								}
							}
							if isGen && strings.HasPrefix(render(args[1]), "&"+obj+".") {
								derived, detail = true, "generator multiple of the same key's scalar"
							}
						}
					case *ssa.ChangeType:
						fromAddr(x, d+1)
					}
				}
			}
			for _, ref := range *al.Referrers() {
				if f2, ok := ref.(*ssa.FieldAddr); ok {
					fromAddr(f2, 0)
				}
			}
			w.check(derived, rule, key, st.Pos(), "cache filled with the key derived from the same private key ("+detail+")", "the public-key cache of `"+obj+"` is filled with an object whose key material is not derived from `"+obj+"` itself")
		})
	}
	if n == 0 {
		w.undecided(rule, "cache-stores", token.NoPos, "no store into a public-key cache found (anchors moved?)")
	}
}

// ruleKeygenPure (C12.R8): key generation and decoding are functions of their arguments alone: the generatePrivateKey /
// decodePrivateKey / decodePublicKey implementations (and what they call) write no memory that outlives the call — no
// package-level variable, no field of the shared algorithm instance, no argument. A cache or lazily initialised constant
// filled on the first call makes the first key of a process differ from the rest.
func (w *World) ruleKeygenPure(rule string) {
	ea := w.effects()
	n := 0
	for _, t := range w.implementors(rootPath, "signer", rootPath) {
		for _, mn := range []string{"generatePrivateKey", "decodePrivateKey", "decodePublicKey", "decodePublicKeyCompressed"} {
			f := w.method(t, mn)
			if f == nil || f.Blocks == nil || isPanicStub(f) {
				continue
			}
			n++
			effs := ea.sharedWrites(f, 0, map[*ssa.Function]bool{})
			seen := map[string]bool{}
			bad := 0
			for _, e := range effs {
				desc := fmt.Sprintf("%s [%s]", e.What, rootDesc(e.Root))
				if seen[desc] {
					continue
				}
				seen[desc] = true
				bad++
				w.viol(rule, fnKey(f)+"/shared-write:"+shortWhat(e.What), e.Ins.Pos(), fnKey(f)+" writes memory that outlives the call: "+desc+" — its result can then depend on earlier calls")
			}
			if bad == 0 {
				w.ok(rule, fnKey(f)+"/no-shared-write", f.Pos(), "writes only memory of its own activation")
			}
		}
	}
	if n == 0 {
		w.undecided(rule, "anchor:signer", token.NoPos, "no signer implementation found")
	}
}
