package main

import (
	"fmt"
	"go/token"
	"go/types"
	"os"
	"regexp"
	"sort"
	"strconv"
	"strings"

	"golang.org/x/tools/go/ssa"
)

func init() {
	register("C10", ruleC10)
	register("C08", ruleC08)
	register("C07", ruleC07)
}

type dkgAnchors struct {
	common, plain, qual, joint *types.Named
	complaintT                 *types.Named
	m                          *pmodel
	rolesOf                    map[*types.Named]map[string]string // type -> role -> method name (resolved by role, not by name)
}

// resolveRoles finds the unexported intake functions by what they do: the method the private-message
// handler hands the payload to ("share"), the methods the broadcast handler dispatches to under each
// message tag ("vector", "complaint", "answer"), and the methods wrapping the discrete-log check.
func (d *dkgAnchors) resolveRoles(w *World) {
	d.rolesOf = map[*types.Named]map[string]string{}
	tags := map[string]string{}
	for role, cn := range map[string]string{"vector": "feldmanVSSVerifVec", "complaint": "feldmanVSSComplaint", "answer": "feldmanVSSComplaintAnswer"} {
		if v, ok := w.constInt(rootPath, cn); ok {
			tags[fmt.Sprint(v)] = role
		}
	}
	for _, t := range []*types.Named{d.plain, d.qual} {
		r := map[string]string{}
		isOwn := func(f *ssa.Function) bool {
			return f != nil && f.Signature.Recv() != nil && types.Identical(deref(f.Signature.Recv().Type()), t) && f.Blocks != nil
		}
		if hp := w.method(t, "HandlePrivateMsg"); hp != nil {
			instrsFlat(hp, func(ins ssa.Instruction) {
				if c, ok := ins.(*ssa.Call); ok && isOwn(c.Call.StaticCallee()) && len(c.Call.Args) == 3 {
					r["share"] = c.Call.StaticCallee().Name()
				}
			})
		}
		if hb := w.method(t, "HandleBroadcastMsg"); hb != nil {
			msg := P(hb, 2)
			instrsFlat(hb, func(ins ssa.Instruction) {
				c, ok := ins.(*ssa.Call)
				if !ok || !isOwn(c.Call.StaticCallee()) || len(c.Call.Args) != 3 {
					return
				}
				for _, f := range w.factsAt(c) {
					for tv, role := range tags {
						if f.Expr == msg+"[0] == "+tv {
							r[role] = c.Call.StaticCallee().Name()
						}
					}
				}
			})
		}
		for _, fn := range w.srcFuncs(rootPath) {
			if !isOwn(fn) || len(cgoCallsFlat(fn, "G2_check_log")) == 0 {
				continue
			}
			if len(fn.Params) == 1 {
				r["verifyShare"] = fn.Name()
			} else {
				r["checkComplaint"] = fn.Name()
			}
		}
		d.rolesOf[t] = r
		// functions found by role are known to the rules under whatever name they carry today
		for _, fn := range w.srcFuncs(rootPath) {
			if isOwn(fn) {
				for _, n := range r {
					if fn.Name() == n {
						knownByRole[fn] = true
					}
				}
			}
		}
	}
}

func (d *dkgAnchors) role(t *types.Named, role string) string {
	if n, ok := d.rolesOf[t][role]; ok {
		return n
	}
	if t == d.qual { // promoted from the embedded plain protocol
		if n, ok := d.rolesOf[d.plain][role]; ok {
			return n
		}
	}
	return "<unresolved:" + role + ">"
}

func (w *World) dkg(rule string) *dkgAnchors {
	d := &dkgAnchors{}
	impls := w.implementors(rootPath, "DKGState", rootPath)
	// joint = has a slice field whose element is another implementor; qual = embeds plain; plain = embedded in qual
	isImpl := map[*types.Named]bool{}
	for _, t := range impls {
		isImpl[t] = true
	}
	for _, t := range impls {
		for _, f := range structFields(t) {
			if sl, ok := f.Type().Underlying().(*types.Slice); ok {
				if n, ok := sl.Elem().(*types.Named); ok && isImpl[n] {
					d.joint, d.qual = t, n
				}
			}
		}
	}
	if d.qual != nil {
		for _, f := range structFields(d.qual) {
			if f.Embedded() {
				if n, ok := deref(f.Type()).(*types.Named); ok && isImpl[n] {
					d.plain = n
				}
			}
			if mp, ok := f.Type().Underlying().(*types.Map); ok {
				if n, ok := deref(mp.Elem()).(*types.Named); ok {
					d.complaintT = n
				}
			}
		}
	}
	if d.plain != nil {
		for _, f := range structFields(d.plain) {
			if f.Embedded() {
				if n, ok := deref(f.Type()).(*types.Named); ok {
					d.common = n
				}
			}
		}
	}
	if d.joint == nil || d.qual == nil || d.plain == nil || d.common == nil || d.complaintT == nil {
		w.undecided(rule, "anchor:dkg-types", token.NoPos, "unresolved anchor: DKG state types (joint/qual/plain/common/complaint record)")
		return nil
	}
	m := &pmodel{w: w, tracked: map[*types.Var]string{}, slices: map[*types.Var]string{}, noInline: map[string]bool{}, maxPaths: 400000, inlineD: 5, unroll: 1}
	if tierG == "thorough" {
		m.inlineD, m.unroll = 6, 2
	}
	m.init2([]*types.Named{d.common, d.plain, d.qual})
	for _, t := range []*types.Named{d.common, d.plain, d.qual} {
		for _, f := range structFields(t) {
			if isBool(f.Type()) {
				m.tracked[f] = f.Name()
			}
			if _, ok := f.Type().Underlying().(*types.Slice); ok && t == d.plain {
				m.slices[f] = f.Name() + "Alloc"
			}
			if n, ok := f.Type().(*types.Named); ok && n.Obj().Name() == "index" {
				if t == d.common {
					m.idxOwn = f
				} else if t == d.plain {
					m.idxDeal = f
				}
			}
			if _, ok := f.Type().Underlying().(*types.Map); ok && t == d.qual {
				m.cmap = f
			}
		}
	}
	for _, f := range structFields(d.complaintT) {
		if f.Name() == "received" && isBool(f.Type()) {
			m.recvFld = f
		}
		if f.Name() == "answerReceived" && isBool(f.Type()) {
			m.ansFld = f
		}
	}
	if m.idxOwn == nil || m.idxDeal == nil || m.cmap == nil || m.recvFld == nil {
		w.undecided(rule, "anchor:dkg-fields", token.NoPos, "unresolved anchor: own/dealer index, complaints map or complaint.received")
		return nil
	}
	d.m = m
	d.resolveRoles(w)
	m.checkFn = d.role(d.qual, "checkComplaint")
	for _, t := range []*types.Named{d.plain, d.qual} {
		for _, role := range []string{"share", "vector"} {
			if strings.HasPrefix(d.role(t, role), "<unresolved") {
				w.undecided(rule, "anchor:intake:"+t.Obj().Name()+"/"+role, token.NoPos, "unresolved anchor: "+role+" intake function of "+t.Obj().Name())
				return nil
			}
		}
	}
	return d
}

// ---- transition system ----

type transition struct {
	From   AState
	Method string
	Out    PathOutcome
}

type tsys struct {
	proto   string
	states  map[string]AState
	trans   []transition
	pred    map[string]*transition // state key -> transition that first reached it
	methods map[string]*ssa.Function
}

func (d *dkgAnchors) methodsOf(w *World, t *types.Named) map[string]*ssa.Function {
	out := map[string]*ssa.Function{}
	for _, n := range []string{"Start", "HandleBroadcastMsg", "HandlePrivateMsg", "End", "NextTimeout", "ForceDisqualify"} {
		if f := w.method(t, n); f != nil {
			out[n] = f
		}
	}
	return out
}

func (d *dkgAnchors) initialStates() []AState {
	base := AState{}
	for _, k := range d.m.tracked {
		base[k] = 0
	}
	for _, k := range d.m.slices {
		base[k] = 0
	}
	base["ownComplaint"] = 0
	base["ownExists"] = 0
	base["ownAns"] = 0
	base["ownChecked"] = 0
	base["vecRejected"] = 0
	base["ended"] = 0
	var out []AState
	for _, dealer := range []int{0, 1} {
		s := base.clone()
		s["isDealer"] = dealer
		out = append(out, s)
	}
	return out
}

func (d *dkgAnchors) build(w *World, proto string, t *types.Named) *tsys {
	vecFn := d.role(t, "vector")
	ts := &tsys{proto: proto, states: map[string]AState{}, pred: map[string]*transition{}, methods: d.methodsOf(w, t)}
	var work []AState
	for _, s := range d.initialStates() {
		ts.states[s.key()] = s
		work = append(work, s)
	}
	var names []string
	for n := range ts.methods {
		names = append(names, n)
	}
	sort.Strings(names)
	for len(work) > 0 {
		s := work[0]
		work = work[1:]
		for _, n := range names {
			if n == "Start" && s["ended"] == 1 {
				continue // restarting an instance after End is outside the property's quantifier (documentation: one instance per run)
			}
			outs := d.m.explore(ts.methods[n], s)
			for _, o := range outs {
				if n == "End" && s["running"] == 1 && o.Post["running"] == 0 {
					o.Post["ended"] = 1
				}
				// ghost: the dealer's vector was rejected (Disqualify issued while taking in the vector)
				inVec := false
				for _, tr := range o.Trace {
					if tr == vecFn {
						inVec = true
					}
				}
				if inVec {
					for _, e := range o.Effects {
						if e.Kind == "call" && strings.HasPrefix(e.What, "processor.Disqualify") && e.Fn != "" && (strings.HasSuffix(e.Fn, ")."+vecFn) || !vocabHasMethod(e.Fn)) {
							o.Post["vecRejected"] = 1
						}
					}
				}
				tr := transition{From: s, Method: n, Out: o}
				ts.trans = append(ts.trans, tr)
				k := o.Post.key()
				if _, ok := ts.states[k]; !ok {
					ts.states[k] = o.Post
					ts.pred[k] = &ts.trans[len(ts.trans)-1]
					work = append(work, o.Post)
					if len(ts.states) > 6000 {
						return ts
					}
				}
			}
		}
	}
	return ts
}

// witness: the call sequence that first reached a state.
func (ts *tsys) witness(s AState) string {
	var seq []string
	k := s.key()
	for i := 0; i < 40; i++ {
		t, ok := ts.pred[k]
		if !ok || t == nil {
			break
		}
		step := t.Method
		if len(t.Out.Lines) > 0 {
			step += "[" + strings.Join(lastN(t.Out.Lines, 3), "; ") + "]"
		}
		seq = append([]string{step}, seq...)
		k = t.From.key()
	}
	return strings.Join(seq, " → ")
}

func lastN(s []string, n int) []string {
	if len(s) > n {
		return s[len(s)-n:]
	}
	return s
}

func effectful(o PathOutcome, from AState) []string {
	var out []string
	for _, e := range o.Effects {
		switch e.Kind {
		case "call", "cgo", "mapupdate", "panic":
			out = append(out, e.What)
		case "store":
			out = append(out, e.What)
		}
	}
	if o.Post.key() != from.key() {
		out = append(out, "state "+from.short()+"→"+o.Post.short())
	}
	return out
}

func errOf(o PathOutcome) string {
	if len(o.Ret) == 0 {
		return ""
	}
	return o.Ret[len(o.Ret)-1]
}

func isStateErr(c string) bool {
	return strings.Contains(c, "dkgInvalidStateTransitionErrorf")
}
func isInputErr(c string) bool { return strings.Contains(c, "invalidInputsErrorf") }

var cachedTS = map[string]*tsys{}

func (d *dkgAnchors) systems(w *World) map[string]*tsys {
	if len(cachedTS) == 0 {
		cachedTS["plain"] = d.build(w, "FeldmanVSS", d.plain)
		cachedTS["qual"] = d.build(w, "FeldmanVSSQual", d.qual)
	}
	w.stat("typestate_states_plain", len(cachedTS["plain"].states))
	w.stat("typestate_transitions_plain", len(cachedTS["plain"].trans))
	w.stat("typestate_states_qual", len(cachedTS["qual"].states))
	w.stat("typestate_transitions_qual", len(cachedTS["qual"].trans))
	w.stat("paths_explored", d.m.npaths)
	return cachedTS
}

// ---------------- C10 ----------------

func ruleC10(w *World) {
	w.floor("C10.R1", 10)
	w.floor("C10.R3", 4)
	w.floor("C10.R4", 6)
	w.floor("C10.R5", 6)
	d := w.dkg("C10.R1")
	if d == nil {
		return
	}
	// R8: the index refusal does not depend on what the instance has already concluded
	w.floor("C10.R8", 6)
	w.ruleIndexRefusalUnconditional("C10.R8", d)
	// R7: a refusal keeps its class through every relay
	w.floor("C10.R7", 1) // sites merge when the relays share a wrapping helper
	w.ruleErrorClassKept("C10.R7", d)
	// R6: the per-dealer instances of Joint-Feldman and the joint object have ONE common state (size, threshold, own
	// index, running flag): every pointer to the common-state struct stored into an instance built by the joint object is
	// the joint object's own.  The lock-step lemma (R3) and the refusal rules rest on it: with private copies an instance
	// can stay `running` after a failed Start and refuse the next one for ever.
	w.floor("C10.R6", 1)
	{
		ea := w.effects()
		n := 0
		for _, fn := range w.srcFuncs(rootPath) {
			if isTestFile(w, fn.Pos()) || fn.Signature.Recv() == nil {
				continue
			}
			if rt, _ := deref(fn.Signature.Recv().Type()).(*types.Named); rt != d.joint {
				continue
			}
			instrs(fn, func(ins ssa.Instruction) {
				st, ok := ins.(*ssa.Store)
				if !ok {
					return
				}
				pt, ok := st.Val.Type().Underlying().(*types.Pointer)
				if !ok || !types.Identical(pt.Elem(), d.common) {
					return
				}
				if _, isFA := st.Addr.(*ssa.FieldAddr); !isFA {
					return
				}
				n++
				// the value stored is the receiver's own pointer: a load of the receiver's field of that type (followed
				// through the parameters of instance-building helpers to what the joint method passes)
				okShared := false
				v := stripConv(st.Val)
				for i := 0; i < 4; i++ {
					if up := enteringArg(v); up != nil {
						v = stripConv(up)
						continue
					}
					break
				}
				if ld, ok := v.(*ssa.UnOp); ok && ld.Op == token.MUL {
					if fa, ok := ld.X.(*ssa.FieldAddr); ok && fa.X == ssa.Value(fn.Params[0]) {
						okShared = true
					}
				}
				what := "a pointer that is not the joint object's own"
				for _, r := range ea.roots(st.Val, fn, 0) {
					if r.kind == rkFresh {
						what = "a pointer to a fresh copy of the common state"
					}
				}
				w.check(okShared, "C10.R6", fmt.Sprintf("%s/common-state:%s", fnKey(fn), render(st.Addr)), st.Pos(), "the instance shares the joint object's common state",
					"the per-dealer instance is given "+what+" (`"+render(st.Val)+"`): its running flag / parameters no longer move together with the joint object's")
			})
		}
		if n == 0 {
			w.undecided("C10.R6", "joint/common-state", token.NoPos, "no instance construction found in the Joint-Feldman methods")
		}
	}
	for name, ts := range d.systems(w) {
		isQual := name == "qual"
		// aggregate per (method, predicate) to keep obligations keyed by construct, with one witness
		type agg struct {
			n   int
			bad string
			pos token.Pos
		}
		res := map[string]*agg{}
		note := func(key string, ok bool, bad string, pos token.Pos) {
			a := res[key]
			if a == nil {
				a = &agg{}
				res[key] = a
			}
			a.n++
			if !ok && a.bad == "" {
				a.bad, a.pos = bad, pos
			}
		}
		for i := range ts.trans {
			t := &ts.trans[i]
			run := t.From["running"] == 1
			e := errOf(t.Out)
			eff := effectful(t.Out, t.From)
			wit := func() string { return "after " + ts.witness(t.From) + " in state " + t.From.short() }
			pos := ts.methods[t.Method].Pos()
			switch {
			case t.Method == "Start":
				if run {
					note(name+"/Start/refused-while-running", isStateErr(e) && len(eff) == 0, fmt.Sprintf("Start while running returns `%s` with effects %v (%s)", e, eff, wit()), pos)
				} else {
					note(name+"/Start/accepted-when-idle", !isStateErr(e), "Start on an idle instance is refused ("+wit()+")", pos)
				}
			case !run:
				if t.Method == "NextTimeout" && !isQual {
					note(name+"/NextTimeout/no-op", e == "nil" && len(eff) == 0, fmt.Sprintf("plain VSS NextTimeout is not a no-op: returns %s, effects %v", e, eff), pos)
					break
				}
				note(name+"/"+t.Method+"/refused-when-not-running", isStateErr(e) && len(eff) == 0, fmt.Sprintf("%s on a non-running instance returns `%s` with effects %v (%s)", t.Method, e, eff, wit()), pos)
			default: // running
				if isStateErr(e) || isInputErr(e) {
					note(name+"/"+t.Method+"/rejection-effect-free", len(eff) == 0, fmt.Sprintf("%s rejected with `%s` but not effect-free: %v (%s; path %s)", t.Method, e, eff, wit(), strings.Join(lastN(t.Out.Lines, 4), "; ")), pos)
				}
				switch t.Method {
				case "NextTimeout":
					if !isQual {
						note(name+"/NextTimeout/no-op", e == "nil" && len(eff) == 0, fmt.Sprintf("plain VSS NextTimeout is not a no-op: returns %s, effects %v", e, eff), pos)
						break
					}
					st, ct := t.From["sharesTimeout"] == 1, t.From["complaintsTimeout"] == 1
					if ct {
						note(name+"/NextTimeout/third-refused", isStateErr(e) && len(eff) == 0, fmt.Sprintf("a NextTimeout after both timeouts returns `%s`, effects %v (%s)", e, eff, wit()), pos)
					} else {
						okk := e == "nil"
						if !st {
							okk = okk && t.Out.Post["sharesTimeout"] == 1 && t.Out.Post["complaintsTimeout"] == 0
						} else {
							okk = okk && t.Out.Post["sharesTimeout"] == 1 && t.Out.Post["complaintsTimeout"] == 1
						}
						note(name+"/NextTimeout/advances-one-phase", okk, fmt.Sprintf("accepted NextTimeout from %s leads to %s returning %s (%s)", t.From.short(), t.Out.Post.short(), e, wit()), pos)
					}
				case "End":
					both := !isQual || (t.From["sharesTimeout"] == 1 && t.From["complaintsTimeout"] == 1)
					if !both {
						note(name+"/End/refused-before-timeouts", isStateErr(e) && len(eff) == 0, fmt.Sprintf("End before both timeouts returns `%s`, effects %v (%s)", e, eff, wit()), pos)
					} else {
						note(name+"/End/leaves-not-running", t.Out.Post["running"] == 0 && !isStateErr(e), fmt.Sprintf("End from %s returns `%s` and leaves %s (%s)", t.From.short(), e, t.Out.Post.short(), wit()), pos)
					}
				}
			}
			for _, v := range t.Out.Viol {
				_ = v
			}
		}
		var keys []string
		for k := range res {
			keys = append(keys, k)
		}
		sort.Strings(keys)
		for _, k := range keys {
			a := res[k]
			rule := "C10.R1"
			if strings.Contains(k, "effect-free") {
				rule = "C10.R3"
			} else if strings.Contains(k, "NextTimeout") || strings.Contains(k, "End/") {
				rule = "C10.R4"
			}
			w.check(a.bad == "", rule, k, a.pos, fmt.Sprintf("holds on all %d explored transitions", a.n), a.bad)
		}
	}
	// R3b lock-step lemma for the per-dealer instances of Joint-Feldman: the phase of an instance — (running,
	// sharesTimeout, complaintsTimeout) — moves only in Start / NextTimeout / End, and what NextTimeout does to it and
	// whether it is refused is a function of the phase alone (not of the verdict, complaints, role, …). All instances are
	// started together and driven by the same joint calls, so they are always in the same phase: if one refuses a
	// timeout, the first one did, before any effect.
	if ts := d.systems(w)["qual"]; ts != nil {
		type ph struct{ r, s, c int }
		outcome := map[ph]map[string]bool{}
		moved := ""
		for i := range ts.trans {
			t := &ts.trans[i]
			from := ph{t.From["running"], t.From["sharesTimeout"], t.From["complaintsTimeout"]}
			to := ph{t.Out.Post["running"], t.Out.Post["sharesTimeout"], t.Out.Post["complaintsTimeout"]}
			switch t.Method {
			case "NextTimeout":
				e := errOf(t.Out)
				cls := "accepted"
				if isStateErr(e) {
					cls = "refused"
				} else if e != "nil" {
					cls = "error:" + e
				}
				if outcome[from] == nil {
					outcome[from] = map[string]bool{}
				}
				outcome[from][fmt.Sprintf("%s→{running:%d sharesTimeout:%d complaintsTimeout:%d}", cls, to.r, to.s, to.c)] = true
			case "Start", "End":
			default:
				if from != to && moved == "" {
					moved = fmt.Sprintf("%s changes the phase %v → %v (%s)", t.Method, from, to, ts.witness(t.From))
				}
			}
		}
		bad := moved
		n := 0
		for f, o := range outcome {
			n++
			if len(o) != 1 && bad == "" {
				var alts []string
				for k := range o {
					alts = append(alts, k)
				}
				sort.Strings(alts)
				bad = fmt.Sprintf("NextTimeout from phase {running:%d sharesTimeout:%d complaintsTimeout:%d} has %d different outcomes depending on other state: %s — per-dealer instances of Joint-Feldman can fall out of step, so a joint call may be refused after some instances already acted", f.r, f.s, f.c, len(o), strings.Join(alts, " | "))
			}
		}
		if n == 0 {
			w.undecided("C10.R3", "qual/NextTimeout/lock-step", token.NoPos, "no NextTimeout transition explored")
		} else {
			w.check(bad == "", "C10.R3", "qual/NextTimeout/lock-step", ts.methods["NextTimeout"].Pos(), fmt.Sprintf("phase transitions are a function of the phase alone (%d phases) and only Start/NextTimeout/End move the phase", n), bad)
		}
	}
	// R3 (Joint-Feldman End): End is refused until both timeouts have elapsed, and a refused call leaves no trace: every
	// effect End can have (a store into an instance, a callback to the processor) lies on a path where both timeout
	// flags of an instance were found set (the instances move in lock-step, lemma above)
	if je := w.method(d.joint, "End"); je != nil {
		sites := w.deepSites(je, func(ins ssa.Instruction) bool {
			switch x := ins.(type) {
			case *ssa.Store:
				if f := addrField(x.Addr); f != nil {
					_, isA := x.Addr.(*ssa.FieldAddr)
					if isA {
						if al, ok := x.Addr.(*ssa.FieldAddr).X.(*ssa.Alloc); ok && al != nil {
							return false // a local object under construction
						}
					}
					return f.Name() != ""
				}
			case ssa.CallInstruction:
				if x.Common().IsInvoke() {
					switch x.Common().Method.Name() {
					case "Disqualify", "FlagMisbehavior", "Broadcast", "PrivateSend":
						return true
					}
				}
			}
			return false
		}, 3)
		nEff := 0
		for _, st := range sites {
			fs := w.deepFacts(st)
			sh, cp := false, false
			for _, f := range fs {
				if strings.HasSuffix(f, "sharesTimeout == true") {
					sh = true
				}
				if strings.HasSuffix(f, "complaintsTimeout == true") {
					cp = true
				}
			}
			what := "store"
			if c, ok := st.ins.(ssa.CallInstruction); ok {
				what = c.Common().Method.Name()
			} else if s2, ok := st.ins.(*ssa.Store); ok {
				what = "store to " + addrField(s2.Addr).Name()
				if addrField(s2.Addr).Name() == "jointRunning" {
					continue // clearing the running flag is what End is for; its own guard is rule R1
				}
			}
			nEff++
			w.check(sh && cp, "C10.R3", fmt.Sprintf("joint/End/effect-after-timeouts:%s#%d", what, nEff), st.ins.Pos(), "effect only after both timeouts were found set", "Joint-Feldman End can perform `"+what+"` on a path where the two timeouts have not been checked: a premature End is refused with the state-transition error but has already changed the instance (a dealer disqualified for a complaint that would still have been answered)", fs...)
		}
		if nEff == 0 {
			w.undecided("C10.R3", "joint/End/effects", je.Pos(), "no effect found in Joint-Feldman End (anchors moved?)")
		}
	}
	// Joint-Feldman: its own running flag guards every delegation; per-path rule on the SSA
	w.ruleJointGuards("C10.R1", d)
	// R5 range before index / narrowing for the int parameters of the API methods
	w.ruleRangeBeforeUse("C10.R5", d)
	// constructor validation
	if nc := w.fn(rootPath, "newDKGCommon"); nc != nil {
		size, thr, me, dealer := P(nc, 0), P(nc, 1), P(nc, 2), P(nc, 4)
		minS, _ := w.constInt(rootPath, "DKGMinSize")
		maxS, _ := w.constInt(rootPath, "DKGMaxSize")
		minT, _ := w.constInt(rootPath, "MinimumThreshold")
		for _, r := range returns(nc) {
			if isNilConst(r.Results[0]) {
				continue
			}
			w.requireFacts("C10.R5", fnKey(nc)+"/accept", r,
				fmt.Sprintf("%s >= %d", size, minS), fmt.Sprintf("%s <= %d", size, maxS),
				fmt.Sprintf("%s < %s", me, size), fmt.Sprintf("%s >= 0", me), fmt.Sprintf("%s < %s", dealer, size), fmt.Sprintf("%s >= 0", dealer),
				fmt.Sprintf("%s < %s", thr, size), fmt.Sprintf("%s >= %d", thr, minT))
		}
		w.check(maxS <= 254, "C10.R5", "const:DKGMaxSize", token.NoPos, "participant index + 1 fits the byte-sized index type", fmt.Sprintf("DKGMaxSize %d: index+1 overflows a byte", maxS))
	} else {
		w.undecided("C10.R5", "anchor:newDKGCommon", token.NoPos, "unresolved anchor")
	}
}

// ruleJointGuards: in every DKGState method of the joint protocol, every call into a sub-instance,
// every processor call and every store is dominated by the joint running test (¬running for Start),
// and the failing edge returns the state-transition error.
func (w *World) ruleJointGuards(rule string, d *dkgAnchors) {
	var runFld string
	for _, f := range structFields(d.joint) {
		if isBool(f.Type()) {
			runFld = f.Name()
		}
	}
	for _, n := range []string{"Start", "HandleBroadcastMsg", "HandlePrivateMsg", "End", "NextTimeout", "ForceDisqualify"} {
		fn := w.method(d.joint, n)
		if fn == nil {
			w.undecided(rule, "joint/"+n, token.NoPos, "unresolved anchor")
			continue
		}
		s := P(fn, 0)
		want := fmt.Sprintf("%s.%s == true", s, runFld)
		if n == "Start" {
			want = fmt.Sprintf("%s.%s == false", s, runFld)
		}
		bad := ""
		cnt := 0
		instrs(fn, func(ins ssa.Instruction) {
			eff := false
			switch x := ins.(type) {
			case *ssa.Store:
				if _, isFA := x.Addr.(*ssa.FieldAddr); isFA {
					eff = true
				} else if ia, isIA := x.Addr.(*ssa.IndexAddr); isIA {
					switch sliceBase(ia.X).(type) {
					case *ssa.Alloc, *ssa.MakeSlice:
					default:
						eff = true
					}
				}
			case ssa.CallInstruction:
				cc := x.Common()
				if cc.IsInvoke() && strings.HasSuffix(typeShort(cc.Value.Type()), "DKGProcessor") {
					eff = true
				}
				if callee := cc.StaticCallee(); callee != nil && inModule(callee) && callee.Signature.Recv() != nil {
					rt := deref(callee.Signature.Recv().Type())
					if types.Identical(rt, d.qual) || types.Identical(rt, d.plain) {
						eff = true
					}
				}
			case *ssa.IndexAddr:
				if u, ok := x.X.(*ssa.UnOp); ok {
					if fa, ok := u.X.(*ssa.FieldAddr); ok && strings.HasPrefix(render(fa), "&"+s+".") {
						eff = true // indexing the per-dealer instances
					}
				}
			}
			if !eff {
				return
			}
			cnt++
			if !hasFact(w.testedBefore(ins), want) && bad == "" {
				bad = fmt.Sprintf("%s at %s is not preceded by the `%s` test", strings.SplitN(ins.String(), "(", 2)[0], w.pos(posOf(ins)), want)
			}
		})
		w.check(bad == "" && cnt > 0, rule, "joint/"+n+"/guard-before-effect", fn.Pos(), fmt.Sprintf("all %d effects are guarded by the joint running flag", cnt), "Joint-Feldman "+n+": "+bad)
		neg := fmt.Sprintf("%s.%s == false", s, runFld)
		if n == "Start" {
			neg = fmt.Sprintf("%s.%s == true", s, runFld)
		}
		w.ruleErrorClauses(rule, fn, map[string][]string{neg: {"ctor:dkgInvalidStateTransitionErrorf"}})
	}
	// End clears the joint running flag on every path that passed the timeout checks; Start sets it last
	if end := w.method(d.joint, "End"); end != nil {
		var clr *ssa.Store
		instrs(end, func(ins ssa.Instruction) {
			if st, ok := ins.(*ssa.Store); ok {
				if f := addrField(st.Addr); f != nil && f.Name() == runFld && isConstBool(st.Val, false) {
					clr = st
				}
			}
		})
		okk := clr != nil
		if okk {
			for _, r := range returns(end) {
				cls := w.errClass(r.Results[len(r.Results)-1])
				if strings.Contains(cls, "dkgInvalidStateTransitionErrorf") {
					continue
				}
				if !instrDominates(clr, r) {
					okk = false
				}
			}
		}
		w.check(okk, "C10.R4", "joint/End/leaves-not-running", end.Pos(), "every accepted End path clears the joint running flag", "Joint-Feldman End can return (other than with a state-transition error) without clearing its running flag")
	}
}

// ruleRangeBeforeUse: every narrowing conversion or index use of an int parameter of a DKG API method
// (origin / participant) is dominated by 0 <= p and p < size.
func (w *World) ruleRangeBeforeUse(rule string, d *dkgAnchors) {
	for _, t := range []*types.Named{d.plain, d.qual, d.joint} {
		for _, n := range []string{"HandleBroadcastMsg", "HandlePrivateMsg", "ForceDisqualify"} {
			fn := w.method(t, n)
			if fn == nil {
				w.undecided(rule, t.Obj().Name()+"/"+n, token.NoPos, "unresolved anchor")
				continue
			}
			p := fn.Params[1]
			uses := 0
			bad := ""
			var visit func(v ssa.Value, depth int)
			seen := map[ssa.Value]bool{}
			closureDelegates := 0
			visit = func(v ssa.Value, depth int) {
				if seen[v] || v.Referrers() == nil {
					return
				}
				seen[v] = true
				for _, ref := range *v.Referrers() {
					risky := false
					what := ""
					switch x := ref.(type) {
					case *ssa.Convert:
						if b, ok := x.Type().Underlying().(*types.Basic); ok && (b.Kind() == types.Uint8 || b.Kind() == types.Int8 || b.Kind() == types.Uint16) {
							risky, what = true, "narrowing conversion to "+typeShort(x.Type())
						}
					case *ssa.IndexAddr:
						if x.Index == v {
							risky, what = true, "index into "+render(x.X)
						}
					case *ssa.Index:
						if x.Index == v {
							risky, what = true, "index"
						}
					case *ssa.Lookup:
					case *ssa.Store:
						// spilled because a function literal captures it: follow the loads of the captured variable
						if al, isAl := x.Addr.(*ssa.Alloc); isAl && x.Val == v {
							for _, r2 := range *al.Referrers() {
								mc, isMC := r2.(*ssa.MakeClosure)
								if !isMC {
									if ld, isLd := r2.(*ssa.UnOp); isLd && ld.Op == token.MUL {
										visit(ld, depth+1)
									}
									continue
								}
								lit, _ := mc.Fn.(*ssa.Function)
								for bi, bv := range mc.Bindings {
									if lit == nil || bv != ssa.Value(al) || bi >= len(lit.FreeVars) {
										continue
									}
									for _, r3 := range *lit.FreeVars[bi].Referrers() {
										if ld, isLd := r3.(*ssa.UnOp); isLd && ld.Op == token.MUL {
											visit(ld, depth+1)
											for _, r4 := range *ld.Referrers() {
												if c4, ok := r4.(ssa.CallInstruction); ok {
													for _, a4 := range c4.Common().Args {
														if a4 == ssa.Value(ld) {
															closureDelegates++
														}
													}
												}
											}
										}
									}
								}
							}
						}
					case *ssa.MakeClosure:
						// captured by a function literal: the captured variable is the same integer
						if lit, ok := x.Fn.(*ssa.Function); ok {
							for bi, bv := range x.Bindings {
								if bv == v && bi < len(lit.FreeVars) {
									visit(lit.FreeVars[bi], depth+1)
									instrsFlat(lit, func(i2 ssa.Instruction) {
										if c2, ok := i2.(ssa.CallInstruction); ok {
											for _, a2 := range c2.Common().Args {
												if a2 == ssa.Value(lit.FreeVars[bi]) {
													closureDelegates++
												}
											}
										}
									})
								}
							}
						}
					case *ssa.MakeInterface, *ssa.BinOp, *ssa.If, *ssa.DebugRef:
					case ssa.CallInstruction:
						// passed on: internal callee's own checks are examined when it is an API method of a sub-instance
					}
					if !risky {
						continue
					}
					uses++
					lo, hi, ok := w.intBound(p, ref)
					sizeOK := false
					for _, f := range w.factsAt(ref) {
						if strings.HasPrefix(f.Expr, p.Name()+" < ") {
							sizeOK = true
						}
					}
					if !(ok && lo >= 0 && sizeOK) && bad == "" {
						bad = fmt.Sprintf("%s of `%s` at %s is not dominated by 0 <= %s < size (known bound %d..%d)", what, p.Name(), w.pos(posOf(ref)), p.Name(), lo, hi)
					}
				}
			}
			visit(p, 0)
			delegates := 0
			instrs(fn, func(ins ssa.Instruction) {
				if c, ok := ins.(ssa.CallInstruction); ok {
					for _, a := range c.Common().Args {
						if a == ssa.Value(p) {
							delegates++
						}
					}
				}
			})
			delegates += closureDelegates
			w.check(bad == "" && (uses > 0 || delegates > 0), rule, fmt.Sprintf("%s.%s/param:%s", t.Obj().Name(), n, p.Name()), fn.Pos(),
				fmt.Sprintf("%d narrowing/index uses are range-guarded (%d delegations to sub-instance methods, checked there)", uses, delegates), fnKey(fn)+": "+bad)
			// out-of-range ⇒ invalid-inputs error (single-instance protocols)
			if t != d.joint {
				w.ruleErrorClauses(rule, fn, map[string][]string{p.Name() + " < 0": {"ctor:invalidInputsErrorf"}})
			}
		}
	}
}


// ruleFirstReceiptConsumed: the first share / verification vector a participant processes is the only one it ever
// processes.  In every transition that enters an intake function with the receipt flag clear (running, before the
// shares timeout) and acts on the message in any way (an effect inside the intake function: the message is from the
// dealer), the receipt flag is set afterwards — whatever the outcome of the format checks.  Otherwise a second message
// from a Byzantine dealer is accepted: it can overwrite the private share after a complaint answer corrected it
// (the private share then no longer matches the public share), or replace the verification vector.
func (w *World) ruleFirstReceiptConsumed(rule string, d *dkgAnchors, sys map[string]*tsys) {
	for _, name := range []string{"plain", "qual"} {
		ts := sys[name]
		if ts == nil {
			continue
		}
		tt := d.plain
		if name == "qual" {
			tt = d.qual
		}
		type rr struct{ role, trace, flag string }
		for _, r := range []rr{{"share", d.role(tt, "share"), "xReceived"}, {"vector", d.role(tt, "vector"), "vAReceived"}} {
			n, bad := 0, ""
			var pos token.Pos
			for i := range ts.trans {
				t := &ts.trans[i]
				if t.From[r.flag] != 0 || t.From["running"] != 1 || t.From["sharesTimeout"] == 1 {
					continue
				}
				in := false
				for _, tr := range t.Out.Trace {
					if tr == r.trace {
						in = true
					}
				}
				if !in {
					continue
				}
				// acted: some effect below the public handler (in the intake function or a helper it calls)
				acted := false
				for _, e := range t.Out.Effects {
					if !strings.HasSuffix(e.Fn, ")."+t.Method) {
						acted = true
					}
				}
				if !acted {
					continue
				}
				n++
				pos = ts.methods[t.Method].Pos()
				if t.Out.Post[r.flag] != 1 && bad == "" {
					bad = fmt.Sprintf("the %s intake %s acts on a first message but leaves %s unset (%s → %s[%s]): a second %s from the dealer is processed as if it were the first", r.role, r.trace, r.flag, ts.witness(t.From), t.Method, strings.Join(lastN(t.Out.Lines, 5), "; "), r.role)
				}
			}
			key := fmt.Sprintf("%s/%s-first-receipt-consumed", name, r.role)
			if n == 0 {
				w.undecided(rule, key, token.NoPos, "no transition exercises a first "+r.role+" (handler or flag not recognised)")
				continue
			}
			w.check(bad == "", rule, key, pos, fmt.Sprintf("every first %s that is acted on sets %s (%d transitions)", r.role, r.flag, n), bad)
		}
	}
}


// ruleStateStoresLand: every assignment to a protocol-state flag made in a method of the DKG state types reaches the
// protocol object: the address written is rooted at the receiver (through pointers / slice elements), not at a local
// copy of an instance (`for _, inst := range s.instances { inst.flag = true }`, a value receiver, `x := s.inst[i]; x.f = …`).
// A verdict written to a copy is lost: later steps (key aggregation, End) act as if it had never been reached.
func (w *World) ruleStateStoresLand(rule string, d *dkgAnchors) {
	ea := w.effects()
	isState := map[*types.Named]bool{d.common: true, d.plain: true, d.qual: true, d.joint: true}
	n := 0
	for _, fn := range w.srcFuncs(rootPath) {
		if isTestFile(w, fn.Pos()) || fn.Signature.Recv() == nil {
			continue
		}
		rt, _ := deref(fn.Signature.Recv().Type()).(*types.Named)
		if rt == nil || !isState[rt] {
			continue
		}
		instrsFlat(fn, func(ins ssa.Instruction) {
			st, ok := ins.(*ssa.Store)
			if !ok {
				return
			}
			fa, ok := st.Addr.(*ssa.FieldAddr)
			if !ok {
				return
			}
			fld := addrField(st.Addr)
			if fld == nil || !isBool(fld.Type()) {
				return
			}
			if _, tracked := d.m.tracked[fld]; !tracked {
				return
			}
			n++
			lost := ""
			roots := ea.roots(fa.X, fn, 0)
			allFresh := len(roots) > 0
			for _, r := range roots {
				if r.kind != rkFresh {
					allFresh = false
				}
				if r.kind == rkParam && r.param >= 0 && r.param < len(fn.Params) {
					if _, isPtr := fn.Params[r.param].Type().Underlying().(*types.Pointer); !isPtr {
						if _, isStruct := fn.Params[r.param].Type().Underlying().(*types.Struct); isStruct {
							lost = "the receiver / parameter `" + fn.Params[r.param].Name() + "` is a struct value (a copy)"
						}
					}
				}
			}
			if allFresh {
				lost = "`" + render(fa.X) + "` is a local copy of the instance"
				// an object under construction is not a copy: the local is later read as a whole (stored into the protocol
				// object, returned, handed on)
				if al, ok := fa.X.(*ssa.Alloc); ok && al.Referrers() != nil {
					for _, ref := range *al.Referrers() {
						if ld, ok := ref.(*ssa.UnOp); ok && ld.Op == token.MUL && ld.X == ssa.Value(al) && (instrDominatesFlat(st, ld) || st.Block() == ld.Block()) {
							lost = ""
						}
					}
				}
			}
			w.check(lost == "", rule, fmt.Sprintf("%s/state-store:%s", fnKey(fn), fld.Name()), st.Pos(), "flag written into the protocol object",
				fmt.Sprintf("the assignment %s = %s is made on a copy (%s): the protocol object keeps its old value, so a verdict reached here is lost for everything that follows", render(st.Addr), render(st.Val), lost))
		})
	}
	if n == 0 {
		w.undecided(rule, "state-stores", token.NoPos, "no assignment to a protocol-state flag found")
	}
}

// ---------------- C08 ----------------

func ruleC08(w *World) {
	w.floor("C08.R1", 1)
	w.floor("C08.R2", 4)
	w.floor("C08.R4", 2)
	w.floor("C08.R5", 3)
	w.floor("C08.R6", 2)
	w.floor("C08.R7", 5)
	w.floor("C08.R8", 1)
	d := w.dkg("C08.R1")
	if d == nil {
		return
	}
	// R17: verdicts are written into the protocol objects, never into copies of them (= C07.R15): a dealer disqualified
	// in a copy stays qualified for the key collection
	w.floor("C08.R17", 10)
	w.ruleStateStoresLand("C08.R17", d)
	// R16: every report of a peer is justified by something an honest sender never does
	w.floor("C08.R16", 8)
	w.ruleFlagCauses("C08.R16", d)
	sys := d.systems(w)
	complaintTag, _ := w.constInt(rootPath, "feldmanVSSComplaint")
	ansTag, _ := w.constInt(rootPath, "feldmanVSSComplaintAnswer")
	ck := fmt.Sprintf("bcast:tag:%d", complaintTag)
	// R1 complaint-once
	{
		ts := sys["qual"]
		var badT *transition
		n := 0
		for i := range ts.trans {
			t := &ts.trans[i]
			n++
			if t.Out.Post[ck] >= 2 && t.From[ck] < 2 && badT == nil {
				badT = t
			}
		}
		msg := ""
		if badT != nil {
			msg = fmt.Sprintf("an honest participant can broadcast its complaint twice: %s → %s[%s] (every other honest participant would flag it)", ts.witness(badT.From), badT.Method, strings.Join(lastN(badT.Out.Lines, 5), "; "))
		}
		seenOnce := false
		for _, s := range ts.states {
			if s[ck] == 1 {
				seenOnce = true
			}
		}
		w.check(badT == nil && seenOnce, "C08.R1", "qual/complaint-broadcast-at-most-once", ts.methods["HandlePrivateMsg"].Pos(), fmt.Sprintf("complaint counter never reaches 2 in %d reachable states / %d transitions", len(ts.states), n), msg+map[bool]string{true: "", false: " (no state with one complaint reached: broadcaster not recognised)"}[seenOnce])
	}
	// R15: Joint-Feldman hands every message to every per-dealer instance unconditionally (= C07.R9): a message is not
	// dropped because of what this node concluded about its sender in another instance
	w.floor("C08.R15", 4)
	w.ruleJointDispatch("C08.R15", d)
	// R12: only the first share / vector is ever processed (= C07.R12)
	w.floor("C08.R12", 4)
	w.ruleFirstReceiptConsumed("C08.R12", d, sys)
	// R13: completeness of the first-timeout rule: whatever else the participant holds or misses, leaving the shares
	// phase without the dealer's verification vector disqualifies the dealer (every honest participant sees the same
	// broadcast channel, so they all do)
	w.floor("C08.R13", 1)
	{
		ts := sys["qual"]
		n, bad := 0, ""
		for i := range ts.trans {
			t := &ts.trans[i]
			if t.Method != "NextTimeout" || t.From["running"] != 1 || t.From["sharesTimeout"] != 0 || t.From["vAReceived"] != 0 || t.From["disqualified"] == 1 {
				continue
			}
			if t.Out.Post["sharesTimeout"] != 1 {
				continue
			}
			n++
			if t.Out.Post["disqualified"] != 1 && bad == "" {
				bad = fmt.Sprintf("the shares timeout passes without the verification vector and the dealer is not disqualified: %s → NextTimeout[%s], state %s→%s", ts.witness(t.From), strings.Join(lastN(t.Out.Lines, 5), "; "), t.From.short(), t.Out.Post.short())
			}
		}
		if n == 0 {
			w.undecided("C08.R13", "qual/missing-vector-at-shares-timeout", token.NoPos, "no transition exercises the shares timeout without a vector")
		} else {
			w.check(bad == "", "C08.R13", "qual/missing-vector-at-shares-timeout", ts.methods["NextTimeout"].Pos(), fmt.Sprintf("every shares timeout without the vector disqualifies the dealer (%d transitions)", n), bad)
		}
	}
	// R14: … and leaving it with the vector but without a private share makes this participant complain (the share is
	// then obtained through the dealer's public answer, or the dealer is disqualified by everyone)
	w.floor("C08.R14", 1)
	{
		ts := sys["qual"]
		n, bad := 0, ""
		for i := range ts.trans {
			t := &ts.trans[i]
			if t.Method != "NextTimeout" || t.From["running"] != 1 || t.From["sharesTimeout"] != 0 || t.From["vAReceived"] != 1 || t.From["xReceived"] != 0 || t.From["disqualified"] == 1 || t.From["isDealer"] == 1 {
				continue
			}
			if t.Out.Post["sharesTimeout"] != 1 {
				continue
			}
			n++
			if t.Out.Post[ck] < 1 && bad == "" {
				bad = fmt.Sprintf("the shares timeout passes with the vector but without a private share and no complaint is broadcast: %s → NextTimeout[%s], state %s→%s", ts.witness(t.From), strings.Join(lastN(t.Out.Lines, 5), "; "), t.From.short(), t.Out.Post.short())
			}
		}
		if n == 0 {
			w.undecided("C08.R14", "qual/missing-share-at-shares-timeout", token.NoPos, "no transition exercises the shares timeout with a vector and without a share")
		} else {
			w.check(bad == "", "C08.R14", "qual/missing-share-at-shares-timeout", ts.methods["NextTimeout"].Pos(), fmt.Sprintf("every shares timeout with the vector and without a share broadcasts the complaint (%d transitions)", n), bad)
		}
	}
	// R2 duplicates / late messages only flag
	for name, ts := range sys {
		type rr struct{ role, trace, flag string }
		tt := d.plain
		if name == "qual" {
			tt = d.qual
		}
		for _, r := range []rr{{"share", d.role(tt, "share"), "xReceived"}, {"vector", d.role(tt, "vector"), "vAReceived"}, {"share", d.role(tt, "share"), "sharesTimeout"}, {"vector", d.role(tt, "vector"), "sharesTimeout"}, {"complaint", d.role(tt, "complaint"), "complaintsTimeout"}} {
			if name == "plain" && (strings.Contains(r.flag, "Timeout") || r.role == "complaint") {
				continue
			}
			n, bad := 0, ""
			var pos token.Pos
			for i := range ts.trans {
				t := &ts.trans[i]
				if t.From[r.flag] != 1 || t.From["running"] != 1 {
					continue
				}
				in := false
				for _, tr := range t.Out.Trace {
					if tr == r.trace {
						in = true
					}
				}
				if !in {
					continue
				}
				// only paths where the message is from the dealer get that far; effects inside the intake function
				var eff []string
				for _, e := range t.Out.Effects {
					if strings.HasSuffix(e.Fn, ")."+r.trace) || e.Kind == "store" {
						if e.Kind == "call" && strings.HasPrefix(e.What, "processor.FlagMisbehavior") {
							continue
						}
						eff = append(eff, e.What)
					}
				}
				n++
				pos = ts.methods[t.Method].Pos()
				if (len(eff) > 0 || t.Out.Post.key() != t.From.key()) && bad == "" {
					bad = fmt.Sprintf("with %s already set, the "+r.role+" intake %s acts on the message: %v, state %s→%s (%s)", r.flag, r.trace, eff, t.From.short(), t.Out.Post.short(), ts.witness(t.From))
				}
			}
			if n == 0 {
				w.undecided("C08.R2", fmt.Sprintf("%s/%s-intake-when-%s", name, r.role, r.flag), token.NoPos, "no transition exercises this case (handler or flag not recognised)")
				continue
			}
			w.check(bad == "", "C08.R2", fmt.Sprintf("%s/%s-intake-when-%s", name, r.role, r.flag), pos, fmt.Sprintf("duplicate/late message only flags the sender (%d transitions)", n), bad)
		}
	}
	// R3 dealer answers every first complaint against it
	{
		ts := sys["qual"]
		n, bad := 0, ""
		ak := fmt.Sprintf("processor.Broadcast(tag:%d)", ansTag)
		cplFn := d.role(d.qual, "complaint")
		for i := range ts.trans {
			t := &ts.trans[i]
			if t.From["isDealer"] != 1 || t.From["running"] != 1 {
				continue
			}
			fresh, answered := false, false
			_ = cplFn
			for _, e := range t.Out.Effects {
				// the complaint is accepted as new: a record marked received is installed, or an existing record's
				// received flag is raised (wherever the code that does it lives)
				if e.Kind == "mapupdate" && strings.Contains(e.What, "fresh=true") && strings.Contains(e.What, "received=T") {
					fresh = true
				}
				if e.Kind == "store" && e.What == "fresh record: "+d.m.recvFld.Name()+":=T" {
					fresh = true
				}
				if e.Kind == "call" && e.What == ak {
					answered = true
				}
			}
			if fresh {
				n++
				if !answered && bad == "" {
					bad = fmt.Sprintf("the dealer registers a new complaint without broadcasting an answer (%s → %s)", ts.witness(t.From), t.Method)
				}
			}
		}
		if n == 0 {
			w.undecided("C08.R3", "qual/dealer-answers", token.NoPos, "no transition in which the dealer registers a new complaint")
		} else {
			w.check(bad == "", "C08.R3", "qual/dealer-answers", ts.methods["HandleBroadcastMsg"].Pos(), fmt.Sprintf("every new complaint against the dealer is answered (%d transitions)", n), bad)
		}
	}
	// R4 invalid vector ⇒ never keys
	for name, ts := range sys {
		verdict := "validKey"
		wantV := 0
		if name == "qual" {
			verdict, wantV = "disqualified", 1
		}
		bad := ""
		n := 0
		for _, s := range ts.states {
			if s["vecRejected"] == 1 {
				n++
				if s[verdict] != wantV && bad == "" {
					bad = fmt.Sprintf("after the dealer's vector was rejected (Disqualify issued) the instance can reach %s: %s", s.short(), ts.witness(s))
				}
			}
		}
		for i := range ts.trans {
			t := &ts.trans[i]
			if t.Method == "End" && t.From["vecRejected"] == 1 && t.From["running"] == 1 && (name == "plain" || t.From["complaintsTimeout"] == 1) {
				if !strings.Contains(errOf(t.Out), "dkgFailureErrorf") && !isStateErr(errOf(t.Out)) && bad == "" {
					bad = fmt.Sprintf("End returns `%s` although the dealer's vector was rejected (%s)", errOf(t.Out), ts.witness(t.From))
				}
			}
		}
		if n == 0 {
			w.undecided("C08.R4", name+"/invalid-vector-never-keys", token.NoPos, "no reachable state with a rejected vector (vector intake not recognised)")
		} else {
			w.check(bad == "", "C08.R4", name+"/invalid-vector-never-keys", ts.methods["HandleBroadcastMsg"].Pos(), fmt.Sprintf("in all %d reachable states after a rejected vector the verdict stays negative and End fails", n), bad)
		}
	}
	// R8 an own complaint recorded as answered is never accepted without the answer having been checked
	{
		ts := sys["qual"]
		n, bad := 0, ""
		for i := range ts.trans {
			t := &ts.trans[i]
			if t.Method != "End" || t.From["running"] != 1 || t.From["sharesTimeout"] != 1 || t.From["complaintsTimeout"] != 1 {
				continue
			}
			if t.From["ownComplaint"] == 1 {
				n++
				e := errOf(t.Out)
				if t.From["ownAns"] == 1 && t.From["ownChecked"] == 0 && t.From["disqualified"] == 0 && !strings.Contains(e, "dkgFailureErrorf") && bad == "" {
					bad = fmt.Sprintf("End returns `%s` although this participant complained and the dealer's answer to that complaint was never checked against the verification vector (a wrong or unsolicited answer is accepted): %s", e, ts.witness(t.From))
				}
				if t.From["ownAns"] == 0 && t.From["disqualified"] == 0 && !strings.Contains(e, "dkgFailureErrorf") && bad == "" {
					bad = fmt.Sprintf("End returns `%s` although this participant's complaint was never answered: %s", e, ts.witness(t.From))
				}
			}
		}
		if n == 0 {
			w.undecided("C08.R8", "qual/own-complaint-resolved-before-keys", token.NoPos, "no End transition from a state with an own complaint (complaint model not recognised)")
		} else {
			w.check(bad == "", "C08.R8", "qual/own-complaint-resolved-before-keys", ts.methods["End"].Pos(), fmt.Sprintf("in all %d End transitions after an own complaint, keys are returned only if the complaint was answered and the answer checked", n), bad)
		}
	}
	// R5 ownership of validKey / R6 End / R7 rule shapes (dominance rules on SSA)
	w.ruleVerdictOwnership("C08.R5", d)
	w.ruleEndGuards("C08.R6", d)
	w.ruleDisqualificationRules("C08.R7", d)
	// R11 the dealer answers a complaint once: every broadcast reachable from the complaint intake happens on a path
	// where the complaint was found to be new (failed lookup of the record, or its received flag still false) — a
	// duplicated complaint must not make the dealer broadcast a second answer, for which honest receivers flag it
	w.floor("C08.R11", 1)
	if cf := w.method(d.qual, d.role(d.qual, "complaint")); cf != nil {
		sites := w.deepSites(cf, func(ins ssa.Instruction) bool {
			c, ok := ins.(ssa.CallInstruction)
			return ok && c.Common().IsInvoke() && c.Common().Method.Name() == "Broadcast"
		}, 3)
		if len(sites) == 0 {
			w.undecided("C08.R11", "qual/answer-once", cf.Pos(), "no broadcast reachable from the complaint intake (dealer's answer not found)")
		}
		for i, st := range sites {
			fs := w.deepFacts(st)
			okk := false
			for _, f := range fs {
				if strings.HasSuffix(f, "]#1 == false") || strings.HasSuffix(f, "."+d.m.recvFld.Name()+" == false") {
					okk = true
				}
			}
			w.check(okk, "C08.R11", fmt.Sprintf("qual/answer-once#%d", i), st.ins.Pos(), "the answer is broadcast only for a complaint found to be new", "the dealer's answer can be broadcast for a complaint that was already received (no `record is new` / `not yet received` test on the way): a repeated complaint makes an honest dealer answer twice and every honest receiver flags it", fs...)
		}
	} else {
		w.undecided("C08.R11", "anchor:complaint-intake", token.NoPos, "unresolved anchor: complaint intake")
	}
	// R9 duplicated answers are flagged, not acted upon (same rule as C07.R8)
	w.floor("C08.R9", 1)
	qualFns := map[string]*ssa.Function{}
	for _, fn := range w.srcFuncs(rootPath) {
		if fn.Signature.Recv() != nil && types.Identical(deref(fn.Signature.Recv().Type()), d.qual) {
			qualFns[fn.Name()] = fn
		}
	}
	w.ruleAnswerWrittenOnce("C08.R9", qualFns)
}

func (w *World) ruleVerdictOwnership(rule string, d *dkgAnchors) {
	n := 0
	for _, fn := range w.srcFuncs(rootPath) {
		if isTestFile(w, fn.Pos()) {
			continue
		}
		instrs(fn, func(ins ssa.Instruction) {
			st, ok := ins.(*ssa.Store)
			if !ok {
				return
			}
			f := addrField(st.Addr)
			if f == nil || f.Name() != "validKey" {
				return
			}
			n++
			key := fnKey(fn) + "/validKey-store"
			if isConstBool(st.Val, false) {
				w.ok(rule, key+":false", st.Pos(), "verdict lowered")
				return
			}
			v := render(st.Val)
			if strings.HasSuffix(v, "."+d.role(d.plain, "verifyShare")+"()") {
				w.ok(rule, key+":share-check", st.Pos(), "verdict := result of the share check")
				return
			}
			if isConstBool(st.Val, true) {
				// only in the dealer's own share generation (the function that sends the shares)
				sends := len(callsTo(fn, "PrivateSend")) > 0
				w.check(sends, rule, key+":true", st.Pos(), "dealer's own key is valid by construction", "validKey is set to true in "+fnKey(fn)+", outside the dealer's share generation and without a share check")
				return
			}
			w.viol(rule, key, st.Pos(), "validKey is assigned `"+v+"`, which is neither false nor the result of the share check")
		})
	}
	if n == 0 {
		w.undecided(rule, "validKey-stores", token.NoPos, "verdict field not found")
	}
	// verifyShare is the discrete-log check of the own share against the own public share
	if vs := w.method(d.plain, d.role(d.plain, "verifyShare")); vs != nil {
		cs := cgoCalls(vs, "G2_check_log")
		s := P(vs, 0)
		okk := len(cs) == 1 && render(cs[0].Call.Args[0]) == "&"+s+".x" && strings.HasPrefix(render(cs[0].Call.Args[1]), "&"+s+".y["+s+".dkgCommon.myIndex]")
		w.check(okk, rule, fnKey(vs)+"/relation", vs.Pos(), "share check is g2^x == y[own index]", "verifyShare does not compare g2^x with the public share at the own index")
		for _, r := range returns(vs) {
			if isConstBool(r.Results[0], true) {
				w.viol(rule, fnKey(vs)+"/constant-true", r.Pos(), "verifyShare can return true without the check")
			}
		}
	}
}

func (w *World) ruleEndGuards(rule string, d *dkgAnchors) {
	for _, t := range []*types.Named{d.plain, d.qual} {
		end := w.method(t, "End")
		if end == nil {
			w.undecided(rule, t.Obj().Name()+"/End", token.NoPos, "unresolved anchor")
			continue
		}
		s := P(end, 0)
		want := s + ".validKey == true"
		if t == d.qual {
			want = s + ".disqualified == false"
		}
		for _, r := range returns(end) {
			if !isNilConst(r.Results[len(r.Results)-1]) {
				continue
			}
			w.requireFacts(rule, fnKey(end)+"/success", r, want)
			fs := w.factsAt(r)
			okz := false
			for _, f := range fs {
				if strings.HasSuffix(f.Expr, ".x.isZero() == false") {
					okz = true
				}
			}
			w.check(okz, rule, fnKey(end)+"/success/non-zero-share", r.Pos(), "keys returned only with a non-zero private share", "End returns keys without the zero-share check", factStrings(fs)...)
		}
	}
	// fix rendering differences: the plain End refers to s.x directly
}

func (w *World) ruleDisqualificationRules(rule string, d *dkgAnchors) {
	// every Disqualify call site with its dominating facts
	type site struct {
		fn    *ssa.Function
		ins   ssa.Instruction
		facts []string
		arg   string
	}
	var sites []site
	for _, t := range []*types.Named{d.plain, d.qual, d.joint} {
		for _, fn := range w.srcFuncs(rootPath) {
			if fn.Signature.Recv() == nil || !types.Identical(deref(fn.Signature.Recv().Type()), t) {
				continue
			}
			if isNewHelper(fn) {
				continue // visited through its callers, once per call site
			}
			// one site per call chain: a helper that reports the disqualification is judged at each of its call sites
			for _, ds := range w.deepSitesHelpers(fn, func(ins ssa.Instruction) bool {
				c, ok := ins.(ssa.CallInstruction)
				return ok && c.Common().IsInvoke() && c.Common().Method.Name() == "Disqualify"
			}) {
				c := ds.ins.(ssa.CallInstruction)
				if c.Common().IsInvoke() {
					sites = append(sites, site{fn, c.(ssa.Instruction), w.deepFacts(ds), ds.render(c.Common().Args[0])})
				}
			}
		}
	}
	w.stat("disqualify_call_sites", len(sites))
	type want struct {
		key   string
		typ   *types.Named
		fn    string
		facts []string
	}
	wants := []want{
		{"qual/missing-vector-at-first-timeout", d.qual, "setSharesTimeout", []string{".vAReceived == false"}},
		{"qual/too-many-complaints", d.qual, "setComplaintsTimeout", []string{"len(s.complaints) > s.feldmanVSSstate.dkgCommon.threshold"}},
		{"qual/unanswered-complaint-at-End", d.qual, "End", []string{".received == true", ".answerReceived == false"}},
		{"qual/empty-broadcast", d.qual, "HandleBroadcastMsg", []string{"len(msg) == 0"}},
		{"qual/bad-vector-size", d.qual, "receiveVerifVector", []string{"len(data)§!="}},
		{"qual/bad-vector-encoding", d.qual, "receiveVerifVector", []string{"readVerifVector(", "!= nil"}},
		{"qual/bad-answer-size", d.qual, "receiveComplaintAnswer", []string{"len(data)§!="}},
		{"qual/bad-answer-value", d.qual, "receiveComplaintAnswer", []string{"readScalarFrStar(", "!= nil"}},
		{"plain/bad-vector-size", d.plain, "receiveVerifVector", []string{"len(data)§!="}},
		{"plain/bad-vector-encoding", d.plain, "receiveVerifVector", []string{"readVerifVector(", "!= nil"}},
		{"joint/unanswered-complaint-at-End", d.joint, "End", []string{".received == true", ".answerReceived == false"}},
	}
	for _, wt := range wants {
		found := false
		var pos token.Pos
		for _, s := range sites {
			if !types.Identical(deref(s.fn.Signature.Recv().Type()), wt.typ) {
				continue
			}
			all := true
			for _, f := range wt.facts {
				hit := false
				for _, g := range s.facts {
					if strings.Contains(g, f) {
						hit = true
					}
					if i := strings.Index(f, "§"); i > 0 && strings.Contains(g, f[:i]) && strings.Contains(g, f[i+2:]) {
						hit = true // both parts occur in one fact (operand order of the comparison is not prescribed)
					}
				}
				// also accept the operand order of comparisons between two non-constants
				if !hit && strings.Contains(f, " > ") {
					parts := strings.SplitN(f, " > ", 2)
					for _, g := range s.facts {
						if strings.Contains(g, parts[1]+" < "+parts[0]) {
							hit = true
						}
					}
				}
				if !hit {
					all = false
				}
			}
			if all {
				found, pos = true, s.ins.Pos()
			}
		}
		w.check(found, rule, wt.key, pos, "disqualification rule present with the documented condition", "no Disqualify call in the methods of "+wt.typ.Obj().Name()+" under the condition "+strings.Join(wt.facts, " ∧ ")+" (rule missing or its comparison changed)")
	}
	// in the Qual protocol every Disqualify of the dealer is accompanied by disqualified := true on the same path
	for _, s := range sites {
		if !types.Identical(deref(s.fn.Signature.Recv().Type()), d.qual) {
			continue
		}
		blk := s.ins.Block()
		okk := false
		for _, fnb := range s.ins.Parent().Blocks { // (the function holding the call: an extracted helper is judged on its own path)
			for _, ins := range fnb.Instrs {
				st, ok := ins.(*ssa.Store)
				if !ok {
					continue
				}
				if f := addrField(st.Addr); f != nil && f.Name() == "disqualified" {
					if st.Block() == blk || st.Block().Dominates(blk) {
						if isConstBool(st.Val, true) || strings.Contains(render(st.Val), d.role(d.qual, "checkComplaint")) {
							okk = true
						}
					}
				}
			}
		}
		// Disqualify of a non-dealer origin (malformed broadcast from someone else) does not change the verdict
		nonDealer := false
		for _, f := range s.facts {
			if strings.Contains(f, "dealerIndex") && strings.Contains(f, "!=") {
				nonDealer = true
			}
		}
		if s.arg == "orig" && !okk {
			nonDealer = true // verdict set only under orig == dealer (checked by the two sites above)
		}
		w.check(okk || nonDealer, rule, fnKey(s.fn)+"/disqualify-sets-verdict@"+shortFacts(s.facts), s.ins.Pos(), "Disqualify(dealer) comes with disqualified := true", "Disqualify is reported to the processor without the instance recording disqualified := true (End would still return keys)")
	}
}

func shortFacts(fs []string) string {
	h := 0
	for _, f := range fs {
		for _, c := range f {
			h = (h*31 + int(c)) % 100000
		}
	}
	return fmt.Sprint(h)
}

// ---------------- C07 ----------------

func ruleC07(w *World) {
	w.floor("C07.R1", 6)
	w.floor("C07.R2", 3)
	w.floor("C07.R3", 1) // sites merge when a get-or-create accessor is introduced; the vacuity guard is "at least one"
	w.floor("C07.R4", 1)
	w.floor("C07.R5g", 4)
	w.floor("C07.R6", 3)
	w.floor("C07.R8", 1)
	d := w.dkg("C07.R1")
	if d == nil {
		return
	}
	w.floor("C07.R9", 4)
	w.ruleJointDispatch("C07.R9", d)
	// R11: the disqualification rules every honest participant applies have the documented, order-independent shape
	// (missing vector at the first timeout, len(complaints) > t at the second, unanswered complaint at End, …) = C08.R7
	w.floor("C07.R11", 10)
	w.ruleDisqualificationRules("C07.R11", d)
	sys := d.systems(w)
	// R15: verdicts and flags are written into the protocol objects, never into copies of them
	w.floor("C07.R15", 10)
	w.ruleStateStoresLand("C07.R15", d)
	// R13: shape of the dealer (share of participant j is P(j+1), goes to slot / recipient j, all participants covered)
	w.floor("C07.R13", 8)
	w.ruleDealingShape("C07.R13", d.m.idxOwn)
	// R17: a complaint that is decided is filed
	w.floor("C07.R17", 1)
	w.ruleOwnComplaintRecorded("C07.R17", d)
	// R16: one reader for every scalar taken from a message, in every arrival order
	w.floor("C07.R16", 4)
	w.ruleScalarIntake("C07.R16", d)
	// R12: only the first share / vector is ever processed (a later one cannot replace a corrected share)
	w.floor("C07.R12", 4)
	w.ruleFirstReceiptConsumed("C07.R12", d, sys)
	// R4 monotone verdict
	{
		ts := sys["qual"]
		bad := ""
		for i := range ts.trans {
			t := &ts.trans[i]
			if t.From["disqualified"] == 1 && t.Out.Post["disqualified"] == 0 && bad == "" {
				bad = fmt.Sprintf("disqualified reverts to false: %s → %s[%s]", ts.witness(t.From), t.Method, strings.Join(lastN(t.Out.Lines, 4), "; "))
			}
		}
		w.check(bad == "", "C07.R4", "qual/verdict-monotone", ts.methods["HandleBroadcastMsg"].Pos(), fmt.Sprintf("no transition takes disqualified from true to false (%d transitions)", len(ts.trans)), bad)
	}
	qualFns := map[string]*ssa.Function{}
	for _, fn := range w.srcFuncs(rootPath) {
		if fn.Signature.Recv() != nil && types.Identical(deref(fn.Signature.Recv().Type()), d.qual) {
			qualFns[fn.Name()] = fn
		}
	}
	// R1 information flow: verdict sites are not in the private-message handler and their guards do not mention the private share
	private := map[*ssa.Function]bool{}
	if hp := qualFns["HandlePrivateMsg"]; hp != nil {
		var visit func(f *ssa.Function)
		visit = func(f *ssa.Function) {
			if private[f] {
				return
			}
			private[f] = true
			instrs(f, func(ins ssa.Instruction) {
				if c, ok := ins.(ssa.CallInstruction); ok {
					if callee := c.Common().StaticCallee(); callee != nil && inModule(callee) && callee.Blocks != nil && callee.Signature.Recv() != nil {
						visit(callee)
					}
				}
			})
		}
		visit(hp)
	}
	public := map[*ssa.Function]bool{}
	for _, n := range []string{"HandleBroadcastMsg", "NextTimeout", "End", "ForceDisqualify"} {
		if f := qualFns[n]; f != nil {
			var visit func(f *ssa.Function)
			visit = func(f *ssa.Function) {
				if public[f] {
					return
				}
				public[f] = true
				instrs(f, func(ins ssa.Instruction) {
					if c, ok := ins.(ssa.CallInstruction); ok {
						if callee := c.Common().StaticCallee(); callee != nil && inModule(callee) && callee.Blocks != nil && callee.Signature.Recv() != nil {
							visit(callee)
						}
					}
				})
			}
			visit(f)
		}
	}
	nsite := 0
	for _, fn := range qualFns {
		instrs(fn, func(ins ssa.Instruction) {
			isSite := false
			what := ""
			switch x := ins.(type) {
			case *ssa.Store:
				if f := addrField(x.Addr); f != nil && f.Name() == "disqualified" && !isConstBool(x.Val, false) {
					isSite, what = true, "disqualified := "+shortCond(render(x.Val))
				}
			case ssa.CallInstruction:
				if x.Common().IsInvoke() && x.Common().Method.Name() == "Disqualify" {
					isSite, what = true, "Disqualify("+render(x.Common().Args[0])+")"
				}
			}
			if !isSite {
				return
			}
			nsite++
			key := fnKey(fn) + "/verdict-site:" + what
			onlyPrivate := private[fn] && !public[fn]
			fs := factStrings(w.factsAt(ins))
			var leak []string
			for _, f := range fs {
				if strings.Contains(f, ".xReceived") || strings.Contains(f, "verifyShare()") || strings.Contains(f, ".x.") || strings.HasSuffix(f, ".x") {
					leak = append(leak, f)
				}
			}
			// named exception: identity checks on the extracted keys at End (documented local failure, probability 2^-255)
			if fn.Name() == "End" && len(leak) > 0 {
				allId := true
				for _, l := range leak {
					if !strings.Contains(l, "isZero()") {
						allId = false
					}
				}
				if allId {
					w.info("C07.R1", key, ins.Pos(), "verdict depends on the private share only through the documented identity check at End (`x.isZero()` ⇒ failure); accepted: local by design, reachable with probability 2^-255")
					return
				}
			}
			w.check(!onlyPrivate && len(leak) == 0, "C07.R1", key, ins.Pos(), "verdict depends on broadcast data / timeouts / complaint records only",
				fmt.Sprintf("the disqualification verdict depends on private information (private-handler-only=%v, guards mentioning the private share: %v): honest participants holding different private data would disagree", onlyPrivate, leak), fs...)
		})
	}
	if nsite == 0 {
		w.undecided("C07.R1", "verdict-sites", token.NoPos, "no verdict sites found")
	}
	// R2 completion-site agreement: the answered-complaint check at the three completion events, each under exactly the documented conditions
	cc := qualFns[d.role(d.qual, "checkComplaint")]
	if cc == nil {
		w.undecided("C07.R2", "anchor:checkComplaint", token.NoPos, "unresolved anchor")
	} else {
		vecN, cplN, ansN := d.role(d.qual, "vector"), d.role(d.qual, "complaint"), d.role(d.qual, "answer")
		common := []string{"len(", " < ", "Timeout == false", "]#1 == true", "))#0 == true", "dealerIndex"}
		allowed := map[string][]string{
			vecN: append([]string{"vAReceived == false", "readVerifVector(", ".received == true", ".answerReceived == true"}, common...),
			cplN: append([]string{".received == false", "vAReceived == true", ".answerReceived == true"}, common...),
			ansN: append([]string{".answerReceived == false", ".received == true", "readScalarFrStar(", "vAReceived == true"}, common...),
		}
		required := map[string][]string{
			vecN: {".received == true", ".answerReceived == true"},
			cplN: {"vAReceived == true", ".answerReceived == true"},
			ansN: {"vAReceived == true", ".received == true"},
		}
		roleName := map[string]string{vecN: "vector", cplN: "complaint", ansN: "answer"}
		for fname, al := range allowed {
			fn := qualFns[fname]
			if fn == nil {
				w.undecided("C07.R2", "anchor:"+roleName[fname]+"-intake", token.NoPos, "unresolved anchor")
				continue
			}
			calls := callsTo(fn, cc.Name())
			if len(calls) != 1 {
				w.viol("C07.R2", roleName[fname]+"-intake/complaint-check", fn.Pos(), fmt.Sprintf("expected exactly one check of the answered complaint in %s, found %d (a completion event without the check lets honest participants disagree)", fname, len(calls)))
				continue
			}
			c := calls[0].(ssa.Instruction)
			facts := w.factsAt(c)
			fs := factStrings(facts)
			replaced := map[string]bool{} // outcome of an extracted helper: judged through what it implies (its expansion is in the list)
			for _, f := range facts {
				for _, hc := range f.calls {
					if helperCallee(hc) != nil && strings.HasPrefix(f.Expr, render(hc)) {
						replaced[f.Expr] = true
					}
				}
			}
			var extra, missing []string
			for _, f := range fs {
				okk := replaced[f]
				for _, a := range al {
					if strings.Contains(f, a) {
						okk = true
					}
				}
				if !okk {
					extra = append(extra, f)
				}
			}
			for _, r := range required[fname] {
				hit := false
				for _, f := range fs {
					if strings.Contains(f, r) {
						hit = true
					}
				}
				if !hit {
					missing = append(missing, r)
				}
			}
			w.check(len(extra) == 0 && len(missing) == 0, "C07.R2", roleName[fname]+"-intake/complaint-check", c.Pos(), "the answered-complaint check runs under exactly the documented conditions",
				fmt.Sprintf("the answered-complaint check in %s has missing conditions %v and additional restricting conditions %v: the check would be skipped (or run on missing data) for some arrival orders", fname, missing, extra), fs...)
			// its positive result disqualifies
			good := false
			if cv, ok := c.(ssa.Value); ok {
				for _, ref := range *cv.Referrers() {
					switch x := ref.(type) {
					case *ssa.Store:
						if f := addrField(x.Addr); f != nil && f.Name() == "disqualified" {
							good = true
						}
					case *ssa.If:
						good = true
						_ = x
					}
				}
			}
			w.check(good, "C07.R2", roleName[fname]+"-intake/complaint-check-result", c.Pos(), "a failed answer sets the verdict", "the result of the answered-complaint check does not reach the verdict")
		}
	}
	// R3 no blind overwrite of complaint records
	seenMU := map[*ssa.MapUpdate]bool{}
	var qnames []string
	for n := range qualFns {
		qnames = append(qnames, n)
	}
	sort.Strings(qnames)
	for _, qn := range qnames {
		fn := qualFns[qn]
		instrsFlat(fn, func(ins ssa.Instruction) {
			mu, ok := ins.(*ssa.MapUpdate)
			if !ok || seenMU[mu] {
				return
			}
			seenMU[mu] = true
			if _, fresh := mu.Value.(*ssa.Alloc); !fresh {
				return
			}
			key := render(mu.Key)
			fs := w.factsAt(mu)
			okk := false
			for _, f := range fs {
				if strings.HasSuffix(f.Expr, "["+key+"]#1 == false") {
					okk = true
				}
			}
			// the construct is named by what it installs, not by the function that happens to hold it today
			ckey := fnKey(fn) + "/fresh-record"
			if strings.HasSuffix(key, "myIndex") {
				ckey = "qual/own-complaint/fresh-record"
			}
			w.check(okk, "C07.R3", ckey, mu.Pos(), "a fresh complaint record is installed only after a failed lookup of the same key", "a fresh complaint record overwrites whatever was stored for `"+key+"` (an earlier answer or complaint is lost): honest participants end with different complaint tables", factStrings(fs)...)
		})
	}
	w.ruleAnswerWrittenOnce("C07.R8", qualFns)
	// R5 (Go side) vector intake
	for _, t := range []*types.Named{d.plain, d.qual} {
		fn := w.method(t, d.role(t, "vector"))
		if fn == nil {
			w.undecided("C07.R5g", t.Obj().Name()+"/vector-intake", token.NoPos, "unresolved anchor")
			continue
		}
		rv := callsTo(fn, "readVerifVector")
		cp := callsTo(fn, "computePublicKeys")
		if len(rv) != 1 || len(cp) != 1 {
			w.viol("C07.R5g", fnKey(fn)+"/intake", fn.Pos(), "expected one vector parse and one public-share computation")
			continue
		}
		fs := factStrings(w.factsAt(rv[0].(ssa.Instruction)))
		okLen := false
		for _, f := range fs {
			if strings.Contains(f, "len(data)") && strings.Contains(f, "==") && strings.Contains(f, "threshold + 1") {
				okLen = true
			}
		}
		w.check(okLen, "C07.R5g", fnKey(fn)+"/length", rv[0].Pos(), "vector parsed only when it has exactly (t+1)·96 bytes", "the verification vector is parsed without its length being (threshold+1)·G2 size", fs...)
		fs2 := w.factsAt(cp[0].(ssa.Instruction))
		okk := false
		for _, f := range fs2 {
			if strings.HasPrefix(f.Expr, "readVerifVector(") && strings.HasSuffix(f.Expr, "== nil") {
				okk = true
			}
		}
		w.check(okk, "C07.R5g", fnKey(fn)+"/shares-from-valid-vector", cp[0].Pos(), "public shares derived only from a vector that parsed into G2", "public key shares are computed from a vector that failed to parse / is not in G2", factStrings(fs2)...)
	}
	// R7 publicly corrected share adopted only if qualified and the complaint was ours
	if fn := qualFns[d.role(d.qual, "answer")]; fn != nil {
		n := 0
		instrs(fn, func(ins ssa.Instruction) {
			st, ok := ins.(*ssa.Store)
			if !ok {
				return
			}
			if f := addrField(st.Addr); f == nil || f.Name() != "x" {
				return
			}
			n++
			fs := factStrings(w.factsAt(st))
			okD, okMe := false, false
			for _, f := range fs {
				if strings.HasSuffix(f, ".disqualified == false") {
					okD = true
				}
				if strings.Contains(f, "myIndex") && strings.Contains(f, "==") && strings.Contains(f, "data[0]") {
					okMe = true
				}
			}
			w.check(okD && okMe, "C07.R7", fnKey(fn)+"/adopt-corrected-share", st.Pos(), "corrected share adopted only when the dealer stays qualified and the complaint was this participant's", "the private share is overwritten from a complaint answer without (¬disqualified ∧ complainer == me)", fs...)
		})
		// … in every arrival order: if each adoption in the answer intake sits under `vector already received`, the order
		// (complaint, answer, vector) must adopt the share when the vector comes — in the vector intake
		if n > 0 {
			allUnderVector := true
			instrs(fn, func(ins ssa.Instruction) {
				st, ok := ins.(*ssa.Store)
				if !ok {
					return
				}
				if f := addrField(st.Addr); f == nil || f.Name() != "x" {
					return
				}
				under := false
				for _, f := range factStrings(w.factsAt(st)) {
					if strings.HasSuffix(f, ".vAReceived == true") {
						under = true
					}
				}
				if !under {
					allUnderVector = false
				}
			})
			later := false
			if vf := qualFns[d.role(d.qual, "vector")]; vf != nil && allUnderVector {
				instrs(vf, func(ins ssa.Instruction) {
					if st, ok := ins.(*ssa.Store); ok {
						if f := addrField(st.Addr); f != nil && f.Name() == "x" {
							later = true
						}
					}
				})
			}
			w.check(!allUnderVector || later, "C07.R7", fnKey(fn)+"/adopt-in-every-order", fn.Pos(), "the corrected share is adopted whether the vector came before or after the answer", "the corrected share is adopted only when the verification vector was already received, and the vector intake does not adopt it later: with the order complaint, answer, vector the complainer keeps its old share while everybody else considers the complaint resolved")
		}
		if n == 0 {
			w.viol("C07.R7", fnKey(fn)+"/adopt-corrected-share", fn.Pos(), "the publicly corrected share is never adopted")
		}
	}
	// R6 Joint-Feldman
	if gq := w.method(d.joint, "getQualifiedKeys"); gq != nil {
		n := 0
		instrs(gq, func(ins ssa.Instruction) {
			c, ok := ins.(*ssa.Call)
			if !ok {
				return
			}
			if b, ok := c.Call.Value.(*ssa.Builtin); !ok || b.Name() != "append" {
				return
			}
			n++
			fs := factStrings(w.factsAt(c))
			okk := false
			for _, f := range fs {
				if strings.HasSuffix(f, ".disqualified == false") {
					okk = true
				}
			}
			w.check(okk, "C07.R6", fnKey(gq)+"/only-qualified", c.Pos(), "keys summed only over non-disqualified dealers", "a dealer's keys enter the joint sum without the ¬disqualified test", fs...)
		})
		if n == 0 {
			w.undecided("C07.R6", fnKey(gq)+"/only-qualified", gq.Pos(), "key collection idiom not recognised")
		}
	}
	if end := w.method(d.joint, "End"); end != nil {
		s := P(end, 0)
		found := false
		for _, r := range returns(end) {
			cls := w.errClass(r.Results[len(r.Results)-1])
			if !strings.Contains(cls, "dkgFailureErrorf") {
				continue
			}
			for _, f := range factStrings(w.factsAt(r)) {
				_ = f
			}
		}
		// failure comparison shape on the branch leading to the failure return
		for _, b := range end.Blocks {
			ifi, ok := b.Instrs[len(b.Instrs)-1].(*ssa.If)
			if !ok {
				continue
			}
			c := render(ifi.Cond)
			if strings.Contains(c, "φdisqualifiedTotal") || strings.Contains(c, "disqualifiedTotal") {
				if strings.Contains(c, " > "+s+".dkgCommon.threshold") || strings.Contains(c, " <= "+s+".dkgCommon.threshold") {
					found = true
				}
			}
		}
		conds := []string{}
		for _, b := range end.Blocks {
			if ifi, ok := b.Instrs[len(b.Instrs)-1].(*ssa.If); ok {
				conds = append(conds, render(ifi.Cond))
			}
		}
		// the counter is found by role, not by name: the loop-carried variable that is incremented by one in the loop
		// over the instances (the branch on the instance's verdict) and compared with the threshold afterwards
		has1, has2 := false, false
		re1 := regexp.MustCompile(`^\((φ\w+@\d+) > ` + regexp.QuoteMeta(s) + `\.dkgCommon\.threshold\)$`)
		re2 := regexp.MustCompile(`^\(\(` + regexp.QuoteMeta(s) + `\.dkgCommon\.size - (φ\w+@\d+)\) <= ` + regexp.QuoteMeta(s) + `\.dkgCommon\.threshold\)$`)
		c1, c2 := "", ""
		for _, c := range conds {
			if m := re1.FindStringSubmatch(c); m != nil {
				has1, c1 = true, m[1]
			}
			if m := re2.FindStringSubmatch(c); m != nil {
				has2, c2 = true, m[1]
			}
		}
		if has1 && has2 && c1 != c2 {
			has1 = false
		}
		if has1 {
			// incremented by exactly one, somewhere in End
			inc := false
			instrsFlat(end, func(ins ssa.Instruction) {
				// the same source variable (the φ of another block of the loop nest renders with another block index)
				base := func(x string) string {
					if i := strings.LastIndex(x, "@"); i >= 0 {
						return x[:i]
					}
					return x
				}
				if b, ok := ins.(*ssa.BinOp); ok && b.Op == token.ADD && base(render(b.X)) == base(c1) && strings.HasPrefix(render(b.X), "φ") && render(b.Y) == "1" {
					inc = true
				}
			})
			has1 = inc
		}
		_ = found
		w.check(has1 && has2, "C07.R6", fnKey(end)+"/failure-rule", end.Pos(), "fails iff disqualified > t or n − disqualified ≤ t", fmt.Sprintf("Joint-Feldman failure rule changed: expected tests `disq > t` and `n − disq ≤ t`, found %v", conds))
	}
}

// ruleJointDispatch (C07.R9): in the Joint-Feldman event handlers a call into the per-dealer instance k must not be
// conditioned on mutable state of another instance j ≠ k. Every honest participant has to process a broadcast the same
// way whatever it already concluded about *other* dealers (those conclusions are reached in different orders by
// different receivers within a round); an instance may of course look at its own state.
func (w *World) ruleJointDispatch(rule string, d *dkgAnchors) {
	if d.joint == nil || d.qual == nil {
		w.undecided(rule, "anchor:joint", token.NoPos, "unresolved anchor: Joint-Feldman type")
		return
	}
	isSub := func(t types.Type) bool { return types.Identical(deref(t), d.qual) }
	// instanceIndex: the rendered index expressions of the fvss elements a pointer value may denote
	var instIdx func(v ssa.Value, seen map[ssa.Value]bool, out map[string]bool)
	instIdx = func(v ssa.Value, seen map[ssa.Value]bool, out map[string]bool) {
		if v == nil || seen[v] {
			return
		}
		seen[v] = true
		switch x := v.(type) {
		case *ssa.IndexAddr:
			if isSub(deref(x.Type())) {
				out[render(stripConv(x.Index))] = true
				return
			}
			instIdx(x.X, seen, out)
		case *ssa.FieldAddr:
			instIdx(x.X, seen, out)
		case *ssa.Phi:
			for _, e := range x.Edges {
				instIdx(e, seen, out)
			}
		case *ssa.UnOp:
			instIdx(x.X, seen, out)
		case *ssa.ChangeType:
			instIdx(x.X, seen, out)
		case *ssa.Alloc:
			// a local pointer variable: what is stored into it
			for _, r := range *x.Referrers() {
				if st, ok := r.(*ssa.Store); ok && st.Addr == x {
					instIdx(st.Val, seen, out)
				}
			}
		default:
			out["?"+render(v)] = true
		}
	}
	n := 0
	seenDispatch := map[string]int{}
	for _, name := range []string{"HandleBroadcastMsg", "HandlePrivateMsg", "NextTimeout", "ForceDisqualify"} {
		fn := w.method(d.joint, name)
		if fn == nil {
			w.undecided(rule, "joint/"+name, token.NoPos, "unresolved anchor")
			continue
		}
		visitDeep(fn, func(ins ssa.Instruction) {
			c, ok := ins.(ssa.CallInstruction)
			if !ok {
				return
			}
			callee := c.Common().StaticCallee()
			var recvArg ssa.Value
			cname := ""
			if callee != nil && callee.Signature.Recv() != nil && isSub(callee.Signature.Recv().Type()) && len(c.Common().Args) > 0 {
				recvArg, cname = c.Common().Args[0], callee.Name()
			} else if callee == nil && !c.Common().IsInvoke() {
				// a function value applied to an instance (the worker of a forEach-style helper): a dispatch site as well
				for _, a := range c.Common().Args {
					if isSub(a.Type()) {
						recvArg, cname = a, "func-value"
					}
				}
			}
			if recvArg == nil {
				return
			}
			n++
			target := map[string]bool{}
			instIdx(recvArg, map[ssa.Value]bool{}, target)
			key := fmt.Sprintf("joint/%s/dispatch:%s", name, cname)
			bad := ""
			for _, f := range w.factsAt(ins) {
				for _, ld := range f.loads {
					src := map[string]bool{}
					instIdx(ld.X, map[ssa.Value]bool{}, src)
					// only reads that go through a sub-instance element count
					through := false
					for k := range src {
						if !strings.HasPrefix(k, "?") {
							through = true
						}
					}
					if !through {
						continue
					}
					same := len(src) == 1 && len(target) == 1
					if same {
						for k := range src {
							same = target[k]
						}
					}
					if !same && bad == "" {
						bad = fmt.Sprintf("the call of %s on instance %v is conditioned on `%s`, which reads the state of instance %v", cname, keysOf(target), f.Expr, keysOf(src))
					}
				}
			}
			seenDispatch[key]++
			if seenDispatch[key] > 1 {
				key += fmt.Sprintf("#%d", seenDispatch[key])
			}
			// control dependence without a must-fact (the state is read in one operand of `a && b`, or the skipping branch
			// `continue`s): a branch in the same function whose condition reads another instance's state and from which the
			// dispatch is reached on one way out but not on the other (within the current loop iteration)
			if bad == "" {
				cf := ins.Parent()
				hdr := loopHeaderOf(ins.Block())
				for _, b := range cf.Blocks {
					ifi, isIf := b.Instrs[len(b.Instrs)-1].(*ssa.If)
					if !isIf || len(b.Succs) != 2 || b.Succs[0] == b.Succs[1] {
						continue
					}
					var tmp Fact
					collectDeps(ifi.Cond, &tmp)
					for _, ld := range tmp.loads {
						src := map[string]bool{}
						instIdx(ld.X, map[ssa.Value]bool{}, src)
						through := false
						for k := range src {
							if !strings.HasPrefix(k, "?") {
								through = true
							}
						}
						if !through {
							continue
						}
						same := len(src) == 1 && len(target) == 1
						if same {
							for k := range src {
								same = target[k]
							}
						}
						if same {
							continue
						}
						reach := func(from *ssa.BasicBlock) bool {
							if from == ins.Block() {
								return true
							}
							if hdr != nil && from == hdr {
								return false
							}
							return reachAvoid(from, ins.Block(), hdr)
						}
						if reach(b.Succs[0]) != reach(b.Succs[1]) && bad == "" {
							bad = fmt.Sprintf("whether %s is called on instance %v in this iteration depends on the branch at %s, whose condition `%s` reads the state of instance %v", cname, keysOf(target), w.pos(ifi.Pos()), shortCond(render(ifi.Cond)), keysOf(src))
						}
					}
				}
			}
			w.check(bad == "", rule, key, ins.Pos(), fmt.Sprintf("dispatch into instance %v depends on no other instance's state", keysOf(target)),
				bad+": receivers that reached different intermediate conclusions about another dealer would process this event differently (honest disagreement)", factStrings(w.factsAt(ins))...)
		}, map[*ssa.Function]bool{})
	}
	if n == 0 {
		w.undecided(rule, "joint/dispatch", d.joint.Obj().Pos(), "no call into the per-dealer instances found in the Joint-Feldman handlers")
	}
}

func keysOf(m map[string]bool) []string {
	var ks []string
	for k := range m {
		ks = append(ks, k)
	}
	sort.Strings(ks)
	return ks
}

// ruleAnswerWrittenOnce (C07.R8 / C08.R9): the stored answer of a complaint record is written once — only for a fresh
// record or while the record has no answer yet (a duplicated answer is flagged, never acted upon).
func (w *World) ruleAnswerWrittenOnce(rule string, qualFns map[string]*ssa.Function) {
	// R8 the stored answer of a complaint record is written once: only for a fresh record or while the record has no answer yet
	nans := 0
	for _, fn := range qualFns {
		instrs(fn, func(ins ssa.Instruction) {
			c, ok := ins.(ssa.CallInstruction)
			if !ok || len(c.Common().Args) == 0 {
				return
			}
			a0 := render(c.Common().Args[0])
			if !strings.HasSuffix(a0, ".answer") || !strings.HasPrefix(a0, "&") {
				return
			}
			if !w.callMayWritePointArg(c, c.Common().Args[0]) {
				return // readers of the stored answer (the discrete-log check)
			}
			nans++
			fs := factStrings(w.testedBefore(ins)) // the test must have been made on this path; the flag itself is set right after it
			okk := false
			for _, f := range fs {
				if strings.HasSuffix(f, ".answerReceived == false") || strings.HasSuffix(f, "]#1 == false") {
					okk = true
				}
			}
			w.check(okk, rule, fnKey(fn)+"/answer-written-once", ins.Pos(), "the answer scalar is stored only into a fresh record or one that has no answer yet",
				"a complaint answer is parsed into the record without the `no answer stored yet` test dominating it: a second, different answer from the dealer overwrites the first, and participants that processed the complaint in between keep different answers", fs...)
		})
	}
	if nans == 0 {
		w.undecided(rule, "answer-writes", token.NoPos, "no write of a complaint answer found")
	}
}

// ruleScalarIntake: every scalar a DKG participant takes from a message — a private share, a complaint answer, in
// whatever order the messages arrive — is read by the validating reader (canonical, non-zero: the reader that reaches
// C.Fr_star_read_bytes) and its verdict is looked at. Two arrival orders of the same bytes must take the same decision;
// a branch that reads them with a reducing / non-failing map (mapToFr, Fr_read_bytes) accepts what its sibling rejects,
// and participants that saw the messages in different orders disagree on the dealer.
func (w *World) ruleScalarIntake(rule string, d *dkgAnchors) {
	var scalarT types.Type
	if p := w.ByPath[rootPath]; p != nil {
		if tn, ok := p.Types.Scope().Lookup("scalar").(*types.TypeName); ok {
			scalarT = tn.Type()
		}
	}
	if scalarT == nil {
		w.undecided(rule, "anchor:scalar", token.NoPos, "unresolved anchor: scalar type")
		return
	}
	isScalarPtr := func(t types.Type) bool {
		p, ok := t.Underlying().(*types.Pointer)
		return ok && types.Identical(p.Elem(), scalarT)
	}
	isBytes := func(t types.Type) bool {
		s, ok := t.Underlying().(*types.Slice)
		if !ok {
			return false
		}
		b, ok := s.Elem().Underlying().(*types.Basic)
		return ok && b.Kind() == types.Uint8
	}
	validating := map[*ssa.Function]bool{}
	isValidating := func(f *ssa.Function) bool {
		if v, ok := validating[f]; ok {
			return v
		}
		v := len(cgoCallsDeep(w, f, "Fr_star_read_bytes", 2)) > 0 && len(cgoCallsDeep(w, f, "Fr_read_bytes", 2)) == 0 && len(cgoCallsDeep(w, f, "map_to_Fr_star", 2)) == 0
		validating[f] = v
		return v
	}
	n := 0
	for _, fn := range w.srcFuncs(rootPath) {
		if fn.Signature.Recv() == nil || isTestFile(w, fn.Pos()) {
			continue
		}
		rt := deref(fn.Signature.Recv().Type())
		if !(types.Identical(rt, d.plain) || types.Identical(rt, d.qual)) {
			continue
		}
		// only the intake side: functions that have a []byte parameter (the message)
		hasMsg := false
		for _, p := range fn.Params[1:] {
			if isBytes(p.Type()) {
				hasMsg = true
			}
		}
		if !hasMsg {
			continue
		}
		seen := map[string]int{}
		instrsFlat(fn, func(ins ssa.Instruction) {
			c, ok := ins.(*ssa.Call)
			if !ok {
				return
			}
			callee := c.Call.StaticCallee()
			if callee == nil || !inModule(callee) || callee.Signature.Params().Len() != 2 || len(c.Call.Args) != 2 {
				return
			}
			if !isScalarPtr(callee.Signature.Params().At(0).Type()) || !isBytes(callee.Signature.Params().At(1).Type()) {
				return
			}
			n++
			dst := render(c.Call.Args[0])
			seen[dst]++
			key := fmt.Sprintf("%s/scalar-intake:%s#%d", fnKey(fn), dst, seen[dst])
			if !isValidating(callee) {
				w.viol(rule, key, c.Pos(), fmt.Sprintf("%s reads a scalar received in a message into `%s` with %s, which is not the validating reader (canonical and non-zero, C.Fr_star_read_bytes): the same bytes are rejected where the sibling branches / the other arrival order read them strictly, so honest participants that saw the messages in different orders reach different verdicts on the dealer", fn.Name(), dst, callee.Name()))
				return
			}
			// the reader's verdict is looked at
			used := false
			for _, r := range *c.Referrers() {
				if b, ok := r.(*ssa.BinOp); ok && (b.Op == token.NEQ || b.Op == token.EQL) {
					for _, r2 := range *b.Referrers() {
						if _, ok := r2.(*ssa.If); ok {
							used = true
						}
					}
				}
				if _, ok := r.(*ssa.Return); ok {
					used = true
				}
			}
			w.check(used, rule, key, c.Pos(), "received scalar read by the validating reader, its error decides", fmt.Sprintf("%s ignores the verdict of %s on the received scalar `%s`", fn.Name(), callee.Name(), dst))
		})
	}
	if n == 0 {
		w.undecided(rule, "anchor:scalar-intake", token.NoPos, "no scalar intake site found in the DKG state types")
	}
}

// flagCauses: what justifies reporting a peer to the processor (FlagMisbehavior). Each is something an honest sender
// never produces under any delivery order inside a round: a repeated message of a kind it sends once (the receipt
// flag / record of that kind is already set), a message after the round's timeout, a message of the wrong size or
// with the wrong tag, a value the validating reader refuses, a share that fails the check against the dealer's own
// vector, a complaint naming someone who is not the dealer; and, in a timeout handler, a message that did not come.
var flagCausePatterns = []string{
	`Received == true$`, `\.received == true$`, // duplicates
	`Timeout == true$`, // late
	`len\([^()]*(\[[^\]]*\])?\) != `, ` != len\(`, `^len\(.*\) == 0$`, // sizes
	`\[0\] != \d+$`, // wrong tag
	`^[rR]ead\w*\(.*\) != nil$`, // refused by a validating reader
	`[vV]erify\w*\(.*\) == false$`, `[cC]heck\w*\(.*\) == true$`, // failed share / answer check
	` != .*dealerIndex$`, `dealerIndex != `, // wrong role
	` >= .*size$`, // index out of range
}

var helperResultFact = regexp.MustCompile(`^(?:[\w.\[\]φ@]+\.)?(\w+)\((.*)\)(?:#(\d+))? (!= ""|!= nil|== false|== true|!= 0)$`)

func flagCause(fs []string, inHandlerOfMessage bool, viaHelper func(name string, ridx int, class string) string) string {
	for _, f := range fs {
		// a failed lookup in the complaints map is "nothing recorded yet", never a cause
		if strings.Contains(f, "complaints[") && strings.HasSuffix(f, "#1 == false") {
			continue
		}
		for _, p := range flagCausePatterns {
			if matchRe(p, f) {
				return f
			}
		}
		if !inHandlerOfMessage && strings.HasSuffix(f, "Received == false") {
			return f // a timeout handler finding that the message never came
		}
		// the verdict of a format / validity helper of the module: justified if every way the helper has of giving
		// that verdict is itself one of the causes
		if m := helperResultFact.FindStringSubmatch(f); m != nil && viaHelper != nil {
			ridx := 0
			if m[3] != "" {
				ridx, _ = strconv.Atoi(m[3])
			}
			if c := viaHelper(m[1], ridx, m[4]); c != "" {
				return f + " ⇐ " + c
			}
		}
	}
	return ""
}

// ruleFlagCauses: every FlagMisbehavior call below the handlers is justified on every path that reaches it: by the
// innermost governing condition being of the allowed kinds, or (a disjunction) one on each edge into the block, or (a
// helper / a thin wrapper around the processor call) at each of its call sites. "No record of that complaint yet" is
// not a cause: the broadcast of a complaint and the dealer's answer can be delivered in either order.
func (w *World) ruleFlagCauses(rule string, d *dkgAnchors) {
	n := 0
	isBytes := func(t types.Type) bool {
		sl, ok := t.Underlying().(*types.Slice)
		if !ok {
			return false
		}
		b, ok := sl.Elem().Underlying().(*types.Basic)
		return ok && b.Kind() == types.Uint8
	}
	hasMsg := func(fn *ssa.Function) bool {
		for _, p := range fn.Params {
			if isBytes(p.Type()) {
				return true
			}
		}
		return false
	}
	exprs := func(fs []Fact) []string {
		var out []string
		for _, f := range fs {
			out = append(out, f.Expr)
		}
		sort.Strings(out)
		return out
	}
	// innermost: the facts of the nearest branch edge that governs the instruction (the condition the author wrote
	// immediately around the report); outer conditions are context, not the cause
	innermost := func(ins ssa.Instruction) []Fact {
		B := ins.Block()
		for D := B.Idom(); D != nil; D = D.Idom() {
			ifi, isIf := D.Instrs[len(D.Instrs)-1].(*ssa.If)
			if !isIf || len(D.Succs) != 2 || D.Succs[0] == D.Succs[1] {
				continue
			}
			for k, sc := range D.Succs {
				if edgeDominates(D, sc, B) {
					var extra []Fact
					condFacts(ifi.Cond, k == 0, ifi, &extra)
					extra = append(extra, w.expandSummaries(extra, 0)...)
					return extra
				}
			}
		}
		return nil
	}
	var viaHelper func(name string, ridx int, class string) string
	// causeAt: disjunction first (the site sits at or just below a join of several edges: each edge's own condition),
	// otherwise the innermost governing condition
	causeAt := func(ins ssa.Instruction, msgCtx bool) (string, []string) {
		J := ins.Block()
		for k := 0; k < 3 && len(J.Preds) == 1 && J.Preds[0].Instrs != nil; k++ {
			if _, isIf := J.Preds[0].Instrs[len(J.Preds[0].Instrs)-1].(*ssa.If); isIf {
				break
			}
			J = J.Preds[0]
		}
		var fs []string
		if len(J.Preds) > 1 && J.Dominates(ins.Block()) {
			all, first := true, ""
			for _, p := range J.Preds {
				last := p.Instrs[len(p.Instrs)-1]
				var es []Fact
				if ifi, isIf := last.(*ssa.If); isIf && len(p.Succs) == 2 && p.Succs[0] != p.Succs[1] {
					condFacts(ifi.Cond, p.Succs[0] == J, ifi, &es)
					es = append(es, w.expandSummaries(es, 0)...)
				} else {
					es = innermost(last)
				}
				c := flagCause(exprs(es), msgCtx, viaHelper)
				if c == "" {
					all = false
					fs = append(fs, fmt.Sprintf("‹edge from line %d: %v›", w.Fset.Position(last.Pos()).Line, exprs(es)))
				} else if first == "" {
					first = c
				}
			}
			if all {
				return first + " (and a cause on every other edge)", fs
			}
			return "", fs
		}
		fs = exprs(innermost(ins))
		return flagCause(fs, msgCtx, viaHelper), fs
	}
	helperMemo := map[string]string{}
	viaHelper = func(name string, ridx int, class string) string {
		key := fmt.Sprintf("%s/%d/%s", name, ridx, class)
		if v, ok := helperMemo[key]; ok {
			return v
		}
		helperMemo[key] = ""
		var h *ssa.Function
		for _, f := range w.srcFuncs(rootPath) {
			if f.Name() == name && f.Blocks != nil && !isTestFile(w, f.Pos()) && (f.Object() == nil || !f.Object().Exported()) {
				if h != nil {
					return "" // ambiguous name
				}
				h = f
			}
		}
		if h == nil {
			return ""
		}
		isZero := func(v ssa.Value) bool {
			k, ok := v.(*ssa.Const)
			if !ok {
				return false
			}
			if k.Value == nil {
				return true
			}
			sv := k.Value.ExactString()
			return sv == `""` || sv == "0" || sv == "false"
		}
		first, cnt := "", 0
		for _, r := range returnsFlat(h) { // the function's own return instructions (virtual per-edge returns have no block)
			if r.Block() == nil {
				return ""
			}
			if ridx >= len(r.Results) {
				return ""
			}
			res := r.Results[ridx]
			inClass := false
			switch class {
			case `!= ""`, "!= nil", "!= 0":
				inClass = !isZero(res)
			case "== false":
				inClass = isZero(res) || func() bool { _, c := res.(*ssa.Const); return !c }()
			case "== true":
				inClass = !isZero(res)
			}
			if !inClass {
				continue
			}
			cnt++
			c, _ := causeAt(r, true)
			if c == "" {
				return ""
			}
			if first == "" {
				first = c
			}
		}
		if cnt == 0 {
			return ""
		}
		helperMemo[key] = fmt.Sprintf("every such result of %s: %s", name, first)
		return helperMemo[key]
	}
	var siteCause func(ins ssa.Instruction, depth int) (string, []string)
	siteCause = func(ins ssa.Instruction, depth int) (string, []string) {
		fn := ins.Parent()
		c, fs := causeAt(ins, hasMsg(fn))
		if c != "" {
			return c, fs
		}
		// a helper: justified at each call site
		if depth < 2 && fn.Object() != nil && !fn.Object().Exported() {
			callers := w.callersOfCached(fn)
			if len(callers) > 0 {
				all, first := true, ""
				for _, cs := range callers {
					if isTestFile(w, cs.Pos()) {
						continue
					}
					c, cfs := siteCause(cs, depth+1)
					if c == "" {
						all = false
						fs = append(fs, fmt.Sprintf("‹called from %s under %v›", cs.Parent().Name(), cfs))
					} else if first == "" {
						first = c
					}
				}
				if all && first != "" {
					return first + " (at every call site)", fs
				}
			}
		}
		return "", fs
	}
	inScope := func(fn *ssa.Function) bool {
		if fn.Signature.Recv() == nil || isTestFile(w, fn.Pos()) {
			return false
		}
		rt := deref(fn.Signature.Recv().Type())
		return types.Identical(rt, d.plain) || types.Identical(rt, d.qual) || types.Identical(rt, d.common)
	}
	isFlagCall := func(ins ssa.Instruction) bool {
		c, ok := ins.(ssa.CallInstruction)
		return ok && c.Common().IsInvoke() && c.Common().Method.Name() == "FlagMisbehavior"
	}
	// thin wrappers: a branch-free method whose body reports its own parameter to the processor; its call sites are
	// the flag sites
	wrappers := map[*ssa.Function]bool{}
	for _, fn := range w.srcFuncs(rootPath) {
		if !inScope(fn) || len(fn.Blocks) != 1 {
			continue
		}
		instrsFlat(fn, func(ins ssa.Instruction) {
			if isFlagCall(ins) {
				wrappers[fn] = true
			}
		})
	}
	for _, fn := range w.srcFuncs(rootPath) {
		if !inScope(fn) || wrappers[fn] {
			continue
		}
		seen := map[string]int{}
		instrsFlat(fn, func(ins ssa.Instruction) {
			who := ""
			if isFlagCall(ins) {
				c := ins.(ssa.CallInstruction)
				if len(c.Common().Args) > 0 {
					who = render(c.Common().Args[0])
				}
			} else if c, ok := ins.(*ssa.Call); ok && c.Call.StaticCallee() != nil && wrappers[c.Call.StaticCallee()] {
				if len(c.Call.Args) > 1 {
					who = render(c.Call.Args[1])
				}
			} else {
				return
			}
			n++
			who = strings.TrimSuffix(strings.TrimPrefix(who, "int("), ")")
			seen[who]++
			key := fmt.Sprintf("%s/flag(%s)#%d", fnKey(fn), who, seen[who])
			okc, fs := siteCause(ins, 0)
			if os.Getenv("CL_DEBUG_FLAGS") != "" {
				fmt.Fprintf(os.Stderr, "FLAG %s cause=%q facts=%v\n", key, okc, fs)
			}
			w.check(okc != "", rule, key, ins.Pos(), "flag justified by `"+okc+"`", fmt.Sprintf("%s reports participant `%s` to the processor under the conditions %v, none of which is something an honest sender cannot produce (a duplicate, a late message, a wrong size or tag, a refused value, a failed check): e.g. with a complaint and its answer delivered in the other order an honest participant is flagged", fn.Name(), who, fs))
		})
	}
	if n == 0 {
		w.undecided(rule, "anchor:flag-sites", token.NoPos, "no FlagMisbehavior call found in the DKG state types")
	}
}

var reCache = map[string]*regexp.Regexp{}

func matchRe(p, s string) bool {
	r, ok := reCache[p]
	if !ok {
		r = regexp.MustCompile(p)
		reCache[p] = r
	}
	return r.MatchString(s)
}

// ruleErrorClassKept (C10.R7): the three protocols answer the same refusal with the same error class, also through
// the Joint-Feldman relay: an error a DKG method receives from another DKG object (or any callee) and hands on inside
// fmt.Errorf is wrapped with %w — with %v / %s the message survives but IsInvalidInputsError /
// IsDKGInvalidStateTransitionError / IsDKGFailureError no longer recognise it, so the joint protocol reports "some
// error" where the single-dealer protocols report the documented class.
func (w *World) ruleErrorClassKept(rule string, d *dkgAnchors) {
	errT := types.Universe.Lookup("error").Type()
	n := 0
	for _, fn := range w.srcFuncs(rootPath) {
		if fn.Signature.Recv() == nil || isTestFile(w, fn.Pos()) {
			continue
		}
		rt := deref(fn.Signature.Recv().Type())
		if !(types.Identical(rt, d.plain) || types.Identical(rt, d.qual) || types.Identical(rt, d.joint) || types.Identical(rt, d.common)) {
			continue
		}
		seen := 0
		instrsFlat(fn, func(ins ssa.Instruction) {
			c, ok := ins.(*ssa.Call)
			if !ok || c.Call.StaticCallee() == nil || c.Call.StaticCallee().String() != "fmt.Errorf" || len(c.Call.Args) < 2 {
				return
			}
			k, isC := c.Call.Args[0].(*ssa.Const)
			if !isC || k.Value == nil {
				return
			}
			format, _ := constString(k.Value)
			// the variadic slice: elements stored into a fresh array
			var args []ssa.Value
			if sl, ok := c.Call.Args[1].(*ssa.Slice); ok {
				if al, ok := sl.X.(*ssa.Alloc); ok {
					idx := map[int]ssa.Value{}
					for _, r := range *al.Referrers() {
						if ia, ok := r.(*ssa.IndexAddr); ok {
							if ik, ok := ia.Index.(*ssa.Const); ok {
								for _, r2 := range *ia.Referrers() {
									if st, ok := r2.(*ssa.Store); ok && st.Addr == ia {
										i64, _ := constInt64(ik.Value)
										idx[int(i64)] = st.Val
									}
								}
							}
						}
					}
					for i := 0; i < len(idx); i++ {
						args = append(args, idx[i])
					}
				}
			}
			// verbs in order
			var verbs []byte
			for i := 0; i < len(format); i++ {
				if format[i] != '%' {
					continue
				}
				j := i + 1
				for j < len(format) && strings.IndexByte("+-# 0123456789.*[]", format[j]) >= 0 {
					j++
				}
				if j < len(format) {
					if format[j] != '%' {
						verbs = append(verbs, format[j])
					}
					i = j
				}
			}
			for i, a := range args {
				v := a
				if ci, ok := v.(*ssa.ChangeInterface); ok {
					v = ci.X
				}
				if v == nil {
					continue
				}
				if mi, ok := v.(*ssa.MakeInterface); ok {
					// a concrete error value (module error types implement error)
					if !types.Implements(mi.X.Type(), errT.Underlying().(*types.Interface)) {
						continue
					}
					v = mi.X
				} else if !types.Identical(v.Type(), errT) {
					continue
				}
				n++
				seen++
				verb := byte('?')
				if i < len(verbs) {
					verb = verbs[i]
				}
				w.check(verb == 'w', rule, fmt.Sprintf("%s/errorf-wraps#%d", fnKey(fn), seen), c.Pos(), "the error handed on keeps its class (%w)", fmt.Sprintf("%s formats the error `%s` with %%%c instead of %%w: the class of the refusal (invalid input / invalid state transition / DKG failure) is lost for the caller, who gets a different answer from this protocol than from its siblings for the same call", fn.Name(), render(v), verb))
			}
		})
	}
	if n == 0 {
		w.undecided(rule, "anchor:errorf-sites", token.NoPos, "no fmt.Errorf that hands an error on was found in the DKG state types")
	}
}

// ruleOwnComplaintRecorded (C07.R17): when a participant decides to complain, its own complaint is on record when the
// deciding function returns: every return of the function that files the participant's own complaint (the method that
// stores a record under the participant's own index and broadcasts) is dominated by that store, or by the fact that a
// record with `received == true` is already there. Mere presence of a record is not evidence of a complaint: the answer
// intake creates records too (an answer that overtook — or was sent without — a complaint), and a complaint skipped
// because of such a record is never broadcast: the participant keeps a share the others believe corrected.
func (w *World) ruleOwnComplaintRecorded(rule string, d *dkgAnchors) {
	n := 0
	for _, fn := range w.srcFuncs(rootPath) {
		if fn.Signature.Recv() == nil || isTestFile(w, fn.Pos()) || !types.Identical(deref(fn.Signature.Recv().Type()), d.qual) {
			continue
		}
		var updates []*ssa.MapUpdate
		instrsFlat(fn, func(ins ssa.Instruction) {
			mu, ok := ins.(*ssa.MapUpdate)
			if !ok {
				return
			}
			if f := rootFieldOfLoad(mu.Map); f == nil || f != d.m.cmap {
				return
			}
			// key = the participant's own index
			k := stripConv(mu.Key)
			if ld, ok := k.(*ssa.UnOp); ok && ld.Op == token.MUL {
				if f := addrField(ld.X); f != nil && f == d.m.idxOwn {
					updates = append(updates, mu)
				}
			}
		})
		if len(updates) == 0 {
			continue
		}
		recv := P(fn, 0)
		for _, r := range returns(fn) {
			if r.Parent() != fn {
				continue
			}
			n++
			okk := false
			for _, mu := range updates {
				if instrDominates(mu, r) {
					okk = true
				}
			}
			var fs []string
			if !okk {
				for _, f := range w.factsAt(r) {
					fs = append(fs, f.Expr)
					if strings.HasPrefix(f.Expr, recv+".") && strings.Contains(f.Expr, "[") && strings.HasSuffix(f.Expr, ".received == true") {
						okk = true
					}
				}
			}
			w.check(okk, rule, fmt.Sprintf("%s/return#%d", fnKey(fn), n), r.Pos(), "own complaint on record at every return", fmt.Sprintf("%s can return without having filed the participant's own complaint and without a complaint being on record (conditions on this path: %v): a record that only holds an early answer suppresses the complaint, which is then never broadcast", fn.Name(), fs))
		}
	}
	if n == 0 {
		w.undecided(rule, "anchor:own-complaint", token.NoPos, "no function that files the participant's own complaint was found")
	}
}

// ruleIndexRefusalUnconditional (C10.R8): "while running, out-of-range participant indices are refused with an
// invalid-input error" — whatever else the instance has already concluded: every error-free return of the handlers that
// take a participant index (HandleBroadcastMsg, HandlePrivateMsg, ForceDisqualify of the two VSS protocols) is dominated
// by the facts that the index is in range. An early `return nil` placed before the range check (dealer already
// disqualified, nothing to do) answers nil to an index the documentation says is refused.
func (w *World) ruleIndexRefusalUnconditional(rule string, d *dkgAnchors) {
	n := 0
	for _, t := range []*types.Named{d.plain, d.qual} {
		for _, mn := range []string{"HandleBroadcastMsg", "HandlePrivateMsg", "ForceDisqualify"} {
			fn := w.method(t, mn)
			if fn == nil || len(fn.Params) < 2 {
				continue
			}
			idx := fn.Params[1]
			if b, ok := idx.Type().Underlying().(*types.Basic); !ok || b.Info()&types.IsInteger == 0 {
				continue
			}
			p := idx.Name()
			k := 0
			var own []*ssa.Return
			instrsFlat(fn, func(ins ssa.Instruction) {
				if r, ok := ins.(*ssa.Return); ok {
					own = append(own, r) // the handler's own returns (a `return nil` inside a guard helper is not one)
				}
			})
			for _, r := range own {
				if len(r.Results) == 0 || !isNilConst(r.Results[len(r.Results)-1]) {
					continue
				}
				n++
				k++
				lo, hi := false, false
				var fs []string
				for _, f := range w.factsAt(r) {
					fs = append(fs, f.Expr)
					if f.Expr == p+" >= 0" {
						lo = true
					}
					if strings.HasPrefix(f.Expr, p+" < ") && (strings.HasSuffix(f.Expr, "size") || strings.HasSuffix(f.Expr, "Size()")) {
						hi = true
					}
				}
				w.check(lo && hi, rule, fmt.Sprintf("%s/error-free-return#%d/index-in-range", fnKey(fn), k), r.Pos(), "nil is returned only for an index that passed the range check", fmt.Sprintf("%s can return nil without `0 <= %s < size` having been established (conditions on this path: %v): an out-of-range index is answered with nil instead of the documented invalid-input error", fn.Name(), p, fs))
			}
		}
	}
	if n == 0 {
		w.undecided(rule, "anchor:index-handlers", token.NoPos, "no error-free return found in the index-taking handlers")
	}
}
