package main

import (
	"fmt"
	"go/token"
	"go/types"
	"sort"
	"strings"

	"golang.org/x/tools/go/ssa"
)

// P returns the name of the i-th SSA parameter (receiver is index 0 for methods).
func P(fn *ssa.Function, i int) string {
	if i < len(fn.Params) {
		return fn.Params[i].Name()
	}
	return fmt.Sprintf("<param%d>", i)
}

func fnKey(fn *ssa.Function) string {
	s := fn.String()
	s = strings.ReplaceAll(s, rootPath+"/", "")
	s = strings.ReplaceAll(s, rootPath+".", "")
	s = strings.ReplaceAll(s, rootPath, "")
	return s
}

// instrs iterates over all instructions of fn.
func instrs(fn *ssa.Function, f func(ssa.Instruction)) {
	visitDeep(fn, f, map[*ssa.Function]bool{})
}

// instrsFlat iterates over the instructions of fn itself only.
func instrsFlat(fn *ssa.Function, f func(ssa.Instruction)) {
	for _, b := range fn.Blocks {
		for _, ins := range b.Instrs {
			f(ins)
		}
	}
}

// cgoCalls returns the call sites of the cgo stub for C function cname inside fn.
func cgoCalls(fn *ssa.Function, cname string) []*ssa.Call {
	var out []*ssa.Call
	instrs(fn, func(ins ssa.Instruction) {
		if c, ok := ins.(*ssa.Call); ok {
			if n, ok := cgoName(c.Call.StaticCallee()); ok && (cname == "" || n == cname) {
				out = append(out, c)
			}
		}
	})
	return out
}

// cgoCallsFlat: call sites inside fn itself only (for analyses with their own interprocedural step).
func cgoCallsFlat(fn *ssa.Function, cname string) []*ssa.Call {
	var out []*ssa.Call
	instrsFlat(fn, func(ins ssa.Instruction) {
		if c, ok := ins.(*ssa.Call); ok {
			if n, ok := cgoName(c.Call.StaticCallee()); ok && (cname == "" || n == cname) {
				out = append(out, c)
			}
		}
	})
	return out
}

// callsTo returns call instructions in fn whose static callee (or invoked method) has the name.
func callsTo(fn *ssa.Function, name string) []ssa.CallInstruction {
	var out []ssa.CallInstruction
	instrs(fn, func(ins ssa.Instruction) {
		if c, ok := ins.(ssa.CallInstruction); ok {
			cc := c.Common()
			if cc.IsInvoke() {
				if cc.Method.Name() == name {
					out = append(out, c)
				}
			} else if f := cc.StaticCallee(); f != nil && f.Name() == name {
				out = append(out, c)
			} else if b, ok := cc.Value.(*ssa.Builtin); ok && b.Name() == name {
				out = append(out, c)
			}
		}
	})
	return out
}

// returns lists the Return instructions of fn.  In functions with defers go/ssa spills results into
// locals (`*t0 = v; rundefers; t = *t0; return t`); the spilled loads are replaced in place by the
// value stored in the same block, so rules see the value the source returns.
func returns(fn *ssa.Function) []*ssa.Return {
	rs := returnsD(fn, 0)
	// an error result that is known to be nil on this way out (`return ok, err` after `if err != nil {return}`,
	// named results) is presented as the nil constant, which is what the source means
	if gWorld != nil {
		for _, r := range rs {
			for i, v := range r.Results {
				if _, isC := v.(*ssa.Const); isC || !isErrorType(v.Type()) {
					continue
				}
				if knownNil[r] == nil {
					knownNil[r] = map[int]bool{}
					want := render(v) + " == nil"
					for _, f := range gWorld.factsAt(r) {
						if f.Expr == want {
							knownNil[r][i] = true
						}
					}
				}
				if knownNil[r][i] {
					r.Results[i] = ssa.NewConst(nil, v.Type())
				}
			}
		}
	}
	return rs
}

var knownNil = map[*ssa.Return]map[int]bool{}

// tailHelper: the new helper whose results this return hands on unchanged (`return helper(args)`).
func tailHelper(r *ssa.Return) *ssa.Function {
	if len(r.Results) == 0 {
		return nil
	}
	var call *ssa.Call
	for i, v := range r.Results {
		var c *ssa.Call
		switch x := v.(type) {
		case *ssa.Call:
			if len(r.Results) != 1 {
				return nil
			}
			c = x
		case *ssa.Extract:
			cc, ok := x.Tuple.(*ssa.Call)
			if !ok || x.Index != i {
				return nil
			}
			c = cc
		default:
			return nil
		}
		if call != nil && c != call {
			return nil
		}
		call = c
	}
	if call == nil {
		return nil
	}
	return helperCallee(call)
}

func returnsD(fn *ssa.Function, depth int) []*ssa.Return {
	var out []*ssa.Return
	instrsFlat(fn, func(ins ssa.Instruction) {
		if r, ok := ins.(*ssa.Return); ok {
			if fn.Recover != nil && r.Block() == fn.Recover {
				return // synthetic return of the recover block (runs only after a recovered panic)
			}
			for i, v := range r.Results {
				if u, ok := v.(*ssa.UnOp); ok && u.Op == token.MUL {
					if al, ok := u.X.(*ssa.Alloc); ok && u.Block() == r.Block() {
						var last ssa.Value
						for _, x := range r.Block().Instrs {
							if st, ok := x.(*ssa.Store); ok && st.Addr == al {
								last = st.Val
							}
							if x == ssa.Instruction(u) {
								break
							}
						}
						if last != nil {
							r.Results[i] = last
						}
					}
				}
			}
			if h := tailHelper(r); h != nil && depth < 3 {
				if tc := tailCallOf(r); tc != nil {
					enteredBy[h] = tc // the helper's returns are judged in the context of this call
				}
				out = append(out, returnsD(h, depth+1)...)
				return
			}
			if vs := splitReturn(r); len(vs) > 0 {
				out = append(out, vs...)
				return
			}
			if depth < 3 {
				if vs := structTail(r, depth); len(vs) > 0 {
					out = append(out, vs...)
					return
				}
			}
			out = append(out, r)
		}
	})
	return out
}

// cmpFact renders a comparison fact in the canonical operand order used by the fact engine.
func cmpFact(x, op, y string) string {
	_, xc := parseInt(x)
	_, yc := parseInt(y)
	var tok token.Token
	switch op {
	case "==":
		tok = token.EQL
	case "!=":
		tok = token.NEQ
	case "<":
		tok = token.LSS
	case "<=":
		tok = token.LEQ
	case ">":
		tok = token.GTR
	case ">=":
		tok = token.GEQ
	}
	return normCmp(x, tok, y, xc, yc)
}

func constOf(v ssa.Value) (*ssa.Const, bool) {
	c, ok := stripConv(v).(*ssa.Const)
	return c, ok
}

func isConstBool(v ssa.Value, b bool) bool {
	c, ok := constOf(v)
	if !ok || c.Value == nil {
		return false
	}
	return c.Value.String() == fmt.Sprint(b)
}

func isNilConst(v ssa.Value) bool {
	c, ok := constOf(v)
	return ok && c.Value == nil
}

// requireFacts records one obligation per wanted fact at the instruction.
func (w *World) requireFacts(rule, keyPrefix string, at ssa.Instruction, wants ...string) bool {
	fs := w.factsAt(at)
	all := true
	for _, want := range wants {
		if hasFact(fs, want) {
			w.ok(rule, keyPrefix+"/guard:"+want, at.Pos(), "dominating guard present", factStrings(fs)...)
		} else {
			all = false
			w.viol(rule, keyPrefix+"/guard:"+want, posOf(at), "required dominating guard `"+want+"` is missing on some path to this point", factStrings(fs)...)
		}
	}
	return all
}

func posOf(ins ssa.Instruction) token.Pos {
	if r, ok := ins.(*ssa.Return); ok {
		if _, isV := virtReturns[r]; isV {
			return retPos(r)
		}
	}
	if ins.Pos().IsValid() {
		return ins.Pos()
	}
	// fall back to any positioned instruction of the block, then the function
	for _, x := range ins.Block().Instrs {
		if x.Pos().IsValid() {
			return x.Pos()
		}
	}
	return ins.Parent().Pos()
}

// implementors returns the named (pointer-receiver) types of pkg implementing the named interface of ifacePkg.
func (w *World) implementors(ifacePkg, ifaceName, inPkg string) []*types.Named {
	ip := w.ByPath[ifacePkg]
	tp := w.ByPath[inPkg]
	if ip == nil || tp == nil {
		return nil
	}
	tn, _ := ip.Types.Scope().Lookup(ifaceName).(*types.TypeName)
	if tn == nil {
		return nil
	}
	iface, _ := tn.Type().Underlying().(*types.Interface)
	if iface == nil {
		return nil
	}
	var out []*types.Named
	sc := tp.Types.Scope()
	names := sc.Names()
	sort.Strings(names)
	for _, n := range names {
		t, _ := sc.Lookup(n).(*types.TypeName)
		if t == nil {
			continue
		}
		named, _ := t.Type().(*types.Named)
		if named == nil {
			continue
		}
		if _, isIface := named.Underlying().(*types.Interface); isIface {
			continue
		}
		if types.Implements(types.NewPointer(named), iface) || types.Implements(named, iface) {
			out = append(out, named)
		}
	}
	return out
}

// method resolves method m on *T (or T).
func (w *World) method(t *types.Named, m string) *ssa.Function {
	for _, tt := range []types.Type{types.NewPointer(t), t} {
		sel := w.Prog.MethodSets.MethodSet(tt).Lookup(t.Obj().Pkg(), m)
		if sel != nil {
			f := w.Prog.MethodValue(sel)
			if f != nil && f.Blocks != nil {
				// unwrap promoted-method wrappers
				if f.Synthetic != "" {
					if fn, ok := sel.Obj().(*types.Func); ok {
						if g := w.Prog.FuncValue(fn); g != nil && g.Blocks != nil {
							return g
						}
					}
				}
				return f
			}
		}
	}
	return nil
}

// blsTypes locates, by role, the BLS key structs: implementations of PublicKey / PrivateKey whose
// Algorithm method returns the exported constant BLSBLS12381.
func (w *World) blsKeyType(iface string) *types.Named {
	want, ok := w.constInt(rootPath, "BLSBLS12381")
	if !ok {
		return nil
	}
	for _, t := range w.implementors(rootPath, iface, rootPath) {
		f := w.method(t, "Algorithm")
		if f == nil {
			continue
		}
		for _, r := range returns(f) {
			if c, ok := constOf(r.Results[0]); ok {
				if v, ok := constInt64(c.Value); ok && v == want {
					return t
				}
			}
		}
	}
	return nil
}

// boolFields / fieldsOfType help locating struct fields by role.
func structFields(t *types.Named) []*types.Var {
	st, _ := t.Underlying().(*types.Struct)
	if st == nil {
		return nil
	}
	var out []*types.Var
	for i := 0; i < st.NumFields(); i++ {
		out = append(out, st.Field(i))
	}
	return out
}

func boolFieldNames(t *types.Named) []string {
	var out []string
	for _, f := range structFields(t) {
		if isBool(f.Type()) {
			out = append(out, f.Name())
		}
	}
	return out
}

// callers returns the call sites (in module source functions, tests excluded) that statically call fn.
func (w *World) callersOf(fn *ssa.Function) []ssa.CallInstruction {
	var out []ssa.CallInstruction
	for _, f := range w.moduleFuncs() {
		if isTestFile(w, f.Pos()) {
			continue
		}
		instrsFlat(f, func(ins ssa.Instruction) {
			if c, ok := ins.(ssa.CallInstruction); ok {
				if c.Common().StaticCallee() == fn {
					out = append(out, c)
				}
			}
		})
	}
	return out
}

// storesTo returns the stores in fn whose address renders to path.
func storesToPath(fn *ssa.Function, path string) []*ssa.Store {
	var out []*ssa.Store
	instrsFlat(fn, func(ins ssa.Instruction) {
		if s, ok := ins.(*ssa.Store); ok && render(s.Addr) == path {
			out = append(out, s)
		}
	})
	return out
}

// globalOf returns the package-level variable.
func (w *World) global(pkgPath, name string) *ssa.Global {
	sp := w.SSA[pkgPath]
	if sp == nil {
		return nil
	}
	g, _ := sp.Members[name].(*ssa.Global)
	return g
}

// errSentinelName: if v is a load of a package-level error variable return its name.
func sentinelName(v ssa.Value) string {
	v = stripConv(v)
	if u, ok := v.(*ssa.UnOp); ok && u.Op == token.MUL {
		if g, ok := u.X.(*ssa.Global); ok {
			return g.Name()
		}
	}
	return ""
}

// errClass classifies an error-typed result value: "nil", "sentinel:<name>", "ctor:<fn>",
// "wrap:<sentinel or ctor>" (fmt.Errorf with %w), "call:<fn>", "other".
func (w *World) errClass(v ssa.Value) string {
	v = stripConv(v)
	if isNilConst(v) {
		return "nil"
	}
	if n := sentinelName(v); n != "" {
		return "sentinel:" + n
	}
	switch x := v.(type) {
	case *ssa.Call:
		callee := x.Call.StaticCallee()
		if callee == nil {
			return "other"
		}
		if callee.Pkg != nil && callee.Pkg.Pkg.Path() == "fmt" && callee.Name() == "Errorf" {
			// look for %w and the wrapped operand
			if c, ok := constOf(x.Call.Args[0]); ok {
				if s, ok := constString(c.Value); ok && strings.Contains(s, "%w") {
					// find the error-typed vararg
					for _, cls := range w.varargErrClasses(x) {
						return "wrap:" + cls
					}
					return "wrap:?"
				}
			}
			return "fmt.Errorf"
		}
		if inModule(callee) {
			if cls, ok := w.helperErrClass(callee, 0); ok {
				return cls // a helper the rules do not know: the class of the error it hands back
			}
			return "ctor:" + callee.Name()
		}
		return "call:" + callee.String()
	case *ssa.Extract:
		if c, ok := x.Tuple.(*ssa.Call); ok {
			if callee := c.Call.StaticCallee(); callee != nil {
				if cls, ok := w.helperErrClass(callee, x.Index); ok {
					return cls
				}
				return "result:" + callee.Name()
			}
			if c.Call.IsInvoke() {
				return "result:" + c.Call.Method.Name()
			}
		}
	case *ssa.Phi:
		var cls []string
		for _, e := range x.Edges {
			cls = append(cls, w.errClass(e))
		}
		sort.Strings(cls)
		return "phi{" + strings.Join(uniq(cls), "|") + "}"
	}
	return "other"
}

// varargErrClasses inspects the stores into the varargs array of a fmt.Errorf call and classifies
// the error-typed ones.
func (w *World) varargErrClasses(call *ssa.Call) []string {
	var out []string
	if len(call.Call.Args) < 2 {
		return nil
	}
	sl, ok := call.Call.Args[1].(*ssa.Slice)
	if !ok {
		return nil
	}
	alloc, ok := sl.X.(*ssa.Alloc)
	if !ok {
		return nil
	}
	for _, ref := range *alloc.Referrers() {
		ia, ok := ref.(*ssa.IndexAddr)
		if !ok {
			continue
		}
		for _, r2 := range *ia.Referrers() {
			if st, ok := r2.(*ssa.Store); ok {
				v := stripConv(st.Val)
				if types.Implements(v.Type(), errorIface()) || isErrorType(v.Type()) {
					out = append(out, w.errClass(v))
				}
			}
		}
	}
	return out
}

func errorIface() *types.Interface {
	return types.Universe.Lookup("error").Type().Underlying().(*types.Interface)
}

func isErrorType(t types.Type) bool {
	return types.Identical(t, types.Universe.Lookup("error").Type())
}

// derefAlloc: is v (after field/index addressing) rooted at the given Alloc?
func rootedAt(v ssa.Value, root ssa.Value) bool {
	for {
		if v == root {
			return true
		}
		switch x := v.(type) {
		case *ssa.FieldAddr:
			v = x.X
		case *ssa.IndexAddr:
			v = x.X
		case *ssa.ChangeType:
			v = x.X
		case *ssa.Convert:
			v = x.X
		default:
			return false
		}
	}
}

// helperErrClass: when every non-nil error a new helper returns (result idx) has one class, that class.
func (w *World) helperErrClass(h *ssa.Function, idx int) (string, bool) {
	if !isNewHelper(h) || h.Signature.Results().Len() <= idx || !isErrorType(h.Signature.Results().At(idx).Type()) {
		return "", false
	}
	if w.errClsBusy == nil {
		w.errClsBusy = map[*ssa.Function]bool{}
	}
	if w.errClsBusy[h] {
		return "", false
	}
	w.errClsBusy[h] = true
	defer delete(w.errClsBusy, h)
	cls := ""
	for _, r := range returnsD(h, 99) {
		if idx >= len(r.Results) || isNilConst(r.Results[idx]) {
			continue
		}
		c := w.errClass(r.Results[idx])
		if c == "nil" {
			continue
		}
		if cls != "" && c != cls {
			return "", false
		}
		cls = c
	}
	return cls, cls != ""
}

func tailCallOf(r *ssa.Return) *ssa.Call {
	for _, v := range r.Results {
		switch x := v.(type) {
		case *ssa.Call:
			return x
		case *ssa.Extract:
			if c, ok := x.Tuple.(*ssa.Call); ok {
				return c
			}
		}
	}
	return nil
}
