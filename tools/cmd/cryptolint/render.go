package main

import (
	"fmt"
	"go/constant"
	"go/token"
	"go/types"
	"sort"
	"strings"

	"golang.org/x/tools/go/ssa"
)

func constInt64(v constant.Value) (int64, bool) {
	if v == nil {
		return 0, false
	}
	if v.Kind() == constant.Int {
		return constant.Int64Val(v)
	}
	if v.Kind() == constant.Float {
		f, _ := constant.Float64Val(v)
		return int64(f), float64(int64(f)) == f
	}
	return 0, false
}

func constString(v constant.Value) (string, bool) {
	if v == nil || v.Kind() != constant.String {
		return "", false
	}
	return constant.StringVal(v), true
}

// cgoName returns the C function name if fn is a cgo stub (_Cfunc_xxx).
func cgoName(fn *ssa.Function) (string, bool) {
	if fn == nil {
		return "", false
	}
	if strings.HasPrefix(fn.Name(), "_Cfunc_") {
		return strings.TrimPrefix(fn.Name(), "_Cfunc_"), true
	}
	return "", false
}

// renderer turns SSA values into canonical expression strings (access paths, calls,
// comparisons).  Strings are what rules match on and what evidence prints.
type renderer struct {
	depth int
	seen  map[ssa.Value]bool
}

func render(v ssa.Value) string {
	r := &renderer{seen: map[ssa.Value]bool{}}
	return r.val(v)
}

func typeShort(t types.Type) string {
	return types.TypeString(t, func(p *types.Package) string { return "" })
}

func (r *renderer) val(v ssa.Value) string {
	if v == nil {
		return "<nil>"
	}
	r.depth++
	defer func() { r.depth-- }()
	if r.depth > 14 {
		return "…"
	}
	switch v := v.(type) {
	case *ssa.Parameter:
		if a, ok := uniqueArg(r, v); ok {
			return a
		}
		return v.Name()
	case *ssa.FreeVar:
		return "free:" + v.Name()
	case *ssa.Const:
		if v.Value == nil {
			if _, ok := v.Type().Underlying().(*types.Basic); ok {
				return "0"
			}
			return "nil"
		}
		switch v.Value.Kind() {
		case constant.Bool:
			return v.Value.String()
		case constant.String:
			return v.Value.ExactString()
		case constant.Int:
			return v.Value.ExactString()
		}
		return v.Value.String()
	case *ssa.Global:
		return v.Name()
	case *ssa.Function:
		if v.Pkg != nil {
			return "func:" + v.Pkg.Pkg.Name() + "." + v.Name()
		}
		return "func:" + v.Name()
	case *ssa.Builtin:
		return v.Name()
	case *ssa.Alloc:
		name := v.Comment
		if name == "" {
			name = v.Name()
		}
		if v.Heap {
			return "&heap:" + name
		}
		return "&local:" + name
	case *ssa.FieldAddr:
		st := deref(v.X.Type()).Underlying().(*types.Struct)
		return "&" + trimAmp(r.val(v.X)) + "." + st.Field(v.Field).Name()
	case *ssa.Field:
		if src := loadSource(v); src != nil && r.depth < 10 {
			return r.val(src)
		}
		st := v.X.Type().Underlying().(*types.Struct)
		return r.val(v.X) + "." + st.Field(v.Field).Name()
	case *ssa.IndexAddr:
		return "&" + trimAmp(r.val(v.X)) + "[" + r.val(v.Index) + "]"
	case *ssa.Index:
		return r.val(v.X) + "[" + r.val(v.Index) + "]"
	case *ssa.Lookup:
		return r.val(v.X) + "[" + r.val(v.Index) + "]"
	case *ssa.Slice:
		lo, hi := "", ""
		if v.Low != nil {
			lo = r.val(v.Low)
		}
		if v.High != nil {
			hi = r.val(v.High)
		}
		return trimAmp(r.val(v.X)) + "[" + lo + ":" + hi + "]"
	case *ssa.UnOp:
		switch v.Op {
		case token.MUL:
			if src := loadSource(v); src != nil && r.depth < 10 {
				return r.val(src) // field of a local struct: the value stored there
			}
			x := r.val(v.X)
			if strings.HasPrefix(x, "&") {
				return x[1:]
			}
			return "*" + x
		case token.NOT:
			return "!" + r.val(v.X)
		case token.SUB:
			return "-" + r.val(v.X)
		case token.ARROW:
			return "<-" + r.val(v.X)
		case token.XOR:
			return "^" + r.val(v.X)
		}
	case *ssa.BinOp:
		return "(" + r.val(v.X) + " " + v.Op.String() + " " + r.val(v.Y) + ")"
	case *ssa.Convert:
		return r.val(v.X)
	case *ssa.ChangeType:
		return r.val(v.X)
	case *ssa.ChangeInterface:
		return r.val(v.X)
	case *ssa.MakeInterface:
		return r.val(v.X)
	case *ssa.SliceToArrayPointer:
		return r.val(v.X)
	case *ssa.MultiConvert:
		return r.val(v.X)
	case *ssa.TypeAssert:
		return r.val(v.X) + ".(" + typeShort(v.AssertedType) + ")"
	case *ssa.Extract:
		if c, ok := v.Tuple.(*ssa.Call); ok {
			if x, ok := helperResult(r, c, v.Index); ok {
				return x
			}
		}
		return r.val(v.Tuple) + "#" + fmt.Sprint(v.Index)
	case *ssa.MakeSlice:
		return "make(" + typeShort(v.Type()) + "," + r.val(v.Len) + ")"
	case *ssa.MakeMap:
		return "make(" + typeShort(v.Type()) + ")"
	case *ssa.MakeClosure:
		return "closure:" + v.Fn.Name()
	case *ssa.Range:
		return "range(" + r.val(v.X) + ")"
	case *ssa.Next:
		return "next(" + r.val(v.Iter) + ")"
	case *ssa.Phi:
		// a phi whose edges all render identically is that value; otherwise it is named by its
		// source variable and block (stable within one function, independent of line numbers)
		if !r.seen[v] {
			r.seen[v] = true
			var parts []string
			for _, e := range v.Edges {
				parts = append(parts, r.val(e))
			}
			delete(r.seen, v)
			sort.Strings(parts)
			parts = uniq(parts)
			if len(parts) == 1 && !strings.Contains(parts[0], "φ") {
				return parts[0]
			}
		}
		name := v.Comment
		if name == "" {
			name = v.Name()
		}
		return fmt.Sprintf("φ%s@%d", name, v.Block().Index)
	case *ssa.Call:
		if v.Call.Signature().Results().Len() == 1 {
			if x, ok := helperResult(r, v, 0); ok {
				return x
			}
		}
		return r.call(&v.Call)
	}
	return fmt.Sprintf("%T:%s", v, v.Name())
}

func (r *renderer) call(c *ssa.CallCommon) string {
	var args []string
	for _, a := range c.Args {
		args = append(args, r.val(a))
	}
	if c.IsInvoke() {
		return r.val(c.Value) + "." + c.Method.Name() + "(" + strings.Join(args, ", ") + ")"
	}
	if b, ok := c.Value.(*ssa.Builtin); ok {
		return b.Name() + "(" + strings.Join(args, ", ") + ")"
	}
	if fn := c.StaticCallee(); fn != nil {
		if n, ok := cgoName(fn); ok {
			return "C." + n + "(" + strings.Join(args, ", ") + ")"
		}
		name := fn.Name()
		if fn.Signature.Recv() != nil && len(args) > 0 {
			return args[0] + "." + name + "(" + strings.Join(args[1:], ", ") + ")"
		}
		if fn.Pkg != nil && fn.Pkg.Pkg.Path() != rootPath && fn.Pkg.Pkg.Path() != hashPath && fn.Pkg.Pkg.Path() != randomPath {
			name = fn.Pkg.Pkg.Name() + "." + name
		}
		return name + "(" + strings.Join(args, ", ") + ")"
	}
	return "dyn:" + r.val(c.Value) + "(" + strings.Join(args, ", ") + ")"
}

func trimAmp(s string) string {
	if strings.HasPrefix(s, "&") {
		return s[1:]
	}
	if strings.HasPrefix(s, "*") {
		return s // pointer-valued expression used as base
	}
	return s
}

func deref(t types.Type) types.Type {
	if p, ok := t.Underlying().(*types.Pointer); ok {
		return p.Elem()
	}
	return t
}

func uniq(s []string) []string {
	var out []string
	for i, x := range s {
		if i == 0 || x != s[i-1] {
			out = append(out, x)
		}
	}
	return out
}

// stripConv removes value-preserving wrappers.
func stripConv(v ssa.Value) ssa.Value {
	for {
		switch x := v.(type) {
		case *ssa.Convert:
			v = x.X
		case *ssa.ChangeType:
			v = x.X
		case *ssa.ChangeInterface:
			v = x.X
		case *ssa.MakeInterface:
			v = x.X
		default:
			return v
		}
	}
}
