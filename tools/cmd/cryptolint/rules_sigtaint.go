package main

import (
	"fmt"
	"go/token"
	"go/types"
	"strings"

	"golang.org/x/tools/go/ssa"
)

// Go-side "who decides on the signature's bytes" rule (C01.R13, C02.R10, C03.R9, C16.R8, C17.R7).
//
// The properties define the verdict of every BLS verification entry point from the *meaning* of the signature bytes:
// they parse to a point, the point is in G1, the pairing product is one. All of that is decided in C, behind the cgo
// call (and checked there by the C rules). The only thing the Go layer may decide from a signature is its length.
// A Go-side branch or result that depends on the *content* of the signature bytes — a comparison with a constant
// encoding (IsBLSSignatureIdentity, bytes.Equal), a byte inspected, a predicate helper reading them — is a second,
// independent definition of validity: it can only agree with the C verdict or contradict the property (the identity
// signature is valid under keys that cancel, C02; a "quick reject" of some header is a false negative).
//
// Analysis: a forward may-dataflow inside the entry point, interprocedural by summaries over module functions with
// bodies. A = values that are (views of) the signature bytes: the parameter, slices/conversions/phis of it, elements
// of a slice of signatures, buffers a builtin copy/append filled from it. T = values computed from the content:
// loads through an index into A, comparisons of A with anything but nil, results of calls that receive A or T
// (len/cap/copy/append, cgo calls and the verification entry points themselves excepted; module callees are
// summarised: tainted iff they branch on or return content). Sinks: conditions of If and the returned verdict.

type sigTaint struct {
	w    *World
	memo map[string]int // 0 unknown/in progress, 1 clean, 2 content-dependent
}

func isVerdictCallee(cc *ssa.CallCommon) bool {
	name := ""
	var sig *types.Signature
	if cc.IsInvoke() {
		name = cc.Method.Name()
		sig, _ = cc.Method.Type().(*types.Signature)
	} else if f := cc.StaticCallee(); f != nil {
		name = f.Name()
		sig = f.Signature
	}
	if sig == nil || !strings.Contains(strings.ToLower(name), "verify") {
		return false
	}
	// (bool, error)
	if sig.Results().Len() != 2 {
		return false
	}
	b, ok := sig.Results().At(0).Type().Underlying().(*types.Basic)
	return ok && b.Kind() == types.Bool
}

func elemIsComposite(t types.Type) bool {
	switch u := t.Underlying().(type) {
	case *types.Slice:
		_, isB := u.Elem().Underlying().(*types.Basic)
		return !isB
	case *types.Array:
		_, isB := u.Elem().Underlying().(*types.Basic)
		return !isB
	case *types.Pointer:
		return elemIsComposite(u.Elem())
	}
	return false
}

// run returns the tainted conditions / returns of fn when the parameters `src` carry signature bytes.
func (t *sigTaint) run(fn *ssa.Function, src []int, depth int) (conds []ssa.Instruction, retTainted bool, via map[ssa.Instruction]string) {
	A := map[ssa.Value]bool{}
	T := map[ssa.Value]string{}
	via = map[ssa.Instruction]string{}
	for _, i := range src {
		if i < len(fn.Params) {
			A[fn.Params[i]] = true
		}
	}
	isNil := func(v ssa.Value) bool {
		k, ok := v.(*ssa.Const)
		return ok && k.Value == nil
	}
	changed := true
	setA := func(v ssa.Value) {
		if !A[v] {
			A[v] = true
			changed = true
		}
	}
	setT := func(v ssa.Value, why string) {
		if _, ok := T[v]; !ok {
			T[v] = why
			changed = true
		}
	}
	for iter := 0; changed && iter < 50; iter++ {
		changed = false
		for _, b := range fn.Blocks {
			for _, ins := range b.Instrs {
				switch x := ins.(type) {
				case *ssa.ChangeType:
					if A[x.X] {
						setA(x)
					}
					if why, ok := T[x.X]; ok {
						setT(x, why)
					}
				case *ssa.Convert:
					if A[x.X] {
						setA(x)
					}
					if why, ok := T[x.X]; ok {
						setT(x, why)
					}
				case *ssa.MakeInterface:
					if A[x.X] {
						setA(x)
					}
				case *ssa.Slice:
					if A[x.X] {
						setA(x)
					}
				case *ssa.SliceToArrayPointer:
					if A[x.X] {
						setA(x)
					}
				case *ssa.Phi:
					for _, e := range x.Edges {
						if A[e] {
							setA(x)
						}
						if why, ok := T[e]; ok {
							setT(x, why)
						}
					}
				case *ssa.IndexAddr:
					if A[x.X] {
						setA(x) // an address into the bytes (or of one signature of a list)
					}
				case *ssa.Index:
					if A[x.X] {
						setT(x, "byte of the signature read at "+t.w.pos(x.Pos()))
					}
				case *ssa.Lookup:
					if A[x.X] {
						setT(x, "byte of the signature read at "+t.w.pos(x.Pos()))
					}
				case *ssa.UnOp:
					if x.Op == token.MUL {
						if ia, ok := x.X.(*ssa.IndexAddr); ok && A[ia] {
							if elemIsComposite(ia.X.Type()) {
								setA(x) // one signature of a list of signatures
							} else {
								setT(x, "byte of the signature read at "+t.w.pos(x.Pos()))
							}
						} else if A[x.X] {
							setA(x) // *(&array): the bytes themselves
						}
					}
					if why, ok := T[x.X]; ok {
						setT(x, why)
					}
				case *ssa.BinOp:
					if (A[x.X] && !isNil(x.Y)) || (A[x.Y] && !isNil(x.X)) {
						setT(x, "signature compared as a value at "+t.w.pos(x.Pos()))
					}
					if why, ok := T[x.X]; ok {
						setT(x, why)
					}
					if why, ok := T[x.Y]; ok {
						setT(x, why)
					}
				case *ssa.Extract:
					if why, ok := T[x.Tuple]; ok {
						setT(x, why)
					}
					if A[x.Tuple] {
						setA(x)
					}
				case *ssa.Next:
					if A[x.Iter] {
						setA(x)
					}
				case *ssa.Range:
					if A[x.X] {
						setA(x)
					}
				case *ssa.Store:
					// a local buffer the bytes are stored into is a view as well
					if A[x.Val] {
						if al, ok := x.Addr.(*ssa.Alloc); ok {
							setA(al)
						}
					}
				case *ssa.Call:
					cc := x.Common()
					argA, argT := -1, ""
					for i, a := range cc.Args {
						if A[a] && argA < 0 {
							argA = i
						}
						if why, ok := T[a]; ok && argT == "" {
							argT = why
						}
					}
					if argA < 0 && argT == "" {
						continue
					}
					if bi, ok := cc.Value.(*ssa.Builtin); ok {
						switch bi.Name() {
						case "copy":
							if argA == 1 {
								setA(sliceBase(cc.Args[0]))
								setA(cc.Args[0])
							}
						case "append":
							if argA >= 0 {
								setA(x)
							}
						}
						continue
					}
					if _, isC := cgoName(cc.StaticCallee()); isC {
						continue
					}
					if isVerdictCallee(cc) {
						continue
					}
					callee := cc.StaticCallee()
					name := "a dynamic call"
					if cc.IsInvoke() {
						name = cc.Method.Name()
					} else if callee != nil {
						name = callee.Name()
					}
					if argT != "" {
						setT(x, argT)
						continue
					}
					if callee != nil && inModule(callee) && callee.Blocks != nil && depth > 0 {
						var ps []int
						for i, a := range cc.Args {
							if A[a] {
								ps = append(ps, i)
							}
						}
						k := fmt.Sprintf("%s|%v", callee.String(), ps)
						st := t.memo[k]
						if st == 0 {
							t.memo[k] = 1 // optimistic on recursion
							cs, rt, _ := t.run(callee, ps, depth-1)
							if len(cs) > 0 || rt {
								t.memo[k] = 2
							}
							st = t.memo[k]
						}
						if st == 2 {
							setT(x, fmt.Sprintf("%s, which reads the signature's bytes, called at %s", name, t.w.pos(x.Pos())))
						} else if x.Type() != nil && callee.Signature.Results().Len() > 0 {
							// a clean module helper that returns a view of its argument (e.g. a checked re-slice)
							if _, isSl := callee.Signature.Results().At(0).Type().Underlying().(*types.Slice); isSl {
								setA(x)
							}
						}
						continue
					}
					// external or unresolved callee handed the bytes: its result is computed from them
					if x.Type() != nil {
						if tup, ok := x.Type().(*types.Tuple); !ok || tup.Len() > 0 {
							setT(x, fmt.Sprintf("%s applied to the signature at %s", name, t.w.pos(x.Pos())))
						}
					}
				}
			}
		}
	}
	for _, b := range fn.Blocks {
		for _, ins := range b.Instrs {
			switch x := ins.(type) {
			case *ssa.If:
				if why, ok := T[x.Cond]; ok {
					conds = append(conds, x)
					via[x] = why
				}
			case *ssa.Return:
				for _, r := range x.Results {
					if why, ok := T[r]; ok {
						if _, isB := r.Type().Underlying().(*types.Basic); isB {
							retTainted = true
							via[x] = why
						}
					}
				}
			}
		}
	}
	return
}

// ruleSigContent emits one obligation per entry point: no branch and no returned verdict of the Go layer is
// computed from the content of the signature parameter(s).
func (w *World) ruleSigContent(rule string, fn *ssa.Function, sigParams ...int) {
	if fn == nil {
		return
	}
	t := &sigTaint{w: w, memo: map[string]int{}}
	conds, ret, via := t.run(fn, sigParams, 3)
	key := fnKey(fn) + "/signature-content-decided-in-C"
	if len(conds) == 0 && !ret {
		w.ok(rule, key, fn.Pos(), "no Go-side branch or verdict depends on the content of the signature bytes (only their length); validity is decided behind the cgo call")
		return
	}
	var first ssa.Instruction
	for ins := range via {
		if first == nil || ins.Pos() < first.Pos() {
			first = ins
		}
	}
	what := "branches on"
	if _, isR := first.(*ssa.Return); isR {
		what = "returns a verdict computed from"
	}
	w.viol(rule, key, first.Pos(), fmt.Sprintf("%s %s the content of the signature bytes (%s): the property defines the verdict from the parsed point and the pairing product, decided in C; a second Go-side test of the bytes can only contradict it (e.g. the identity signature is valid under keys that cancel)", fn.Name(), what, via[first]))
}
