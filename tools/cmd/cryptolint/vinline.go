package main

import (
	"go/token"
	"sort"
	"strings"

	"golang.org/x/tools/go/ssa"
)

// Virtual inlining of helpers that the rules do not know by name.
//
// The rules were written against the functions of the tree they were confirmed on (vocab.go lists
// them). A behaviour-preserving refactor often moves a few statements into a new unexported helper
// (or splits a function into wrapper + worker). For every module function that is NOT in the
// vocabulary the primitive queries behave as if the helper were inlined at its call sites:
//
//   instrs / cgoCalls / callsTo   also visit the helper's instructions at the call,
//   returns                        follows a tail call into the helper,
//   render                         prints a helper parameter as the caller's argument (when all call
//                                  sites pass the same expression) and a helper call whose result has
//                                  one defining expression as that expression,
//   factsAt                        adds the guards that hold at every call site of the helper,
//   instrDominates                 compares positions after lifting helper instructions to their call.
//
// Functions in the vocabulary are never expanded, so results on the confirmed tree are unchanged.

var gWorld *World

// knownByRole: functions a rule set located by their role (e.g. the DKG message intakes), whatever their name.
var knownByRole = map[*ssa.Function]bool{}

// transparent: one-expression predicates of the confirmed tree whose *name* carries no meaning for the
// rules; they are always expanded, so that renaming or inlining them changes nothing.
var transparent = map[string]bool{
	"(*github.com/onflow/crypto.blsThresholdSignatureInspector).hasShare":     true,
	"(*github.com/onflow/crypto.blsThresholdSignatureInspector).enoughShares": true,
}

func isNewHelper(fn *ssa.Function) bool {
	if fn == nil || fn.Blocks == nil || fn.Synthetic != "" || !inModule(fn) || gWorld == nil {
		return false
	}
	if fn.Parent() != nil { // closures are visited with their parent
		return false
	}
	if vocab[fn.String()] && !transparent[fn.String()] {
		return false
	}
	if knownByRole[fn] {
		return false
	}
	if token.IsExported(fn.Name()) {
		return false
	}
	if isTestFile(gWorld, fn.Pos()) {
		return false
	}
	if len(fn.Blocks) > 40 {
		return false
	}
	return len(gWorld.callersOfCached(fn)) > 0
}

func (w *World) callersOfCached(fn *ssa.Function) []ssa.CallInstruction {
	if w.callerIdx == nil {
		w.callerIdx = map[*ssa.Function][]ssa.CallInstruction{}
		for _, f := range w.moduleFuncs() {
			if isTestFile(w, f.Pos()) {
				continue
			}
			for _, b := range f.Blocks {
				for _, ins := range b.Instrs {
					if c, ok := ins.(ssa.CallInstruction); ok {
						if callee := c.Common().StaticCallee(); callee != nil && inModule(callee) {
							w.callerIdx[callee] = append(w.callerIdx[callee], c)
						}
					}
				}
			}
		}
	}
	return w.callerIdx[fn]
}

// helperCallee: the new helper called by this instruction, if any.
func helperCallee(ins ssa.Instruction) *ssa.Function {
	c, ok := ins.(ssa.CallInstruction)
	if !ok {
		return nil
	}
	if _, isDefer := ins.(*ssa.Defer); isDefer {
		return nil
	}
	if _, isGo := ins.(*ssa.Go); isGo {
		return nil
	}
	f := c.Common().StaticCallee()
	if isNewHelper(f) {
		return f
	}
	return nil
}

// visitDeep iterates fn's instructions and, at calls of new helpers, the helpers' instructions.
func visitDeep(fn *ssa.Function, f func(ssa.Instruction), stack map[*ssa.Function]bool) {
	visitDeepC(fn, f, stack, nil)
}

// enteredBy: for an instruction of a new helper, the call through which the most recent deep visit
// (instrs / cgoCalls / callsTo started at some entry function) reached the helper. Guards are then
// taken along that call chain rather than over all callers of the helper: a helper shared by two
// entry points is judged in the context of the entry the rule is looking at.
var enteredBy = map[*ssa.Function]ssa.CallInstruction{}

func visitDeepC(fn *ssa.Function, f func(ssa.Instruction), stack map[*ssa.Function]bool, via ssa.CallInstruction) {
	if stack[fn] || len(stack) > 4 {
		return
	}
	stack[fn] = true
	defer delete(stack, fn)
	if via != nil {
		enteredBy[fn] = via
	}
	for _, b := range fn.Blocks {
		for _, ins := range b.Instrs {
			f(ins)
			if h := helperCallee(ins); h != nil {
				visitDeepC(h, f, stack, ins.(ssa.CallInstruction))
			}
		}
	}
}

// uniqueArg: the caller-side rendering of parameter i of a new helper when every call site passes
// an expression that renders identically.
func uniqueArg(r *renderer, p *ssa.Parameter) (string, bool) {
	fn := p.Parent()
	if !isNewHelper(fn) {
		return "", false
	}
	idx := paramIndex(fn, p)
	if idx < 0 {
		return "", false
	}
	var rs []string
	sites := gWorld.callersOfCached(fn)
	if via, ok := enteredBy[fn]; ok {
		sites = []ssa.CallInstruction{via} // the entry the current rule is looking at
	}
	for _, cs := range sites {
		args := cs.Common().Args
		if idx >= len(args) {
			return "", false
		}
		rs = append(rs, r.val(args[idx]))
	}
	sort.Strings(rs)
	rs = uniq(rs)
	if len(rs) == 1 && !strings.Contains(rs[0], "φ") && !strings.Contains(rs[0], "…") {
		return rs[0], true
	}
	return "", false
}

// helperResult: rendering of result idx of a call to a new helper when, over all returns, the
// non-filler values (not nil / zero / false constants) render to one expression over parameters.
func helperResult(r *renderer, c *ssa.CallCommon, idx int) (string, bool) {
	fn := c.StaticCallee()
	if !isNewHelper(fn) || fn.Signature.Results().Len() <= idx {
		return "", false
	}
	if isErrorType(fn.Signature.Results().At(idx).Type()) {
		return "", false // an error result stays `helper(args)#k`: rules ask whether it is nil, not what it says
	}
	var rs []string
	nres := 0
	for _, ret := range returns(fn) {
		if idx >= len(ret.Results) {
			return "", false
		}
		v := ret.Results[idx]
		if k, ok := v.(*ssa.Const); ok {
			if k.Value == nil || k.Value.String() == "0" || k.Value.String() == "false" {
				if fn.Signature.Results().Len() > 1 {
					continue // filler next to an error / ok=false result
				}
			}
			return "", false // constant verdicts are followed by returns(), not rendered
		}
		nres++
		rs = append(rs, (&renderer{seen: map[ssa.Value]bool{}, depth: r.depth}).val(v))
	}
	sort.Strings(rs)
	rs = uniq(rs)
	if len(rs) != 1 || nres == 0 {
		return "", false
	}
	s := rs[0]
	if strings.Contains(s, "φ") || strings.Contains(s, "…") || strings.Contains(s, "&local:") {
		return "", false
	}
	// parameters → arguments (when the helper has one rendering per parameter they already are)
	for i, p := range fn.Params {
		if i < len(c.Args) {
			if _, ok := uniqueArg(r, p); !ok {
				s = replaceIdent(s, p.Name(), r.val(c.Args[i]))
			}
		}
	}
	return s, true
}

// liftTo: the instruction of fn through which ins is reached (ins itself when it is in fn).
func liftTo(ins ssa.Instruction, fn *ssa.Function) ssa.Instruction {
	for depth := 0; depth < 5; depth++ {
		if ins.Parent() == fn {
			return ins
		}
		h := ins.Parent()
		if !isNewHelper(h) {
			return ins
		}
		cs := gWorld.callersOfCached(h)
		var next ssa.Instruction
		for _, c := range cs {
			if c.Parent() == fn || isNewHelper(c.Parent()) {
				next = c.(ssa.Instruction)
				if c.Parent() == fn {
					break
				}
			}
		}
		if next == nil {
			return ins
		}
		ins = next
	}
	return ins
}

// contextFacts: facts that hold at every call site of the new helper containing `at`, phrased over
// the helper's own renderings (arguments replaced by parameter names where the parameter does not
// already render as the argument).
func (w *World) contextFacts(fn *ssa.Function, kill bool, depth int) []Fact {
	if depth > 3 || !isNewHelper(fn) {
		return nil
	}
	var common map[string]Fact
	sites := w.callersOfCached(fn)
	if via, ok := enteredBy[fn]; ok {
		sites = []ssa.CallInstruction{via}
	}
	for _, cs := range sites {
		ins := cs.(ssa.Instruction)
		fs := w.factsAtKD(ins, kill, depth+1)
		cur := map[string]Fact{}
		for _, f := range fs {
			x := f.Expr
			for i, p := range fn.Params {
				if i < len(cs.Common().Args) {
					a := render(cs.Common().Args[i])
					if a != p.Name() && render(p) == p.Name() && len(a) > 0 {
						x = strings.ReplaceAll(x, a, p.Name())
					}
				}
			}
			g := f
			g.Expr = x
			cur[x] = g
		}
		if common == nil {
			common = cur
		} else {
			for k := range common {
				if _, ok := cur[k]; !ok {
					delete(common, k)
				}
			}
		}
	}
	var out []Fact
	wr := w.fieldWrites(fn)
	for _, f := range common {
		killed := false
		if kill {
			for _, l := range f.loads {
				if fld := rootFieldOfLoad(l); fld != nil && wr[fld] {
					killed = true
				}
			}
		}
		if !killed {
			out = append(out, f)
		}
	}
	return out
}

// helperValue: when v is a result of a call to a new helper and every return yields the same SSA
// value for it (apart from nil/zero fillers), that value inside the helper — so that buffers and
// objects built in an extracted helper are seen as if built in place.
func helperValue(v ssa.Value) ssa.Value {
	var c *ssa.Call
	idx := 0
	switch x := v.(type) {
	case *ssa.Call:
		c = x
	case *ssa.Extract:
		cc, ok := x.Tuple.(*ssa.Call)
		if !ok {
			return nil
		}
		c, idx = cc, x.Index
	default:
		return nil
	}
	fn := helperCallee(c)
	if fn == nil {
		return nil
	}
	var inner ssa.Value
	for _, r := range returnsD(fn, 99) {
		if idx >= len(r.Results) {
			return nil
		}
		rv := r.Results[idx]
		if k, ok := rv.(*ssa.Const); ok && (k.Value == nil || k.Value.String() == "0") {
			continue
		}
		if inner != nil && inner != rv {
			return nil
		}
		inner = rv
	}
	return inner
}

// enteringArg: for a parameter of a new helper, the argument passed by the call through which the
// current rule reached the helper (see enteredBy).
func enteringArg(v ssa.Value) ssa.Value {
	p, ok := v.(*ssa.Parameter)
	if !ok || !isNewHelper(p.Parent()) {
		return nil
	}
	via, ok := enteredBy[p.Parent()]
	if !ok {
		return nil
	}
	idx := paramIndex(p.Parent(), p)
	if idx < 0 || idx >= len(via.Common().Args) {
		return nil
	}
	return via.Common().Args[idx]
}

// vocabHasMethod: does a function of the confirmed tree end with this (possibly shortened) name?
func vocabHasMethod(name string) bool {
	short := name
	if i := strings.LastIndex(short, "."); i >= 0 {
		short = short[i+1:]
	}
	for k := range vocab {
		if strings.HasSuffix(k, "."+short) {
			return true
		}
	}
	return false
}
