package main

import (
	"go/constant"
	"go/token"
	"go/types"
	"sort"
	"strings"

	"golang.org/x/tools/go/ssa"
)

// Virtual inlining of helpers that the rules do not know by name.
//
// The rules were written against the functions of the tree they were confirmed on (vocab.go lists
// them). A behaviour-preserving refactor often moves a few statements into a new unexported helper
// (or splits a function into wrapper + worker). For every module function that is NOT in the
// vocabulary the primitive queries behave as if the helper were inlined at its call sites:
//
//   instrs / cgoCalls / callsTo   also visit the helper's instructions at the call,
//   returns                        follows a tail call into the helper,
//   render                         prints a helper parameter as the caller's argument (when all call
//                                  sites pass the same expression) and a helper call whose result has
//                                  one defining expression as that expression,
//   factsAt                        adds the guards that hold at every call site of the helper,
//   instrDominates                 compares positions after lifting helper instructions to their call.
//
// Functions in the vocabulary are never expanded, so results on the confirmed tree are unchanged.

var gWorld *World

// knownByRole: functions a rule set located by their role (e.g. the DKG message intakes), whatever their name.
var knownByRole = map[*ssa.Function]bool{}

// transparent: one-expression predicates of the confirmed tree whose *name* carries no meaning for the
// rules; they are always expanded, so that renaming or inlining them changes nothing.
var transparent = map[string]bool{
	"(*github.com/onflow/crypto.blsThresholdSignatureInspector).hasShare":     true,
	"(*github.com/onflow/crypto.blsThresholdSignatureInspector).enoughShares": true,
}

func isNewHelper(fn *ssa.Function) bool {
	if fn == nil || fn.Blocks == nil || fn.Synthetic != "" || !inModule(fn) || gWorld == nil {
		return false
	}
	if fn.Parent() != nil { // closures are visited with their parent
		return false
	}
	if vocab[fn.String()] && !transparent[fn.String()] {
		return false
	}
	if knownByRole[fn] {
		return false
	}
	if token.IsExported(fn.Name()) {
		return false
	}
	if isTestFile(gWorld, fn.Pos()) {
		return false
	}
	if len(fn.Blocks) > 40 {
		return false
	}
	return len(gWorld.callersOfCached(fn)) > 0
}

func (w *World) callersOfCached(fn *ssa.Function) []ssa.CallInstruction {
	if w.callerIdx == nil {
		w.callerIdx = map[*ssa.Function][]ssa.CallInstruction{}
		for _, f := range w.moduleFuncs() {
			if isTestFile(w, f.Pos()) {
				continue
			}
			for _, b := range f.Blocks {
				for _, ins := range b.Instrs {
					if c, ok := ins.(ssa.CallInstruction); ok {
						if callee := c.Common().StaticCallee(); callee != nil && inModule(callee) {
							w.callerIdx[callee] = append(w.callerIdx[callee], c)
						}
					}
				}
			}
		}
	}
	return w.callerIdx[fn]
}

// helperCallee: the new helper called by this instruction, if any.
func helperCallee(ins ssa.Instruction) *ssa.Function {
	c, ok := ins.(ssa.CallInstruction)
	if !ok {
		return nil
	}
	if _, isDefer := ins.(*ssa.Defer); isDefer {
		return nil
	}
	if _, isGo := ins.(*ssa.Go); isGo {
		return nil
	}
	f := c.Common().StaticCallee()
	if isNewHelper(f) {
		return f
	}
	return nil
}

// visitDeep iterates fn's instructions and, at calls of new helpers, the helpers' instructions.
func visitDeep(fn *ssa.Function, f func(ssa.Instruction), stack map[*ssa.Function]bool) {
	visitDeepC(fn, f, stack, nil)
}

// enteredBy: for an instruction of a new helper, the call through which the most recent deep visit
// (instrs / cgoCalls / callsTo started at some entry function) reached the helper. Guards are then
// taken along that call chain rather than over all callers of the helper: a helper shared by two
// entry points is judged in the context of the entry the rule is looking at.
var enteredBy = map[*ssa.Function]ssa.CallInstruction{}

func visitDeepC(fn *ssa.Function, f func(ssa.Instruction), stack map[*ssa.Function]bool, via ssa.CallInstruction) {
	if stack[fn] || len(stack) > 4 {
		return
	}
	stack[fn] = true
	defer delete(stack, fn)
	var dead map[*ssa.BasicBlock]bool
	if via != nil {
		enteredBy[fn] = via
		dead = infeasibleBlocks(fn)
	}
	for _, b := range fn.Blocks {
		if dead[b] {
			continue
		}
		for _, ins := range b.Instrs {
			f(ins)
			if h := helperCallee(ins); h != nil {
				visitDeepC(h, f, stack, ins.(ssa.CallInstruction))
			}
			// function literals written in this function (handed to a worker such as forEach(func(x){…})) are part of
			// its body: what they do is what the function does, possibly several times
			for _, op := range ins.Operands(nil) {
				if op == nil || *op == nil {
					continue
				}
				var lit *ssa.Function
				switch x := (*op).(type) {
				case *ssa.MakeClosure:
					lit, _ = x.Fn.(*ssa.Function)
				case *ssa.Function:
					if x.Parent() == fn {
						lit = x
					}
				}
				if _, isMC := ins.(*ssa.MakeClosure); isMC {
					continue // visited where the closure value is used
				}
				if lit != nil && lit.Parent() == fn && lit.Blocks != nil {
					visitDeepC(lit, f, stack, nil)
				}
			}
		}
	}
}

// uniqueArg: the caller-side rendering of parameter i of a new helper when every call site passes
// an expression that renders identically.
func uniqueArg(r *renderer, p *ssa.Parameter) (string, bool) {
	fn := p.Parent()
	if !isNewHelper(fn) {
		return "", false
	}
	idx := paramIndex(fn, p)
	if idx < 0 {
		return "", false
	}
	var rs []string
	sites := gWorld.callersOfCached(fn)
	if via, ok := enteredBy[fn]; ok {
		sites = []ssa.CallInstruction{via} // the entry the current rule is looking at
	}
	for _, cs := range sites {
		args := cs.Common().Args
		if idx >= len(args) {
			return "", false
		}
		rs = append(rs, r.val(args[idx]))
	}
	sort.Strings(rs)
	rs = uniq(rs)
	if len(rs) == 1 && !strings.Contains(rs[0], "φ") && !strings.Contains(rs[0], "…") {
		return rs[0], true
	}
	return "", false
}

// helperResult: rendering of result idx of a call to a new helper when, over all returns, the
// non-filler values (not nil / zero / false constants) render to one expression over parameters.
func helperResult(r *renderer, call *ssa.Call, idx int) (string, bool) {
	c := &call.Call
	fn := c.StaticCallee()
	if !isNewHelper(fn) || fn.Signature.Results().Len() <= idx {
		return "", false
	}
	// the helper is looked at through this very call: its parameters stand for this call's arguments, whatever entry a
	// previous traversal left behind
	if old, had := enteredBy[fn]; had {
		defer func() { enteredBy[fn] = old }()
	} else {
		defer delete(enteredBy, fn)
	}
	enteredBy[fn] = call
	if isErrorType(fn.Signature.Results().At(idx).Type()) {
		return "", false // an error result stays `helper(args)#k`: rules ask whether it is nil, not what it says
	}
	var rs []string
	nres := 0
	for _, ret := range returns(fn) {
		if idx >= len(ret.Results) {
			return "", false
		}
		v := ret.Results[idx]
		if k, ok := v.(*ssa.Const); ok {
			if k.Value == nil || k.Value.String() == "0" || k.Value.String() == "false" {
				if fn.Signature.Results().Len() > 1 {
					continue // filler next to an error / ok=false result
				}
			}
			return "", false // constant verdicts are followed by returns(), not rendered
		}
		nres++
		rs = append(rs, (&renderer{seen: map[ssa.Value]bool{}, depth: r.depth}).val(v))
	}
	sort.Strings(rs)
	rs = uniq(rs)
	if len(rs) != 1 || nres == 0 {
		return "", false
	}
	s := rs[0]
	if strings.Contains(s, "φ") || strings.Contains(s, "…") || strings.Contains(s, "&local:") {
		return "", false
	}
	// parameters → arguments (when the helper has one rendering per parameter they already are)
	for i, p := range fn.Params {
		if i < len(c.Args) {
			if _, ok := uniqueArg(r, p); !ok {
				s = replaceIdent(s, p.Name(), r.val(c.Args[i]))
			}
		}
	}
	return s, true
}

// liftTo: the instruction of fn through which ins is reached (ins itself when it is in fn).
func liftTo(ins ssa.Instruction, fn *ssa.Function) ssa.Instruction {
	for depth := 0; depth < 5; depth++ {
		if ins.Parent() == fn {
			return ins
		}
		h := ins.Parent()
		if !isNewHelper(h) {
			return ins
		}
		cs := gWorld.callersOfCached(h)
		var next ssa.Instruction
		for _, c := range cs {
			if c.Parent() == fn || isNewHelper(c.Parent()) {
				next = c.(ssa.Instruction)
				if c.Parent() == fn {
					break
				}
			}
		}
		if next == nil {
			return ins
		}
		ins = next
	}
	return ins
}

// contextFacts: facts that hold at every call site of the new helper containing `at`, phrased over
// the helper's own renderings (arguments replaced by parameter names where the parameter does not
// already render as the argument).
func (w *World) contextFacts(fn *ssa.Function, kill bool, depth int) []Fact {
	if depth > 3 || !isNewHelper(fn) {
		return nil
	}
	var common map[string]Fact
	sites := w.callersOfCached(fn)
	if via, ok := enteredBy[fn]; ok {
		sites = []ssa.CallInstruction{via}
	}
	for _, cs := range sites {
		ins := cs.(ssa.Instruction)
		fs := w.factsAtKD(ins, kill, depth+1)
		cur := map[string]Fact{}
		for _, f := range fs {
			x := f.Expr
			for i, p := range fn.Params {
				if i < len(cs.Common().Args) {
					a := render(cs.Common().Args[i])
					if a != p.Name() && render(p) == p.Name() && len(a) > 0 {
						x = strings.ReplaceAll(x, a, p.Name())
					}
				}
			}
			g := f
			g.Expr = x
			cur[x] = g
		}
		if common == nil {
			common = cur
		} else {
			for k := range common {
				if _, ok := cur[k]; !ok {
					delete(common, k)
				}
			}
		}
	}
	var out []Fact
	wr := w.fieldWrites(fn)
	for _, f := range common {
		killed := false
		if kill {
			for _, l := range f.loads {
				if fld := rootFieldOfLoad(l); fld != nil && wr[fld] {
					killed = true
				}
			}
		}
		if !killed {
			out = append(out, f)
		}
	}
	return out
}

// helperValue: when v is a result of a call to a new helper and every return yields the same SSA
// value for it (apart from nil/zero fillers), that value inside the helper — so that buffers and
// objects built in an extracted helper are seen as if built in place.
func helperValue(v ssa.Value) ssa.Value {
	var c *ssa.Call
	idx := 0
	switch x := v.(type) {
	case *ssa.Call:
		c = x
	case *ssa.Extract:
		cc, ok := x.Tuple.(*ssa.Call)
		if !ok {
			return nil
		}
		c, idx = cc, x.Index
	default:
		return nil
	}
	fn := helperCallee(c)
	if fn == nil {
		return nil
	}
	var inner ssa.Value
	for _, r := range returnsD(fn, 99) {
		if idx >= len(r.Results) {
			return nil
		}
		rv := r.Results[idx]
		if k, ok := rv.(*ssa.Const); ok && (k.Value == nil || k.Value.String() == "0") {
			continue
		}
		if inner != nil && inner != rv {
			return nil
		}
		inner = rv
	}
	return inner
}

// enteringArg: for a parameter of a new helper, the argument passed by the call through which the
// current rule reached the helper (see enteredBy).
func enteringArg(v ssa.Value) ssa.Value {
	p, ok := v.(*ssa.Parameter)
	if !ok || !isNewHelper(p.Parent()) {
		return nil
	}
	via, ok := enteredBy[p.Parent()]
	if !ok {
		return nil
	}
	idx := paramIndex(p.Parent(), p)
	if idx < 0 || idx >= len(via.Common().Args) {
		return nil
	}
	return via.Common().Args[idx]
}

// vocabHasMethod: does a function of the confirmed tree end with this (possibly shortened) name?
func vocabHasMethod(name string) bool {
	short := name
	if i := strings.LastIndex(short, "."); i >= 0 {
		short = short[i+1:]
	}
	for k := range vocab {
		if strings.HasSuffix(k, "."+short) {
			return true
		}
	}
	return false
}

// ---- virtual returns: named results / single-exit style ---------------------------------------
//
// `ok, err = false, e; …; return ok, err` compiles to one Return whose results are phis. Rules reason
// about "each way out of the function" (its value and the guards on its path), so such a Return is
// presented as one virtual Return per incoming edge, carrying that edge's values; its position for
// dominance / fact queries is the end of the predecessor block (plus the edge's own condition).

type virtRet struct {
	pred, succ *ssa.BasicBlock
	real       *ssa.Return
}

var virtReturns = map[*ssa.Return]virtRet{}
var virtCache = map[*ssa.Return][]*ssa.Return{}

// locOf maps a virtual return to the instruction that stands for its position.
func locOf(ins ssa.Instruction) ssa.Instruction {
	if r, ok := ins.(*ssa.Return); ok {
		if v, ok := virtReturns[r]; ok {
			if v.succ == nil {
				return v.real // stands exactly where the real return stands
			}
			return v.pred.Instrs[len(v.pred.Instrs)-1]
		}
	}
	return ins
}

// splitReturn: virtual returns of r, or nil when r's results are not merged from several edges.
func splitReturn(r *ssa.Return) []*ssa.Return {
	if vs, ok := virtCache[r]; ok {
		return vs
	}
	virtCache[r] = nil
	b := r.Block()
	if b == nil || len(b.Preds) < 2 {
		return nil
	}
	hasPhi := false
	for _, v := range r.Results {
		if ph, ok := v.(*ssa.Phi); ok && ph.Block() == b {
			hasPhi = true
		}
	}
	if !hasPhi {
		return nil
	}
	// the block only merges and returns (phis, debug refs, deferred-call epilogue are fine; other work is not)
	for _, ins := range b.Instrs {
		switch ins.(type) {
		case *ssa.Phi, *ssa.DebugRef, *ssa.Return, *ssa.RunDefers:
		default:
			return nil
		}
	}
	var out []*ssa.Return
	var expand func(blk *ssa.BasicBlock, vals []ssa.Value, succ *ssa.BasicBlock, depth int)
	expand = func(blk *ssa.BasicBlock, vals []ssa.Value, succ *ssa.BasicBlock, depth int) {
		// blk -> succ edge with result values vals; if blk itself only merges (phis + jump) and a value is one of its phis, split further
		onlyMerge := depth < 3 && len(blk.Preds) >= 2
		if onlyMerge {
			for _, ins := range blk.Instrs {
				switch ins.(type) {
				case *ssa.Phi, *ssa.DebugRef, *ssa.Jump:
				default:
					onlyMerge = false
				}
			}
		}
		usesPhi := false
		if onlyMerge {
			for _, v := range vals {
				if ph, ok := v.(*ssa.Phi); ok && ph.Block() == blk {
					usesPhi = true
				}
			}
		}
		if onlyMerge && usesPhi {
			for i, p := range blk.Preds {
				nv := make([]ssa.Value, len(vals))
				for j, v := range vals {
					if ph, ok := v.(*ssa.Phi); ok && ph.Block() == blk {
						nv[j] = ph.Edges[i]
					} else {
						nv[j] = v
					}
				}
				expand(p, nv, blk, depth+1)
			}
			return
		}
		vr := &ssa.Return{Results: vals}
		virtReturns[vr] = virtRet{pred: blk, succ: succ, real: r}
		out = append(out, vr)
	}
	for i, p := range b.Preds {
		vals := make([]ssa.Value, len(r.Results))
		for j, v := range r.Results {
			if ph, ok := v.(*ssa.Phi); ok && ph.Block() == b {
				vals[j] = ph.Edges[i]
			} else {
				vals[j] = v
			}
		}
		expand(p, vals, b, 0)
	}
	virtCache[r] = out
	return out
}

// retPos: source position of a (possibly virtual) return.
func retPos(r *ssa.Return) token.Pos {
	if v, ok := virtReturns[r]; ok {
		return v.real.Pos()
	}
	return r.Pos()
}

// retParent: function of a (possibly virtual) return.
func retParent(r *ssa.Return) *ssa.Function {
	if v, ok := virtReturns[r]; ok {
		return v.real.Parent()
	}
	return r.Parent()
}

// ---- values carried in local structs -----------------------------------------------------------
//
// A refactor that groups intermediate values in a small struct (returned by a helper, filled through
// a pointer, or just a local) must not hide them: a load of field f of a local struct is the value
// stored into that field, when that store is unique.

// fieldSourceOf: the value stored into field `field` of the struct allocated by al, if unique.
// Looks through a single whole-struct store (`*al = helper()` / `*al = *other`) and through new
// helpers that receive al and fill the field through their parameter.
// newStructType: is t (the struct a local holds) a type the rules do not know — introduced by a refactor?
func newStructType(t types.Type) bool {
	t = deref(t)
	n, ok := t.(*types.Named)
	if !ok {
		_, isStruct := t.Underlying().(*types.Struct)
		return isStruct // anonymous struct
	}
	if _, isStruct := n.Underlying().(*types.Struct); !isStruct {
		return false
	}
	if n.Obj().Pkg() == nil || !strings.HasPrefix(n.Obj().Pkg().Path(), rootPath) {
		return false
	}
	return !typeVocab[n.Obj().Pkg().Path()+"."+n.Obj().Name()]
}

// resolveKnownStructs: set by a rule while it renders values that may have been parked in a field of a local object of a
// known struct type before reaching the point of use (restore paths that fill the core first and key the cipher from it)
var resolveKnownStructs bool

func fieldSourceOf(al *ssa.Alloc, field int, depth int) ssa.Value {
	if al == nil || depth > 4 || al.Referrers() == nil {
		return nil
	}
	if !newStructType(al.Type()) && !resolveKnownStructs {
		return nil // structs of the confirmed tree keep their field names in renderings
	}
	var srcs []ssa.Value
	var whole []ssa.Value
	for _, ref := range *al.Referrers() {
		switch x := ref.(type) {
		case *ssa.FieldAddr:
			if x.X != ssa.Value(al) || x.Field != field || x.Referrers() == nil {
				continue
			}
			for _, r2 := range *x.Referrers() {
				switch y := r2.(type) {
				case *ssa.Store:
					if y.Addr == ssa.Value(x) {
						srcs = append(srcs, y.Val)
					}
				case ssa.CallInstruction:
					// &s.f handed to a callee that may fill it: not a plain value any more
					for _, a := range y.Common().Args {
						if a == ssa.Value(x) {
							if _, isB := y.Common().Value.(*ssa.Builtin); !isB {
								srcs = append(srcs, nil)
							}
						}
					}
				}
			}
		case *ssa.Store:
			if x.Addr == ssa.Value(al) {
				whole = append(whole, x.Val)
			}
		case ssa.CallInstruction:
			// the struct is handed (by address) to a helper that fills it
			if h := helperCallee(ref); h != nil {
				for j, a := range x.Common().Args {
					if a == ssa.Value(al) && j < len(h.Params) {
						srcs = append(srcs, paramFieldStores(h.Params[j], field, depth+1)...)
					}
				}
			}
		}
	}
	for _, s := range srcs {
		if s == nil {
			return nil
		}
	}
	if len(srcs) == 1 && len(whole) == 0 {
		return srcs[0]
	}
	if len(srcs) == 0 && len(whole) == 1 {
		return fieldOfValue(whole[0], field, depth+1)
	}
	return nil
}

// paramFieldStores: values a helper stores into field `field` of the struct its parameter points to.
func paramFieldStores(p *ssa.Parameter, field int, depth int) []ssa.Value {
	var out []ssa.Value
	if p.Referrers() == nil || depth > 4 {
		return out
	}
	for _, ref := range *p.Referrers() {
		switch x := ref.(type) {
		case *ssa.FieldAddr:
			if x.Field != field || x.Referrers() == nil {
				continue
			}
			for _, r2 := range *x.Referrers() {
				if st, ok := r2.(*ssa.Store); ok && st.Addr == ssa.Value(x) {
					out = append(out, st.Val)
				}
			}
		case *ssa.Store:
			if x.Addr == ssa.Value(p) {
				if v := fieldOfValue(x.Val, field, depth+1); v != nil {
					out = append(out, v)
				} else {
					out = append(out, nil)
				}
			}
		case ssa.CallInstruction:
			if h := helperCallee(ref); h != nil {
				for j, a := range x.Common().Args {
					if a == ssa.Value(p) && j < len(h.Params) {
						out = append(out, paramFieldStores(h.Params[j], field, depth+1)...)
					}
				}
			}
		}
	}
	return out
}

// fieldOfValue: field `field` of a struct *value* (result of a new helper, load of a local struct).
func fieldOfValue(v ssa.Value, field int, depth int) ssa.Value {
	if depth > 5 {
		return nil
	}
	switch x := v.(type) {
	case *ssa.UnOp:
		if x.Op == token.MUL {
			if al, ok := x.X.(*ssa.Alloc); ok {
				return fieldSourceOf(al, field, depth+1)
			}
		}
	case *ssa.Call, *ssa.Extract:
		if in := helperValue(v); in != nil {
			return fieldOfValue(in, field, depth+1)
		}
	case *ssa.Phi:
		var one ssa.Value
		for _, e := range x.Edges {
			f := fieldOfValue(e, field, depth+1)
			if f == nil || one != nil && f != one {
				return nil
			}
			one = f
		}
		return one
	}
	return nil
}

// loadSource: for a load of a field of a local struct (or a field of a struct value), the value that was stored there.
func loadSource(v ssa.Value) ssa.Value {
	switch x := v.(type) {
	case *ssa.UnOp:
		if x.Op != token.MUL {
			return nil
		}
		// load of a local variable right after it was assigned in the same block (`v, err := f(); if err != nil` with err a
		// named result kept in a stack cell): the value assigned
		if al, ok := x.X.(*ssa.Alloc); ok && !al.Heap {
			blk := x.Block()
			var last ssa.Value
			for _, ins := range blk.Instrs {
				if ins == ssa.Instruction(x) {
					break
				}
				if st, ok := ins.(*ssa.Store); ok && st.Addr == ssa.Value(al) {
					last = st.Val
				}
			}
			if last != nil {
				if _, isLoad := last.(*ssa.UnOp); !isLoad {
					return last
				}
			}
			return nil
		}
		if fa, ok := x.X.(*ssa.FieldAddr); ok {
			switch b := fa.X.(type) {
			case *ssa.Alloc:
				return fieldSourceOf(b, fa.Field, 0)
			case *ssa.Call, *ssa.Extract:
				// pointer to a struct built by a new helper (`st := newState(...)` returning *T)
				if in := helperValue(b); in != nil {
					if al, ok := in.(*ssa.Alloc); ok {
						return fieldSourceOf(al, fa.Field, 0)
					}
				}
			case *ssa.Parameter:
				// helper receiving the caller's struct by address: what the caller stored there
				if up := enteringArg(b); up != nil {
					if al, ok := up.(*ssa.Alloc); ok {
						return fieldSourceOf(al, fa.Field, 0)
					}
				}
			}
		}
	case *ssa.Field:
		return fieldOfValue(x.X, x.Field, 0)
	}
	return nil
}

// structTail: `res := helper(args); return res.a, res.b` — the results are fields of the struct a new
// helper returned. Presented as the helper's own returns with the fields taken apart (zero value for
// a field the helper's composite literal leaves out).
func structTail(r *ssa.Return, depth int) []*ssa.Return {
	if len(r.Results) == 0 || depth > 2 {
		return nil
	}
	var call *ssa.Call
	fields := make([]int, len(r.Results))
	for j, v := range r.Results {
		fields[j] = -1
		if _, isC := v.(*ssa.Const); isC {
			continue
		}
		var c *ssa.Call
		var fld int
		switch x := v.(type) {
		case *ssa.Field:
			cc, ok := x.X.(*ssa.Call)
			if !ok {
				return nil
			}
			c, fld = cc, x.Field
		case *ssa.UnOp:
			fa, ok := x.X.(*ssa.FieldAddr)
			if !ok || x.Op != token.MUL {
				return nil
			}
			al, ok := fa.X.(*ssa.Alloc)
			if !ok || al.Referrers() == nil {
				return nil
			}
			var whole []ssa.Value
			for _, ref := range *al.Referrers() {
				switch y := ref.(type) {
				case *ssa.Store:
					if y.Addr == ssa.Value(al) {
						whole = append(whole, y.Val)
					}
				case *ssa.FieldAddr:
					for _, r2 := range *y.Referrers() {
						if st, ok := r2.(*ssa.Store); ok && st.Addr == ssa.Value(y) {
							return nil
						}
					}
				}
			}
			if len(whole) != 1 {
				return nil
			}
			cc, ok := whole[0].(*ssa.Call)
			if !ok {
				return nil
			}
			c, fld = cc, fa.Field
		default:
			return nil
		}
		if call != nil && c != call {
			return nil
		}
		call, fields[j] = c, fld
	}
	if call == nil {
		return nil
	}
	h := helperCallee(call)
	if h == nil || h.Signature.Results().Len() != 1 {
		return nil
	}
	st, ok := deref(h.Signature.Results().At(0).Type()).Underlying().(*types.Struct)
	if !ok {
		return nil
	}
	var out []*ssa.Return
	for _, hr := range returnsD(h, depth+1) {
		if len(hr.Results) != 1 {
			return nil
		}
		vals := make([]ssa.Value, len(r.Results))
		for j, v := range r.Results {
			if fields[j] < 0 {
				vals[j] = v
				continue
			}
			fv := fieldOfValue(hr.Results[0], fields[j], 0)
			if fv == nil {
				// field not set by the helper on this way out: zero value
				fv = ssa.NewConst(nil, st.Field(fields[j]).Type())
				if b, isB := st.Field(fields[j]).Type().Underlying().(*types.Basic); isB {
					switch {
					case b.Info()&types.IsBoolean != 0:
						fv = ssa.NewConst(constant.MakeBool(false), st.Field(fields[j]).Type())
					case b.Info()&types.IsInteger != 0:
						fv = ssa.NewConst(constant.MakeInt64(0), st.Field(fields[j]).Type())
					}
				}
			}
			vals[j] = fv
		}
		vr := &ssa.Return{Results: vals}
		if v, isV := virtReturns[hr]; isV {
			virtReturns[vr] = v
		} else {
			// positioned at the helper's own return
			virtReturns[vr] = virtRet{pred: hr.Block(), succ: nil, real: hr}
		}
		out = append(out, vr)
	}
	return out
}

// infeasibleIn: blocks of a new helper that cannot execute for the call through which it was entered,
// because they are guarded by a parameter the call binds to a constant of the other value
// (`worker(x, true)` never runs the `if !flag` branch).
func infeasibleBlocks(h *ssa.Function) map[*ssa.BasicBlock]bool {
	out := map[*ssa.BasicBlock]bool{}
	if gWorld == nil || !isNewHelper(h) {
		return out
	}
	if _, ok := enteredBy[h]; !ok {
		return out
	}
	for _, b := range h.Blocks {
		if len(b.Instrs) == 0 {
			continue
		}
		for _, f := range gWorld.factsAtKD(b.Instrs[0], false, 2) {
			if f.Expr == "false == true" || f.Expr == "true == false" {
				out[b] = true
			}
		}
	}
	return out
}
