package main

import (
	"fmt"
	"go/token"
	"go/types"
	"sort"
	"strings"

	"golang.org/x/tools/go/ssa"
)

func init() { register("C18", ruleC18) }

const (
	lkTop  = -1 // not yet computed
	lkNone = 0
	lkR    = 1
	lkW    = 2
)

func lkName(s int) string {
	return map[int]string{lkTop: "⊤", lkNone: "unlocked", lkR: "read-locked", lkW: "write-locked"}[s]
}

func meetLk(a, b int) int {
	if a == lkTop {
		return b
	}
	if b == lkTop {
		return a
	}
	if a < b { // unlocked < read-locked < write-locked: what is held on every path
		return a
	}
	return b
}

type lockAnalysis struct {
	w        *World
	T        *types.Named
	lockFld  *types.Var
	methods  []*ssa.Function         // all module functions touching T (methods of T and of embedders)
	entry    map[*ssa.Function]int   // must-held state on entry
	at       map[ssa.Instruction]int // state before each instruction
	acquires map[*ssa.Function][]ssa.Instruction
}

// isLockCall classifies calls on the inspector's mutex field.
func (la *lockAnalysis) lockOp(ins ssa.Instruction) (op string, deferred bool) {
	var cc *ssa.CallCommon
	switch x := ins.(type) {
	case *ssa.Call:
		cc = &x.Call
	case *ssa.Defer:
		cc = &x.Call
		deferred = true
	default:
		return "", false
	}
	f := cc.StaticCallee()
	if f == nil || f.Pkg == nil || f.Pkg.Pkg.Path() != "sync" || len(cc.Args) == 0 {
		return "", false
	}
	if rootField(cc.Args[0]) != la.lockFld {
		if fa, ok := cc.Args[0].(*ssa.FieldAddr); !ok || addrField(fa) != la.lockFld {
			return "", false
		}
	}
	switch f.Name() {
	case "Lock", "RLock", "Unlock", "RUnlock", "TryLock", "TryRLock":
		return f.Name(), deferred
	}
	return "", false
}

func (la *lockAnalysis) run(fn *ssa.Function, entry int) {
	in := map[*ssa.BasicBlock]int{}
	out := map[*ssa.BasicBlock]int{}
	for _, b := range fn.Blocks {
		in[b], out[b] = lkTop, lkTop
	}
	if len(fn.Blocks) == 0 {
		return
	}
	in[fn.Blocks[0]] = entry
	for changed := true; changed; {
		changed = false
		for _, b := range fn.Blocks {
			st := in[b]
			if b != fn.Blocks[0] {
				st = lkTop
				for _, p := range b.Preds {
					st = meetLk(st, out[p])
				}
			}
			if st != in[b] {
				in[b] = st
				changed = true
			}
			cur := st
			for _, ins := range b.Instrs {
				la.at[ins] = cur
				op, def := la.lockOp(ins)
				if def {
					continue // deferred unlock: lock stays held until the function returns
				}
				switch op {
				case "Lock":
					cur = lkW
				case "RLock":
					cur = lkR
				case "Unlock", "RUnlock":
					cur = lkNone
				}
			}
			if cur != out[b] {
				out[b] = cur
				changed = true
			}
		}
	}
}

// emitAddRefusals: set by ruleC06 while it borrows this rule's access model (C06.R8)
var emitAddRefusals bool

func ruleC18(w *World) {
	w.floor("C18.R1", 8)
	w.floor("C18.R2", 8)
	w.floor("C18.R4", 3)
	w.floor("C18.R5", 1)
	// anchor: implementation of ThresholdSignatureInspector that has a sync mutex field
	var T *types.Named
	var lockFld *types.Var
	for _, t := range w.implementors(rootPath, "ThresholdSignatureInspector", rootPath) {
		for _, f := range structFields(t) {
			ts := f.Type().String()
			if ts == "sync.RWMutex" || ts == "sync.Mutex" {
				T, lockFld = t, f
			}
		}
	}
	if T == nil {
		w.undecided("C18.R1", "anchor:inspector", token.NoPos, "unresolved anchor: no ThresholdSignatureInspector implementation with a sync mutex field")
		return
	}
	la := &lockAnalysis{w: w, T: T, lockFld: lockFld, entry: map[*ssa.Function]int{}, at: map[ssa.Instruction]int{}, acquires: map[*ssa.Function][]ssa.Instruction{}}
	// the types that embed the inspector (the participant) share its mutex: their own fields are state of the same
	// concurrently used object
	var embedders []*types.Named
	if p := w.ByPath[rootPath]; p != nil {
		for _, n := range p.Types.Scope().Names() {
			tn, ok := p.Types.Scope().Lookup(n).(*types.TypeName)
			if !ok {
				continue
			}
			nt, ok := tn.Type().(*types.Named)
			if !ok || nt == T {
				continue
			}
			if st, ok := nt.Underlying().(*types.Struct); ok {
				for i := 0; i < st.NumFields(); i++ {
					if st.Field(i).Embedded() && types.Identical(deref(st.Field(i).Type()), T) {
						embedders = append(embedders, nt)
					}
				}
			}
		}
	}
	fieldOfT := func(v *types.Var) bool {
		for _, f := range structFields(T) {
			if f == v {
				return true
			}
		}
		for _, e := range embedders {
			for _, f := range structFields(e) {
				if f == v && !(f.Embedded() && types.Identical(deref(f.Type()), T)) {
					return true
				}
			}
		}
		return false
	}
	// functions that touch fields of T
	ctor := map[*ssa.Function]bool{}
	var fns []*ssa.Function
	for _, fn := range w.srcFuncs(rootPath) {
		if isTestFile(w, fn.Pos()) {
			continue
		}
		touches := false
		instrsFlat(fn, func(ins ssa.Instruction) {
			switch x := ins.(type) {
			case *ssa.FieldAddr:
				if fieldOfT(addrField(x)) {
					touches = true
				}
			case *ssa.Alloc:
				if types.Identical(deref(x.Type()), T) {
					ctor[fn] = true
				}
				for _, e := range embedders {
					if types.Identical(deref(x.Type()), e) {
						ctor[fn] = true
					}
				}
			}
		})
		// every method of the inspector (or of a type embedding it) belongs to the set, even if it only calls helpers
		if fn.Signature.Recv() != nil {
			rt := deref(fn.Signature.Recv().Type())
			if types.Identical(rt, T) {
				touches = true
			} else if st, ok := rt.Underlying().(*types.Struct); ok {
				for i := 0; i < st.NumFields(); i++ {
					if st.Field(i).Embedded() && types.Identical(deref(st.Field(i).Type()), T) {
						touches = true
					}
				}
			}
		}
		if touches {
			fns = append(fns, fn)
		}
	}
	la.methods = fns
	// guarded fields: stored or mutated outside the constructor
	guarded := map[*types.Var][]string{}
	type access struct {
		fn    *ssa.Function
		ins   ssa.Instruction
		fld   *types.Var
		write bool
		what  string
	}
	var accs []access
	for _, fn := range fns {
		instrsFlat(fn, func(ins ssa.Instruction) {
			switch x := ins.(type) {
			case *ssa.Store:
				if f := rootField(x.Addr); f != nil && fieldOfT(f) && f != lockFld {
					accs = append(accs, access{fn, ins, f, true, "store"})
				}
			case *ssa.MapUpdate:
				if f := rootFieldOfLoad(x.Map); f != nil && fieldOfT(f) {
					accs = append(accs, access{fn, ins, f, true, "map update"})
				}
			case *ssa.UnOp:
				if x.Op == token.MUL {
					if f := addrField(x.X); f != nil && fieldOfT(f) && f != lockFld {
						accs = append(accs, access{fn, ins, f, false, "load"})
					}
				}
			case *ssa.Call:
				if b, ok := x.Call.Value.(*ssa.Builtin); ok && (b.Name() == "delete" || b.Name() == "clear") {
					if f := rootFieldOfLoad(x.Call.Args[0]); f != nil && fieldOfT(f) {
						accs = append(accs, access{fn, ins, f, true, b.Name()})
					}
				}
			}
		})
	}
	for _, a := range accs {
		if a.write && !ctor[a.fn] {
			guarded[a.fld] = append(guarded[a.fld], fnKey(a.fn))
		}
	}
	var gnames []string
	for f := range guarded {
		gnames = append(gnames, f.Name())
	}
	sort.Strings(gnames)
	w.out.Notes = append(w.out.Notes, fmt.Sprintf("C18: inspector type %s, mutex field %s, guarded (mutated outside the constructor) fields: %v", T.Obj().Name(), lockFld.Name(), gnames))
	if len(gnames) < 2 {
		w.undecided("C18.R1", "guarded-fields", T.Obj().Pos(), fmt.Sprintf("expected at least the share map and the cached signature to be mutable, found %v", gnames))
	}
	// entry points: functions not called from other functions of the set (exported API); helpers inherit
	callersIn := map[*ssa.Function][]ssa.CallInstruction{}
	inSet := map[*ssa.Function]bool{}
	for _, fn := range fns {
		inSet[fn] = true
	}
	for _, fn := range fns {
		instrsFlat(fn, func(ins ssa.Instruction) {
			if c, ok := ins.(ssa.CallInstruction); ok {
				if callee := c.Common().StaticCallee(); callee != nil && inSet[callee] {
					callersIn[callee] = append(callersIn[callee], c)
				}
			}
		})
	}
	isEntry := func(fn *ssa.Function) bool {
		return fn.Object() != nil && fn.Object().Exported() || len(callersIn[fn]) == 0
	}
	for _, fn := range fns {
		if isEntry(fn) {
			la.entry[fn] = lkNone
		} else {
			la.entry[fn] = lkTop
		}
	}
	for iter := 0; iter < 6; iter++ {
		for _, fn := range fns {
			e := la.entry[fn]
			if e == lkTop {
				continue
			}
			la.run(fn, e)
		}
		changed := false
		for _, fn := range fns {
			if isEntry(fn) {
				continue
			}
			st := lkTop
			for _, c := range callersIn[fn] {
				if s, ok := la.at[c.(ssa.Instruction)]; ok {
					st = meetLk(st, s)
				}
			}
			if st != la.entry[fn] {
				la.entry[fn] = st
				changed = true
			}
		}
		if !changed {
			break
		}
	}
	// for helpers: which callers reach them without (enough of) the lock
	weakCallers := func(fn *ssa.Function, need int) string {
		var out []string
		for _, c := range callersIn[fn] {
			if st, ok := la.at[c.(ssa.Instruction)]; ok && st < need {
				out = append(out, fmt.Sprintf("%s at %s (%s)", fnKey(c.Parent()), w.pos(c.Pos()), lkName(st)))
			}
		}
		if len(out) == 0 {
			return ""
		}
		return "; called from " + strings.Join(out, ", ")
	}
	// R1: every access to a guarded field is inside a critical section (writes: exclusive)
	for _, a := range accs {
		if _, g := guarded[a.fld]; !g || ctor[a.fn] {
			continue
		}
		st, ok := la.at[a.ins]
		if !ok {
			st = lkNone
		}
		key := fmt.Sprintf("%s/%s:%s", fnKey(a.fn), a.what, a.fld.Name())
		if a.write {
			w.check(st == lkW, "C18.R1", key, a.ins.Pos(), "mutation under the exclusive lock", fmt.Sprintf("field `%s` is mutated (%s) while the mutex is %s (entry state of %s: %s%s)", a.fld.Name(), a.what, lkName(st), fnKey(a.fn), lkName(la.entry[a.fn]), weakCallers(a.fn, lkW)))
		} else {
			w.check(st == lkW || st == lkR, "C18.R1", key, a.ins.Pos(), "read under the lock", fmt.Sprintf("field `%s` is read while the mutex is %s (entry state of %s: %s%s) — a check-then-act gap or data race under concurrent use", a.fld.Name(), lkName(st), fnKey(a.fn), lkName(la.entry[a.fn]), weakCallers(a.fn, lkR)))
		}
	}
	// R1 (reference types): a map or slice read out of a guarded field is still the shared object: every use of the loaded
	// value (lookup, range, len, index, passing it on) must itself be inside a critical section — a "snapshot" taken
	// under the lock and consulted after the release races with the writers
	for _, a := range accs {
		if _, g := guarded[a.fld]; !g || ctor[a.fn] || a.what != "load" {
			continue
		}
		ld, ok := a.ins.(*ssa.UnOp)
		if !ok {
			continue
		}
		switch ld.Type().Underlying().(type) {
		case *types.Map, *types.Slice:
		default:
			continue
		}
		seenV := map[ssa.Value]bool{}
		var uses func(v ssa.Value)
		uses = func(v ssa.Value) {
			if seenV[v] {
				return
			}
			seenV[v] = true
			for _, r := range *v.Referrers() {
				switch x := r.(type) {
				case *ssa.Phi:
					uses(x)
					continue
				case *ssa.Store:
					if al, ok := x.Addr.(*ssa.Alloc); ok && x.Val == v {
						// kept in a local: the later loads of that local are the same object
						for _, r2 := range *al.Referrers() {
							if l2, ok := r2.(*ssa.UnOp); ok && l2.Op == token.MUL {
								uses(l2)
							}
						}
					}
					continue
				case *ssa.DebugRef:
					continue
				}
				st, okS := la.at[r]
				if !okS {
					st = lkNone
				}
				if st == lkNone {
					key := fmt.Sprintf("%s/use-of-loaded:%s", fnKey(a.fn), a.fld.Name())
					w.viol("C18.R1", key, r.Pos(), fmt.Sprintf("the %s read from the guarded field `%s` is used (%s) after the lock was released: a map / slice value is a reference to the shared object, not a snapshot — this access races with the writers (concurrent map read and map write)", typeShort(ld.Type()), a.fld.Name(), strings.SplitN(r.String(), " ", 2)[0]))
				}
			}
		}
		uses(ld)
	}
	// R2: shape — per entry point at most one acquire site, released only by a deferred unlock,
	// no acquire while held (also through callees), helpers never lock.
	acquiresOf := func(fn *ssa.Function) (acq []ssa.Instruction, rel []ssa.Instruction, deferredRel int) {
		instrsFlat(fn, func(ins ssa.Instruction) {
			op, def := la.lockOp(ins)
			switch op {
			case "Lock", "RLock", "TryLock", "TryRLock":
				acq = append(acq, ins)
			case "Unlock", "RUnlock":
				if def {
					deferredRel++
				} else {
					rel = append(rel, ins)
				}
			}
		})
		return
	}
	var touchesTrans func(fn *ssa.Function, seen map[*ssa.Function]bool) bool
	touchesTrans = func(fn *ssa.Function, seen map[*ssa.Function]bool) bool {
		if seen[fn] {
			return false
		}
		seen[fn] = true
		for _, a := range accs {
			if a.fn == fn {
				if _, g := guarded[a.fld]; g {
					return true
				}
			}
		}
		res := false
		instrsFlat(fn, func(ins ssa.Instruction) {
			if c, ok := ins.(ssa.CallInstruction); ok {
				if callee := c.Common().StaticCallee(); callee != nil && inSet[callee] && touchesTrans(callee, seen) {
					res = true
				}
			}
		})
		return res
	}
	locks := map[*ssa.Function]bool{}
	for _, fn := range fns {
		acq, _, _ := acquiresOf(fn)
		if len(acq) > 0 {
			locks[fn] = true
		}
	}
	// a worker split off an exported method: unknown to the rules, acquires the mutex itself, and is only ever
	// entered with the mutex not held — it is judged like the exported method it was part of
	selfLocking := func(fn *ssa.Function) bool {
		return fn != nil && isNewHelper(fn) && locks[fn] && la.entry[fn] == lkNone
	}
	for _, fn := range fns {
		if ctor[fn] {
			continue
		}
		acq, rel, drel := acquiresOf(fn)
		key := fnKey(fn) + "/critical-section"
		touchesGuarded := false
		for _, a := range accs {
			if a.fn == fn {
				if _, g := guarded[a.fld]; g {
					touchesGuarded = true
				}
			}
		}
		callsLocked := false
		instrsFlat(fn, func(ins ssa.Instruction) {
			if c, ok := ins.(ssa.CallInstruction); ok {
				if callee := c.Common().StaticCallee(); callee != nil && inSet[callee] && !isEntry(callee) && touchesTrans(callee, map[*ssa.Function]bool{}) {
					if selfLocking(callee) {
						return // a worker that takes the lock itself (checked as its own critical section below)
					}
					callsLocked = true
				}
			}
		})
		// several critical sections in one operation: the method's own acquire sites plus every call, made with the
		// mutex not held, of a function of this type that (transitively) acquires it — what one section computed
		// (the add) and what another observes (the reported `enough`) are not one atomic step
		if isEntry(fn) || selfLocking(fn) {
			var locksTrans func(f *ssa.Function, seen map[*ssa.Function]bool) bool
			locksTrans = func(f *ssa.Function, seen map[*ssa.Function]bool) bool {
				if f == nil || seen[f] || !inSet[f] {
					return false
				}
				seen[f] = true
				if locks[f] {
					return true
				}
				r := false
				instrsFlat(f, func(ins ssa.Instruction) {
					if c, ok := ins.(ssa.CallInstruction); ok && locksTrans(c.Common().StaticCallee(), seen) {
						r = true
					}
				})
				return r
			}
			var extra []string
			instrsFlat(fn, func(ins ssa.Instruction) {
				c, ok := ins.(ssa.CallInstruction)
				if !ok {
					return
				}
				if _, isDefer := ins.(*ssa.Defer); isDefer {
					return
				}
				if st, known := la.at[ins]; known && st != lkNone {
					return // made inside a section: re-entry is reported below
				}
				if callee := c.Common().StaticCallee(); callee != nil && callee != fn && locksTrans(callee, map[*ssa.Function]bool{}) {
					extra = append(extra, callee.Name())
				}
			})
			if len(acq)+len(extra) > 1 {
				w.viol("C18.R2", key+"/sections", fn.Pos(), fmt.Sprintf("operation is made of %d critical sections (%d own acquire site(s) + calls of locking methods %v with the mutex released in between): its effect and the values it returns are not one atomic step, so concurrent histories need not be linearizable", len(acq)+len(extra), len(acq), extra))
			}
		}
		if !isEntry(fn) && !selfLocking(fn) {
			w.check(len(acq) == 0, "C18.R2", key, fn.Pos(), "helper runs inside its caller's critical section and does not lock itself ("+lkName(la.entry[fn])+" on entry)", "helper "+fnKey(fn)+" acquires the mutex although it is called with the lock state "+lkName(la.entry[fn]))
			continue
		}
		if len(acq) == 0 {
			if touchesGuarded || callsLocked {
				// R1 already reports the unguarded accesses; record the shape
				w.viol("C18.R2", key, fn.Pos(), "method touches lock-protected state (directly or through helpers) without acquiring the mutex")
			} else {
				w.ok("C18.R2", key, fn.Pos(), "method uses immutable fields only; no critical section needed")
			}
			continue
		}
		good := len(acq) == 1 && len(rel) == 0 && drel == 1
		detail := fmt.Sprintf("%d acquire site(s), %d explicit release(s), %d deferred release(s)", len(acq), len(rel), drel)
		if good {
			// the deferred unlock must directly follow the acquire in the same block and match its kind
			a := acq[0]
			idx := instrIndex(a)
			blk := a.Block()
			okDefer := false
			for j := idx + 1; j < len(blk.Instrs); j++ {
				if _, isFA := blk.Instrs[j].(*ssa.FieldAddr); isFA {
					continue // address computation of the mutex field for the deferred call
				}
				op, def := la.lockOp(blk.Instrs[j])
				aop, _ := la.lockOp(a)
				okDefer = def && ((aop == "Lock" && op == "Unlock") || (aop == "RLock" && op == "RUnlock"))
				break
			}
			if !okDefer {
				good = false
				detail = "the acquire is not immediately followed by the matching deferred release"
			}
		}
		if !good && len(acq) == 1 && drel == 0 && len(rel) >= 1 {
			// explicit form: one acquire (not in a loop), a matching release on every way out, nothing locked at any return
			a := acq[0]
			aop, _ := la.lockOp(a)
			okExplicit := true
			why := ""
			for _, r := range rel {
				op, _ := la.lockOp(r)
				if !((aop == "Lock" && op == "Unlock") || (aop == "RLock" && op == "RUnlock")) {
					okExplicit, why = false, "a release does not match the kind of the acquire"
				}
				if st := la.at[r]; st == lkNone || st == lkTop {
					okExplicit, why = false, "a release is reachable without the lock being held"
				}
			}
			for _, s2 := range a.Block().Succs {
				if reachAvoid(s2, a.Block(), nil) {
					okExplicit, why = false, "the acquire sits in a loop (several critical sections)"
				}
			}
			for _, r := range returnsD(fn, 99) {
				if st := la.at[r]; st != lkNone {
					okExplicit, why = false, "a return is reached with the mutex still "+lkName(st)
				}
			}
			if okExplicit {
				good = true
			} else {
				detail += "; " + why
			}
		}
		w.check(good, "C18.R2", key, fn.Pos(), "exactly one critical section (acquire + matching deferred release) spanning to the return", "method does not consist of one critical section held to the return: "+detail+" — results computed in one section and used in another are not atomic")
		// re-entry: calls made while holding the lock must not reach a locking function
		instrsFlat(fn, func(ins ssa.Instruction) {
			c, ok := ins.(ssa.CallInstruction)
			if !ok {
				return
			}
			if st := la.at[ins]; st == lkNone || st == lkTop {
				return
			}
			if op, _ := la.lockOp(ins); op != "" {
				return
			}
			callee := c.Common().StaticCallee()
			if callee != nil && locks[callee] {
				w.viol("C18.R2", fnKey(fn)+"/reentry:"+callee.Name(), ins.Pos(), "calls "+callee.Name()+", which acquires the mutex, while already holding it (RWMutex is not re-entrant)")
			}
			if c.Common().IsInvoke() {
				for _, m := range fns {
					if m.Name() == c.Common().Method.Name() && locks[m] {
						// interface call that may dispatch to a locking method of the same object type
						if types.Implements(types.NewPointer(T), c.Common().Value.Type().Underlying().(*types.Interface)) {
							w.viol("C18.R2", fnKey(fn)+"/reentry:"+m.Name(), ins.Pos(), "interface call may dispatch to "+m.Name()+", which acquires the mutex, while holding it")
						}
					}
				}
			}
		})
		// pure prefix: before the acquire only immutable fields are read (R1 covers guarded ones)
	}
	// R3: fields that are not guarded are written only by the constructor (by construction of `guarded`);
	// record the immutable set as evidence
	var imm []string
	for _, f := range structFields(T) {
		if _, g := guarded[f]; !g && f != lockFld {
			imm = append(imm, f.Name())
		}
	}
	w.ok("C18.R3", T.Obj().Name()+"/immutable-fields", T.Obj().Pos(), fmt.Sprintf("fields never written outside the constructor: %v (any new writer makes the field lock-protected and its unlocked readers violations of R1)", imm))
	// R5: objects the unguarded fields refer to are themselves stateless under use: for every interface-typed field that
	// is only written by the constructor (the hasher the lock-free helpers hand to Verify), every module type the
	// constructor can store there has methods that write nothing reachable from their receiver — otherwise two helpers
	// running without the lock share mutable state through an `immutable` field
	{
		ea := w.effects()
		var dyn func(v ssa.Value, d int, out map[*types.Named]bool) bool
		dyn = func(v ssa.Value, d int, out map[*types.Named]bool) bool {
			if d > 5 {
				return false
			}
			switch x := v.(type) {
			case *ssa.MakeInterface:
				if n, ok := deref(x.X.Type()).(*types.Named); ok {
					out[n] = true
					return true
				}
				return false
			case *ssa.ChangeInterface:
				return dyn(x.X, d+1, out)
			case *ssa.Phi:
				for _, e := range x.Edges {
					if !dyn(e, d+1, out) {
						return false
					}
				}
				return true
			case *ssa.Const:
				return true // nil
			case *ssa.Extract:
				if c, ok := x.Tuple.(*ssa.Call); ok {
					if f := c.Call.StaticCallee(); f != nil && f.Blocks != nil {
						okAll := true
						for _, r := range returnsFlat(f) {
							if x.Index < len(r.Results) && !dyn(r.Results[x.Index], d+1, out) {
								okAll = false
							}
						}
						return okAll
					}
				}
				return false
			case *ssa.Call:
				if f := x.Call.StaticCallee(); f != nil && f.Blocks != nil {
					okAll := true
					for _, r := range returnsFlat(f) {
						if len(r.Results) > 0 && !dyn(r.Results[0], d+1, out) {
							okAll = false
						}
					}
					return okAll
				}
				return false
			}
			return false
		}
		nobj := 0
		for _, f := range structFields(T) {
			if _, g := guarded[f]; g || f == lockFld {
				continue
			}
			it, isIface := f.Type().Underlying().(*types.Interface)
			if !isIface || it.NumMethods() == 0 {
				continue
			}
			// only interfaces with behaviour that could carry state between calls: hashers
			hasCompute := false
			for i := 0; i < it.NumMethods(); i++ {
				if it.Method(i).Name() == "ComputeHash" {
					hasCompute = true
				}
			}
			if !hasCompute {
				continue
			}
			for _, a := range accs {
				if a.fld != f || a.what != "store" {
					continue
				}
				st, ok := a.ins.(*ssa.Store)
				if !ok {
					continue
				}
				types_ := map[*types.Named]bool{}
				if !dyn(st.Val, 0, types_) {
					w.undecided("C18.R5", T.Obj().Name()+"/"+f.Name()+"/dynamic-type", st.Pos(), "the concrete type stored in the unguarded field `"+f.Name()+"` could not be resolved: "+render(st.Val))
					continue
				}
				for tn := range types_ {
					if tn.Obj().Pkg() == nil || !strings.HasPrefix(tn.Obj().Pkg().Path(), rootPath) {
						continue
					}
					for _, mn := range []string{"ComputeHash", "Size"} {
						m := w.method(tn, mn)
						if m == nil || m.Blocks == nil {
							continue
						}
						nobj++
						bad := ""
						for _, e := range ea.sharedWrites(m, 0, map[*ssa.Function]bool{}) {
							if e.Root.kind == rkFresh {
								continue
							}
							if bad == "" {
								bad = fmt.Sprintf("%s [%s] at %s", e.What, rootDesc(e.Root), w.pos(e.Ins.Pos()))
							}
						}
						w.check(bad == "", "C18.R5", fmt.Sprintf("%s/%s:%s.%s", T.Obj().Name(), f.Name(), tn.Obj().Name(), mn), m.Pos(), "method of the object behind the unguarded field writes only memory of its own activation",
							"the object stored in the unguarded field `"+f.Name()+"` ("+tn.Obj().Name()+") has a "+mn+" method that writes shared state: "+bad+" — helpers that run without the lock (VerifyShare, VerifyThresholdSignature, …) race on it and can corrupt it for good")
					}
				}
			}
		}
		if nobj == 0 {
			w.undecided("C18.R5", T.Obj().Name()+"/unguarded-objects", T.Obj().Pos(), "no stateless-object obligation could be formed for the unguarded interface fields")
		}
	}
	// R4: sequential facts of the single critical sections
	nmu := 0
	addSeen := map[*ssa.Function]bool{}
	for _, a := range accs {
		if ctor[a.fn] {
			continue
		}
		switch a.what {
		case "map update":
			nmu++
			fs := w.factsAt(a.ins)
			okHas, okEnough := false, false
			recv := ""
			if len(a.fn.Params) > 0 {
				recv = a.fn.Params[0].Name()
			}
			mapName := recv + "." + a.fld.Name()
			isHas := func(e string) bool { return strings.HasPrefix(e, mapName+"[") && strings.HasSuffix(e, "]#1 == false") }
			isEnough := func(e string) bool {
				return e == cmpFact("len("+mapName+")", "!=", "("+recv+".threshold + 1)") || e == cmpFact("len("+mapName+")", "<", "("+recv+".threshold + 1)") ||
					e == cmpFact("len("+mapName+")", "<=", recv+".threshold")
			}
			for _, f := range fs {
				if isHas(f.Expr) {
					okHas = true
				}
				if isEnough(f.Expr) {
					okEnough = true
				}
			}
			// the update sits in a worker that runs inside its callers' critical section (R2): a guard the worker does not
			// repeat holds if every call site has it (same critical section: the lock is not released in between)
			if (!okHas || !okEnough) && a.fn.Object() != nil && !a.fn.Object().Exported() {
				callers := w.callersOfCached(a.fn)
				allHas, allEnough, cnt := true, true, 0
				for _, cs := range callers {
					if isTestFile(w, cs.Pos()) || len(cs.Parent().Params) == 0 {
						continue
					}
					cnt++
					// only a caller that holds the lock from its acquisition to its return (deferred release, no explicit
					// Unlock / RUnlock anywhere) keeps what it tested true until the worker runs: a test made in an earlier
					// critical section is a stale snapshot
					explicit := false
					instrsFlat(cs.Parent(), func(ins ssa.Instruction) {
						if c, ok := ins.(*ssa.Call); ok {
							if f := c.Call.StaticCallee(); f != nil && (f.Name() == "Unlock" || f.Name() == "RUnlock") {
								explicit = true
							}
						}
					})
					if explicit {
						allHas, allEnough = false, false
						continue
					}
					crecv := cs.Parent().Params[0].Name()
					cmap := crecv + "." + a.fld.Name()
					h, e := false, false
					for _, f := range w.factsAt(cs) {
						if strings.HasPrefix(f.Expr, cmap+"[") && strings.HasSuffix(f.Expr, "]#1 == false") {
							h = true
						}
						if f.Expr == cmpFact("len("+cmap+")", "!=", "("+crecv+".threshold + 1)") || f.Expr == cmpFact("len("+cmap+")", "<", "("+crecv+".threshold + 1)") || f.Expr == cmpFact("len("+cmap+")", "<=", crecv+".threshold") {
							e = true
						}
					}
					allHas, allEnough = allHas && h, allEnough && e
				}
				if cnt > 0 {
					okHas, okEnough = okHas || allHas, okEnough || allEnough
				}
			}
			key := fnKey(a.fn) + "/map-update"
			w.check(okHas, "C18.R4", key+"/not-yet-present", a.ins.Pos(), "share stored only if the signer has none yet", "share map updated without the `signer has no share yet` guard (one share per signer can be violated)", factStrings(fs)...)
			w.check(okEnough, "C18.R4", key+"/not-enough-yet", a.ins.Pos(), "share stored only while fewer than t+1 are held", "share map updated without the `not enough shares yet` guard (more than t+1 shares can be retained and EnoughShares can revert)", factStrings(fs)...)
			// C06.R8 (emitted here, re-labelled by ruleC06): the documented refusal of a signer that already has a share
			// precedes every error-free outcome of the method that adds shares — not only the map update itself
			if emitAddRefusals {
				// the functions that report the outcome of this update: the function itself, or — when the update sits in a
				// worker without an error result — the functions that call it
				var targets []*ssa.Function
				var up func(f *ssa.Function, d int)
				seenUp := map[*ssa.Function]bool{}
				up = func(f *ssa.Function, d int) {
					if seenUp[f] || d > 3 {
						return
					}
					seenUp[f] = true
					// the function whose returns carry the documented errors: the nearest one, going up from the update,
					// that has an error result (an exported method, or the worker the exported methods forward to)
					if res := f.Signature.Results(); res.Len() > 0 && isErrorType(res.At(res.Len()-1).Type()) {
						targets = append(targets, f)
						return
					}
					for _, cs := range w.callersOfCached(f) {
						if !isTestFile(w, cs.Pos()) {
							up(cs.Parent(), d+1)
						}
					}
				}
				up(a.fn, 0)
				for _, m := range targets {
					if addSeen[m] {
						continue
					}
					addSeen[m] = true
					mrecv := ""
					if len(m.Params) > 0 {
						mrecv = m.Params[0].Name()
					}
					mmap := mrecv + "." + a.fld.Name()
					mHas := func(e string) bool { return strings.HasPrefix(e, mmap+"[") && strings.HasSuffix(e, "]#1 == false") }
					for _, r := range returnsFlat(m) {
						if len(r.Results) == 0 || !isNilConst(r.Results[len(r.Results)-1]) {
							continue
						}
						tested := false
						tf := w.testedBefore(r)
						for _, f := range tf {
							if mHas(f.Expr) {
								tested = true
							}
						}
						w.check(tested, "C06.R8", fnKey(m)+"/error-free-return/signer-is-new", retPos(r), "every error-free outcome follows the `signer has no share yet` test", "an error-free outcome is reachable without the `signer has no share yet` test: a duplicate signer is not refused with the documented error on this path", factStrings(tf)...)
					}
				}
			}
			// the guards must have been evaluated in this critical section: the reads they depend on happen with the exclusive lock held
			for _, f := range fs {
				if isHas(f.Expr) || isEnough(f.Expr) {
					var pts []ssa.Instruction
					for _, c := range f.via {
						pts = append(pts, c)
					}
					if len(pts) == 0 {
						for _, l := range f.loads {
							if l.Parent() == a.fn {
								pts = append(pts, l)
							}
						}
						if len(pts) == 0 && f.If != nil {
							pts = append(pts, f.If)
						}
					}
					for _, c := range pts {
						if st, known := la.at[c]; known && st != lkW {
							w.viol("C18.R4", key+"/guard-in-section", c.Pos(), "guard `"+f.Expr+"` was evaluated while the mutex was "+lkName(st)+", not inside the critical section that performs the update")
						}
					}
				}
			}
		case "delete", "clear":
			w.viol("C18.R4", fnKey(a.fn)+"/"+a.what, a.ins.Pos(), "shares are removed from the map (EnoughShares could revert)")
		case "store":
			if _, g := guarded[a.fld]; g {
				if _, isMap := a.fld.Type().Underlying().(*types.Map); isMap {
					w.viol("C18.R4", fnKey(a.fn)+"/map-reassigned", a.ins.Pos(), "the share map is replaced outside the constructor")
				} else if st, ok := a.ins.(*ssa.Store); ok && rootField(st.Addr) == a.fld {
					if _, isFA := st.Addr.(*ssa.FieldAddr); isFA {
						fs := w.factsAt(a.ins)
						okk := false
						for _, f := range fs {
							if strings.HasSuffix(f.Expr, "#1 == nil") {
								okk = true
							}
						}
						w.check(okk, "C18.R4", fnKey(a.fn)+"/cache-store:"+a.fld.Name(), a.ins.Pos(), "cache written only on the error-free edge of the reconstruction", "cached signature stored without the reconstruction having succeeded", factStrings(fs)...)
					}
				}
			}
		}
	}
	if nmu == 0 {
		w.undecided("C18.R4", "map-updates", T.Obj().Pos(), "no share-map update found")
	}
}
