package main

import (
	"fmt"
	"go/token"
	"go/types"
	"strings"

	"golang.org/x/tools/go/ssa"
)

// Engine L (effects): which memory may a function write that is reachable by other goroutines?
// Allocation-site classification: values rooted at an allocation of the current activation (Alloc,
// MakeSlice, MakeMap, composite literals, results of functions that return fresh memory) are
// private; everything rooted at a parameter, a global or a pointer loaded from shared memory is
// shared.

type rootKind int

const (
	rkFresh rootKind = iota
	rkParam
	rkGlobal
	rkShared // loaded from memory we cannot classify
)

type root struct {
	kind  rootKind
	param int
	name  string
}

// extWritesArgs: external (non-module) callees and the argument indices (receiver = 0) they write
// through. One line of reason each (DESIGN Appendix C).
var extWritesArgs = map[string][]int{
	"(*math/big.Int).SetBytes":                            {0}, // writes its receiver only
	"(*math/big.Int).SetInt64":                            {0},
	"(*math/big.Int).Mod":                                 {0},
	"(*math/big.Int).Add":                                 {0},
	"(*math/big.Int).Sub":                                 {0},
	"(*math/big.Int).FillBytes":                           {1}, // fills the buffer argument
	"crypto/rand.Read":                                    {0}, // fills its argument
	"io.ReadFull":                                         {1},
	"(encoding/binary.littleEndian).PutUint64":            {1},
	"(encoding/binary.bigEndian).PutUint64":               {1},
	"(*golang.org/x/crypto/chacha20.Cipher).XORKeyStream": {0, 1},
	"(*golang.org/x/crypto/chacha20.Cipher).SetCounter":   {0},
}

// extPure: external callees that write nothing reachable from their arguments.
var extPurePrefixes = []string{
	"fmt.", "errors.", "bytes.Equal", "(*math/big.Int).Cmp", "(*math/big.Int).Sign", "(*math/big.Int).BitLen", "(*math/big.Int).Bytes",
	"crypto/ecdsa.Verify", "crypto/ecdsa.Sign", // deterministic in their arguments except Sign's reader; write nothing shared
	"crypto/hkdf.Key", "crypto/sha256.", "crypto/sha512.", "crypto/elliptic.", "(*crypto/elliptic.", "crypto/ecdh.", "(*crypto/ecdh.",
	"(*github.com/btcsuite/btcd/btcec/v2.", "github.com/btcsuite/btcd/btcec/v2.", "(*github.com/decred/dcrd/dcrec/secp256k1/v4.",
	"golang.org/x/crypto/sha3.New", "golang.org/x/crypto/chacha20.NewUnauthenticatedCipher",
	"(encoding/binary.littleEndian).Uint64", "(encoding/binary.bigEndian).Uint64", "strings.", "strconv.", "math/bits.", "(*crypto/ecdsa.PublicKey).",
	"(crypto/elliptic.", "(*crypto/elliptic.CurveParams).",
}

// freshResults: external callees whose (first) result is memory nobody else holds.
var extFreshResult = []string{"crypto/hkdf.Key", "(*math/big.Int).Bytes", "fmt.Sprintf", "fmt.Errorf", "errors.New",
	"golang.org/x/crypto/sha3.NewCShake128", "golang.org/x/crypto/chacha20.NewUnauthenticatedCipher", "crypto/sha256.New", "crypto/sha512.New384", "crypto/sha256.Sum256",
	"crypto/elliptic.MarshalCompressed", "crypto/elliptic.Marshal"} // documented to allocate their result

func calleeFull(f *ssa.Function) string { return f.String() }

func hasAnyPrefix(s string, ps []string) bool {
	for _, p := range ps {
		if strings.HasPrefix(s, p) {
			return true
		}
	}
	return false
}

type effAnalysis struct {
	visiting map[ssa.Value]bool
	w        *World
	fresh    map[*ssa.Function]map[int]bool // memo: result idx returns fresh
	memo     map[string][]effectRec
}

type effectRec struct {
	Ins  ssa.Instruction
	What string
	Fn   *ssa.Function
	Root root
}

func (w *World) effects() *effAnalysis {
	return &effAnalysis{visiting: map[ssa.Value]bool{}, w: w, fresh: map[*ssa.Function]map[int]bool{}, memo: map[string][]effectRec{}}
}

// roots of a pointer-like value within fn.
func (ea *effAnalysis) roots(v ssa.Value, fn *ssa.Function, depth int) []root {
	if depth > 10 {
		return []root{{kind: rkShared, name: "deep"}}
	}
	switch x := v.(type) {
	case *ssa.Alloc, *ssa.MakeSlice, *ssa.MakeMap, *ssa.MakeChan, *ssa.MakeClosure:
		return []root{{kind: rkFresh}}
	case *ssa.Const:
		return []root{{kind: rkFresh}}
	case *ssa.Parameter:
		return []root{{kind: rkParam, param: paramIndex(fn, x), name: x.Name()}}
	case *ssa.FreeVar:
		return []root{{kind: rkShared, name: "freevar " + x.Name()}}
	case *ssa.Global:
		return []root{{kind: rkGlobal, name: x.Name()}}
	case *ssa.FieldAddr:
		return ea.roots(x.X, fn, depth+1)
	case *ssa.IndexAddr:
		return ea.roots(x.X, fn, depth+1)
	case *ssa.Slice:
		return ea.roots(x.X, fn, depth+1)
	case *ssa.ChangeType:
		return ea.roots(x.X, fn, depth+1)
	case *ssa.Convert:
		return ea.roots(x.X, fn, depth+1)
	case *ssa.ChangeInterface:
		return ea.roots(x.X, fn, depth+1)
	case *ssa.MakeInterface:
		return ea.roots(x.X, fn, depth+1)
	case *ssa.TypeAssert:
		return ea.roots(x.X, fn, depth+1)
	case *ssa.SliceToArrayPointer:
		return ea.roots(x.X, fn, depth+1)
	case *ssa.Field:
		return ea.roots(x.X, fn, depth+1)
	case *ssa.Phi:
		if ea.visiting[x] {
			return nil // loop-carried value: its roots are those of the other edges
		}
		ea.visiting[x] = true
		defer delete(ea.visiting, x)
		var out []root
		for _, e := range x.Edges {
			if e == v {
				continue
			}
			out = append(out, ea.roots(e, fn, depth)...)
		}
		return out
	case *ssa.Extract:
		if c, ok := x.Tuple.(*ssa.Call); ok {
			return ea.callResultRoots(c, x.Index, fn, depth)
		}
		if ta, ok := x.Tuple.(*ssa.TypeAssert); ok {
			return ea.roots(ta.X, fn, depth+1)
		}
		return []root{{kind: rkShared, name: "extract"}}
	case *ssa.Call:
		return ea.callResultRoots(x, 0, fn, depth)
	case *ssa.UnOp:
		if x.Op == token.MUL {
			// pointer/slice/map loaded from memory: private only if loaded from a private cell that
			// only ever received private values
			rs := ea.roots(x.X, fn, depth+1)
			allFresh := true
			for _, r := range rs {
				if r.kind != rkFresh {
					allFresh = false
				}
			}
			if allFresh {
				if al, ok := x.X.(*ssa.Alloc); ok {
					var out []root
					for _, ref := range *al.Referrers() {
						if st, ok := ref.(*ssa.Store); ok && st.Addr == al {
							out = append(out, ea.roots(st.Val, fn, depth+1)...)
						}
					}
					if len(out) > 0 {
						return out
					}
				}
				// field/element of a private object: values stored there may still be shared; look at stores into the same path
				return ea.storedInto(x.X, fn, depth)
			}
			// loaded from shared memory: the referent is shared
			var out []root
			for _, r := range rs {
				if r.kind != rkFresh {
					out = append(out, r)
				}
			}
			return out
		}
	case *ssa.Lookup:
		return ea.roots(x.X, fn, depth+1)
	case *ssa.BinOp:
		// pointer arithmetic on uintptr (e.g. the `uintptr(unsafe.Pointer(p)) ^ 0` idiom that hides a pointer from escape
		// analysis): still the object the operands point to
		if b, ok := x.Type().Underlying().(*types.Basic); ok && b.Kind() == types.Uintptr {
			var out []root
			for _, op := range []ssa.Value{x.X, x.Y} {
				if _, isC := op.(*ssa.Const); isC {
					continue
				}
				out = append(out, ea.roots(op, fn, depth+1)...)
			}
			if len(out) > 0 {
				return out
			}
		}
		return []root{{kind: rkFresh}}
	}
	return []root{{kind: rkShared, name: fmt.Sprintf("%T", v)}}
}

// storedInto: roots of the values stored at an address path inside a private object.
func (ea *effAnalysis) storedInto(addr ssa.Value, fn *ssa.Function, depth int) []root {
	path := render(addr)
	var out []root
	instrsFlat(fn, func(ins ssa.Instruction) {
		if st, ok := ins.(*ssa.Store); ok && render(st.Addr) == path {
			out = append(out, ea.roots(st.Val, fn, depth+1)...)
		}
	})
	if len(out) == 0 {
		return []root{{kind: rkFresh}} // zero value
	}
	return out
}

func (ea *effAnalysis) callResultRoots(c *ssa.Call, idx int, fn *ssa.Function, depth int) []root {
	if b, ok := c.Call.Value.(*ssa.Builtin); ok {
		switch b.Name() {
		case "append":
			return ea.roots(c.Call.Args[0], fn, depth+1)
		case "make", "new":
			return []root{{kind: rkFresh}}
		}
		return []root{{kind: rkFresh}}
	}
	if c.Call.IsInvoke() {
		// hash.Hash.Sum(b) appends the digest to b and returns the resulting slice: the result is what b is
		if c.Call.Method.Name() == "Sum" && len(c.Call.Args) == 1 {
			if isNilConst(c.Call.Args[0]) {
				return []root{{kind: rkFresh}}
			}
			return ea.roots(c.Call.Args[0], fn, depth+1)
		}
		switch c.Call.Method.Name() {
		case "ComputeHash", "SumHash", "Sum", "Clone", "Encode", "EncodeCompressed", "Bytes", "Error", "String", "Params":
			// interface contracts: results are fresh values (hash outputs, clones, encodings) or immutable parameters
			return []root{{kind: rkFresh}}
		case "PublicKey":
			return []root{{kind: rkShared, name: "PublicKey() result"}}
		}
		return []root{{kind: rkShared, name: "result of " + c.Call.Method.Name()}}
	}
	callee := c.Call.StaticCallee()
	if callee == nil {
		return []root{{kind: rkShared, name: "dynamic call result"}}
	}
	if _, ok := cgoName(callee); ok {
		return []root{{kind: rkFresh}}
	}
	if !inModule(callee) || callee.Blocks == nil {
		if hasAnyPrefix(calleeFull(callee), extFreshResult) {
			return []root{{kind: rkFresh}}
		}
		// math/big setters hand back their receiver (`new(big.Int).SetBytes(b)`): the result is what the receiver is
		if strings.HasPrefix(calleeFull(callee), "(*math/big.Int).") && callee.Signature.Results().Len() == 1 && len(c.Call.Args) > 0 &&
			types.Identical(callee.Signature.Results().At(0).Type(), c.Call.Args[0].Type()) {
			return ea.roots(c.Call.Args[0], fn, depth+1)
		}
		if callee.Signature.Results().Len() > idx {
			if _, isBasic := callee.Signature.Results().At(idx).Type().Underlying().(*types.Basic); isBasic {
				return []root{{kind: rkFresh}}
			}
		}
		return []root{{kind: rkShared, name: "result of " + calleeFull(callee)}}
	}
	// module callee: roots of what it returns, translated to the caller
	var out []root
	for _, r := range returns(callee) {
		if idx >= len(r.Results) {
			continue
		}
		for _, rr := range ea.roots(r.Results[idx], callee, depth+2) {
			switch rr.kind {
			case rkParam:
				if rr.param >= 0 && rr.param < len(c.Call.Args) {
					out = append(out, ea.roots(c.Call.Args[rr.param], fn, depth+2)...)
				}
			default:
				out = append(out, rr)
			}
		}
	}
	if len(out) == 0 {
		return []root{{kind: rkFresh}}
	}
	return out
}

func pointerLike(t types.Type) bool {
	switch t.Underlying().(type) {
	case *types.Pointer, *types.Slice, *types.Map, *types.Interface, *types.Chan, *types.Signature:
		return true
	}
	return false
}

// sharedWrites returns the writes of fn (transitively) whose target is not private to the activation.
// Roots that are parameters of fn are reported as such (callers translate them).
func (ea *effAnalysis) sharedWrites(fn *ssa.Function, depth int, stack map[*ssa.Function]bool) []effectRec {
	key := fn.String()
	if r, ok := ea.memo[key]; ok {
		return r
	}
	if stack[fn] || depth > 8 {
		return nil
	}
	stack[fn] = true
	defer delete(stack, fn)
	var out []effectRec
	addRoots := func(ins ssa.Instruction, what string, v ssa.Value) {
		for _, r := range ea.roots(v, fn, 0) {
			if r.kind != rkFresh {
				out = append(out, effectRec{Ins: ins, What: what, Fn: fn, Root: r})
			}
		}
	}
	instrsFlat(fn, func(ins ssa.Instruction) {
		switch x := ins.(type) {
		case *ssa.Store:
			addRoots(ins, "store to "+render(x.Addr), x.Addr)
		case *ssa.MapUpdate:
			addRoots(ins, "map update "+render(x.Map), x.Map)
		case ssa.CallInstruction:
			cc := x.Common()
			if b, ok := cc.Value.(*ssa.Builtin); ok {
				switch b.Name() {
				case "copy", "clear", "delete":
					addRoots(ins, b.Name()+" into "+render(cc.Args[0]), cc.Args[0])
				case "append":
					// may write into the spare capacity of its first argument
					addRoots(ins, "append to "+render(cc.Args[0]), cc.Args[0])
				}
				return
			}
			if cc.IsInvoke() {
				// method call through an interface: callee-specific effects are handled by the rules
				// (hasher method-set rule); receivers and arguments are conservatively treated as
				// written unless the method is a known reader
				m := cc.Method.Name()
				switch m {
				case "NewPrivateKey", "NewPublicKey":
					// crypto/ecdh.Curve constructors: build a fresh key from bytes, the curve object is immutable
					if !strings.HasSuffix(cc.Value.Type().String(), "crypto/ecdh.Curve") {
						addRoots(ins, "unknown interface method "+m, cc.Value)
					}
				case "Size", "Algorithm", "ComputeHash", "Verify", "Sign", "Encode", "EncodeCompressed", "Equals", "String", "Error", "Params", "PublicKey", "IsOnCurve", "Clone", "Bytes":
					// read-only by interface contract (ComputeHash/Sign/Verify/PublicKey are themselves entry points checked separately)
					if m == "PublicKey" {
						addRoots(ins, "PublicKey() may fill the key's cache", cc.Value)
					}
				case "Reset", "Write", "Read", "SumHash", "Sum":
					addRoots(ins, "stateful "+m+" on "+render(cc.Value), cc.Value)
				default:
					addRoots(ins, "unknown interface method "+m, cc.Value)
				}
				return
			}
			callee := cc.StaticCallee()
			if callee == nil {
				for _, a := range cc.Args {
					if pointerLike(a.Type()) {
						addRoots(ins, "dynamic call", a)
					}
				}
				return
			}
			if n, ok := cgoName(callee); ok {
				ps, known := contract(n)
				for j, a := range cc.Args {
					if !pointerLike(a.Type()) {
						continue
					}
					if !known || j >= len(ps) || strings.Contains(ps[j].Mode, "W") {
						addRoots(ins, "C."+n+" writes parameter "+fmt.Sprint(j), a)
					}
				}
				return
			}
			if !inModule(callee) || callee.Blocks == nil {
				full := calleeFull(callee)
				if idxs, ok := extWritesArgs[full]; ok {
					for _, j := range idxs {
						if j < len(cc.Args) {
							addRoots(ins, full+" writes argument "+fmt.Sprint(j), cc.Args[j])
						}
					}
					return
				}
				if hasAnyPrefix(full, extPurePrefixes) {
					return
				}
				// stateful methods of hash.Hash / ShakeHash implementations reached statically
				switch callee.Name() {
				case "Reset", "Write", "Read", "Sum":
					if len(cc.Args) > 0 {
						addRoots(ins, full+" mutates its receiver", cc.Args[0])
					}
					return
				case "Lock", "Unlock", "RLock", "RUnlock":
					return
				}
				for _, a := range cc.Args {
					if pointerLike(a.Type()) {
						addRoots(ins, "unsummarised external callee "+full, a)
					}
				}
				return
			}
			for _, e := range ea.sharedWrites(callee, depth+1, stack) {
				switch e.Root.kind {
				case rkParam:
					if e.Root.param >= 0 && e.Root.param < len(cc.Args) {
						for _, r := range ea.roots(cc.Args[e.Root.param], fn, 0) {
							if r.kind != rkFresh {
								out = append(out, effectRec{Ins: ins, What: "via " + callee.Name() + ": " + e.What, Fn: fn, Root: r})
							}
						}
					}
				default:
					out = append(out, effectRec{Ins: ins, What: "via " + callee.Name() + ": " + e.What, Fn: fn, Root: e.Root})
				}
			}
		}
	})
	ea.memo[key] = out
	return out
}
