package main

import (
	"encoding/json"
	"fmt"
	"os"
	"sort"
	"strconv"
	"strings"
)

// Engine X: the Go↔C contract table, written by hand from reading the C glue (DESIGN Appendix A).
// One entry per C function called from Go; one field per parameter:
//
//	v          by-value parameter
//	R / W      pointer to one object, read / written by C
//	R[e] W[e]  pointer to e elements (e over integer literals, argN = the call's N-th argument, + * ( ))
//	R[*]       extent is data dependent (sum of a counts array); only non-emptiness is required
//	?          suffix: pointer may be NULL
//
// The C engine re-derives R/W from the C prototypes (const qualification + stores through the
// parameter) on every run and fails if a row disagrees (driver/crules.py: rule X.table).
var contracts = map[string]string{
	"bls_sign":                              "W[48],R,R[arg3],v",
	"bls_verify":                            "R,R[48],R[arg3],v",
	"bls_verifyPerDistinctMessage":          "R[48],v,R[*],R[arg1],R[arg1],R[*]",
	"bls_verifyPerDistinctKey":              "R[48],v,R[arg1],R[arg1],R[*],R[*]",
	"bls_batch_verify":                      "v,W[arg0],R[arg0],R[48*arg0],R[arg5],v,R[16*arg0]",
	"bls_spock_verify":                      "R,R[48],R,R[48]",
	"E1_sum_vector_byte":                    "W[48],R[arg2],v",
	"Fr_sum_vector":                         "W,R[arg2],v",
	"E2_sum_vector_to_affine":               "W,R[arg2],v",
	"E2_subtract_vector":                    "W,R,R[arg3],v",
	"E1_lagrange_interpolate_at_zero_write": "W[48],R[48*(arg3+1)],R[arg3+1],v",
	"Fr_polynomial_image":                   "W,W?,R[arg3+1],v,v",
	"Fr_polynomial_image_write":             "W[32],W?,R[arg3+1],v,v",
	"E2_polynomial_images":                  "W[arg1],v,R[arg3+1],v",
	"E2_vector_write_bytes":                 "W[96*arg2],R[arg2],v",
	"G2_vector_read_bytes":                  "W[arg2],R[96*arg2],v",
	"G2_check_log":                          "R,R",
	"E1_read_bytes":                         "W,R[arg2],v",
	"E2_read_bytes":                         "W,R[arg2],v",
	"Fr_star_read_bytes":                    "W,R[arg2],v",
	"E1_write_bytes":                        "W[48],R",
	"E2_write_bytes":                        "W[96],R",
	"Fr_write_bytes":                        "W[32],R",
	"map_bytes_to_Fr":                       "W,R[arg2],v",
	"E2_in_G2":                              "R",
	"E1_in_G1":                              "R",
	"E2_is_infty":                           "R",
	"E2_is_equal":                           "R,R",
	"E1_is_equal":                           "R,R",
	"Fr_is_equal":                           "R,R",
	"Fr_is_zero":                            "R",
	"E2_set_infty":                          "W",
	"G2_mult_gen_to_affine":                 "W,R",
	"G1_mult_gen":                           "W,R",
	"E1_mult":                               "W,R,R",
	"E1_add":                                "W,R,R",
	"E2_add":                                "W,R,R",
	"Fr_mul_montg":                          "W,R,R",
	"types_sanity":                          "",
	// test/bench-only wrappers: reachable only from unexported helpers used by _test.go files
	"map_to_G1":                        "W,R[arg2],v",
	"unsafe_map_bytes_to_G1":           "W,R[arg2],v",
	"unsafe_map_bytes_to_G1complement": "W,R[arg2],v",
	"unsafe_map_bytes_to_G2":           "W,R[arg2],v",
	"unsafe_map_bytes_to_G2complement": "W,R[arg2],v",
	"xmd_sha256":                       "W[arg1],v,R[arg3],v,R[arg5],v",
	"Fp12_multi_pairing":               "W,R[arg3],R[arg3],v",
}

type cparam struct {
	Mode     string // v, R, W
	Extent   string // "" = single object, "*" data dependent, else expression
	Nullable bool
}

func contract(name string) ([]cparam, bool) {
	s, ok := contracts[name]
	if !ok {
		return nil, false
	}
	if s == "" {
		return nil, true
	}
	var out []cparam
	for _, f := range splitTop(s) {
		p := cparam{}
		if strings.HasSuffix(f, "?") {
			p.Nullable = true
			f = strings.TrimSuffix(f, "?")
		}
		if i := strings.Index(f, "["); i >= 0 {
			p.Mode = f[:i]
			p.Extent = f[i+1 : len(f)-1]
		} else {
			p.Mode = f
		}
		out = append(out, p)
	}
	return out, true
}

func splitTop(s string) []string {
	var out []string
	depth, start := 0, 0
	for i, c := range s {
		switch c {
		case '[', '(':
			depth++
		case ']', ')':
			depth--
		case ',':
			if depth == 0 {
				out = append(out, s[start:i])
				start = i + 1
			}
		}
	}
	return append(out, s[start:])
}

// cgoWrites: does C write through parameter idx of the named function?  Unknown ⇒ assume yes.
func cgoWrites(name string, idx int) bool {
	ps, ok := contract(name)
	if !ok || idx >= len(ps) {
		return true
	}
	return strings.Contains(ps[idx].Mode, "W")
}

// evalExtent evaluates an extent expression given interval bounds of the call's integer arguments.
// Returns the interval of the required element count.
func evalExtent(expr string, arg func(i int) (int64, int64, bool)) (lo, hi int64, ok bool) {
	p := &extParser{s: expr, arg: arg}
	lo, hi, ok = p.sum()
	if p.pos != len(p.s) {
		return 0, 0, false
	}
	return
}

type extParser struct {
	s   string
	pos int
	arg func(i int) (int64, int64, bool)
}

func (p *extParser) sum() (int64, int64, bool) {
	l, h, ok := p.prod()
	for ok && p.pos < len(p.s) && p.s[p.pos] == '+' {
		p.pos++
		l2, h2, ok2 := p.prod()
		l, h, ok = sat(l+l2), sat(h+h2), ok2
	}
	return l, h, ok
}

func (p *extParser) prod() (int64, int64, bool) {
	l, h, ok := p.atom()
	for ok && p.pos < len(p.s) && p.s[p.pos] == '*' {
		p.pos++
		l2, h2, ok2 := p.atom()
		if l < 0 || l2 < 0 {
			return 0, 0, false
		}
		l, h, ok = satMul(l, l2), satMul(h, h2), ok2
	}
	return l, h, ok
}

func (p *extParser) atom() (int64, int64, bool) {
	if p.pos >= len(p.s) {
		return 0, 0, false
	}
	if p.s[p.pos] == '(' {
		p.pos++
		l, h, ok := p.sum()
		if p.pos < len(p.s) && p.s[p.pos] == ')' {
			p.pos++
			return l, h, ok
		}
		return 0, 0, false
	}
	if strings.HasPrefix(p.s[p.pos:], "arg") {
		p.pos += 3
		st := p.pos
		for p.pos < len(p.s) && p.s[p.pos] >= '0' && p.s[p.pos] <= '9' {
			p.pos++
		}
		i, _ := strconv.Atoi(p.s[st:p.pos])
		return p.arg(i)
	}
	st := p.pos
	for p.pos < len(p.s) && p.s[p.pos] >= '0' && p.s[p.pos] <= '9' {
		p.pos++
	}
	if st == p.pos {
		return 0, 0, false
	}
	n, _ := strconv.ParseInt(p.s[st:p.pos], 10, 64)
	return n, n, true
}

// dumpContracts writes the table as JSON for the C engine.
func dumpContracts(path string) error {
	type row struct {
		Name   string   `json:"name"`
		Params []cparam `json:"params"`
	}
	var rows []row
	var names []string
	for n := range contracts {
		names = append(names, n)
	}
	sort.Strings(names)
	for _, n := range names {
		ps, _ := contract(n)
		rows = append(rows, row{n, ps})
	}
	b, err := json.MarshalIndent(rows, "", " ")
	if err != nil {
		return err
	}
	if path == "" {
		fmt.Println(string(b))
		return nil
	}
	return os.WriteFile(path, b, 0o644)
}
