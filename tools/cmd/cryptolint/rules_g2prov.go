package main

// C05.R5 — every point stored in a BLS public-key object comes from a G2-closed producer.
//
// "So every BLS public key object is in G2" (C05) is a who-may-construct statement: the point field of the
// public-key struct is only ever filled (a) by the validating reader followed by the subgroup test on that same
// object before the object can leave the function without an error, (b) by generator multiplication, the
// infinity setter, or (c) by sums / differences / polynomial images whose inputs are themselves such points
// (taken from existing key objects, from the G2-checked verification vector, or from (a)–(c)).
//
// Flow-insensitive, field-based provenance over the whole module: abstract locations are allocation sites,
// struct fields, parameters, results and globals whose type involves the E2 point type; pointer/slice copies
// unify locations, value copies and C producers add directed edges input → output. A location is *tainted* by a
// producer outside the closed table (the raw reader without the subgroup test, the test-only map-to-complement
// helpers, an unknown C writer, an unsafe cast). The rule requires the point field of the public-key type to be
// unreachable from every taint, and reports one obligation per producer call site that can reach it.

import (
	"fmt"
	"go/token"
	"go/types"
	"sort"
	"strings"

	"golang.org/x/tools/go/ssa"
)

// C producers of E2 points: index of the written parameter → indices of the E2 inputs that must be in G2.
// kind: "closed" (output in G2 whenever the inputs are), "raw" (needs the subgroup test), anything else taints.
var g2Producers = map[string]struct {
	out  int
	ins  []int
	kind string
}{
	"G2_mult_gen_to_affine": {0, nil, "closed"},
	"G2_mult_gen":           {0, nil, "closed"},
	"E2_set_infty":          {0, nil, "closed"},
	"E2_sum_vector_to_affine": {0, []int{1}, "closed"},
	"E2_sum_vector":           {0, []int{1}, "closed"},
	"E2_subtract_vector":      {0, []int{1, 2}, "closed"},
	"E2_add":                  {0, []int{1, 2}, "closed"},
	"E2_polynomial_images":    {0, []int{2}, "closed"},
	"Fr_polynomial_image":     {1, nil, "closed"}, // y = g2^P(x): generator multiple
	"Fr_polynomial_image_write": {1, nil, "closed"},
	"G2_vector_read_bytes":    {0, nil, "checked-in-C"}, // every element subgroup-checked by the reader itself (C05.R2 / C07.R5 on the C side)
	"E2_read_bytes":           {0, nil, "raw"},
	"unsafe_map_bytes_to_G2":  {0, nil, "closed"},
	"unsafe_map_bytes_to_G2complement": {0, nil, "non-G2"},
}

type g2prov struct {
	w      *World
	ptT    types.Type // the E2 point type
	parent map[string]string
	edges  map[string]map[string]bool // from -> to
	taint  map[string][]string        // location -> reasons
	sites  []g2site
	memo   map[types.Type]bool
}

type g2site struct {
	call   ssa.CallInstruction
	name   string
	kind   string
	outLoc string
	why    string
}

func (g *g2prov) find(x string) string {
	for {
		p, ok := g.parent[x]
		if !ok || p == x {
			return x
		}
		if pp, ok2 := g.parent[p]; ok2 && pp != p {
			g.parent[x] = pp
		}
		x = p
	}
}

func (g *g2prov) union(a, b string) {
	if a == "" || b == "" {
		return
	}
	ra, rb := g.find(a), g.find(b)
	if ra != rb {
		g.parent[ra] = rb
	}
}

func (g *g2prov) edge(from, to string) {
	if from == "" || to == "" {
		return
	}
	if g.edges[from] == nil {
		g.edges[from] = map[string]bool{}
	}
	g.edges[from][to] = true
}

// involves: does the type mention the E2 point type (through pointers, slices, arrays, maps)?
func (g *g2prov) involves(t types.Type) bool {
	if t == nil {
		return false
	}
	if v, ok := g.memo[t]; ok {
		return v
	}
	g.memo[t] = false
	r := false
	switch x := t.(type) {
	case *types.Named:
		if types.Identical(x, g.ptT) || x.Obj().Name() == "_Ctype_E2" || (x.Obj().Name() == "_Ctype_struct___0" && false) {
			r = true
		} else if _, isStruct := x.Underlying().(*types.Struct); !isStruct {
			r = g.involves(x.Underlying())
		}
	case *types.Alias:
		r = g.involves(types.Unalias(x))
	case *types.Pointer:
		r = g.involves(x.Elem())
	case *types.Slice:
		r = g.involves(x.Elem())
	case *types.Array:
		r = g.involves(x.Elem())
	case *types.Map:
		r = g.involves(x.Elem())
	}
	g.memo[t] = r
	return r
}

func (g *g2prov) locOf(v ssa.Value) string {
	return g.locOfD(v, 0)
}

func (g *g2prov) locOfD(v ssa.Value, d int) string {
	if v == nil || d > 40 {
		return ""
	}
	w := g.w
	switch x := v.(type) {
	case *ssa.Const:
		return ""
	case *ssa.Alloc:
		return "alloc:" + fnKey(x.Parent()) + ":" + x.Comment + "@" + w.pos(x.Pos())
	case *ssa.MakeSlice:
		return "make:" + fnKey(x.Parent()) + "@" + w.pos(x.Pos())
	case *ssa.MakeMap:
		return "makemap:" + fnKey(x.Parent()) + "@" + w.pos(x.Pos())
	case *ssa.FieldAddr:
		if f := addrField(x); f != nil && g.involves(f.Type()) {
			st := deref(x.X.Type())
			return "field:" + typeShort(st) + "." + f.Name()
		}
		return g.locOfD(x.X, d+1)
	case *ssa.Field:
		st := x.X.Type().Underlying().(*types.Struct)
		if f := st.Field(x.Field); g.involves(f.Type()) {
			return "field:" + typeShort(x.X.Type()) + "." + f.Name()
		}
		return g.locOfD(x.X, d+1)
	case *ssa.IndexAddr:
		return g.locOfD(x.X, d+1)
	case *ssa.Index:
		return g.locOfD(x.X, d+1)
	case *ssa.Lookup:
		return g.locOfD(x.X, d+1)
	case *ssa.Slice:
		return g.locOfD(x.X, d+1)
	case *ssa.UnOp:
		if x.Op == token.MUL {
			return g.locOfD(x.X, d+1)
		}
		return ""
	case *ssa.ChangeType:
		return g.locOfD(x.X, d+1)
	case *ssa.Convert:
		if b, ok := x.X.Type().Underlying().(*types.Basic); ok && b.Kind() == types.UnsafePointer {
			l := "unsafe:" + fnKey(x.Parent()) + "@" + w.pos(x.Pos())
			g.taint[l] = append(g.taint[l], "pointer obtained from unsafe.Pointer at "+w.pos(x.Pos()))
			return l
		}
		return g.locOfD(x.X, d+1)
	case *ssa.MakeInterface:
		return g.locOfD(x.X, d+1)
	case *ssa.Phi:
		l := "phi:" + fnKey(x.Parent()) + ":" + x.Name() + "@" + w.pos(x.Pos())
		return l
	case *ssa.Parameter:
		return fmt.Sprintf("param:%s#%d", fnKey(x.Parent()), paramIndex(x.Parent(), x))
	case *ssa.FreeVar:
		return "freevar:" + fnKey(x.Parent()) + ":" + x.Name()
	case *ssa.Global:
		return "global:" + x.Name()
	case *ssa.Extract:
		if c, ok := x.Tuple.(*ssa.Call); ok {
			if callee := c.Call.StaticCallee(); callee != nil && inModule(callee) {
				return fmt.Sprintf("ret:%s#%d", fnKey(callee), x.Index)
			}
		}
		if nx, ok := x.Tuple.(*ssa.Next); ok {
			if rg, ok := nx.Iter.(*ssa.Range); ok {
				return g.locOfD(rg.X, d+1)
			}
		}
		if lk, ok := x.Tuple.(*ssa.Lookup); ok {
			return g.locOfD(lk.X, d+1)
		}
		if ta, ok := x.Tuple.(*ssa.TypeAssert); ok {
			return g.locOfD(ta.X, d+1)
		}
		return "ext:" + w.pos(x.Pos())
	case *ssa.TypeAssert:
		return g.locOfD(x.X, d+1)
	case *ssa.Call:
		if b, ok := x.Call.Value.(*ssa.Builtin); ok && b.Name() == "append" {
			return g.locOfD(x.Call.Args[0], d+1)
		}
		if callee := x.Call.StaticCallee(); callee != nil && inModule(callee) {
			return fmt.Sprintf("ret:%s#0", fnKey(callee))
		}
		return "ext:" + w.pos(x.Pos())
	}
	return "unk:" + w.pos(v.Pos())
}

func (w *World) ruleG2Provenance(rule string, a *blsAnchors) {
	var ptT types.Type
	for _, f := range structFields(a.pubT) {
		if f.Name() == a.ptFld {
			ptT = f.Type()
		}
	}
	if ptT == nil {
		w.undecided(rule, "anchor:point-field", a.pubT.Obj().Pos(), "unresolved anchor: point field of the public-key type")
		return
	}
	g := &g2prov{w: w, ptT: ptT, parent: map[string]string{}, edges: map[string]map[string]bool{}, taint: map[string][]string{}, memo: map[types.Type]bool{}}
	target := "field:" + typeShort(a.pubT) + "." + a.ptFld
	var fns []*ssa.Function
	for _, f := range w.moduleFuncs() {
		if isTestFile(w, f.Pos()) || f.Blocks == nil {
			continue
		}
		fns = append(fns, f)
	}
	isE2Arg := func(v ssa.Value) bool {
		if g.involves(v.Type()) {
			return true
		}
		if ct, ok := v.(*ssa.ChangeType); ok {
			return g.involves(ct.X.Type())
		}
		return false
	}
	for _, fn := range fns {
		instrsFlat(fn, func(ins ssa.Instruction) {
			switch x := ins.(type) {
			case *ssa.Store:
				if !g.involves(x.Val.Type()) {
					return
				}
				if _, isC := x.Val.(*ssa.Const); isC {
					return // zero value / nil
				}
				dst, src := g.locOf(x.Addr), g.locOf(x.Val)
				switch x.Val.Type().Underlying().(type) {
				case *types.Pointer, *types.Slice, *types.Map:
					g.union(dst, src)
				default:
					g.edge(src, dst) // a copy of point values
				}
			case *ssa.Phi:
				if !g.involves(x.Type()) {
					return
				}
				l := g.locOf(x)
				for _, e := range x.Edges {
					if _, isC := e.(*ssa.Const); isC {
						continue
					}
					switch x.Type().Underlying().(type) {
					case *types.Pointer, *types.Slice, *types.Map:
						g.union(l, g.locOf(e))
					default:
						g.edge(g.locOf(e), l)
					}
				}
			case *ssa.MapUpdate:
				if g.involves(x.Value.Type()) {
					g.union(g.locOf(x.Map), g.locOf(x.Value))
				}
			case *ssa.Return:
				for i, r := range x.Results {
					if g.involves(r.Type()) {
						if _, isC := r.(*ssa.Const); isC {
							continue
						}
						g.union(fmt.Sprintf("ret:%s#%d", fnKey(fn), i), g.locOf(r))
					}
				}
			case ssa.CallInstruction:
				cc := x.Common()
				if b, ok := cc.Value.(*ssa.Builtin); ok {
					switch b.Name() {
					case "append":
						if len(cc.Args) == 2 && g.involves(cc.Args[0].Type()) {
							g.edge(g.locOf(cc.Args[1]), g.locOf(cc.Args[0]))
						}
					case "copy":
						if len(cc.Args) == 2 && g.involves(cc.Args[0].Type()) {
							g.edge(g.locOf(cc.Args[1]), g.locOf(cc.Args[0]))
						}
					}
					return
				}
				callee := cc.StaticCallee()
				if callee == nil {
					for _, arg := range cc.Args {
						if isE2Arg(arg) {
							l := g.locOf(arg)
							g.taint[l] = append(g.taint[l], "handed to a dynamically dispatched call at "+w.pos(ins.Pos()))
						}
					}
					return
				}
				if cn, ok := cgoName(callee); ok {
					pr, known := g2Producers[cn]
					if !known {
						// the same producer with its result normalised (`…_to_affine`) or not
						if base := strings.TrimSuffix(cn, "_to_affine"); base != cn {
							pr, known = g2Producers[base]
						} else {
							pr, known = g2Producers[cn+"_to_affine"]
						}
					}
					ccn := cn
					if _, has := contract(ccn); !has {
						if base := strings.TrimSuffix(cn, "_to_affine"); base != cn {
							ccn = base
						} else {
							ccn = cn + "_to_affine"
						}
					}
					for i, arg := range cc.Args {
						if !isE2Arg(arg) || !cgoWrites(ccn, i) {
							continue
						}
						out := g.locOf(arg)
						site := g2site{call: x, name: cn, outLoc: out}
						switch {
						case !known || pr.out != i:
							site.kind = "unknown"
							site.why = "C function " + cn + " writes an E2 point and is not in the table of G2-closed producers"
						case pr.kind == "closed" || pr.kind == "checked-in-C":
							site.kind = pr.kind
							for _, j := range pr.ins {
								if j < len(cc.Args) {
									g.edge(g.locOf(cc.Args[j]), out)
								}
							}
						case pr.kind == "raw":
							site.kind = "raw"
						default:
							site.kind = pr.kind
							site.why = "C function " + cn + " produces points outside G2 by design"
						}
						g.sites = append(g.sites, site)
					}
					return
				}
				if inModule(callee) && callee.Blocks != nil {
					for i, arg := range cc.Args {
						if i < len(callee.Params) && g.involves(arg.Type()) {
							if _, isC := arg.(*ssa.Const); isC {
								continue
							}
							switch arg.Type().Underlying().(type) {
							case *types.Pointer, *types.Slice, *types.Map, *types.Interface:
								g.union(g.locOf(arg), fmt.Sprintf("param:%s#%d", fnKey(callee), i))
							default:
								g.edge(g.locOf(arg), fmt.Sprintf("param:%s#%d", fnKey(callee), i))
							}
						}
					}
				}
			}
		})
	}
	// raw reader sites: the object read must pass the subgroup test before it can leave the function without an error;
	// when the object is the enclosing function's own parameter the obligation moves to that function's call sites
	type rawReq struct {
		fn  *ssa.Function
		idx int
	}
	for i := range g.sites {
		s := &g.sites[i]
		if s.kind != "raw" {
			continue
		}
		var arg ssa.Value
		for j, av := range s.call.Common().Args {
			if pr := g2Producers[s.name]; j == pr.out {
				arg = av
			}
		}
		bad := w.rawReadUnchecked(s.call, arg, 0)
		if bad != "" {
			s.why = bad
			s.kind = "raw-unchecked"
		} else {
			s.kind = "raw-checked"
		}
	}
	// taints from sites
	for _, s := range g.sites {
		switch s.kind {
		case "closed", "checked-in-C", "raw-checked":
		default:
			g.taint[s.outLoc] = append(g.taint[s.outLoc], s.why+" ("+w.pos(s.call.Pos())+")")
		}
	}
	// forward reachability of taint over representatives
	adj := map[string]map[string]bool{}
	for from, tos := range g.edges {
		rf := g.find(from)
		for to := range tos {
			rt := g.find(to)
			if rf == rt {
				continue
			}
			if adj[rf] == nil {
				adj[rf] = map[string]bool{}
			}
			adj[rf][rt] = true
		}
	}
	reach := func(start string) map[string]bool {
		seen := map[string]bool{start: true}
		st := []string{start}
		for len(st) > 0 {
			x := st[len(st)-1]
			st = st[:len(st)-1]
			for y := range adj[x] {
				if !seen[y] {
					seen[y] = true
					st = append(st, y)
				}
			}
		}
		return seen
	}
	tgt := g.find(target)
	// which locations flow into the key point field (backward reachability = forward from each; small graph)
	flowsToTarget := map[string]bool{}
	nodes := map[string]bool{tgt: true}
	for f, tos := range adj {
		nodes[f] = true
		for t := range tos {
			nodes[t] = true
		}
	}
	for n := range nodes {
		if reach(n)[tgt] {
			flowsToTarget[n] = true
		}
	}
	w.stat("g2prov_locations", len(nodes))
	w.stat("g2prov_producer_sites", len(g.sites))
	// obligations: every producer site that can reach the key point field
	nrel := 0
	seenKey := map[string]int{}
	sort.Slice(g.sites, func(i, j int) bool { return g.sites[i].call.Pos() < g.sites[j].call.Pos() })
	for _, s := range g.sites {
		if !flowsToTarget[g.find(s.outLoc)] {
			continue
		}
		nrel++
		key := fmt.Sprintf("%s/producer:%s", fnKey(s.call.Parent()), s.name)
		seenKey[key]++
		if seenKey[key] > 1 {
			key += fmt.Sprintf("#%d", seenKey[key])
		}
		switch s.kind {
		case "closed":
			w.ok(rule, key, s.call.Pos(), "points reaching public-key objects from here come from a G2-closed producer (inputs are followed by the same rule)")
		case "checked-in-C":
			w.ok(rule, key, s.call.Pos(), "vector reader subgroup-checks every element itself (C-side rule C05.R2 G2_vector_read_bytes/element)")
		case "raw-checked":
			w.ok(rule, key, s.call.Pos(), "raw reader followed by the subgroup test on the same object before any error-free exit")
		default:
			w.viol(rule, key, s.call.Pos(), "a point that can end up in a BLS public-key object is produced without G2 membership being established: "+s.why)
		}
	}
	// other taints (unsafe casts, dynamic calls) reaching the field
	var tl []string
	for l := range g.taint {
		tl = append(tl, l)
	}
	sort.Strings(tl)
	for _, l := range tl {
		if strings.HasPrefix(l, "unsafe:") || strings.Contains(strings.Join(g.taint[l], ";"), "dynamically") {
			if flowsToTarget[g.find(l)] {
				w.viol(rule, "taint:"+l, token.NoPos, "a point that can end up in a BLS public-key object has unverifiable provenance: "+strings.Join(uniq(g.taint[l]), "; "))
			}
		}
	}
	if nrel == 0 {
		w.undecided(rule, "producers", a.pubT.Obj().Pos(), "no producer of public-key points found (anchors moved?)")
	}
}

// rawReadUnchecked: the raw reader wrote the object `arg` at call `c`; returns "" when on every way out of the
// enclosing function that is reachable from the call either an error is returned or the subgroup test on that
// object is known to have succeeded. If the object is the function's own parameter, all call sites are examined.
func (w *World) rawReadUnchecked(c ssa.CallInstruction, arg ssa.Value, depth int) string {
	if depth > 4 || arg == nil {
		return "raw reader result not followed"
	}
	fn := c.Parent()
	base := stripConv(arg)
	if p, isP := base.(*ssa.Parameter); isP {
		cs := w.callersOf(fn)
		n := 0
		for _, cl := range cs {
			if isTestFile(w, cl.Pos()) {
				continue
			}
			n++
			pi := paramIndex(fn, p)
			if pi >= len(cl.Common().Args) {
				return "raw reader wrapper called with fewer arguments"
			}
			if bad := w.rawReadUnchecked(cl, cl.Common().Args[pi], depth+1); bad != "" {
				return bad
			}
		}
		return ""
	}
	obj := render(base)
	want := "C.E2_in_G2(" + obj + ") == true"
	fi := w.info4(fn)
	for _, r := range returnsD(fn, 99) {
		if retParent(r) != fn {
			continue
		}
		if !fi.reachable(c.Block(), r.Block()) {
			continue
		}
		// error exit?
		if n := len(r.Results); n > 0 && isErrorType(r.Results[n-1].Type()) {
			if cls := w.errClass(r.Results[n-1]); cls != "nil" && !strings.HasPrefix(cls, "phi{") && cls != "other" {
				continue
			}
		}
		okk := false
		for _, f := range w.factsAt(r) {
			if f.Expr == want {
				okk = true
			}
		}
		if !okk {
			return fmt.Sprintf("%s reads `%s` with the raw point reader and can return without an error at %s although `%s` was not established", fnKey(fn), obj, w.pos(retPos(r)), want)
		}
	}
	return ""
}
