package main

// C09.R8 — integers decoded from untrusted bytes.
//
// Sources: the bytes of []byte parameters of exported functions (followed through re-slicing and into
// module callees); an integer becomes *decoded* when it is produced from such bytes by
// encoding/binary's Uint16/32/64 or by loading one byte. Decoded integers are followed through
// arithmetic, conversions, phis, calls into module functions, returns, and stores to / loads from
// struct fields (field-based). Sinks: an index, a slice bound, a make length and an integer divisor.
// At a sink the interval engine must prove the value in range (against the container's length for
// index/slice, non-zero for divisors, at most maxDecodedMake for make); anything else is a panic
// some input can trigger. Everything here is a may-analysis: it only enlarges the set of sinks that
// have to be proved.

import (
	"fmt"
	"os"
	"strings"
	"go/token"
	"go/types"
	"sort"

	"golang.org/x/tools/go/ssa"
)

const maxDecodedMake = 1 << 20

type taintState struct {
	w      *World
	bytes  map[ssa.Value]bool
	ints   map[ssa.Value]string // value -> where it was decoded
	fields map[*types.Var]string
	work   []ssa.Value
}

func isByteSlice(t types.Type) bool {
	s, ok := t.Underlying().(*types.Slice)
	if !ok {
		return false
	}
	b, ok := s.Elem().Underlying().(*types.Basic)
	return ok && b.Kind() == types.Uint8
}

func isIntType(t types.Type) bool {
	b, ok := t.Underlying().(*types.Basic)
	return ok && b.Info()&types.IsInteger != 0
}

func (w *World) ruleDecodedInts(rule string) {
	ts := &taintState{w: w, bytes: map[ssa.Value]bool{}, ints: map[ssa.Value]string{}, fields: map[*types.Var]string{}}
	var fns []*ssa.Function
	for _, f := range w.moduleFuncs() {
		if isTestFile(w, f.Pos()) || f.Blocks == nil {
			continue
		}
		fns = append(fns, f)
	}
	// entry points: exported functions, methods of exported named types or with exported names (interface implementations)
	for _, f := range fns {
		if f.Object() == nil || !f.Object().Exported() {
			continue
		}
		for _, p := range f.Params {
			if isByteSlice(p.Type()) {
				ts.markBytes(p)
			}
		}
	}
	// field loads see the taint of any store to the same field: iterate to a fixpoint
	for round := 0; round < 8; round++ {
		ts.drain()
		changed := false
		for _, f := range fns {
			instrsFlat(f, func(ins ssa.Instruction) {
				switch x := ins.(type) {
				case *ssa.Store:
					if src, ok := ts.ints[x.Val]; ok {
						if fld := addrField(x.Addr); fld != nil && isIntType(fld.Type()) {
							if _, had := ts.fields[fld]; !had {
								ts.fields[fld] = src
								changed = true
							}
						}
					}
				case *ssa.UnOp:
					if x.Op == token.MUL {
						if fld := addrField(x.X); fld != nil {
							if src, ok := ts.fields[fld]; ok {
								if _, had := ts.ints[x]; !had {
									ts.markInt(x, src)
									changed = true
								}
							}
						}
					}
				}
			})
		}
		if !changed {
			break
		}
	}
	ts.drain()
	w.stat("decoded_int_values", len(ts.ints))
	w.stat("untrusted_byte_values", len(ts.bytes))
	// sinks
	type sink struct {
		ins  ssa.Instruction
		v    ssa.Value
		cont ssa.Value
		kind string
	}
	var sinks []sink
	for _, f := range fns {
		instrsFlat(f, func(ins ssa.Instruction) {
			add := func(v, cont ssa.Value, kind string) {
				if v == nil {
					return
				}
				if _, ok := ts.ints[v]; ok {
					sinks = append(sinks, sink{ins, v, cont, kind})
				}
			}
			switch x := ins.(type) {
			case *ssa.IndexAddr:
				add(x.Index, x.X, "index")
			case *ssa.Index:
				add(x.Index, x.X, "index")
			case *ssa.Slice:
				add(x.Low, x.X, "slice-low")
				add(x.High, x.X, "slice-high")
				add(x.Max, x.X, "slice-max")
			case *ssa.MakeSlice:
				add(x.Len, nil, "make-len")
				add(x.Cap, nil, "make-cap")
			case *ssa.BinOp:
				if (x.Op == token.QUO || x.Op == token.REM) && isIntType(x.Y.Type()) {
					add(x.Y, nil, "divisor")
				}
			}
		})
	}
	sort.Slice(sinks, func(i, j int) bool { return sinks[i].ins.Pos() < sinks[j].ins.Pos() })
	w.stat("decoded_int_sinks", len(sinks))
	seen := map[string]int{}
	for _, s := range sinks {
		fn := s.ins.Parent()
		key := fmt.Sprintf("%s/decoded-int/%s:%s", fnKey(fn), s.kind, shortCond(render(s.v)))
		seen[key]++
		if seen[key] > 1 {
			key = fmt.Sprintf("%s#%d", key, seen[key])
		}
		lo, hi, ok := w.intBound(s.v, s.ins)
		src := ts.ints[s.v]
		switch s.kind {
		case "index":
			ll, _, lk := w.lenBound(s.cont, s.ins)
			if !(ok && lk && lo >= 0 && hi < ll) && lo >= 0 {
				if why, good := w.symbolicIndexOK(s.v, s.cont, s.ins, 0); good {
					w.ok(rule, key, s.ins.Pos(), fmt.Sprintf("decoded integer (from %s) is below the length the container is always allocated with: %s", src, why), factStrings(w.factsAt(s.ins))...)
					continue
				}
			}
			w.check(ok && lk && lo >= 0 && hi < ll, rule, key, s.ins.Pos(),
				fmt.Sprintf("decoded integer (from %s) in [%d,%d] indexes a container of at least %d elements", src, lo, hi, ll),
				fmt.Sprintf("an integer decoded from untrusted bytes (%s) is used as an index with value range %d..%d into `%s` (length ≥ %d shown): some input panics", src, lo, hi, shortCond(render(s.cont)), ll), factStrings(w.factsAt(s.ins))...)
		case "slice-low", "slice-high", "slice-max":
			ll, _, lk := w.lenBound(s.cont, s.ins)
			if _, isArr := deref(s.cont.Type()).Underlying().(*types.Array); !isArr {
				// slicing a slice is bounded by its capacity, which is at least its length
			}
			w.check(ok && lk && lo >= 0 && hi <= ll, rule, key, s.ins.Pos(),
				fmt.Sprintf("decoded integer (from %s) in [%d,%d] is a slice bound of a container of at least %d elements", src, lo, hi, ll),
				fmt.Sprintf("an integer decoded from untrusted bytes (%s) is used as a slice bound with value range %d..%d on `%s` (length ≥ %d shown): some input panics", src, lo, hi, shortCond(render(s.cont)), ll), factStrings(w.factsAt(s.ins))...)
		case "make-len", "make-cap":
			w.check(ok && lo >= 0 && hi <= maxDecodedMake, rule, key, s.ins.Pos(),
				fmt.Sprintf("decoded integer (from %s) in [%d,%d] sizes an allocation", src, lo, hi),
				fmt.Sprintf("an integer decoded from untrusted bytes (%s) sizes an allocation with value range %d..%d: negative or huge values panic", src, lo, hi), factStrings(w.factsAt(s.ins))...)
		case "divisor":
			w.check(ok && (lo > 0 || hi < 0), rule, key, s.ins.Pos(),
				fmt.Sprintf("decoded divisor (from %s) in [%d,%d] is never zero", src, lo, hi),
				fmt.Sprintf("an integer decoded from untrusted bytes (%s) is used as a divisor and may be zero (range %d..%d)", src, lo, hi), factStrings(w.factsAt(s.ins))...)
		}
	}
}

func (ts *taintState) markBytes(v ssa.Value) {
	if v == nil || ts.bytes[v] {
		return
	}
	ts.bytes[v] = true
	ts.work = append(ts.work, v)
}

func (ts *taintState) markInt(v ssa.Value, src string) {
	if v == nil {
		return
	}
	if _, ok := ts.ints[v]; ok {
		return
	}
	if _, isC := v.(*ssa.Const); isC {
		return
	}
	ts.ints[v] = src
	ts.work = append(ts.work, v)
}

func (ts *taintState) drain() {
	w := ts.w
	for len(ts.work) > 0 {
		v := ts.work[len(ts.work)-1]
		ts.work = ts.work[:len(ts.work)-1]
		refs := v.Referrers()
		if refs == nil {
			continue
		}
		isB := ts.bytes[v]
		src, isI := ts.ints[v]
		for _, ref := range *refs {
			switch x := ref.(type) {
			case *ssa.Slice:
				if isB && x.X == v {
					ts.markBytes(x)
				}
			case *ssa.Phi:
				if isB {
					ts.markBytes(x)
				}
				if isI {
					ts.markInt(x, src)
				}
			case *ssa.ChangeType:
				if isB {
					ts.markBytes(x)
				}
				if isI {
					ts.markInt(x, src)
				}
			case *ssa.Convert:
				if isI && isIntType(x.Type()) {
					ts.markInt(x, src)
				}
			case *ssa.BinOp:
				if isI && isIntType(x.Type()) {
					switch x.Op {
					case token.ADD, token.SUB, token.MUL, token.QUO, token.REM, token.SHL, token.SHR, token.AND, token.OR, token.XOR, token.AND_NOT:
						ts.markInt(x, src)
					}
				}
			case *ssa.UnOp:
				if isI && (x.Op == token.SUB || x.Op == token.XOR) {
					ts.markInt(x, src)
				}
			case *ssa.IndexAddr:
				// &bytes[i]: the loaded byte is a decoded integer
				if isB && x.X == v {
					for _, r2 := range *x.Referrers() {
						if ld, ok := r2.(*ssa.UnOp); ok && ld.Op == token.MUL {
							ts.markInt(ld, "byte of "+shortCond(render(v))+" at "+w.pos(ld.Pos()))
						}
					}
				}
			case *ssa.Return:
				fn := x.Parent()
				for i, r := range x.Results {
					if r != v {
						continue
					}
					for _, cs := range w.callersOfCached(fn) {
						cv, ok := cs.(*ssa.Call)
						if !ok {
							continue
						}
						var target ssa.Value = cv
						if len(x.Results) > 1 {
							target = nil
							for _, r2 := range *cv.Referrers() {
								if e, ok := r2.(*ssa.Extract); ok && e.Index == i {
									target = e
								}
							}
						}
						if target == nil {
							continue
						}
						if isB && isByteSlice(target.Type()) {
							ts.markBytes(target)
						}
						if isI && isIntType(target.Type()) {
							ts.markInt(target, src)
						}
					}
				}
			case ssa.CallInstruction:
				c := x.Common()
				callee := c.StaticCallee()
				if callee == nil {
					continue
				}
				if callee.Pkg != nil && callee.Pkg.Pkg.Path() == "encoding/binary" && isB {
					switch callee.Name() {
					case "Uint16", "Uint32", "Uint64":
						if cv, ok := x.(*ssa.Call); ok {
							ts.markInt(cv, callee.Name()+" of "+shortCond(render(v))+" at "+w.pos(cv.Pos()))
						}
					}
					continue
				}
				if !inModule(callee) || callee.Blocks == nil {
					continue
				}
				args := c.Args
				for i, a := range args {
					if a != v || i >= len(callee.Params) {
						continue
					}
					if isB && isByteSlice(callee.Params[i].Type()) {
						ts.markBytes(callee.Params[i])
					}
					if isI && isIntType(callee.Params[i].Type()) {
						ts.markInt(callee.Params[i], src)
					}
				}
			}
		}
	}
}

// symbolicIndexOK: the container is a slice field that is only ever assigned `make(T, recv.E)` (or nil — nil-ness is
// the typestate rule's business) and the index is known to be below `recv.E` at the use, or is a parameter for which
// every caller (same receiver) knows it.
func (w *World) symbolicIndexOK(idx, cont ssa.Value, at ssa.Instruction, depth int) (string, bool) {
	if depth > 7 {
		return "", false
	}
	fld := fieldOfLoad(stripConv(cont))
	if fld == nil {
		return "", false
	}
	fn := at.Parent()
	if fn.Signature.Recv() == nil || len(fn.Params) == 0 {
		return "", false
	}
	sizeExpr := w.fieldAllocExpr(fld)
	if sizeExpr == "" {
		return "", false
	}
	iv := stripConv(idx)
	ir := render(iv)
	for _, f := range w.factsAt(at) {
		if w.belowRecvField(f.Expr, ir, fn.Params[0].Name(), sizeExpr) {
			return fmt.Sprintf("`%s` holds and %s is always make(…, %s)", f.Expr, fld.Name(), sizeExpr), true
		}
	}
	if p, isP := iv.(*ssa.Parameter); isP && p.Parent() == fn {
		pi := paramIndex(fn, p)
		cs := w.callersOfCached(fn)
		if len(cs) == 0 || pi < 0 {
			return "", false
		}
		for _, c := range cs {
			args := c.Common().Args
			cf := c.Parent()
			if pi >= len(args) || len(cf.Params) == 0 || args[0] != ssa.Value(cf.Params[0]) {
				return "", false
			}
			// the caller indexes "its own" field of the same name: build the query there
			if _, good := w.symbolicIndexFact(args[pi], fld, sizeExpr, c.(ssa.Instruction), depth+1); !good {
				return "", false
			}
		}
		return fmt.Sprintf("every one of the %d call sites passes a value below %s, and %s is always make(…, %s)", len(cs), sizeExpr, fld.Name(), sizeExpr), true
	}
	return "", false
}

func (w *World) symbolicIndexFact(idx ssa.Value, fld *types.Var, sizeExpr string, at ssa.Instruction, depth int) (res string, good bool) {
	if os.Getenv("CRYPTOLINT_TRACE") != "" {
		defer func() {
			fmt.Fprintf(os.Stderr, "symbolicIndexFact depth=%d fn=%s idx=%s at=%s -> %v %s\n", depth, at.Parent().Name(), render(stripConv(idx)), w.pos(posOf(at)), good, res)
		}()
	}
	if depth > 7 {
		return "", false
	}
	fn := at.Parent()
	if len(fn.Params) == 0 {
		return "", false
	}
	iv := stripConv(idx)
	ir := render(iv)
	for _, f := range w.factsAt(at) {
		if w.belowRecvField(f.Expr, ir, fn.Params[0].Name(), sizeExpr) {
			return f.Expr, true
		}
	}
	if p, isP := iv.(*ssa.Parameter); isP && p.Parent() == fn {
		pi := paramIndex(fn, p)
		cs := w.callersOfCached(fn)
		if len(cs) == 0 || pi < 0 {
			return "", false
		}
		for _, c := range cs {
			args := c.Common().Args
			cf := c.Parent()
			if pi >= len(args) || len(cf.Params) == 0 || args[0] != ssa.Value(cf.Params[0]) {
				return "", false
			}
			if _, good := w.symbolicIndexFact(args[pi], fld, sizeExpr, c.(ssa.Instruction), depth+1); !good {
				return "", false
			}
		}
		return "callers", true
	}
	// the receiver's own index field: stored only where the size field is stored too, below it (constructor guard)
	if f2 := fieldOfLoad(iv); f2 != nil && isIntType(f2.Type()) && w.isRecvFieldPath(ir, fn.Params[0].Name(), f2.Name()) {
		if w.fieldBelowField(f2, sizeExpr) {
			return fmt.Sprintf("field %s is only ever stored below %s (constructor guard)", f2.Name(), sizeExpr), true
		}
	}
	// a key obtained by ranging over a map field: every insertion into that map (anywhere) used a key below the size
	if ex, isEx := iv.(*ssa.Extract); isEx && ex.Index == 1 {
		if nx, isNx := ex.Tuple.(*ssa.Next); isNx {
			if rg, isRg := nx.Iter.(*ssa.Range); isRg {
				if mf := fieldOfLoad(stripConv(rg.X)); mf != nil {
					n, good := 0, true
					for _, g := range w.moduleFuncs() {
						if isTestFile(w, g.Pos()) {
							continue
						}
						instrsFlat(g, func(ins ssa.Instruction) {
							mu, isMu := ins.(*ssa.MapUpdate)
							if !isMu || fieldOfLoad(stripConv(mu.Map)) != mf {
								return
							}
							n++
							if _, k := w.symbolicIndexFact(mu.Key, fld, sizeExpr, mu, depth+1); !k {
								good = false
							}
						})
					}
					if n > 0 && good {
						return fmt.Sprintf("key of map %s, all %d insertions use keys below %s", mf.Name(), n, sizeExpr), true
					}
				}
			}
		}
	}
	return "", false
}

// fieldAllocExpr: "$recv.E" when every non-nil store to the slice field is a make whose length is the field E of the
// storing method's receiver and E itself is stored only in functions that are not methods of that type (constructors).
func (w *World) fieldAllocExpr(fld *types.Var) string {
	expr := ""
	okAll := true
	n := 0
	for _, fn := range w.moduleFuncs() {
		if isTestFile(w, fn.Pos()) {
			continue
		}
		instrsFlat(fn, func(ins ssa.Instruction) {
			st, isSt := ins.(*ssa.Store)
			if !isSt {
				return
			}
			fa, isFA := st.Addr.(*ssa.FieldAddr)
			if !isFA || addrField(fa) != fld || isNilConst(st.Val) {
				return
			}
			n++
			mk, isMk := stripConv(st.Val).(*ssa.MakeSlice)
			if !isMk || fn.Signature.Recv() == nil || len(fn.Params) == 0 {
				okAll = false
				return
			}
			sz := fieldOfLoad(stripConv(mk.Len))
			e := ""
			if sz != nil && w.isRecvFieldPath(render(stripConv(mk.Len)), fn.Params[0].Name(), sz.Name()) {
				e = sz.Name()
			}
			if sz == nil || e == "" || !isIntType(sz.Type()) {
				okAll = false
				return
			}
			// the size field is constructor-only
			for _, g := range w.moduleFuncs() {
				if isTestFile(w, g.Pos()) || g.Signature.Recv() == nil {
					continue
				}
				instrsFlat(g, func(i2 ssa.Instruction) {
					if s2, ok := i2.(*ssa.Store); ok && addrField(s2.Addr) == sz {
						okAll = false
					}
				})
			}
			if expr != "" && expr != e {
				okAll = false
			}
			expr = e
		})
	}
	if n == 0 || !okAll {
		return ""
	}
	return expr
}

// isRecvFieldPath: expr is `recv(.embedded)*.field` — the field reached from the receiver through embedded structs only.
func (w *World) isRecvFieldPath(expr, recv, field string) bool {
	parts := strings.Split(expr, ".")
	if len(parts) < 2 || parts[0] != recv {
		return false
	}
	if last := parts[len(parts)-1]; last != field {
		// a getter: `recv.Size()` where the method's body is `return recv.size`
		if !strings.HasSuffix(last, "()") || !w.isGetterOf(strings.TrimSuffix(last, "()"), field) {
			return false
		}
	}
	if w.embeddedNames == nil {
		w.embeddedNames = map[string]bool{}
		for _, pp := range []string{rootPath, hashPath, randomPath} {
			pk := w.ByPath[pp]
			if pk == nil {
				continue
			}
			for _, n := range pk.Types.Scope().Names() {
				tn, ok := pk.Types.Scope().Lookup(n).(*types.TypeName)
				if !ok {
					continue
				}
				if st, ok := tn.Type().Underlying().(*types.Struct); ok {
					for i := 0; i < st.NumFields(); i++ {
						if st.Field(i).Embedded() {
							w.embeddedNames[st.Field(i).Name()] = true
						}
					}
				}
			}
		}
	}
	for _, m := range parts[1 : len(parts)-1] {
		if !w.embeddedNames[m] {
			return false
		}
	}
	return true
}

// belowRecvField: fact is `idx < recv(.embedded)*.field` (either orientation)
func (w *World) belowRecvField(fact, idx, recv, field string) bool {
	if strings.HasPrefix(fact, idx+" < ") {
		return w.isRecvFieldPath(strings.TrimPrefix(fact, idx+" < "), recv, field)
	}
	if strings.HasSuffix(fact, " > "+idx) {
		return w.isRecvFieldPath(strings.TrimSuffix(fact, " > "+idx), recv, field)
	}
	return false
}

// fieldBelowField: every store to f2 happens in a function that also stores the field named size, and at the store
// the value is known to be below the value stored to size.
func (w *World) fieldBelowField(f2 *types.Var, size string) bool {
	n, good := 0, true
	for _, g := range w.moduleFuncs() {
		if isTestFile(w, g.Pos()) {
			continue
		}
		var st2 []*ssa.Store
		var szVal ssa.Value
		instrsFlat(g, func(ins ssa.Instruction) {
			st, ok := ins.(*ssa.Store)
			if !ok {
				return
			}
			f := addrField(st.Addr)
			if f == f2 {
				st2 = append(st2, st)
			} else if f != nil && f.Name() == size && isIntType(f.Type()) {
				szVal = st.Val
			}
		})
		for _, st := range st2 {
			n++
			if szVal == nil {
				good = false
				continue
			}
			a, b := render(stripConv(st.Val)), render(stripConv(szVal))
			found := false
			for _, f := range w.factsAt(st) {
				if f.Expr == a+" < "+b || f.Expr == b+" > "+a {
					found = true
				}
			}
			if !found {
				good = false
			}
		}
	}
	return n > 0 && good
}

// isGetterOf: some module method of that name has the single-block body `return recv.<field>`
func (w *World) isGetterOf(method, field string) bool {
	for _, f := range w.moduleFuncs() {
		if f.Name() != method || f.Signature.Recv() == nil || len(f.Blocks) != 1 {
			continue
		}
		rs := returns(f)
		if len(rs) == 1 && len(rs[0].Results) == 1 {
			if fl := fieldOfLoad(stripConv(rs[0].Results[0])); fl != nil && fl.Name() == field {
				return true
			}
		}
	}
	return false
}
