package main

import (
	"fmt"
	"go/token"
	"go/types"
	"sort"
	"strconv"
	"strings"

	"golang.org/x/tools/go/ssa"
)

// FnInfo caches per-function analysis results.
type FnInfo struct {
	fn    *ssa.Function
	reach map[*ssa.BasicBlock]map[*ssa.BasicBlock]bool
}

func (w *World) info4(fn *ssa.Function) *FnInfo {
	if fi, ok := w.fninfo[fn]; ok {
		return fi
	}
	fi := &FnInfo{fn: fn, reach: map[*ssa.BasicBlock]map[*ssa.BasicBlock]bool{}}
	w.fninfo[fn] = fi
	return fi
}

// reachable reports whether block b can reach block c (reflexive).
func (fi *FnInfo) reachable(b, c *ssa.BasicBlock) bool {
	m, ok := fi.reach[b]
	if !ok {
		m = map[*ssa.BasicBlock]bool{}
		stack := []*ssa.BasicBlock{b}
		for len(stack) > 0 {
			x := stack[len(stack)-1]
			stack = stack[:len(stack)-1]
			if m[x] {
				continue
			}
			m[x] = true
			stack = append(stack, x.Succs...)
		}
		fi.reach[b] = m
	}
	return m[c]
}

// Fact is a normalised predicate that holds whenever control reaches the queried point.
type Fact struct {
	dCond *ssa.BinOp      // for facts derived from a boolean helper: the helper's comparison (operator already adjusted)
	dAt   ssa.Instruction // and the instruction of the helper at which its operands are evaluated
	Expr  string
	If    *ssa.If
	via   []*ssa.Call // calls of expanded helpers through which the predicate was evaluated
	loads []*ssa.UnOp // memory reads the predicate depends on
	calls []*ssa.Call
}

var flipOp = map[token.Token]token.Token{token.LSS: token.GTR, token.GTR: token.LSS, token.LEQ: token.GEQ, token.GEQ: token.LEQ, token.EQL: token.EQL, token.NEQ: token.NEQ}
var negOp = map[token.Token]token.Token{token.LSS: token.GEQ, token.GEQ: token.LSS, token.GTR: token.LEQ, token.LEQ: token.GTR, token.EQL: token.NEQ, token.NEQ: token.EQL}

func isConstVal(v ssa.Value) bool {
	_, ok := stripConv(v).(*ssa.Const)
	return ok
}

// normCmp renders "x op y" canonically: constants to the right, > and >= rewritten to < and <=
// with swapped operands only when the left side is a constant.
func normCmp(x string, op token.Token, y string, xConst, yConst bool) string {
	if xConst && !yConst {
		x, y = y, x
		op = flipOp[op]
	} else if !xConst && !yConst && (op == token.EQL || op == token.NEQ) && x > y {
		x, y = y, x
	}
	// a length is never negative: the four spellings of "empty" / "non-empty" are one fact
	if yConst && !xConst && (strings.HasPrefix(x, "len(") || strings.HasPrefix(x, "cap(")) && strings.HasSuffix(x, ")") && strings.Count(x, "(") == strings.Count(x, ")") {
		switch {
		case y == "1" && op == token.LSS, y == "0" && op == token.LEQ:
			op, y = token.EQL, "0"
		case y == "1" && op == token.GEQ, y == "0" && op == token.GTR:
			op, y = token.NEQ, "0"
		}
	}
	return x + " " + op.String() + " " + y
}

// condFacts decomposes a branch condition taken with the given polarity into atomic facts.
func condFacts(c ssa.Value, pol bool, ifi *ssa.If, out *[]Fact) {
	c = stripConv(c)
	// a boolean result of a helper the rules do not know, single or part of a tuple (`idx, ok := s.decode(b)`)
	if ex, isEx := c.(*ssa.Extract); isEx && isBool(ex.Type()) {
		if tc, isCall := ex.Tuple.(*ssa.Call); isCall && helperCallee(tc) != nil {
			if in := helperValue(ex); in != nil {
				if _, isC := in.(*ssa.Const); !isC {
					n0 := len(*out)
					restore := bindHelper(tc)
					condFacts(in, pol, ifi, out)
					restore()
					for i := n0; i < len(*out); i++ {
						(*out)[i].via = append((*out)[i].via, tc)
					}
					return
				}
			}
		}
	}
	switch v := c.(type) {
	case *ssa.Call:
		// predicate helper that is expanded (vinline.go): the fact is the helper's own condition
		if h := helperCallee(v); h != nil && helperValue(v) == nil && gWorld != nil && isBool(v.Type()) && predDepth < 2 {
			// predicate helper with several ways out (`return a && b` is split per short-circuit edge; `if … return
			// false … return true`): what holds on every way out that can yield the outcome under consideration
			predDepth++
			restore := bindHelper(v)
			var common map[string]Fact
			for _, r := range returnsD(h, 99) {
				if len(r.Results) != 1 {
					common = nil
					break
				}
				var fs []Fact
				if k, isC := r.Results[0].(*ssa.Const); isC && k.Value != nil {
					if (k.Value.String() == "true") != pol {
						continue // this way out gives the other outcome
					}
					fs = gWorld.factsAtK(r, true)
				} else {
					fs = gWorld.factsAtK(r, true)
					condFacts(r.Results[0], pol, nil, &fs)
				}
				m := map[string]Fact{}
				for _, f := range fs {
					m[f.Expr] = f
				}
				if common == nil {
					common = m
				} else {
					for k := range common {
						if _, ok := m[k]; !ok {
							delete(common, k)
						}
					}
				}
			}
			restore()
			predDepth--
			if len(common) > 0 {
				var keys []string
				for k := range common {
					keys = append(keys, k)
				}
				sort.Strings(keys)
				for _, k := range keys {
					f := common[k]
					f.If = ifi
					f.via = append(f.via, v)
					f.calls = append(f.calls, v)
					*out = append(*out, f)
				}
				// the call-level fact is kept as well (rules that ask about the helper by name still find it)
				val := "true"
				if !pol {
					val = "false"
				}
				cf := Fact{Expr: render(v) + " == " + val, If: ifi}
				collectDeps(v, &cf)
				*out = append(*out, cf)
				return
			}
		}
		if helperCallee(v) != nil {
			if in := helperValue(v); in != nil {
				if _, isC := in.(*ssa.Const); !isC {
					n0 := len(*out)
					restore := bindHelper(v)
					condFacts(in, pol, ifi, out)
					restore()
					for i := n0; i < len(*out); i++ {
						(*out)[i].via = append((*out)[i].via, v)
					}
					if bo, ok := stripConv(in).(*ssa.BinOp); ok && len(*out) == n0+1 && (*out)[n0].dCond == nil {
						if _, cmp := negOp[bo.Op]; cmp {
							cp := *bo
							if !pol {
								cp.Op = negOp[bo.Op]
							}
							// operands are values of the helper's body: bounds are taken there
							(*out)[n0].dCond = &cp
							blk := bo.Block()
							(*out)[n0].dAt = blk.Instrs[len(blk.Instrs)-1]
						}
					}
					return
				}
			}
		}
	case *ssa.UnOp:
		if v.Op == token.NOT {
			condFacts(v.X, !pol, ifi, out)
			return
		}
	case *ssa.BinOp:
		switch v.Op {
		case token.EQL, token.NEQ, token.LSS, token.LEQ, token.GTR, token.GEQ:
			op := v.Op
			if !pol {
				op = negOp[op]
			}
			// comparisons of a boolean with a constant reduce to the boolean itself
			if cv, ok := stripConv(v.Y).(*ssa.Const); ok && cv.Value != nil && isBool(cv.Type()) && (op == token.EQL || op == token.NEQ) {
				b := cv.Value.String() == "true"
				if op == token.NEQ {
					b = !b
				}
				condFacts(v.X, b, ifi, out)
				return
			}
			f := Fact{Expr: normCmp(render(v.X), op, render(v.Y), isConstVal(v.X), isConstVal(v.Y)), If: ifi}
			collectDeps(v, &f)
			*out = append(*out, f)
			return
		case token.AND, token.LAND:
			if pol && isBool(v.Type()) {
				condFacts(v.X, true, ifi, out)
				condFacts(v.Y, true, ifi, out)
				return
			}
		case token.OR, token.LOR:
			if !pol && isBool(v.Type()) {
				condFacts(v.X, false, ifi, out)
				condFacts(v.Y, false, ifi, out)
				return
			}
		}
	case *ssa.Phi:
		// named short-circuit value: `x := a && b; if x` — go/ssa merges `false` (from the block where a
		// failed) with b (evaluated in a block entered only when a held). x true ⇒ a ∧ b.  Dually for ||.
		if isBool(v.Type()) {
			var rest ssa.Value
			var restPred *ssa.BasicBlock
			okShape := true
			for i, e := range v.Edges {
				if k, isC := e.(*ssa.Const); isC && k.Value != nil {
					if (k.Value.String() == "true") == pol {
						okShape = false // a constant edge that agrees with the outcome carries no information
					}
					continue
				}
				if rest != nil {
					okShape = false
				}
				rest, restPred = e, v.Block().Preds[i]
			}
			if okShape && rest != nil && len(restPred.Preds) == 1 {
				pp := restPred.Preds[0]
				if pif, ok := pp.Instrs[len(pp.Instrs)-1].(*ssa.If); ok && len(pp.Succs) == 2 && pp.Succs[0] != pp.Succs[1] {
					n0 := len(*out)
					condFacts(pif.Cond, pp.Succs[0] == restPred, ifi, out)
					condFacts(rest, pol, ifi, out)
					_ = n0
					return
				}
			}
		}
	}
	s := render(c)
	val := "true"
	if !pol {
		val = "false"
	}
	f := Fact{Expr: s + " == " + val, If: ifi}
	collectDeps(c, &f)
	*out = append(*out, f)
}

// bindHelper: while the condition of a predicate helper is turned into facts for one particular call, the helper's
// parameters stand for that call's arguments (a helper called twice in one function — inRange(size, …), inRange(t, …) —
// must not have its facts phrased over its own parameter names or over the other call's arguments)
var predDepth int

func bindHelper(c *ssa.Call) func() {
	fn := c.Call.StaticCallee()
	if fn == nil {
		return func() {}
	}
	old, had := enteredBy[fn]
	enteredBy[fn] = c
	return func() {
		if had {
			enteredBy[fn] = old
		} else {
			delete(enteredBy, fn)
		}
	}
}

func isBool(t types.Type) bool {
	b, ok := t.Underlying().(*types.Basic)
	return ok && b.Info()&types.IsBoolean != 0
}

func collectDeps(v ssa.Value, f *Fact) {
	seen := map[ssa.Value]bool{}
	var walk func(v ssa.Value, d int)
	walk = func(v ssa.Value, d int) {
		if v == nil || seen[v] || d > 14 {
			return
		}
		seen[v] = true
		switch x := v.(type) {
		case *ssa.UnOp:
			if x.Op == token.MUL {
				f.loads = append(f.loads, x)
				if al, ok := x.X.(*ssa.Alloc); ok && !al.Heap {
					if src := loadSource(x); src != nil {
						walk(src, d+1)
					}
				}
			}
		case *ssa.Call:
			f.calls = append(f.calls, x)
		}
		if ins, ok := v.(ssa.Instruction); ok {
			for _, op := range ins.Operands(nil) {
				if *op != nil {
					walk(*op, d+1)
				}
			}
		}
	}
	walk(v, 0)
}

// edgeDominates: every path to block a passes through the edge b -> s.
func edgeDominates(b, s, a *ssa.BasicBlock) bool {
	if !s.Dominates(a) {
		return false
	}
	for _, p := range s.Preds {
		if p == b {
			continue
		}
		if !s.Dominates(p) { // other entry into s that does not come from inside s's own region
			return false
		}
	}
	// b -> s must be the only occurrence (if both successors are s the edge carries no information)
	return true
}

// factsAt returns the facts established by dominating branches at the given instruction.
// Facts whose memory dependencies may have been overwritten between the branch and the
// instruction are dropped (must-analysis: dropping is the safe direction).
func (w *World) factsAt(at ssa.Instruction) []Fact { return w.factsAtK(at, true) }

// testedBefore: branch outcomes that dominate the instruction, whether or not the tested location
// was modified afterwards ("the test was performed on this path").
func (w *World) testedBefore(at ssa.Instruction) []Fact { return w.factsAtK(at, false) }

func (w *World) factsAtK(at ssa.Instruction, kill bool) []Fact { return w.factsAtKD(at, kill, 0) }

func (w *World) factsAtKD(at ssa.Instruction, kill bool, cdepth int) []Fact {
	if r, ok := at.(*ssa.Return); ok {
		if v, isV := virtReturns[r]; isV && v.succ == nil {
			return w.factsAtKD(v.real, kill, cdepth)
		}
		if v, isV := virtReturns[r]; isV {
			// virtual return on the edge pred -> merge block: what holds at the end of pred, plus the edge's own condition
			last := v.pred.Instrs[len(v.pred.Instrs)-1]
			fs := w.factsAtKD(last, kill, cdepth)
			if ifi, isIf := last.(*ssa.If); isIf && len(v.pred.Succs) == 2 && v.pred.Succs[0] != v.pred.Succs[1] {
				var extra []Fact
				condFacts(ifi.Cond, v.pred.Succs[0] == v.succ, ifi, &extra)
				fs = append(fs, extra...)
				fs = append(fs, w.expandSummaries(extra, 0)...)
			}
			return fs
		}
	}
	blk := at.Block()
	fn := blk.Parent()
	var out []Fact
	for d := blk; d != nil; d = d.Idom() {
		p := d.Idom()
		if p == nil {
			break
		}
		// find dominating predecessors with If; walk all dominators of blk
		_ = p
	}
	// iterate over all blocks that dominate blk and end in If
	for _, b := range fn.Blocks {
		if len(b.Instrs) == 0 {
			continue
		}
		ifi, ok := b.Instrs[len(b.Instrs)-1].(*ssa.If)
		if !ok || !b.Dominates(blk) || len(b.Succs) != 2 || b.Succs[0] == b.Succs[1] {
			continue
		}
		if b == blk {
			continue
		}
		var fs []Fact
		if edgeDominates(b, b.Succs[0], blk) {
			condFacts(ifi.Cond, true, ifi, &fs)
		} else if edgeDominates(b, b.Succs[1], blk) {
			condFacts(ifi.Cond, false, ifi, &fs)
		}
		for _, f := range fs {
			if !kill || w.factSurvives(f, at) {
				out = append(out, f)
			}
		}
	}
	// postconditions of new helpers called before `at`: facts that hold at every return of the
	// helper about its results (a mask computed in an extracted helper keeps its loop-exit invariant)
	if cdepth == 0 {
		for _, b := range fn.Blocks {
			for _, ins := range b.Instrs {
				c, ok := ins.(*ssa.Call)
				if !ok || helperCallee(c) == nil || ins == at || !instrDominatesFlat(ins, at) {
					continue
				}
				for _, x := range w.helperPost(c) {
					out = append(out, Fact{Expr: x, If: nil})
				}
			}
		}
	}
	if isNewHelper(fn) {
		have := map[string]bool{}
		for _, f := range out {
			have[f.Expr] = true
		}
		for _, f := range w.contextFacts(fn, kill, cdepth) {
			if !have[f.Expr] {
				have[f.Expr] = true
				out = append(out, f)
			}
		}
	}
	if par := fn.Parent(); par != nil && cdepth < 3 {
		// a function literal handed directly to a call (`s.forEach(func(x) error {…})`): it runs during that call, so what
		// holds where the literal is written holds inside it — unless the literal's own code writes what a fact reads
		var uses []ssa.Instruction
		direct := true
		for _, b := range par.Blocks {
			for _, ins := range b.Instrs {
				for _, op := range ins.Operands(nil) {
					if op == nil || *op == nil {
						continue
					}
					switch x := (*op).(type) {
					case *ssa.MakeClosure:
						if x.Fn == ssa.Value(fn) {
							if _, isCall := ins.(*ssa.Call); isCall {
								uses = append(uses, ins)
							} else if _, isMC := ins.(*ssa.MakeClosure); !isMC {
								direct = false
							}
						}
					case *ssa.Function:
						if x == fn {
							if _, isCall := ins.(*ssa.Call); isCall {
								uses = append(uses, ins)
							} else if _, isMC := ins.(*ssa.MakeClosure); !isMC {
								direct = false
							}
						}
					}
				}
			}
		}
		if direct && len(uses) == 1 {
			have := map[string]bool{}
			for _, f := range out {
				have[f.Expr] = true
			}
			wr := w.fieldWrites(fn)
			for _, f := range w.factsAtKD(uses[0], kill, cdepth+1) {
				killed := false
				if kill {
					for _, l := range f.loads {
						if fld := rootFieldOfLoad(l); fld != nil && wr[fld] {
							killed = true
						}
					}
				}
				if !killed && !have[f.Expr] {
					have[f.Expr] = true
					out = append(out, f)
				}
			}
		}
	}
	out = append(out, w.expandSummaries(out, 0)...)
	sort.Slice(out, func(i, j int) bool { return out[i].Expr < out[j].Expr })
	return out
}

// expandSummaries: a fact `helper(args) == nil` (error helper) or `helper(args) == true/false`
// (boolean helper) about a module function implies every fact that holds on all of the helper's
// returns of that class, with the helper's parameters replaced by the call's arguments.  This is
// what makes a guard keep counting when it is moved into (or out of) a small helper.
func (w *World) expandSummaries(fs []Fact, depth int) []Fact {
	if depth > 1 {
		return nil
	}
	var out []Fact
	seen := map[string]bool{}
	for _, f := range fs {
		seen[f.Expr] = true
	}
	for _, f := range fs {
		for _, c := range f.calls {
			callee := c.Call.StaticCallee()
			if callee == nil || !inModule(callee) || callee.Blocks == nil || len(callee.Blocks) > 40 {
				continue
			}
			rc := render(c)
			class := ""
			ridx := -1
			rest := ""
			if strings.HasPrefix(f.Expr, rc) {
				rest = f.Expr[len(rc):]
				if strings.HasPrefix(rest, "#") {
					j := 1
					for j < len(rest) && rest[j] >= '0' && rest[j] <= '9' {
						j++
					}
					if n, err := strconv.Atoi(rest[1:j]); err == nil {
						ridx = n
						rest = rest[j:]
					}
				}
			}
			switch rest {
			case " == nil":
				class = "nil"
			case " == true":
				class = "true"
			case " == false":
				class = "false"
			default:
				continue
			}
			sum := w.returnSummaryIdx(callee, class, ridx)
			if class != "nil" && len(sum) == 0 {
				// predicate helper with one computed result (`return C.E2_in_G2(p)`, `return a < b`): its truth is
				// the truth of that expression
				if rs := returnsD(callee, 99); len(rs) == 1 {
					k := 0
					if ridx >= 0 {
						k = ridx
					}
					if k < len(rs[0].Results) && isBool(rs[0].Results[k].Type()) {
						if _, isC := rs[0].Results[k].(*ssa.Const); !isC {
							var inner []Fact
							condFacts(rs[0].Results[k], class == "true", nil, &inner)
							for _, in := range inner {
								if mentionsOnlyParams(in.Expr, callee) {
									sum = append(sum, in.Expr)
								}
							}
						}
					}
				}
			}
			for _, e := range sum {
				x := e
				for i, p := range callee.Params {
					if i < len(c.Call.Args) {
						x = replaceIdent(x, p.Name(), render(c.Call.Args[i]))
					}
				}
				x = renormCmp(x)
				if !seen[x] {
					seen[x] = true
					out = append(out, Fact{Expr: x, If: f.If, loads: f.loads, calls: f.calls})
				}
			}
		}
	}
	return out
}

// renormCmp restores the canonical form of a comparison after parameters were replaced by arguments (a constant
// argument may now stand on the left, two non-constant sides of an equality may be out of order).
func renormCmp(s string) string {
	p := splitCmp(s)
	if p == nil {
		return s
	}
	isK := func(x string) bool {
		if _, ok := parseInt(x); ok {
			return true
		}
		return x == "true" || x == "false" || x == "nil" || strings.HasPrefix(x, "\"")
	}
	lc, rc := isK(p[0]), isK(p[2])
	ops := map[string]token.Token{"==": token.EQL, "!=": token.NEQ, "<": token.LSS, "<=": token.LEQ, ">": token.GTR, ">=": token.GEQ}
	op, ok := ops[p[1]]
	if !ok {
		return s
	}
	return normCmp(p[0], op, p[2], lc, rc)
}

// returnSummary: facts (over the callee's own parameter names) common to all returns of the class.
func (w *World) returnSummary(fn *ssa.Function, class string) []string {
	return w.returnSummaryIdx(fn, class, -1)
}

// returnSummaryIdx: ridx selects the result the class refers to (-1: last result for "nil", first otherwise).
func (w *World) returnSummaryIdx(fn *ssa.Function, class string, ridx int) []string {
	key := fn.String() + "/" + class + "/" + strconv.Itoa(ridx)
	if w.sumCache == nil {
		w.sumCache = map[string][]string{}
	}
	if v, ok := w.sumCache[key]; ok {
		return v
	}
	w.sumCache[key] = nil // recursion guard
	// summaries are context-free: phrased over the callee's own parameter names, whatever call site a
	// rule last entered the function through
	if via, had := enteredBy[fn]; had {
		delete(enteredBy, fn)
		defer func() { enteredBy[fn] = via }()
	}
	var common map[string]bool
	for _, r := range returns(fn) {
		if len(r.Results) == 0 {
			continue
		}
		res := r.Results[len(r.Results)-1]
		if class != "nil" {
			res = r.Results[0]
		}
		if ridx >= 0 {
			if ridx >= len(r.Results) {
				continue
			}
			res = r.Results[ridx]
		}
		match := false
		switch class {
		case "nil":
			match = isNilConst(res) && isErrorType(res.Type())
		case "true":
			match = isConstBool(res, true)
		case "false":
			match = isConstBool(res, false)
		}
		if !match {
			if class == "nil" && isErrorType(res.Type()) && !isNilConst(res) {
				continue // an error return
			}
			if class != "nil" {
				if _, isC := constOf(res); !isC {
					// computed boolean: a single `return a <op> b` is handled by expandBoolHelpers
					w.sumCache[key] = nil
					return nil
				}
				continue
			}
			continue
		}
		fs := map[string]bool{}
		for _, f := range w.factsAtK(r, true) {
			// only facts about parameters/constants travel to the caller
			if mentionsOnlyParams(f.Expr, fn) || isNewHelper(fn) {
				// (a helper the rules do not know keeps what it established about its own locals too)
				fs[f.Expr] = true
			}
		}
		if common == nil {
			common = fs
		} else {
			for k := range common {
				if !fs[k] {
					delete(common, k)
				}
			}
		}
	}
	var out []string
	for k := range common {
		out = append(out, k)
	}
	sort.Strings(out)
	w.sumCache[key] = out
	return out
}

// mentionsOnlyParams: every identifier root in the expression is a parameter name, `len`, or a literal.
func mentionsOnlyParams(expr string, fn *ssa.Function) bool {
	names := map[string]bool{"len": true, "nil": true, "true": true, "false": true, "C": true}
	for _, p := range fn.Params {
		names[p.Name()] = true
	}
	i := 0
	for i < len(expr) {
		c := expr[i]
		if c == '_' || c >= 'a' && c <= 'z' || c >= 'A' && c <= 'Z' {
			j := i
			for j < len(expr) && isIdentChar(expr[j]) {
				j++
			}
			id := expr[i:j]
			// field / method selectors after a dot are fine
			if i > 0 && expr[i-1] == '.' {
				i = j
				continue
			}
			if !names[id] {
				if j < len(expr) && expr[j] == '(' {
					i = j // a function applied to parameters (bitsToBytes(a.curve…))
					continue
				}
				return false
			}
			i = j
			continue
		}
		if c >= 0x80 {
			return false
		}
		i++
	}
	return true
}

func factStrings(fs []Fact) []string {
	var s []string
	for _, f := range fs {
		s = append(s, f.Expr)
	}
	return uniq(s)
}

func hasFact(fs []Fact, expr string) bool {
	for _, f := range fs {
		if f.Expr == expr {
			return true
		}
	}
	return false
}

func hasFactPrefix(fs []Fact, prefix string) (string, bool) {
	for _, f := range fs {
		if strings.HasPrefix(f.Expr, prefix) {
			return f.Expr, true
		}
	}
	return "", false
}

// between reports whether instruction x may execute after the branch `from` was taken towards `to`
// and before `to`, i.e. x lies on a path from the branch to `to` that does not re-evaluate the branch
// (re-evaluation re-establishes the fact).
func (w *World) between(from *ssa.If, x, to ssa.Instruction) bool {
	if x == to {
		return false
	}
	fb, xb, tb := from.Block(), x.Block(), to.Block()
	if xb == fb {
		return false // precedes the branch in its own block; later executions re-evaluate the branch
	}
	// forward reachability from the branch's successors without re-entering fb
	fwd := map[*ssa.BasicBlock]bool{}
	var st []*ssa.BasicBlock
	for _, s := range fb.Succs {
		if s.Dominates(tb) || s == tb || reachAvoid(s, tb, fb) {
			st = append(st, s)
		}
	}
	for len(st) > 0 {
		b := st[len(st)-1]
		st = st[:len(st)-1]
		if fwd[b] || b == fb {
			continue
		}
		fwd[b] = true
		st = append(st, b.Succs...)
	}
	if !fwd[xb] {
		return false
	}
	if xb == tb {
		// x before `to` in the same block, or the block can reach itself without passing fb
		if instrIndex(x) < instrIndex(to) {
			return true
		}
		for _, s := range tb.Succs {
			if reachAvoid(s, tb, fb) {
				return true
			}
		}
		return false
	}
	return reachAvoid(xb, tb, fb)
}

// reachAvoid: b reaches c without passing through block avoid.
func reachAvoid(b, c, avoid *ssa.BasicBlock) bool {
	seen := map[*ssa.BasicBlock]bool{}
	st := []*ssa.BasicBlock{b}
	for len(st) > 0 {
		x := st[len(st)-1]
		st = st[:len(st)-1]
		if seen[x] || x == avoid {
			continue
		}
		seen[x] = true
		if x == c {
			return true
		}
		st = append(st, x.Succs...)
	}
	return false
}

func (fi *FnInfo) reachableViaSucc(b, c *ssa.BasicBlock) bool {
	for _, s := range b.Succs {
		if fi.reachable(s, c) {
			return true
		}
	}
	return false
}

// addrField returns the struct field object a pointer value addresses (through FieldAddr), if any.
func addrField(v ssa.Value) *types.Var {
	if fa, ok := v.(*ssa.FieldAddr); ok {
		st := deref(fa.X.Type()).Underlying().(*types.Struct)
		return st.Field(fa.Field)
	}
	return nil
}

// factSurvives: no store to (or call that may write) a location the fact reads lies between the
// branch and the target instruction.
func (w *World) factSurvives(f Fact, at ssa.Instruction) bool {
	if len(f.loads) == 0 {
		return true
	}
	fn := at.Parent()
	for _, ld := range f.loads {
		fld := addrField(ld.X)
		path := render(ld.X)
		_, isGlobal := ld.X.(*ssa.Global)
		for _, b := range fn.Blocks {
			for _, ins := range b.Instrs {
				switch x := ins.(type) {
				case *ssa.Store:
					same := false
					if fld != nil && addrField(x.Addr) == fld {
						same = true
					} else if render(x.Addr) == path {
						same = true
					}
					if same && w.between(f.If, x, at) {
						return false
					}
				case ssa.CallInstruction:
					if fld == nil && !isGlobal {
						continue
					}
					if ins == ssa.Instruction(at) {
						continue
					}
					if fld != nil && w.callMayWriteField(x.Common(), fld) && w.between(f.If, ins, at) {
						return false
					}
				}
			}
		}
	}
	return true
}

// ---- transitive field-write sets over the module's own functions ----

func (w *World) fieldWrites(fn *ssa.Function) map[*types.Var]bool {
	if w.writes == nil {
		w.writes = map[*ssa.Function]map[*types.Var]bool{}
		w.computeWrites()
	}
	return w.writes[fn]
}

func inModule(fn *ssa.Function) bool {
	return fn != nil && fn.Pkg != nil && strings.HasPrefix(fn.Pkg.Pkg.Path(), rootPath)
}

func (w *World) moduleFuncs() []*ssa.Function {
	var all []*ssa.Function
	for _, p := range []string{rootPath, hashPath, randomPath} {
		all = append(all, w.srcFuncs(p)...)
	}
	return all
}

// callees resolves a call to the module functions it may invoke (static, or CHA for interface
// invokes restricted to module types). Calls that leave the module return ext=true.
func (w *World) callees(c *ssa.CallCommon) (fns []*ssa.Function, ext bool) {
	if fn := c.StaticCallee(); fn != nil {
		if inModule(fn) && fn.Blocks != nil {
			return []*ssa.Function{fn}, false
		}
		return nil, true
	}
	if c.IsInvoke() {
		// all module types implementing the interface
		iface, _ := c.Value.Type().Underlying().(*types.Interface)
		if iface == nil {
			return nil, true
		}
		for _, f := range w.moduleFuncs() {
			if f.Signature.Recv() == nil || f.Name() != c.Method.Name() {
				continue
			}
			rt := f.Signature.Recv().Type()
			if types.Implements(rt, iface) {
				fns = append(fns, f)
			}
		}
		return fns, true // other implementations may exist outside the module
	}
	if _, ok := c.Value.(*ssa.Builtin); ok {
		return nil, false
	}
	return nil, true
}

func (w *World) computeWrites() {
	all := w.moduleFuncs()
	direct := map[*ssa.Function]map[*types.Var]bool{}
	calls := map[*ssa.Function][]*ssa.Function{}
	for _, fn := range all {
		m := map[*types.Var]bool{}
		for _, b := range fn.Blocks {
			for _, ins := range b.Instrs {
				switch x := ins.(type) {
				case *ssa.Store:
					if f := rootField(x.Addr); f != nil {
						m[f] = true
					}
				case *ssa.MapUpdate:
					if f := rootFieldOfLoad(x.Map); f != nil {
						m[f] = true
					}
				case ssa.CallInstruction:
					cs, _ := w.callees(x.Common())
					calls[fn] = append(calls[fn], cs...)
				}
			}
		}
		direct[fn] = m
	}
	for _, fn := range all {
		w.writes[fn] = map[*types.Var]bool{}
		for k := range direct[fn] {
			w.writes[fn][k] = true
		}
	}
	for changed := true; changed; {
		changed = false
		for _, fn := range all {
			for _, c := range calls[fn] {
				for k := range w.writes[c] {
					if !w.writes[fn][k] {
						w.writes[fn][k] = true
						changed = true
					}
				}
			}
		}
	}
}

// rootField: the field object whose storage (directly or through index/sub-field) is addressed.
func rootField(addr ssa.Value) *types.Var {
	for {
		switch x := addr.(type) {
		case *ssa.FieldAddr:
			st := deref(x.X.Type()).Underlying().(*types.Struct)
			return st.Field(x.Field)
		case *ssa.IndexAddr:
			// element of a slice/array: attribute to the field holding the slice/array
			switch y := x.X.(type) {
			case *ssa.UnOp:
				if y.Op == token.MUL {
					addr = y.X
					continue
				}
			}
			addr = x.X
			continue
		default:
			return nil
		}
	}
}

func rootFieldOfLoad(v ssa.Value) *types.Var {
	if u, ok := v.(*ssa.UnOp); ok && u.Op == token.MUL {
		return rootField(u.X)
	}
	return nil
}

func (w *World) callMayWriteField(c *ssa.CallCommon, fld *types.Var) bool {
	cs, _ := w.callees(c)
	for _, fn := range cs {
		if w.fieldWrites(fn)[fld] {
			return true
		}
	}
	// calls leaving the module cannot write unexported fields of module structs except through
	// pointers handed to them; cgo calls are handled by the contract table (engine X).
	return false
}

// factsPerPred returns, for every predecessor edge p -> b, the facts that hold when control takes
// that edge (facts at p's terminator plus p's own branch outcome).  A property that holds under
// every edge holds at b even if no single branch dominates b (join of disjoint cases).
func (w *World) factsPerPred(b *ssa.BasicBlock) [][]Fact {
	var out [][]Fact
	for _, p := range b.Preds {
		last := p.Instrs[len(p.Instrs)-1]
		fs := w.factsAt(last)
		if ifi, ok := last.(*ssa.If); ok && len(p.Succs) == 2 && p.Succs[0] != p.Succs[1] {
			if p.Succs[0] == b {
				condFacts(ifi.Cond, true, ifi, &fs)
			} else {
				condFacts(ifi.Cond, false, ifi, &fs)
			}
		}
		out = append(out, fs)
	}
	return out
}

// holdsOnAllPaths: pred(facts) holds at `at` directly, or on every incoming edge of its block
// (recursively up to depth) when the block is a join.
func (w *World) holdsOnAllPaths(at ssa.Instruction, pred func([]Fact) bool, depth int) bool {
	return w.holdsOnAllPathsK(at, pred, depth, w.factsAt(at))
}

// holdsOnAllPathsK: `known` = the facts at the instruction the query started from (what is established about φ values
// after their join is used for the value each predecessor contributes).
func (w *World) holdsOnAllPathsK(at ssa.Instruction, pred func([]Fact) bool, depth int, known []Fact) bool {
	if pred(w.factsAt(at)) {
		return true
	}
	if depth == 0 {
		return false
	}
	at = locOf(at)
	b := at.Block()
	if len(b.Preds) < 2 {
		if len(b.Preds) == 1 {
			p := b.Preds[0]
			return w.holdsOnAllPathsK(p.Instrs[len(p.Instrs)-1], pred, depth-1, known)
		}
		return false
	}
	here := known
	for i, fs := range w.factsPerPred(b) {
		// what is known here about a φ of this join holds, on the path through predecessor i, of the value that
		// predecessor contributes (`err` tested after the two branches that each assigned it)
		for _, ins := range b.Instrs {
			ph, isPhi := ins.(*ssa.Phi)
			if !isPhi || i >= len(ph.Edges) {
				continue
			}
			rp := render(ph)
			for _, f := range here {
				if !strings.HasPrefix(f.Expr, rp+" ") {
					continue
				}
				e := ph.Edges[i]
				nf := Fact{Expr: renormCmp(render(e) + f.Expr[len(rp):]), If: f.If}
				collectDeps(e, &nf)
				if ex, isEx := e.(*ssa.Extract); isEx {
					if c, isCall := ex.Tuple.(*ssa.Call); isCall {
						nf.calls = append(nf.calls, c)
					}
				} else if c, isCall := e.(*ssa.Call); isCall {
					nf.calls = append(nf.calls, c)
				}
				fs = append(fs, nf)
				fs = append(fs, w.expandSummaries([]Fact{nf}, 0)...)
			}
		}
		if pred(fs) {
			continue
		}
		p := b.Preds[i]
		if !w.holdsOnAllPathsK(p.Instrs[len(p.Instrs)-1], pred, depth-1, known) {
			return false
		}
	}
	return true
}

func instrDominatesFlat(a, b ssa.Instruction) bool {
	if a.Parent() != b.Parent() {
		return false
	}
	if a.Block() == b.Block() {
		for _, x := range a.Block().Instrs {
			if x == a {
				return true
			}
			if x == b {
				return false
			}
		}
	}
	return a.Block().Dominates(b.Block())
}

// helperPost: facts common to all returns of the new helper called by c, phrased over the call's
// results (`call#k`, or the call itself for a single result) and the caller's arguments.
func (w *World) helperPost(c *ssa.Call) []string {
	h := helperCallee(c)
	if h == nil {
		return nil
	}
	var common map[string]bool
	for _, r := range returnsD(h, 99) {
		cur := map[string]bool{}
		for _, f := range w.factsAtKD(r, true, 1) {
			x := f.Expr
			used := false
			for k, rv := range r.Results {
				if _, isC := rv.(*ssa.Const); isC {
					continue
				}
				rr := render(rv)
				if len(rr) < 2 || !strings.Contains(x, rr) {
					continue
				}
				name := render(c)
				if len(r.Results) > 1 {
					name = fmt.Sprintf("%s#%d", (&renderer{seen: map[ssa.Value]bool{}}).call(&c.Call), k)
				}
				x = strings.ReplaceAll(x, rr, name)
				used = true
			}
			if used {
				cur[substParams(x, h, &c.Call)] = true
			}
		}
		if common == nil {
			common = cur
		} else {
			for k := range common {
				if !cur[k] {
					delete(common, k)
				}
			}
		}
	}
	var out []string
	for k := range common {
		out = append(out, k)
	}
	sort.Strings(out)
	return out
}
