package main

import (
	"fmt"
	"go/token"
	"go/types"
	"strings"

	"golang.org/x/tools/go/ssa"
)

// ruleC11Verdict (C11.R2): below the ECDSA Verify entry point there is exactly one call of
// crypto/ecdsa.Verify; it is what Verify returns; it is applied to the key's public key, the hasher's
// output of the data, and the two big-endian integers read from sig[:nLen] and sig[nLen:]; it is
// reached only under len(sig) == 2·nLen; the only (false, nil) return that is not the library's
// verdict is the wrong-length clause.
func (w *World) ruleC11Verdict(verify *ssa.Function) {
	recv, sig, data, hasher := P(verify, 0), P(verify, 1), P(verify, 2), P(verify, 3)
	nLen := fmt.Sprintf("bitsToBytes(%s.alg.curve.Params().N.BitLen())", recv)
	total := "(2 * " + nLen + ")"
	isLib := func(ins ssa.Instruction) bool {
		c, ok := ins.(*ssa.Call)
		return ok && c.Call.StaticCallee() != nil && c.Call.StaticCallee().String() == "crypto/ecdsa.Verify"
	}
	sites := w.deepSites(verify, isLib, 3)
	key := fnKey(verify)
	if len(sites) != 1 {
		w.viol("C11.R2", key+"/verdict", verify.Pos(), fmt.Sprintf("expected exactly one call of crypto/ecdsa.Verify below Verify, found %d: the verdict is not (only) the library's", len(sites)))
		return
	}
	st := sites[0]
	vc := st.ins.(*ssa.Call)
	facts := w.deepFacts(st)
	has := func(f string) bool {
		for _, x := range facts {
			if x == f {
				return true
			}
		}
		return false
	}
	lenOK := has(cmpFact("len("+sig+")", "==", total))
	w.check(lenOK, "C11.R2", key+"/verdict/guard:len", vc.Pos(), "the library verdict is computed only for signatures of exactly 2·nLen bytes",
		"crypto/ecdsa.Verify is reached without the guard len("+sig+") == "+total+": other lengths are not rejected before parsing", facts...)
	args := vc.Call.Args
	a0, a1 := st.render(args[0]), st.render(args[1])
	w.check(a0 == recv+".goPubKey" && a1 == fmt.Sprintf("%s.ComputeHash(%s)", hasher, data), "C11.R2", key+"/verdict-key-hash", vc.Pos(),
		"ecdsa.Verify on the key's public key and the hasher's output of the data", "ecdsa.Verify is not called on (pk.goPubKey, hasher.ComputeHash(data)) but on ("+a0+", "+a1+")")
	want := [][2]string{{"", nLen}, {nLen, ""}}
	for i, nm := range []string{"r", "s"} {
		src, ok := w.bigIntSource(args[2+i], st, len(st.chain), 0)
		good := ok && sameHalf(src, sig, want[i][0], want[i][1], total, lenOK)
		if !ok {
			src = "not a big-endian import of signature bytes: " + st.render(args[2+i])
		}
		w.check(good, "C11.R2", key+"/verdict-"+nm, vc.Pos(), "scalar "+nm+" is the big-endian integer of "+sig+"["+want[i][0]+":"+want[i][1]+"]",
			"the "+nm+" operand of ecdsa.Verify is not the big-endian integer of "+sig+"["+want[i][0]+":"+want[i][1]+"] (got "+src+")")
	}
	// every way out of Verify
	n := 0
	for _, r := range w.returnsAll(verify) {
		ret := r.ins.(*ssa.Return)
		if len(ret.Results) != 2 {
			continue
		}
		v := stripConv(ret.Results[0])
		if v == ssa.Value(vc) {
			n++
			w.check(isNilConst(ret.Results[1]), "C11.R2", key+"/verdict-return", ret.Pos(), "the library verdict is returned with a nil error", "the library verdict is returned together with an error")
			continue
		}
		if isConstBool(v, false) {
			if !isNilConst(ret.Results[1]) {
				continue // error return
			}
			fs := w.deepFacts(r)
			okk := false
			for _, f := range fs {
				if f == cmpFact("len("+sig+")", "!=", total) {
					okk = true
				}
			}
			w.check(okk, "C11.R2", key+"/wrong-length", ret.Pos(), "wrong length ⇒ (false,nil)", "a (false, nil) return that is neither the library's verdict nor the wrong-length clause", fs...)
			continue
		}
		w.viol("C11.R2", key+"/verdict", ret.Pos(), "Verify returns `"+r.render(ret.Results[0])+"`, which is not the result of crypto/ecdsa.Verify")
	}
	if n == 0 {
		w.viol("C11.R2", key+"/verdict", verify.Pos(), "the result of crypto/ecdsa.Verify is never returned")
	} else {
		w.ok("C11.R2", key+"/verdict", vc.Pos(), "Verify returns the result of the one crypto/ecdsa.Verify call")
	}
}

// ruleC11Format (C11.R3): the format check accepts only under len == 2·nLen, r,s ≠ 0, r,s < N,
// with r and s the integers of the two halves.
func (w *World) ruleC11Format() {
	var algoT *types.Named
	if p := w.ByPath[rootPath]; p != nil {
		if tn, ok := p.Types.Scope().Lookup("ecdsaAlgo").(*types.TypeName); ok {
			algoT, _ = tn.Type().(*types.Named)
		}
	}
	var sfc *ssa.Function
	if algoT != nil {
		sfc = w.method(algoT, "signatureFormatCheck")
	}
	if sfc == nil {
		w.undecided("C11.R3", "anchor:signatureFormatCheck", token.NoPos, "unresolved anchor: signatureFormatCheck")
		return
	}
	a, sig := P(sfc, 0), P(sfc, 1)
	N := a + ".curve.Params().N"
	nLen := fmt.Sprintf("bitsToBytes(%s.BitLen())", N)
	total := "(2 * " + nLen + ")"
	want := map[string][2]string{"r": {"", nLen}, "s": {nLen, ""}}
	nAcc := 0
	for _, r := range returns(sfc) {
		if !isConstBool(r.Results[0], true) {
			if _, isC := constOf(r.Results[0]); !isC {
				w.viol("C11.R3", fnKey(sfc)+"/accept", r.Pos(), "the format verdict is computed (`"+render(r.Results[0])+"`) rather than decided by the guards")
			}
			continue
		}
		nAcc++
		fs := w.factsAt(r)
		lenOK := hasFact(fs, cmpFact("len("+sig+")", "==", total))
		w.check(lenOK, "C11.R3", fnKey(sfc)+"/accept/len", r.Pos(), "format accepted only for 2·nLen bytes", "signatureFormatCheck returns true without len("+sig+") == "+total, factStrings(fs)...)
		// which scalars were tested non-zero and below N
		nonzero, below := map[string]bool{}, map[string]bool{}
		site := deepSite{ins: r}
		for _, f := range fs {
			for _, c := range f.calls {
				callee := c.Call.StaticCallee()
				if callee == nil || len(c.Call.Args) == 0 {
					continue
				}
				src, ok := w.bigIntSource(c.Call.Args[0], site, 0, 0)
				if !ok {
					continue
				}
				which := ""
				for nm, wv := range want {
					if sameHalf(src, sig, wv[0], wv[1], total, lenOK) {
						which = nm
					}
				}
				if which == "" {
					continue
				}
				rc := render(c)
				switch callee.String() {
				case "(*math/big.Int).Sign":
					if f.Expr == rc+" != 0" || f.Expr == rc+" > 0" {
						nonzero[which] = true
					}
				case "(*math/big.Int).Cmp":
					if len(c.Call.Args) == 2 && render(c.Call.Args[1]) == N && (f.Expr == rc+" < 0" || f.Expr == rc+" == -1") {
						below[which] = true
					}
				}
			}
		}
		for _, nm := range []string{"r", "s"} {
			w.check(nonzero[nm], "C11.R3", fnKey(sfc)+"/accept/"+nm+"-nonzero", r.Pos(), nm+" ≠ 0 on the accepting path", "signatureFormatCheck returns true without having tested "+nm+" (the integer of its half of the signature) ≠ 0", factStrings(fs)...)
			w.check(below[nm], "C11.R3", fnKey(sfc)+"/accept/"+nm+"-below-N", r.Pos(), nm+" < N on the accepting path", "signatureFormatCheck returns true without having tested "+nm+" < N (curve order)", factStrings(fs)...)
		}
	}
	if nAcc == 0 {
		w.viol("C11.R3", fnKey(sfc)+"/accept", sfc.Pos(), "no accepting return")
	}
	_ = strings.Contains
}
