// cryptolint: repository-specific static checkers for onflow/crypto.
//
// It loads /repo's current working tree (type-checked syntax + go/ssa), runs the rules of one
// property and writes the obligations it examined as JSON. Nothing from /repo is executed.
package main

import (
	"encoding/json"
	"flag"
	"fmt"
	"go/types"
	"os"
	"sort"
	"strings"

	"golang.org/x/tools/go/ssa"
)

type ruleFn func(w *World)

var registry = map[string]ruleFn{}

func register(id string, f ruleFn) { registry[id] = f }

func main() {
	repo := flag.String("repo", "/repo", "repository root")
	prop := flag.String("prop", "", "property id (C01..C20)")
	outp := flag.String("out", "", "output JSON")
	tier := flag.String("tier", "quick", "quick|thorough")
	dump := flag.String("dump", "", "debug: dump SSA + facts of function (pkg-relative name)")
	cfgName := flag.String("config", "default", "build configuration: default|nocgo|purego|arm64|386")
	contractsOut := flag.Bool("contracts", false, "print the Go↔C contract table as JSON and exit")
	dumpVocab := flag.Bool("dumpvocab", false, "print the names of all module functions (over the build configurations) as Go source for vocab.go and exit")
	flag.Parse()
	if *dumpVocab {
		names := map[string]bool{}
		for _, cn := range []string{"default", "nocgo", "purego", "arm64", "386", "s390x"} {
			lc, _ := configByName(cn, *repo)
			w, err := load(lc)
			if err != nil {
				fmt.Fprintln(os.Stderr, cn, err)
				continue
			}
			for _, f := range w.moduleFuncs() {
				if f.Synthetic == "" && f.Parent() == nil {
					names[f.String()] = true
				}
			}
		}
		tnames := map[string]bool{}
		for _, cn := range []string{"default", "nocgo", "purego"} {
			lc, _ := configByName(cn, *repo)
			w, err := load(lc)
			if err != nil {
				continue
			}
			for _, pp := range []string{rootPath, hashPath, randomPath} {
				if pk := w.ByPath[pp]; pk != nil {
					for _, n := range pk.Types.Scope().Names() {
						if tn, ok := pk.Types.Scope().Lookup(n).(*types.TypeName); ok {
							tnames[pp+"."+tn.Name()] = true
						}
					}
				}
			}
		}
		var ns []string
		for n := range names {
			ns = append(ns, n)
		}
		sort.Strings(ns)
		var ts []string
		for n := range tnames {
			ts = append(ts, n)
		}
		sort.Strings(ts)
		defer func() {
			fmt.Println("\n// typeVocab: the named types of the module on the confirmed tree; values carried in other (new) struct\n// types are looked through (vinline.go, loadSource).\nvar typeVocab = map[string]bool{")
			for _, n := range ts {
				fmt.Printf("\t%q: true,\n", n)
			}
			fmt.Println("}")
		}()
		fmt.Println("package main\n\n// vocab: the module functions of the tree the rules were confirmed on (generated: cryptolint -dumpvocab).\n// Functions not listed here are treated as refactoring helpers and virtually inlined (vinline.go).\nvar vocab = map[string]bool{")
		for _, n := range ns {
			fmt.Printf("\t%q: true,\n", n)
		}
		fmt.Println("}")
		return
	}
	if *contractsOut {
		if err := dumpContracts(""); err != nil {
			fmt.Fprintln(os.Stderr, err)
			os.Exit(2)
		}
		return
	}

	lc, err := configByName(*cfgName, *repo)
	if err != nil {
		fmt.Fprintln(os.Stderr, err)
		os.Exit(2)
	}
	if *dump != "" {
		w, err := load(lc)
		if err != nil {
			fmt.Fprintln(os.Stderr, "load:", err)
			os.Exit(2)
		}
		w.out = &Out{Floors: map[string]int{}, Stats: map[string]int{}}
		gWorld = w
		dumpFn(w, *dump)
		return
	}
	if *prop == "all" || strings.Contains(*prop, ",") {
		// several properties over one loaded program (used by the benign / self-test drivers):
		// output is a JSON object {property: result}
		runMany(*prop, *repo, *tier, lc, *outp)
		return
	}
	f, ok := registry[*prop]
	if !ok {
		fmt.Fprintln(os.Stderr, "unknown property", *prop)
		os.Exit(2)
	}
	out := &Out{Property: *prop, Config: lc.Name, Floors: map[string]int{}, Stats: map[string]int{}}
	// C20 manages its own configurations
	var w *World
	if *prop == "C20" {
		w = &World{out: out}
		w.Cfg = *repo
	} else {
		w, err = load(lc)
		if err != nil {
			out.Obligations = append(out.Obligations, Obl{Rule: *prop + ".load", Key: "load:" + lc.Name, Status: "undecided", Where: "?", Detail: "loading /repo failed: " + err.Error()})
			_ = writeOut(*outp, out)
			fmt.Fprintln(os.Stderr, "load:", err)
			os.Exit(0)
		}
		w.out = out
		w.stat("packages_loaded", len(w.ByPath))
		n, blocks := 0, 0
		for _, fn := range w.moduleFuncs() {
			n++
			blocks += len(fn.Blocks)
		}
		w.stat("module_functions", n)
		w.stat("module_ssa_blocks", blocks)
	}
	tierG = *tier
	repoDir = *repo
	func() {
		defer func() {
			if r := recover(); r != nil {
				out.Obligations = append(out.Obligations, Obl{Rule: *prop + ".engine", Key: "panic", Status: "undecided", Where: "?", Detail: fmt.Sprint("analyser panic: ", r)})
				fmt.Fprintln(os.Stderr, "panic:", r)
				if os.Getenv("CRYPTOLINT_DEBUG") != "" {
					panic(r)
				}
			}
		}()
		gWorld = w
		f(w)
	}()
	if *outp == "" {
		*outp = "/dev/stdout"
	}
	if err := writeOut(*outp, out); err != nil {
		fmt.Fprintln(os.Stderr, err)
		os.Exit(2)
	}
}

func runMany(props, repo, tier string, lc LoadCfg, outp string) {
	var ids []string
	if props == "all" {
		for id := range registry {
			ids = append(ids, id)
		}
	} else {
		ids = strings.Split(props, ",")
	}
	sort.Strings(ids)
	tierG = tier
	repoDir = repo
	res := map[string]*Out{}
	var shared *World
	var loadErr error
	for _, id := range ids {
		f, ok := registry[id]
		if !ok {
			continue
		}
		out := &Out{Property: id, Config: lc.Name, Floors: map[string]int{}, Stats: map[string]int{}}
		res[id] = out
		var w *World
		if id == "C20" {
			w = &World{out: out}
			w.Cfg = repo
		} else {
			if shared == nil && loadErr == nil {
				shared, loadErr = load(lc)
			}
			if loadErr != nil {
				out.Obligations = append(out.Obligations, Obl{Rule: id + ".load", Key: "load:" + lc.Name, Status: "undecided", Where: "?", Detail: "loading the repository failed: " + loadErr.Error()})
				continue
			}
			w = shared
			w.out = out
			w.stat("packages_loaded", len(w.ByPath))
		}
		func() {
			defer func() {
				if r := recover(); r != nil {
					out.Obligations = append(out.Obligations, Obl{Rule: id + ".engine", Key: "panic", Status: "undecided", Where: "?", Detail: fmt.Sprint("analyser panic: ", r)})
				}
			}()
			if w.Prog != nil {
				gWorld = w
			}
			f(w)
		}()
	}
	if outp == "" {
		outp = "/dev/stdout"
	}
	b, _ := json.MarshalIndent(res, "", " ")
	if err := os.WriteFile(outp, b, 0o644); err != nil {
		fmt.Fprintln(os.Stderr, err)
		os.Exit(2)
	}
}

var tierG = "quick"
var repoDir = "/repo"

func configByName(name, repo string) (LoadCfg, error) {
	switch name {
	case "default":
		return LoadCfg{Name: "default(cgo,amd64)", Dir: repo}, nil
	case "nocgo":
		return LoadCfg{Name: "nocgo", Dir: repo, Env: []string{"CGO_ENABLED=0"}, Flags: []string{"-tags=no_cgo"}}, nil
	case "purego":
		return LoadCfg{Name: "purego", Dir: repo, Flags: []string{"-tags=purego"}}, nil
	case "arm64":
		return LoadCfg{Name: "arm64,nocgo", Dir: repo, Env: []string{"CGO_ENABLED=0", "GOARCH=arm64"}, Flags: []string{"-tags=no_cgo"}}, nil
	case "386":
		return LoadCfg{Name: "386,nocgo", Dir: repo, Env: []string{"CGO_ENABLED=0", "GOARCH=386"}, Flags: []string{"-tags=no_cgo"}}, nil
	case "s390x":
		return LoadCfg{Name: "s390x,nocgo", Dir: repo, Env: []string{"CGO_ENABLED=0", "GOARCH=s390x"}, Flags: []string{"-tags=no_cgo"}}, nil
	}
	return LoadCfg{}, fmt.Errorf("unknown configuration %q", name)
}

func dumpFn(w *World, name string) {
	var fns []*ssa.Function
	for _, p := range []string{rootPath, hashPath, randomPath} {
		for _, f := range w.srcFuncs(p) {
			if f.Name() == name || f.String() == name || strings.HasSuffix(f.String(), name) {
				fns = append(fns, f)
			}
		}
	}
	sort.Slice(fns, func(i, j int) bool { return fns[i].String() < fns[j].String() })
	for _, f := range fns {
		fmt.Println("=====", f.String())
		for _, b := range f.Blocks {
			fmt.Printf("  block %d (%s) preds=%v succs=%v\n", b.Index, b.Comment, blkIdx(b.Preds), blkIdx(b.Succs))
			for _, ins := range b.Instrs {
				s := ins.String()
				if v, ok := ins.(ssa.Value); ok {
					s = v.Name() + " = " + s + "      ⟦" + render(v) + "⟧"
				}
				fmt.Printf("    %s\n", s)
				switch ins.(type) {
				case ssa.CallInstruction, *ssa.Return:
					fmt.Printf("        facts: %v\n", factStrings(w.factsAt(ins)))
				}
			}
		}
	}
}

func blkIdx(bs []*ssa.BasicBlock) []int {
	var r []int
	for _, b := range bs {
		r = append(r, b.Index)
	}
	return r
}
