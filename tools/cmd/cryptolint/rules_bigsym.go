package main

// Symbolic evaluation of math/big integers along straight-line code, and the rule built on it:
// C12.R9 — the ECDSA private scalar is ((int(OKM) mod (N-1)) + 1) of the whole HKDF output.

import (
	"fmt"
	"go/token"
	"go/types"
	"regexp"
	"sort"
	"strconv"
	"strings"

	"golang.org/x/tools/go/ssa"
)

// bigRoot: the object (allocation, parameter, loaded pointer) a *big.Int value denotes: results of the
// setter methods are their receiver.
func bigRoot(v ssa.Value) ssa.Value {
	for i := 0; i < 20; i++ {
		v = stripConv(v)
		c, ok := v.(*ssa.Call)
		if !ok {
			return v
		}
		f := c.Call.StaticCallee()
		if f == nil || !strings.HasPrefix(f.String(), "(*math/big.Int).") || len(c.Call.Args) == 0 {
			return v
		}
		if f.Signature.Results().Len() != 1 || !types.Identical(f.Signature.Results().At(0).Type(), c.Call.Args[0].Type()) {
			return v
		}
		v = c.Call.Args[0]
	}
	return v
}

var bigBinOps = map[string]string{"Add": "+", "Sub": "-", "Mod": "mod", "Mul": "*", "Div": "/", "Rem": "rem", "Exp": "^", "And": "&", "Or": "|", "Xor": "xor", "Lsh": "<<", "Rsh": ">>"}

type bigSymEval struct {
	w     *World
	s     deepSite
	depth int
}

// instrBefore: a executes before b on every path reaching b (same function, a dominates b).
func instrBefore(a, b ssa.Instruction) bool {
	return a != b && instrDominatesFlat(a, b)
}

// at: symbolic value of the integer denoted by v just before instruction `at` (nil: at function exit) in the
// frame `level` of the chain (len(chain) = innermost).  ok=false when the history is not a straight line of
// recognised operations.
func (e *bigSymEval) at(v ssa.Value, at ssa.Instruction, level int) (string, bool) {
	e.depth++
	defer func() { e.depth-- }()
	if e.depth > 12 {
		return "", false
	}
	root := bigRoot(v)
	switch x := root.(type) {
	case *ssa.Alloc:
		// mutations of this object that precede `at`
		fn := x.Parent()
		var muts []*ssa.Call
		escaped := false
		instrsFlat(fn, func(ins ssa.Instruction) {
			c, ok := ins.(*ssa.Call)
			if !ok {
				return
			}
			f := c.Call.StaticCallee()
			isBig := f != nil && strings.HasPrefix(f.String(), "(*math/big.Int).")
			for i, a := range c.Call.Args {
				if bigRoot(a) != ssa.Value(x) {
					continue
				}
				if !isBig {
					// handed to another function before `at`: it may be changed there
					if at == nil || instrBefore(c, at) {
						if cf := c.Call.StaticCallee(); cf == nil || !bigReadOnlyCallee(cf) {
							escaped = true
						}
					}
					continue
				}
				if i == 0 && bigMutator(f.Name()) {
					if at == nil || instrBefore(c, at) || ssa.Instruction(c) == at {
						if ssa.Instruction(c) != at {
							muts = append(muts, c)
						}
					}
				}
			}
		})
		if escaped {
			return "", false
		}
		// order by dominance: each must dominate the next
		sort.SliceStable(muts, func(i, j int) bool { return instrBefore(muts[i], muts[j]) })
		for i := 0; i+1 < len(muts); i++ {
			if !instrBefore(muts[i], muts[i+1]) {
				return "", false
			}
		}
		if at != nil {
			for _, m := range muts {
				if !instrBefore(m, at) {
					return "", false
				}
			}
		}
		if len(muts) == 0 {
			return "0", true
		}
		last := muts[len(muts)-1]
		return e.apply(last, level)
	case *ssa.Parameter:
		if level > 0 && level <= len(e.s.chain) {
			c := e.s.chain[level-1]
			idx := paramIndex(x.Parent(), x)
			if idx >= 0 && idx < len(c.Call.Args) {
				return e.at(c.Call.Args[idx], c, level-1)
			}
		}
		return "", false
	case *ssa.Call:
		return e.helperResult(x, 0, level)
	case *ssa.Extract:
		if c, ok := x.Tuple.(*ssa.Call); ok {
			return e.helperResult(c, x.Index, level)
		}
		return "", false
	case *ssa.UnOp:
		if x.Op == token.MUL {
			if g, ok := x.X.(*ssa.Global); ok {
				return e.global(g)
			}
			// a field of a curve-parameter object etc.: an immutable named quantity
			return e.s.upFrom(level, render(x)), true
		}
	}
	return "", false
}

// helperResult: the integer returned (result idx) by a module function called at frame `level`: evaluated inside the
// callee with its parameters bound to this call's arguments; every return must yield the same expression.
func (e *bigSymEval) helperResult(c *ssa.Call, idx int, level int) (string, bool) {
	callee := c.Call.StaticCallee()
	if callee == nil || !inModule(callee) || callee.Blocks == nil || level > len(e.s.chain) {
		return "", false
	}
	chain := append(append([]*ssa.Call{}, e.s.chain[:level]...), c)
	var vals []string
	for _, r := range returnsFlat(callee) {
		if idx >= len(r.Results) {
			return "", false
		}
		if isNilConst(r.Results[idx]) {
			continue
		}
		sub := &bigSymEval{w: e.w, s: deepSite{ins: r, chain: chain}, depth: e.depth}
		v, ok := sub.at(r.Results[idx], r, len(chain))
		if !ok {
			return "", false
		}
		vals = append(vals, v)
	}
	sort.Strings(vals)
	vals = uniq(vals)
	if len(vals) == 1 {
		return vals[0], true
	}
	return "", false
}

func bigMutator(name string) bool {
	if strings.HasPrefix(name, "Set") {
		return true
	}
	_, ok := bigBinOps[name]
	return ok || name == "Neg" || name == "Abs" || name == "Not" || name == "ModInverse" || name == "Sqrt" || name == "GCD" || name == "DivMod" || name == "QuoRem" || name == "Quo"
}

func bigReadOnlyCallee(f *ssa.Function) bool {
	s := f.String()
	return strings.HasPrefix(s, "fmt.") || strings.HasPrefix(s, "(*math/big.Int).")
}

// apply: value of the receiver after call c (the operands are evaluated just before c).
func (e *bigSymEval) apply(c *ssa.Call, level int) (string, bool) {
	f := c.Call.StaticCallee()
	name := f.Name()
	args := c.Call.Args
	switch {
	case name == "SetBytes" && len(args) == 2:
		return "int(" + e.s.upFrom(level, render(args[1])) + ")", true
	case (name == "SetInt64" || name == "SetUint64") && len(args) == 2:
		return e.s.upFrom(level, render(args[1])), true
	case name == "Set" && len(args) == 2:
		return e.at(args[1], c, level)
	case len(args) == 3:
		if op, ok := bigBinOps[name]; ok {
			a, ok1 := e.at(args[1], c, level)
			b, ok2 := e.at(args[2], c, level)
			if ok1 && ok2 {
				return "(" + a + " " + op + " " + b + ")", true
			}
		}
	}
	return "", false
}

// global: a package-level *big.Int initialised once by the package initialiser and never mutated afterwards.
func (e *bigSymEval) global(g *ssa.Global) (string, bool) {
	var inits []*ssa.Store
	mutated := false
	for _, fn := range e.w.moduleFuncsAll() {
		isInit := fn.Name() == "init" || strings.HasPrefix(fn.Name(), "init#")
		instrsFlat(fn, func(ins ssa.Instruction) {
			switch x := ins.(type) {
			case *ssa.Store:
				if x.Addr == ssa.Value(g) {
					if isInit {
						inits = append(inits, x)
					} else {
						mutated = true
					}
				}
			case *ssa.Call:
				f := x.Call.StaticCallee()
				if f == nil || !strings.HasPrefix(f.String(), "(*math/big.Int).") || len(x.Call.Args) == 0 || !bigMutator(f.Name()) {
					return
				}
				if ld, ok := bigRoot(x.Call.Args[0]).(*ssa.UnOp); ok && ld.Op == token.MUL && ld.X == ssa.Value(g) {
					mutated = true
				}
			}
		})
	}
	if mutated || len(inits) != 1 {
		return "", false
	}
	sub := &bigSymEval{w: e.w, s: deepSite{ins: inits[0]}, depth: e.depth}
	return sub.at(inits[0].Val, inits[0], 0)
}

// ruleEcdsaScalarShape (C12.R9)
func (w *World) ruleEcdsaScalarShape(rule string, gen *ssa.Function) {
	// sites: stores into the D field of crypto/ecdsa.PrivateKey reachable from the ECDSA key generation
	isDStore := func(ins ssa.Instruction) bool {
		st, ok := ins.(*ssa.Store)
		if !ok {
			return false
		}
		fa, ok := st.Addr.(*ssa.FieldAddr)
		if !ok {
			return false
		}
		stt, ok := deref(fa.X.Type()).Underlying().(*types.Struct)
		if !ok || fa.Field >= stt.NumFields() || stt.Field(fa.Field).Name() != "D" {
			return false
		}
		n, ok := deref(fa.X.Type()).(*types.Named)
		return ok && n.Obj().Pkg() != nil && n.Obj().Pkg().Path() == "crypto/ecdsa" && n.Obj().Name() == "PrivateKey"
	}
	sites := w.deepSites(gen, isDStore, 5)
	if len(sites) == 0 {
		w.viol(rule, fnKey(gen)+"/scalar", gen.Pos(), "no store of the private scalar (crypto/ecdsa.PrivateKey.D) is reachable from the ECDSA key generation")
		return
	}
	// the HKDF output in gen's vocabulary: the first result of hkdf.Key, computed in gen itself or handed back unchanged by
	// an extracted helper
	isHKDF := func(v ssa.Value) bool {
		for i := 0; i < 4 && v != nil; i++ {
			if ex, ok := v.(*ssa.Extract); ok && ex.Index == 0 {
				if c, ok := ex.Tuple.(*ssa.Call); ok && c.Call.StaticCallee() != nil && strings.HasPrefix(c.Call.StaticCallee().String(), "crypto/hkdf.Key") {
					return true
				}
			}
			v = helperValue(v)
		}
		return false
	}
	okms := map[string]bool{}
	instrsFlat(gen, func(ins ssa.Instruction) {
		if v, ok := ins.(ssa.Value); ok && isHKDF(v) {
			okms[render(v)] = true
		}
	})
	if len(okms) == 0 {
		w.undecided(rule, fnKey(gen)+"/okm", gen.Pos(), "unresolved anchor: HKDF output in the ECDSA key generation")
		return
	}
	// the length asked of HKDF is a function of the curve alone: ceil(bits(N)/8) plus a constant of at least 128 bits —
	// the documented key is the reduction of *that many* bytes; a length that also depends on the seed (its length, a
	// maximum with it) yields another HKDF output prefix-wise equal but a different integer, hence a different key for
	// the seeds that trigger it
	for _, ds := range w.deepSites(gen, func(ins ssa.Instruction) bool {
		c, ok := ins.(*ssa.Call)
		return ok && c.Call.StaticCallee() != nil && strings.HasPrefix(c.Call.StaticCallee().String(), "crypto/hkdf.Key")
	}, 3) {
		c := ds.ins.(*ssa.Call)
		if len(c.Call.Args) < 5 {
			continue
		}
		lenArg := ds.render(c.Call.Args[4])
		re := `^\(bitsToBytes\(` + regexp.QuoteMeta(P(gen, 0)) + `\.[\w.]*Params\(\)\.N\.BitLen\(\)\) \+ (\d+)\)$`
		m := regexp.MustCompile(re).FindStringSubmatch(lenArg)
		okLen := false
		if m != nil {
			k, _ := strconv.Atoi(m[1])
			okLen = k*8 >= 128
		}
		w.check(okLen, rule, fnKey(gen)+"/okm-length", c.Pos(), "HKDF output length = ceil(bits(N)/8) + constant ≥ 16", "the HKDF output length is `"+lenArg+"`, not the curve-order size plus a constant of at least 128 bits: the derived key changes (or the reduction becomes biased) for the inputs on which the extra term matters")
	}
	recv := P(gen, 0)
	for i, s := range sites {
		st := s.ins.(*ssa.Store)
		ev := &bigSymEval{w: w, s: s}
		got, ok := ev.at(st.Val, st, len(s.chain))
		var chain []string
		for _, c := range s.chain {
			chain = append(chain, c.Call.StaticCallee().Name())
		}
		key := fmt.Sprintf("%s/scalar#%d", fnKey(gen), i+1)
		if len(chain) > 0 {
			key = fmt.Sprintf("%s/scalar:via:%s", fnKey(gen), strings.Join(chain, ">"))
		}
		if !ok {
			w.viol(rule, key, st.Pos(), "the private scalar stored here is not a straight-line function of the HKDF output that the analysis can follow (expected ((int(OKM) mod (N-1)) + 1))")
			continue
		}
		// the curve order: Params().N of a curve held by the algorithm object (receiver field)
		okk, want := false, ""
		for okm := range okms {
			want = fmt.Sprintf("((int(%s) mod (%s.<curve>.Params().N - 1)) + 1)", okm, recv)
			pre, suf := fmt.Sprintf("((int(%s) mod (%s.", okm, recv), ".Params().N - 1)) + 1)"
			if strings.HasPrefix(got, pre) && strings.HasSuffix(got, suf) && !strings.ContainsAny(got[len(pre):len(got)-len(suf)], " ()") {
				okk = true
			}
		}
		w.check(okk, rule, key, st.Pos(), "private scalar = (int(OKM) mod (N-1)) + 1 over the whole HKDF output",
			"the private scalar is `"+got+"`, documented derivation is `"+want+"` (whole HKDF output, reduced modulo N-1, plus one)")
	}
}
