package main

import (
	"fmt"
	"go/token"
	"go/types"
	"sort"
	"strings"

	"golang.org/x/tools/go/ssa"
)

func init() { register("C09", ruleC09) }

// requirement: parameter `idx` of fn must have len >= min at every call
type lenReq struct {
	fn   *ssa.Function
	idx  int
	min  int64
	why  string
	site ssa.Instruction
}

func ruleC09(w *World) {
	w.floor("C09.R1", 40)
	w.floor("C09.R2", 8)
	w.floor("C09.R3", 2)
	w.floor("C09.R4", 10)
	w.floor("C09.R5", 2)
	w.ruleCgoExtents("C09.R1")
	w.ruleUntrustedInts("C09.R2")
	w.rulePanics("C09.R3")
	w.ruleDecodedInts("C09.R8")
	w.floor("C09.R10", 10)
	w.ruleCgoAliasing("C09.R10")
	// R13: the ECDSA decoders report every input that is not of the documented size and shape through the typed error —
	// they never hand the decision to a library parser that accepts other encodings (= C05.R2g for the ECDSA decoders)
	w.floor("C09.R13", 6)
	w.importObligations(ruleC05, "C05.R2g", "C09.R13", func(o Obl) bool { return strings.HasPrefix(o.Key, "(*ecdsaAlgo).") })
	d := w.dkg("C09.R4")
	if d != nil {
		w.ruleMessageParsing("C09.R4", d)
		w.ruleNilSlices("C09.R5", d)
	}
}

// ---------------- R1: cgo extents ----------------

func exportedEntry(fn *ssa.Function) bool {
	if fn.Object() == nil {
		return false
	}
	if fn.Object().Exported() {
		return true
	}
	// methods implementing exported interfaces (signer implementations are reached through exported functions)
	return false
}

func (w *World) ruleCgoExtents(rule string) {
	var reqs []lenReq
	nsites, nElem := 0, 0
	for _, fn := range w.srcFuncs(rootPath) {
		if isTestFile(w, fn.Pos()) {
			continue
		}
		testOnly := !exportedEntry(fn) && fn.Signature.Recv() == nil && len(w.callersOf(fn)) == 0 && fn.Name() != "init" && !strings.HasPrefix(fn.Name(), "init#")
		for _, c := range cgoCallsFlat(fn, "") {
			cname, _ := cgoName(c.Call.StaticCallee())
			if testOnly {
				w.info(rule, fnKey(fn)+"/cgo:"+cname, c.Pos(), "unexported helper with no non-test caller (test/bench wrapper); not reachable from the API")
				continue
			}
			ps, known := contract(cname)
			if !known {
				w.undecided(rule, fnKey(fn)+"/cgo:"+cname, c.Pos(), "C function "+cname+" has no row in the Go↔C contract table")
				continue
			}
			if len(ps) != len(c.Call.Args) {
				w.undecided(rule, fnKey(fn)+"/cgo:"+cname, c.Pos(), "contract row arity differs from the call")
				continue
			}
			nsites++
			argBound := func(i int) (int64, int64, bool) {
				if i >= len(c.Call.Args) {
					return 0, 0, false
				}
				return w.intBound(c.Call.Args[i], c)
			}
			for j, a := range c.Call.Args {
				if ps[j].Mode == "v" {
					continue
				}
				key := fmt.Sprintf("%s/cgo:%s/arg%d", fnKey(fn), cname, j)
				av := stripConv(a)
				for k := 0; k < 3; k++ {
					// pointer produced by an accessor the rules do not know (`h.cPtr()` returning &h[0])
					if hc, isCall := av.(*ssa.Call); isCall && helperCallee(hc) != nil {
						bindHelper(hc) // the accessor's parameters denote the arguments of *this* call from here on
					}
					if in := helperValue(av); in != nil {
						av = stripConv(in)
						continue
					}
					break
				}
				if isNilConst(av) {
					w.check(ps[j].Nullable, rule, key, c.Pos(), "NULL allowed for this parameter", "NULL passed for a C parameter that is dereferenced")
					continue
				}
				ia, isIA := av.(*ssa.IndexAddr)
				if !isIA {
					// &local / &field / pointer parameter: single object
					switch av.(type) {
					case *ssa.Alloc, *ssa.FieldAddr, *ssa.Global, *ssa.Parameter:
						if ps[j].Extent == "" {
							w.ok(rule, key, c.Pos(), "pointer to a single Go object")
						} else if lo, _, ok := evalExtent(ps[j].Extent, argBound); ok && lo <= 1 {
							w.ok(rule, key, c.Pos(), "pointer to a single Go object (extent may be 1)")
						} else {
							w.viol(rule, key, c.Pos(), "a single object is passed where C expects an array of "+ps[j].Extent)
						}
					default:
						w.undecided(rule, key, c.Pos(), "pointer argument shape not recognised: "+render(a))
					}
					continue
				}
				// &X[k]
				if _, isConstIdx := constOf(ia.Index); !isConstIdx {
					// element of an indexed collection: the index obligation belongs to the index rules (R2/R4 and the
					// struct invariants of Appendix B); the pointee is a single object
					nElem++
					continue
				}
				idxLo, idxHi, idxOK := w.intBound(ia.Index, c)
				if !idxOK || idxLo < 0 {
					w.viol(rule, key, c.Pos(), "pointer into a slice at an unbounded index: "+render(a))
					continue
				}
				// required length: index + extent (at least index+1)
				need := idxHi + 1
				extTxt := "≥1"
				if ps[j].Extent != "" && ps[j].Extent != "*" {
					if elo, ehi, ok := evalExtent(ps[j].Extent, argBound); ok && ehi < inf/2 && elo == ehi {
						need = idxHi + max64(ehi, 1)
						extTxt = ps[j].Extent
					} else {
						extTxt = ps[j].Extent + " (symbolic; non-emptiness decided here, the exact extent by the property-specific flat-buffer rules)"
					}
				}
				base := ia.X
				if bp, isP := stripConv(base).(*ssa.Parameter); isP && bp.Parent() != fn {
					// the accessor's own parameter: the slice the caller handed to it
					if up := enteringArg(bp); up != nil {
						base = up
					}
				}
				if arr, isArr := deref(base.Type()).Underlying().(*types.Array); isArr {
					w.check(arr.Len() >= need, rule, key, c.Pos(), fmt.Sprintf("array of %d elements covers the extent %s", arr.Len(), extTxt), fmt.Sprintf("array of %d elements is shorter than the %d elements C accesses", arr.Len(), need))
					continue
				}
				lo, _, ok := w.lenBound(base, c)
				if ok && lo >= need {
					w.ok(rule, key, c.Pos(), fmt.Sprintf("len(%s) ≥ %d proved (extent %s)", shortCond(render(base)), need, extTxt), factStrings(w.factsAt(c))...)
					continue
				}
				// symbolic identity: extent is argN and argN is len of the same slice
				if ps[j].Extent != "" && strings.HasPrefix(ps[j].Extent, "arg") && !strings.ContainsAny(ps[j].Extent, "+*(") {
					var n int
					fmt.Sscanf(ps[j].Extent, "arg%d", &n)
					if n < len(c.Call.Args) && render(c.Call.Args[n]) == "len("+render(base)+")" && ok && lo >= 1 {
						w.ok(rule, key, c.Pos(), "length argument is len of the same slice, slice non-empty")
						continue
					}
				}
				// hasher output under the Size() guard (assumption A-Hasher)
				if cc, isCall := stripConv(base).(*ssa.Call); isCall && cc.Call.IsInvoke() && cc.Call.Method.Name() == "ComputeHash" {
					guard := false
					hv := render(cc.Call.Value)
					for _, f := range w.factsAt(c) {
						if strings.HasPrefix(f.Expr, hv+".Size() == ") {
							guard = true
						}
					}
					w.check(guard, rule, key, c.Pos(), "hasher output, Size()==128 validated (assumption A-Hasher: ComputeHash returns Size() bytes)", "hasher output handed to C without the hasher size having been validated")
					continue
				}
				// parameter of the enclosing function: becomes a requirement on callers
				if p, isP := stripConv(base).(*ssa.Parameter); isP && paramIndex(fn, p) < 0 {
					w.undecided(rule, key, c.Pos(), "pointer produced by a helper whose argument could not be traced back to this function: "+render(a))
					continue
				}
				if p, isP := stripConv(base).(*ssa.Parameter); isP {
					// a dominating length guard inside the function already gave ok above; otherwise propagate
					reqs = append(reqs, lenReq{fn, paramIndex(fn, p), need, fmt.Sprintf("&%s[%d] handed to C.%s (needs %d elements)", p.Name(), idxHi, cname, need), c})
					continue
				}
				if sl, isSl := stripConv(base).(*ssa.Slice); isSl {
					if p, isP := stripConv(sl.X).(*ssa.Parameter); isP {
						off := int64(0)
						if sl.Low != nil {
							if _, h, k := w.intBound(sl.Low, c); k {
								off = h
							}
						}
						reqs = append(reqs, lenReq{fn, paramIndex(fn, p), need + off, fmt.Sprintf("&%s[%d:][%d] handed to C.%s", p.Name(), off, idxHi, cname), c})
						continue
					}
				}
				if why, isEx := reviewedExtentException(fn, base); isEx {
					w.info(rule, key, c.Pos(), why)
					continue
				}
				if fa := fieldOfLoad(base); fa != nil && w.nilStored[fa] {
					// tracked DKG slice field: allocated-ness is the typestate question of R5; when allocated its length is the invariant
					if l2, _, k2 := w.fieldLenInvariant(fa, 0); k2 && l2 >= need {
						w.ok(rule, key, c.Pos(), fmt.Sprintf("field %s has length ≥ %d whenever allocated (every non-nil store); allocation state decided by C09.R5", fa.Name(), l2))
						continue
					}
				}
				w.viol(rule, key, c.Pos(), fmt.Sprintf("`%s` is handed to C.%s which accesses %s elements, but len(%s) ≥ %d is not established on this path (known lower bound %d): an empty/short slice panics in Go or makes C read out of bounds", render(a), cname, extTxt, shortCond(render(base)), need, lo), factStrings(w.factsAt(c))...)
			}
		}
	}
	w.stat("cgo_call_sites", nsites)
	w.stat("cgo_element_pointer_args", nElem)
	// propagate requirements through unexported wrappers up to the API
	seen := map[string]bool{}
	for depth := 0; len(reqs) > 0 && depth < 6; depth++ {
		var next []lenReq
		for _, r := range reqs {
			k := fmt.Sprintf("%p/%d/%d", r.fn, r.idx, r.min)
			if seen[k] {
				continue
			}
			seen[k] = true
			callers := w.callersOf(r.fn)
			// interface dispatch: implementations of the unexported signer interface are called from the exported Decode*/Generate* functions
			var ifaceCallers []ssa.CallInstruction
			if r.fn.Signature.Recv() != nil {
				for _, f := range w.srcFuncs(rootPath) {
					if isTestFile(w, f.Pos()) {
						continue
					}
					instrsFlat(f, func(ins ssa.Instruction) {
						if c, ok := ins.(ssa.CallInstruction); ok && c.Common().IsInvoke() && c.Common().Method.Name() == r.fn.Name() {
							if iface, ok := c.Common().Value.Type().Underlying().(*types.Interface); ok && types.Implements(r.fn.Signature.Recv().Type(), iface) {
								ifaceCallers = append(ifaceCallers, c)
							}
						}
					})
				}
			}
			key := fmt.Sprintf("%s/requires:len(%s)>=%d", fnKey(r.fn), P(r.fn, r.idx), r.min)
			if len(callers) == 0 && len(ifaceCallers) == 0 {
				if exportedEntry(r.fn) {
					w.viol(rule, key, r.site.Pos(), fmt.Sprintf("exported %s can be called with len(%s) < %d: %s — panics (index out of range) or lets C read out of bounds", fnKey(r.fn), P(r.fn, r.idx), r.min, r.why))
				} else {
					w.info(rule, key, r.site.Pos(), "unexported helper with no non-test caller (test/bench wrapper): "+r.why)
				}
				continue
			}
			if exportedEntry(r.fn) {
				w.viol(rule, key, r.site.Pos(), fmt.Sprintf("exported %s can be called with len(%s) < %d: %s", fnKey(r.fn), P(r.fn, r.idx), r.min, r.why))
			}
			for _, cs := range callers {
				arg := cs.Common().Args[r.idx]
				w.dischargeLenReq(rule, cs, arg, r, &next)
			}
			for _, cs := range ifaceCallers {
				// invoke: Args exclude the receiver
				ai := r.idx - 1
				if ai < 0 || ai >= len(cs.Common().Args) {
					continue
				}
				w.dischargeLenReq(rule, cs, cs.Common().Args[ai], r, &next)
			}
		}
		reqs = next
	}
}

func (w *World) dischargeLenReq(rule string, cs ssa.CallInstruction, arg ssa.Value, r lenReq, next *[]lenReq) {
	caller := cs.Parent()
	key := fmt.Sprintf("%s/call:%s/len(arg)>=%d", fnKey(caller), r.fn.Name(), r.min)
	lo, _, ok := w.lenBound(arg, cs.(ssa.Instruction))
	if fa := fieldOfLoad(arg); fa != nil && w.nilStored[fa] {
		if l2, _, k2 := w.fieldLenInvariant(fa, 0); k2 && l2 >= r.min {
			w.ok(rule, key, cs.Pos(), fmt.Sprintf("field %s has length ≥ %d whenever allocated; allocation state decided by C09.R5", fa.Name(), l2))
			return
		}
	}
	if ok && lo >= r.min {
		w.ok(rule, key, cs.Pos(), fmt.Sprintf("caller guarantees len ≥ %d for %s", r.min, r.why), factStrings(w.factsAt(cs.(ssa.Instruction)))...)
		return
	}
	base := stripConv(arg)
	off := int64(0)
	if sl, isSl := base.(*ssa.Slice); isSl {
		if sl.Low != nil {
			if _, h, k := w.intBound(sl.Low, cs.(ssa.Instruction)); k {
				off = h
			}
		}
		base = stripConv(sl.X)
	}
	if p, isP := base.(*ssa.Parameter); isP {
		*next = append(*next, lenReq{caller, paramIndex(caller, p), r.min + off, r.why + " via " + r.fn.Name(), cs.(ssa.Instruction)})
		return
	}
	w.viol(rule, key, cs.Pos(), fmt.Sprintf("%s calls %s with `%s` whose length is not shown to be ≥ %d (known lower bound %d): %s", fnKey(caller), r.fn.Name(), shortCond(render(arg)), r.min, lo, r.why), factStrings(w.factsAt(cs.(ssa.Instruction)))...)
}

// ---------------- R2: untrusted integers ----------------

// nilSummary: facts over the callee's parameters that hold on every return whose error result is nil.
func (w *World) nilSummary(fn *ssa.Function) []string {
	var common map[string]bool
	for _, r := range returns(fn) {
		if len(r.Results) == 0 || !isNilConst(r.Results[len(r.Results)-1]) {
			continue
		}
		fs := map[string]bool{}
		for _, f := range w.factsAt(r) {
			fs[f.Expr] = true
		}
		if common == nil {
			common = fs
		} else {
			for k := range common {
				if !fs[k] {
					delete(common, k)
				}
			}
		}
	}
	var out []string
	for k := range common {
		out = append(out, k)
	}
	sort.Strings(out)
	return out
}

func (w *World) ruleUntrustedInts(rule string) {
	// (a) enum String() methods indexing an array literal by the receiver
	for _, spec := range []struct{ pkg, typ string }{{rootPath, "SigningAlgorithm"}, {hashPath, "HashingAlgorithm"}} {
		fn := w.fn(spec.pkg, "("+spec.typ+").String")
		if fn == nil {
			w.undecided(rule, spec.typ+".String", token.NoPos, "unresolved anchor")
			continue
		}
		n := 0
		instrsFlat(fn, func(ins ssa.Instruction) {
			var idx ssa.Value
			var cont ssa.Value
			switch x := ins.(type) {
			case *ssa.IndexAddr:
				idx, cont = x.Index, x.X
			case *ssa.Index:
				idx, cont = x.Index, x.X
			default:
				return
			}
			if !dependsOnParam(idx, fn.Params[0], 0) {
				return
			}
			n++
			lo, hi, ok := w.intBound(idx, ins)
			ll, _, lk := w.lenBound(cont, ins)
			w.check(ok && lk && lo >= 0 && hi < ll, rule, fnKey(fn)+"/index-by-receiver", ins.Pos(), fmt.Sprintf("index in [%d,%d] within the %d-element table", lo, hi, ll), fmt.Sprintf("String() indexes a %d-element table with the receiver without a range check (undefined enum values panic): index bound %d..%d", ll, lo, hi), factStrings(w.factsAt(ins))...)
		})
		if n == 0 {
			w.ok(rule, fnKey(fn)+"/index-by-receiver", fn.Pos(), "no table indexed by the receiver")
		}
	}
	// (b) threshold inspector API: index parameter validated before it is narrowed or used as an index
	var T *types.Named
	for _, t := range w.implementors(rootPath, "ThresholdSignatureInspector", rootPath) {
		for _, f := range structFields(t) {
			if strings.HasPrefix(f.Type().String(), "sync.") {
				T = t
			}
		}
	}
	if T == nil {
		w.undecided(rule, "anchor:inspector", token.NoPos, "unresolved anchor")
		return
	}
	// struct invariant: len(publicKeyShares) == size, established by the constructor only
	invOK := w.inspectorInvariant(rule, T)
	for _, name := range []string{"VerifyShare", "HasShare", "TrustedAdd", "VerifyAndAdd"} {
		fn := w.method(T, name)
		if fn == nil {
			w.undecided(rule, "inspector/"+name, token.NoPos, "unresolved anchor")
			continue
		}
		p := fn.Params[1]
		uses, bad := 0, ""
		var visit func(v ssa.Value)
		seen := map[ssa.Value]bool{}
		visit = func(v ssa.Value) {
			if seen[v] || v.Referrers() == nil {
				return
			}
			seen[v] = true
			for _, ref := range *v.Referrers() {
				risky := false
				switch x := ref.(type) {
				case *ssa.Convert:
					if b, ok := x.Type().Underlying().(*types.Basic); ok && b.Kind() == types.Uint8 {
						risky = true
					}
					visit(x)
				case *ssa.IndexAddr:
					if x.Index == v {
						risky = true
					}
				case *ssa.Index:
					if x.Index == v {
						risky = true
					}
				case *ssa.Call:
					// handed on to an extracted helper: its parameter is the same integer, and so is a result computed from it
					if h := helperCallee(x); h != nil {
						for j, a := range x.Call.Args {
							if a == v && j < len(h.Params) {
								visit(h.Params[j])
								for _, r := range returnsFlat(h) {
									for k, rv := range r.Results {
										if _, isC := constOf(rv); isC || !dependsOnParam(rv, h.Params[j], 0) {
											continue
										}
										if len(r.Results) == 1 {
											visit(x)
										}
										for _, ref2 := range *x.Referrers() {
											if ex, ok := ref2.(*ssa.Extract); ok && ex.Index == k {
												visit(ex)
											}
										}
									}
								}
							}
						}
					}
				}
				if !risky {
					continue
				}
				uses++
				// guard: validIndex(p) == nil with summary 0 <= p < size
				guarded := false
				for _, f := range w.factsAt(ref) {
					for _, c := range f.calls {
						callee := c.Call.StaticCallee()
						if callee == nil || !inModule(callee) || !strings.HasSuffix(f.Expr, "== nil") {
							continue
						}
						sum := w.nilSummary(callee)
						cp := P(callee, 1)
						hasLo, hasHi := false, false
						for _, s := range sum {
							if s == cp+" >= 0" {
								hasLo = true
							}
							if strings.HasPrefix(s, cp+" < ") && strings.HasSuffix(s, ".size") {
								hasHi = true
							}
						}
						argOK := len(c.Call.Args) > 1 && (stripConv(c.Call.Args[1]) == ssa.Value(p) || ref.Parent() != p.Parent() && render(c.Call.Args[1]) == render(v))
						if hasLo && hasHi && argOK {
							guarded = true
						}
					}
				}
				if !guarded {
					// the range test written out at the use (inside a validating helper): 0 <= v, v < <recv>.size
					hasLo, hasHi := false, false
					vs := render(stripConv(v))
					for _, f := range w.factsAt(ref) {
						if f.Expr == vs+" >= 0" {
							hasLo = true
						}
						if strings.HasPrefix(f.Expr, vs+" < ") && strings.HasSuffix(f.Expr, ".size") {
							hasHi = true
						}
					}
					guarded = hasLo && hasHi
				}
				if !(guarded && invOK) && bad == "" {
					bad = fmt.Sprintf("`%s` is narrowed/used as an index at %s without the range validation (0 <= %s < size) dominating it", p.Name(), w.pos(posOf(ref)), p.Name())
				}
			}
		}
		visit(p)
		w.check(bad == "" && uses > 0, rule, "inspector/"+name+"/param:"+p.Name(), fn.Pos(), fmt.Sprintf("%d narrowing/index uses follow validIndex (summary: 0 <= i < size; invariant len(publicKeyShares) == size)", uses), bad+map[bool]string{true: "", false: " (no use found: anchor moved?)"}[uses > 0])
	}
	// (c) DKG API parameters: shared with C10.R5
	if d := w.dkg(rule); d != nil {
		w.ruleRangeBeforeUse(rule, d)
	}
	// (d) fixed-size arrays indexed by a computed value: the index interval must lie inside the array
	//     (arrays have a static length, so this is decidable from intervals alone)
	narr := 0
	var arrFns []*ssa.Function
	// (hash and random index their arrays under relational invariants — bufIndex+bufSize <= rate, loop counters —
	// that intervals cannot express; there the decoded-integer rule R8 covers what untrusted bytes can reach)
	for _, pp := range []string{rootPath} {
		arrFns = append(arrFns, w.srcFuncs(pp)...)
	}
	for _, fn := range arrFns {
		if isTestFile(w, fn.Pos()) {
			continue
		}
		instrsFlat(fn, func(ins ssa.Instruction) {
			var idx, cont ssa.Value
			switch x := ins.(type) {
			case *ssa.IndexAddr:
				idx, cont = x.Index, x.X
			case *ssa.Index:
				idx, cont = x.Index, x.X
			case *ssa.Slice:
				// array[lo:hi] with a computed bound: 0 <= lo, hi <= len(array) must follow from intervals
				arr, isArr := deref(x.X.Type()).Underlying().(*types.Array)
				if !isArr {
					return
				}
				for bi, b := range []ssa.Value{x.Low, x.High, x.Max} {
					if b == nil {
						continue
					}
					if _, isC := constOf(b); isC {
						continue
					}
					narr++
					lo, hi, ok := w.intBound(b, ins)
					w.check(ok && lo >= 0 && hi <= arr.Len(), rule, fmt.Sprintf("%s/array-slice:%s/%s", fnKey(fn), shortCond(render(x.X)), []string{"low", "high", "max"}[bi]), ins.Pos(),
						fmt.Sprintf("slice bound in [%d,%d] within the %d-element array", lo, hi, arr.Len()),
						fmt.Sprintf("array of %d elements is sliced with bound `%s`, whose value can be %d..%d: slice-bounds panic for some inputs", arr.Len(), shortCond(render(b)), lo, hi), factStrings(w.factsAt(ins))...)
				}
				return
			default:
				return
			}
			arr, isArr := deref(cont.Type()).Underlying().(*types.Array)
			if !isArr {
				return
			}
			if _, isC := constOf(idx); isC {
				return
			}
			narr++
			lo, hi, ok := w.intBound(idx, ins)
			w.check(ok && lo >= 0 && hi < arr.Len(), rule, fmt.Sprintf("%s/array-index:%s", fnKey(fn), shortCond(render(cont))), ins.Pos(),
				fmt.Sprintf("index in [%d,%d] within the %d-element array", lo, hi, arr.Len()),
				fmt.Sprintf("array of %d elements is indexed by `%s`, whose value can be %d..%d: out-of-range panic for some inputs", arr.Len(), shortCond(render(idx)), lo, hi), factStrings(w.factsAt(ins))...)
		})
	}
	w.stat("computed_array_index_sites", narr)
	// (e) hash and random: every element access `array[i]` with a computed index lies inside the array (element
	//     accesses only: sub-slicing of the sponge storage rests on the relational invariant bufIndex+bufSize <= rate,
	//     which intervals cannot express — see DESIGN, not decided)
	nh := 0
	for _, pp := range []string{hashPath, randomPath} {
		for _, fn := range w.srcFuncs(pp) {
			if isTestFile(w, fn.Pos()) {
				continue
			}
			instrsFlat(fn, func(ins ssa.Instruction) {
				var idx, cont ssa.Value
				switch x := ins.(type) {
				case *ssa.IndexAddr:
					idx, cont = x.Index, x.X
				case *ssa.Index:
					idx, cont = x.Index, x.X
				default:
					return
				}
				arr, isArr := deref(cont.Type()).Underlying().(*types.Array)
				if !isArr {
					return
				}
				if _, isC := constOf(idx); isC {
					return
				}
				nh++
				lo, hi, ok := w.intBound(idx, ins)
				key := fmt.Sprintf("%s/array-index:%s[%s]", fnKey(fn), shortCond(render(cont)), shortCond(render(idx)))
				w.check(ok && lo >= 0 && hi < arr.Len(), rule, key, ins.Pos(),
					fmt.Sprintf("index in [%d,%d] within the %d-element array", lo, hi, arr.Len()),
					fmt.Sprintf("array of %d elements is indexed by `%s`, whose value can be %d..%d: out-of-range panic for some inputs or call histories", arr.Len(), shortCond(render(idx)), lo, hi), factStrings(w.factsAt(ins))...)
			})
		}
	}
	w.stat("computed_array_index_sites_hash_random", nh)
	// (f) re-slicing past the length: `x[:h]` with h computed from len(x) (len(x)+k, a rounded-up length, …) relies on
	//     spare capacity.  Capacity is not part of a slice's contract once append has been applied to it (append may or
	//     may not reallocate) and what lies between len and cap is stale memory, so such a bound is accepted only when
	//     h <= len(x) is proved, or x is the direct result of make with a capacity proved sufficient.
	var extFns []*ssa.Function
	for _, pp := range []string{rootPath, hashPath, randomPath} {
		extFns = append(extFns, w.srcFuncs(pp)...)
	}
	w.stat("slice_extension_sites", w.ruleSliceExtensions(rule, extFns))
}

func dependsOnParam(v ssa.Value, p *ssa.Parameter, d int) bool {
	if d > 6 {
		return false
	}
	if v == ssa.Value(p) {
		return true
	}
	if ins, ok := v.(ssa.Instruction); ok {
		for _, op := range ins.Operands(nil) {
			if *op != nil && dependsOnParam(*op, p, d+1) {
				return true
			}
		}
	}
	return false
}

func (w *World) inspectorInvariant(rule string, T *types.Named) bool {
	var sizeV, pksV []string
	for _, fn := range w.srcFuncs(rootPath) {
		if isTestFile(w, fn.Pos()) {
			continue
		}
		instrsFlat(fn, func(ins ssa.Instruction) {
			st, ok := ins.(*ssa.Store)
			if !ok {
				return
			}
			fa, ok := st.Addr.(*ssa.FieldAddr)
			if !ok || !types.Identical(deref(fa.X.Type()), T) {
				return
			}
			switch addrField(fa).Name() {
			case "size":
				sizeV = append(sizeV, render(st.Val))
			case "publicKeyShares":
				pksV = append(pksV, render(st.Val))
			}
		})
	}
	ok := len(sizeV) == 1 && len(pksV) == 1 && sizeV[0] == "len("+pksV[0]+")"
	w.check(ok, rule, "inspector/invariant:len(publicKeyShares)==size", T.Obj().Pos(), "both fields are written once, by the constructor, as (len(keys), keys)", fmt.Sprintf("the invariant len(publicKeyShares) == size is not established: size := %v, publicKeyShares := %v", sizeV, pksV))
	return ok
}

// ---------------- R3: explicit panics ----------------

func (w *World) rulePanics(rule string) {
	n := 0
	for _, pp := range []string{rootPath, hashPath, randomPath} {
		for _, fn := range w.srcFuncs(pp) {
			if isTestFile(w, fn.Pos()) || strings.HasSuffix(w.Fset.Position(fn.Pos()).Filename, "_test_utils.go") || strings.HasSuffix(w.Fset.Position(fn.Pos()).Filename, "rand_utils.go") {
				continue
			}
			instrsFlat(fn, func(ins ssa.Instruction) {
				switch x := ins.(type) {
				case *ssa.Panic:
					n++
					key := fnKey(fn) + "/panic"
					fs := w.factsAt(x)
					switch {
					case fn.Name() == "UintN" && hasFact(fs, P(fn, 1)+" == 0"):
						w.ok(rule, key, x.Pos(), "documented: UintN(0) panics")
					case func() bool {
						for _, f := range fs {
							if strings.HasPrefix(f.Expr, "isG2Compressed() == false") || strings.HasPrefix(f.Expr, "isG1Compressed() == false") {
								return true
							}
						}
						return false
					}():
						// constant-false guard: the serialization constants make the predicate true
						g2, _ := w.constInt(rootPath, "g2BytesLen")
						fp, _ := w.constInt(rootPath, "fpBytesLen")
						w.check(g2 == 2*fp, rule, key, x.Pos(), "guard isG2Compressed() is true by the serialization constants (g2BytesLen == 2·fpBytesLen): unreachable", "panic guarded by isG2Compressed() is reachable: g2BytesLen != 2·fpBytesLen")
					default:
						w.viol(rule, key, x.Pos(), "explicit panic reachable from the API outside the documented set (UintN(0), compile-time configuration guards)", factStrings(fs)...)
					}
				case *ssa.TypeAssert:
					if !x.CommaOk {
						// unchecked assertion on a value: panics when the dynamic type differs
						if _, isIface := x.X.Type().Underlying().(*types.Interface); isIface {
							n++
							w.viol(rule, fnKey(fn)+"/unchecked-type-assertion", x.Pos(), "unchecked type assertion `"+render(x)+"` panics on a value of another type")
						}
					}
				}
			})
		}
	}
	w.stat("panic_sites", n)
}

// ---------------- R4: message parsing ----------------

func (w *World) ruleMessageParsing(rule string, d *dkgAnchors) {
	n := 0
	for _, fn := range w.srcFuncs(rootPath) {
		if isTestFile(w, fn.Pos()) || fn.Signature.Recv() == nil {
			continue
		}
		rt := deref(fn.Signature.Recv().Type())
		if !(types.Identical(rt, d.plain) || types.Identical(rt, d.qual) || types.Identical(rt, d.joint)) {
			continue
		}
		// byte-slice parameters = message payloads
		for _, p := range fn.Params[1:] {
			if typeShort(p.Type()) != "[]byte" {
				continue
			}
			var visit func(v ssa.Value, off int64)
			seen := map[ssa.Value]bool{}
			visit = func(v ssa.Value, off int64) {
				if seen[v] || v.Referrers() == nil {
					return
				}
				seen[v] = true
				for _, ref := range *v.Referrers() {
					switch x := ref.(type) {
					case *ssa.IndexAddr:
						if x.X != v {
							continue
						}
						n++
						_, ih, iok := w.intBound(x.Index, x)
						lo, _, lok := w.lenBound(v, x)
						w.check(iok && lok && ih < lo, rule, fmt.Sprintf("%s/%s[%s]", fnKey(fn), p.Name(), shortCond(render(x.Index))), x.Pos(), fmt.Sprintf("index ≤ %d < len ≥ %d", ih, lo), fmt.Sprintf("message byte %s[%s] is read without a length check covering it (len lower bound %d)", p.Name(), render(x.Index), lo), factStrings(w.factsAt(x))...)
					case *ssa.Slice:
						if x.X != v {
							continue
						}
						n++
						var need int64
						if x.Low != nil {
							_, h, k := w.intBound(x.Low, x)
							if !k {
								h = inf
							}
							need = h
						}
						if x.High != nil {
							_, h, k := w.intBound(x.High, x)
							if !k {
								h = inf
							}
							need = max64(need, h)
						}
						lo, _, lok := w.lenBound(v, x)
						w.check(lok && need <= lo, rule, fmt.Sprintf("%s/%s%s", fnKey(fn), p.Name(), strings.TrimPrefix(render(x), render(v))), x.Pos(), fmt.Sprintf("slice bounds ≤ %d ≤ len ≥ %d", need, lo), fmt.Sprintf("message is sliced up to %d without a length check covering it (len lower bound %d)", need, lo), factStrings(w.factsAt(x))...)
						visit(x, off)
					case *ssa.Phi:
						visit(x, off)
					}
				}
			}
			visit(p, 0)
		}
	}
	if n == 0 {
		w.undecided(rule, "message-parsing", token.NoPos, "no message byte accesses found in the DKG handlers")
	}
}

// ---------------- R5: nil slice fields (typestate) ----------------

func (w *World) ruleNilSlices(rule string, d *dkgAnchors) {
	for name, ts := range d.systems(w) {
		found := map[string]string{}
		pos := map[string]token.Pos{}
		nidx := 0
		for i := range ts.trans {
			t := &ts.trans[i]
			for _, e := range t.Out.Effects {
				if e.Kind == "index" {
					nidx++
				}
			}
			for _, v := range t.Out.Viol {
				k := name + "/" + v.Fn + "/" + strings.SplitN(strings.TrimPrefix(v.What, "index of slice field `"), "`", 2)[0]
				if _, ok := found[k]; !ok {
					found[k] = fmt.Sprintf("%s in %s: reached by %s → %s[%s]", v.What, v.Fn, ts.witness(t.From), t.Method, strings.Join(lastN(t.Out.Lines, 5), "; "))
					pos[k] = v.Pos
				}
			}
		}
		var keys []string
		for k := range found {
			keys = append(keys, k)
		}
		sort.Strings(keys)
		for _, k := range keys {
			w.viol(rule, k, pos[k], found[k])
		}
		w.check(len(keys) == 0 && nidx > 0, rule, name+"/no-index-of-unallocated-slice", ts.methods["HandleBroadcastMsg"].Pos(), fmt.Sprintf("in %d reachable states / %d transitions every index of y, vA, a happens with the slice allocated (%d index events)", len(ts.states), len(ts.trans), nidx), fmt.Sprintf("%d construct(s) index an unallocated slice field", len(keys)))
	}
}

func fieldOfLoad(v ssa.Value) *types.Var {
	if u, ok := stripConv(v).(*ssa.UnOp); ok && u.Op == token.MUL {
		if fa, ok := u.X.(*ssa.FieldAddr); ok {
			return addrField(fa)
		}
	}
	return nil
}

// reviewedExtentException: flat arrays whose non-emptiness rests on an argument the engine does not
// mechanise; each entry names one buffer of one function and the reason (DESIGN Appendix A).
func reviewedExtentException(fn *ssa.Function, base ssa.Value) (string, bool) {
	name := ""
	if ph, ok := stripConv(base).(*ssa.Phi); ok {
		name = ph.Comment
	} else if ex, ok := stripConv(base).(*ssa.Extract); ok {
		name = render(ex)
		// a buffer assembled by a helper the rules do not know and handed back: the variable it is built in there
		if hv := helperValue(ex); hv != nil {
			if ph, ok := stripConv(hv).(*ssa.Phi); ok && ph.Comment != "" {
				name = ph.Comment
			}
		}
	} else if u, ok := stripConv(base).(*ssa.UnOp); ok {
		name = render(u)
	}
	table := map[string]map[string]string{
		"VerifyBLSSignatureManyMessages": {
			"flatDistinctHashes": "E-Hash: filled with the distinct hasher outputs (map keys) of a non-empty key list; each is Size()=128 bytes by the validated hasher (A-Hasher)",
			"flatHashes":         "E-Hash: filled with the hasher outputs grouped per key; non-empty for the same reason",
			"lenHashes":          "E-Group: one length entry per (key, hash) pair; every key of the grouping map holds at least one hash",
			"allPks":             "E-Group: concatenation of the per-hash key groups; every group received at least one key in the grouping loop over the non-empty key list",
		},
		"sumUpQualifiedKeys": {
			"s.getQualifiedKeys(qualified)#0": "E-Count: End returned earlier unless the number of qualified dealers exceeds threshold ≥ 1; the same count is collected here",
			"s.getQualifiedKeys(qualified)#1": "E-Count (as above)",
			"s.getQualifiedKeys(qualified)#2": "E-Count (as above): every per-participant list receives one entry per qualified dealer",
		},
	}
	// the reviewed argument is about the exported operation; code moved into a helper that only this operation
	// calls is still covered (the exception follows the call chain up through helpers the rules do not know)
	owner := fn
	for hops := 0; hops < 3 && isNewHelper(owner); hops++ {
		cs := gWorld.callersOfCached(owner)
		if len(cs) == 0 {
			break
		}
		up := cs[0].Parent()
		same := true
		for _, c := range cs {
			if c.Parent() != up {
				same = false
			}
		}
		if !same {
			break
		}
		owner = up
	}
	if t, ok := table[owner.Name()]; ok {
		if why, ok := t[name]; ok {
			return "reviewed exception " + why, true
		}
		for k, why := range t {
			if strings.HasPrefix(name, k) {
				return "reviewed exception " + why, true
			}
		}
	}
	return "", false
}

// ruleCgoAliasing (C04.R7 / C09.R10): at a cgo call the object C writes is not also one of the objects it reads, unless
// the C function is documented to work in place. The glue's vector functions initialise their result before reading the
// inputs (`E2_set_infty(sum)` first), so `f(&x[0], &x[0], n)` silently drops x[0].
var cgoInPlaceOK = map[string]bool{
	// BLST-style field / point arithmetic: result may alias an operand (res = res + p)
	"E1_add": true, "E2_add": true, "Fr_add": true, "Fr_sub": true, "Fr_mul_montg": true, "Fr_squ_montg": true, "E1_mult": false, "E2_mult": false,
}

func (w *World) ruleCgoAliasing(rule string) {
	n := 0
	for _, fn := range w.srcFuncs(rootPath) {
		if isTestFile(w, fn.Pos()) {
			continue
		}
		for _, c := range cgoCalls(fn, "") {
			cn, _ := cgoName(c.Call.StaticCallee())
			ps, ok := contract(cn)
			var wr, rd []int
			if !ok {
				// no contract row (a C function Go did not call on the confirmed tree): the glue's convention — the first
				// pointer parameter is the result, the others are inputs
				for i, a := range c.Call.Args {
					if _, isPtr := a.Type().Underlying().(*types.Pointer); isPtr {
						if len(wr) == 0 {
							wr = append(wr, i)
						} else {
							rd = append(rd, i)
						}
					}
				}
				ps = nil
			}
			for i, p := range ps {
				if i >= len(c.Call.Args) {
					break
				}
				if _, isPtr := c.Call.Args[i].Type().Underlying().(*types.Pointer); !isPtr {
					continue
				}
				if strings.Contains(p.Mode, "W") {
					wr = append(wr, i)
				} else if strings.Contains(p.Mode, "R") {
					rd = append(rd, i)
				}
			}
			if len(wr) == 0 || len(rd) == 0 {
				continue
			}
			n++
			bad := ""
			for _, i := range wr {
				bi := sliceBaseNoHelper(stripConv(c.Call.Args[i]))
				for _, j := range rd {
					bj := sliceBaseNoHelper(stripConv(c.Call.Args[j]))
					if bi == bj || render(bi) == render(bj) {
						if _, isConst := bi.(*ssa.Const); isConst {
							continue
						}
						if !cgoInPlaceOK[cn] && bad == "" {
							bad = fmt.Sprintf("argument %d (written by C) and argument %d (read by C) of C.%s are the same object `%s`", i, j, cn, shortCond(render(bi)))
						}
					}
				}
			}
			w.check(bad == "", rule, fmt.Sprintf("%s/cgo:%s/no-alias", fnKey(fn), cn), c.Pos(), "the object C writes is distinct from the objects it reads", bad+": the glue initialises its result before reading its inputs, so the aliased input is lost")
		}
	}
	if n == 0 {
		w.undecided(rule, "cgo-calls", token.NoPos, "no cgo call with both written and read pointer arguments found")
	}
}


// lenCallOf: v is len(X') with X' the same slice as X.
func lenCallOf(v ssa.Value, X ssa.Value) bool {
	c, ok := stripConv(v).(*ssa.Call)
	if !ok {
		return false
	}
	b, ok := c.Call.Value.(*ssa.Builtin)
	return ok && b.Name() == "len" && len(c.Call.Args) == 1 && (c.Call.Args[0] == X || render(c.Call.Args[0]) == render(X))
}

func mentionsLenOf(v ssa.Value, X ssa.Value, d int) bool {
	if d > 8 {
		return false
	}
	if lenCallOf(v, X) {
		return true
	}
	switch x := stripConv(v).(type) {
	case *ssa.BinOp:
		return mentionsLenOf(x.X, X, d+1) || mentionsLenOf(x.Y, X, d+1)
	case *ssa.UnOp:
		return x.Op != token.MUL && mentionsLenOf(x.X, X, d+1)
	}
	return false
}

// leLen: h <= len(X) follows from the shape of h (len(X) minus / divided by / masked with a non-negative quantity,
// a multiple of a quotient of len(X) by the same constant) — sound for the non-negative len(X).
func (w *World) leLen(h ssa.Value, X ssa.Value, at ssa.Instruction, d int) bool {
	if d > 6 {
		return false
	}
	if lenCallOf(h, X) {
		return true
	}
	bo, ok := stripConv(h).(*ssa.BinOp)
	if !ok {
		return false
	}
	nonNeg := func(v ssa.Value) bool {
		lo, _, ok := w.intBound(v, at)
		return ok && lo >= 0
	}
	pos := func(v ssa.Value) (int64, bool) {
		c, ok := constOf(v)
		if !ok {
			return 0, false
		}
		n, ok := constInt64(c.Value)
		return n, ok && n > 0
	}
	switch bo.Op {
	case token.SUB:
		return w.leLen(bo.X, X, at, d+1) && nonNeg(bo.Y)
	case token.ADD:
		if _, hi, ok := w.intBound(bo.Y, at); ok && hi <= 0 && w.leLen(bo.X, X, at, d+1) {
			return true
		}
		if _, hi, ok := w.intBound(bo.X, at); ok && hi <= 0 && w.leLen(bo.Y, X, at, d+1) {
			return true
		}
	case token.QUO, token.SHR:
		if _, ok := pos(bo.Y); ok || bo.Op == token.SHR {
			return w.leLen(bo.X, X, at, d+1)
		}
	case token.REM:
		return w.leLen(bo.X, X, at, d+1)
	case token.AND, token.AND_NOT:
		return w.leLen(bo.X, X, at, d+1) || (bo.Op == token.AND && w.leLen(bo.Y, X, at, d+1))
	case token.MUL:
		// (len/c)*c
		for _, pr := range [][2]ssa.Value{{bo.X, bo.Y}, {bo.Y, bo.X}} {
			if c, ok := pos(pr[1]); ok {
				if q, ok := stripConv(pr[0]).(*ssa.BinOp); ok && q.Op == token.QUO {
					if c2, ok := pos(q.Y); ok && c2 == c && w.leLen(q.X, X, at, d+1) {
						return true
					}
				}
			}
		}
	}
	return false
}

// ruleSliceExtensions: see (f) in ruleUntrustedInts.  Returns the number of sites examined.
func (w *World) ruleSliceExtensions(rule string, fns []*ssa.Function) int {
	n := 0
	for _, fn := range fns {
		if isTestFile(w, fn.Pos()) {
			continue
		}
		instrsFlat(fn, func(ins ssa.Instruction) {
			x, ok := ins.(*ssa.Slice)
			if !ok || x.High == nil {
				return
			}
			if _, isSl := x.X.Type().Underlying().(*types.Slice); !isSl {
				return
			}
			if !mentionsLenOf(x.High, x.X, 0) {
				return
			}
			n++
			key := fmt.Sprintf("%s/slice-extension:%s", fnKey(fn), shortCond(render(x.X)))
			if w.leLen(x.High, x.X, ins, 0) {
				w.ok(rule, key, ins.Pos(), "upper bound is at most len of the sliced value by construction")
				return
			}
			hs, xs := render(x.High), render(x.X)
			for _, f := range w.factsAt(ins) {
				if f.Expr == cmpFact(hs, "<=", "len("+xs+")") || f.Expr == cmpFact(hs, "<", "len("+xs+")") {
					w.ok(rule, key, ins.Pos(), "upper bound tested against the length: "+f.Expr)
					return
				}
			}
			if _, hi, ok1 := w.intBound(x.High, ins); ok1 {
				if lo, _, ok2 := w.lenBound(x.X, ins); ok2 && hi <= lo {
					w.ok(rule, key, ins.Pos(), fmt.Sprintf("upper bound <= %d <= length", hi))
					return
				}
				if mk, isMk := stripConv(x.X).(*ssa.MakeSlice); isMk {
					if cl, _, ok3 := w.intBound(mk.Cap, ins); ok3 && hi <= cl {
						w.ok(rule, key, ins.Pos(), "extension within the capacity given to make")
						return
					}
				}
			}
			w.viol(rule, key, ins.Pos(),
				fmt.Sprintf("`%s` is re-sliced to `%s`, which can exceed its length: this relies on spare capacity that is not proved (after append the capacity is whatever the allocator chose) and exposes whatever bytes lie beyond the length — slice-bounds panic or stale data for some input lengths / call histories", shortCond(xs), shortCond(hs)), factStrings(w.factsAt(ins))...)
		})
	}
	return n
}
