package main

import (
	"fmt"
	"go/token"
	"go/types"
	"strings"

	"golang.org/x/tools/go/ssa"
)

func init() {
	register("C05", ruleC05)
	register("C06", ruleC06)
}

// ---------------- C05 (Go decoders / encoders) ----------------

func ruleC05(w *World) {
	w.floor("C05.R2g", 14)
	w.floor("C05.R4", 3)
	a := w.bls("C05.R2g")
	if a == nil {
		return
	}
	// R5: every point stored in a public-key object comes from a G2-closed producer
	w.floor("C05.R5", 8)
	w.ruleG2Provenance("C05.R5", a)
	// R11: no byte string leaves the stateful reconstruction with a nil error unless it is the buffer that was just
	// verified: the cache is written only on the error-free edge and served only when non-nil (= C06.R1) — a share that
	// does not parse must be refused on every call, not only on the first
	w.floor("C05.R11", 4)
	w.importObligations(ruleC06, "C06.R1", "C05.R11", nil)
	// R9: "BLS signature parsing inside aggregation": every signature that enters the flat buffer handed to C has exactly
	// the signature length (per element, not in total: C re-frames the buffer every 48 bytes), and the documented error
	// classes are kept (= C04.R2 on AggregateBLSSignatures)
	w.floor("C05.R9", 2)
	w.importObligations(ruleC04, "C04.R2", "C05.R9", func(o Obl) bool { return strings.HasPrefix(o.Key, "AggregateBLSSignatures/") })
	// R8: the decoders are total — "reject or accept" leaves no room for a panic: the buffer-extent obligations of C09.R1
	// for every function reachable from the exported decoders (pointer &b[0] handed to C only for a slice proved non-empty
	// and long enough, requirements of unexported readers propagated up to DecodePrivateKey / DecodePublicKey(Compressed))
	w.floor("C05.R8", 4)
	{
		reach := map[*ssa.Function]bool{}
		var visit func(f *ssa.Function, d int)
		visit = func(f *ssa.Function, d int) {
			if f == nil || reach[f] || !inModule(f) || d > 8 {
				return
			}
			reach[f] = true
			for _, b := range f.Blocks {
				for _, ins := range b.Instrs {
					if c, ok := ins.(ssa.CallInstruction); ok {
						fns, _ := w.callees(c.Common())
						for _, g := range fns {
							visit(g, d+1)
						}
					}
				}
			}
		}
		nEntry := 0
		for _, fn := range w.srcFuncs(rootPath) {
			if fn.Signature.Recv() == nil && fn.Object() != nil && fn.Object().Exported() && strings.HasPrefix(fn.Name(), "Decode") {
				nEntry++
				visit(fn, 0)
			}
		}
		if nEntry == 0 {
			w.undecided("C05.R8", "anchor:decoders", token.NoPos, "unresolved anchor: exported Decode* entry points")
		}
		keys := map[string]bool{}
		for f := range reach {
			keys[fnKey(f)] = true
		}
		saved := w.out
		tmp := &Out{Floors: map[string]int{}, Stats: map[string]int{}}
		w.out = tmp
		w.ruleCgoExtents("C05.R8")
		w.out = saved
		for _, o := range tmp.Obligations {
			fk := o.Key
			if i := strings.Index(fk, "/"); i >= 0 {
				fk = fk[:i]
			}
			if keys[fk] && o.Status != "info" {
				w.out.Obligations = append(w.out.Obligations, o)
			}
		}
	}
	// BLS public key decoder: located by role = decodePublicKey of the signer implementation returning the BLS key type
	var blsAlgo, ecAlgo *types.Named
	for _, t := range w.implementors(rootPath, "signer", rootPath) {
		f := w.method(t, "decodePublicKey")
		if f == nil {
			continue
		}
		if len(cgoCallsDeep(w, f, "E2_read_bytes", 2)) > 0 {
			blsAlgo = t
		} else {
			ecAlgo = t
		}
	}
	if blsAlgo == nil || ecAlgo == nil {
		w.undecided("C05.R2g", "anchor:signers", token.NoPos, "unresolved anchor: BLS / ECDSA signer implementations")
		return
	}
	if f := w.method(blsAlgo, "decodePublicKey"); f != nil {
		b := P(f, 1)
		n := 0
		for _, r := range returns(f) {
			if isNilConst(r.Results[0]) {
				continue
			}
			n++
			fs := w.factsAt(r)
			need := []string{fmt.Sprintf("len(%s) == %d", b, a.pkLen)}
			for _, nd := range need {
				w.check(hasFact(fs, nd), "C05.R2g", fnKey(f)+"/accept/"+nd, r.Pos(), "accepts only under "+nd, "BLS public key accepted without `"+nd+"`", factStrings(fs)...)
			}
			okRead, okG2 := false, false
			for _, ff := range fs {
				if strings.HasPrefix(ff.Expr, "readPointE2(") && strings.HasSuffix(ff.Expr, ", "+b+") == nil") {
					okRead = true
				}
				if strings.HasPrefix(ff.Expr, "C.E2_in_G2(") && strings.HasSuffix(ff.Expr, "== true") {
					okG2 = true
				}
			}
			w.check(okRead, "C05.R2g", fnKey(f)+"/accept/read-ok", r.Pos(), "accepts only when the point reader succeeded on the input", "BLS public key accepted without the point reader having succeeded on the input bytes", factStrings(fs)...)
			w.check(okG2, "C05.R2g", fnKey(f)+"/accept/in-G2", r.Pos(), "accepts only G2 members", "BLS public key accepted without the G2 membership test (keys outside the prime-order subgroup would be accepted)", factStrings(fs)...)
		}
		if n == 0 {
			w.viol("C05.R2g", fnKey(f)+"/accept", f.Pos(), "decoder never accepts")
		}
		// the membership test is on the object that was read and that is returned
		for _, c := range cgoCalls(f, "E2_in_G2") {
			arg := render(c.Call.Args[0])
			rd := callsTo(f, "readPointE2")
			w.check(len(rd) == 1 && render(rd[0].Common().Args[0]) == arg, "C05.R2g", fnKey(f)+"/in-G2-object", c.Pos(), "membership test applies to the point just read", "G2 membership is tested on `"+arg+"`, not on the point that was read")
		}
		w.ruleErrorClauses("C05.R2g", f, map[string][]string{
			fmt.Sprintf("len(%s) != %d", b, a.pkLen): {"ctor:invalidInputsErrorf"},
			"== false":                               {"ctor:invalidInputsErrorf"},
		})
	}
	if f := w.method(blsAlgo, "decodePrivateKey"); f != nil {
		b := P(f, 1)
		n := 0
		for _, r := range returns(f) {
			if isNilConst(r.Results[0]) {
				continue
			}
			n++
			fs := w.factsAt(r)
			okk := false
			for _, ff := range fs {
				if strings.HasPrefix(ff.Expr, "readScalarFrStar(") && strings.HasSuffix(ff.Expr, ", "+b+") == nil") {
					okk = true
				}
			}
			w.check(okk, "C05.R2g", fnKey(f)+"/accept/Fr-star", r.Pos(), "accepts only scalars read by the non-zero reader", "BLS private key accepted without the F_r* reader (range and non-zero check) having succeeded", factStrings(fs)...)
		}
		if n == 0 {
			w.viol("C05.R2g", fnKey(f)+"/accept", f.Pos(), "decoder never accepts")
		}
		// the reader wrapper maps exactly VALID to nil and calls the star reader
		if rs := w.fn(rootPath, "readScalarFrStar"); rs != nil {
			cs := cgoCalls(rs, "Fr_star_read_bytes")
			w.check(len(cs) == 1, "C05.R2g", fnKey(rs)+"/uses-star-reader", rs.Pos(), "wrapper calls Fr_star_read_bytes", "private-key reader does not call the non-zero scalar reader Fr_star_read_bytes")
			if len(cs) == 1 {
				for _, r := range returns(rs) {
					if isNilConst(r.Results[0]) {
						w.requireFacts("C05.R2g", fnKey(rs)+"/nil-only-on-valid", r, fmt.Sprintf("%s == %d", render(cs[0]), a.valid))
					}
				}
				w.check(render(cs[0].Call.Args[1]) == "&"+P(rs, 1)+"[0]" && render(cs[0].Call.Args[2]) == "len("+P(rs, 1)+")", "C05.R2g", fnKey(rs)+"/args", cs[0].Pos(), "pointer and length describe the input", "reader is not called on (&src[0], len(src))")
			}
		}
	}
	for _, wn := range []struct{ fn, c string }{{"readPointE2", "E2_read_bytes"}, {"readPointE1", "E1_read_bytes"}} {
		if rs := w.fn(rootPath, wn.fn); rs != nil {
			cs := cgoCalls(rs, wn.c)
			if len(cs) == 1 {
				for _, r := range returns(rs) {
					if isNilConst(r.Results[0]) {
						w.requireFacts("C05.R2g", fnKey(rs)+"/nil-only-on-valid", r, fmt.Sprintf("%s == %d", render(cs[0]), a.valid))
					}
				}
			} else {
				w.undecided("C05.R2g", fnKey(rs)+"/cgo", rs.Pos(), "expected one call of C."+wn.c)
			}
		}
	}
	// ECDSA decoders
	if f := tailWorker(w.method(ecAlgo, "decodePrivateKey")); f != nil {
		recv, der := P(f, 0), P(f, 1)
		N := recv + ".curve.Params().N"
		nLen := "bitsToBytes(" + N + ".BitLen())"
		for _, r := range returns(f) {
			if isNilConst(r.Results[0]) {
				continue
			}
			fs := w.factsAt(r)
			for _, nd := range []string{cmpFact("len("+der+")", "==", nLen), "&heap:d.Cmp(" + N + ") < 0", "&heap:d.Sign() != 0"} {
				w.check(hasFact(fs, nd), "C05.R2g", fnKey(f)+"/accept/"+nd, r.Pos(), "accepts only under "+nd, "ECDSA private key accepted without `"+nd+"`", factStrings(fs)...)
			}
		}
		sb := false
		instrs(f, func(ins ssa.Instruction) {
			if c, ok := ins.(*ssa.Call); ok {
				if cal := c.Call.StaticCallee(); cal != nil && cal.String() == "(*math/big.Int).SetBytes" && render(c.Call.Args[1]) == der {
					sb = true
				}
			}
		})
		w.check(sb, "C05.R2g", fnKey(f)+"/scalar-from-input", f.Pos(), "scalar is the big-endian value of the whole input", "the scalar is not SetBytes of the whole input")
		w.ruleErrorClauses("C05.R2g", f, map[string][]string{"&heap:d.Cmp(" + N + ") >= 0": {"ctor:invalidInputsErrorf"}, "&heap:d.Sign() == 0": {"ctor:invalidInputsErrorf"}})
	} else {
		w.undecided("C05.R2g", "anchor:ecdsa-decodePrivateKey", token.NoPos, "unresolved anchor")
	}
	if f := tailWorker(w.method(ecAlgo, "decodePublicKey")); f != nil {
		recv, der := P(f, 0), P(f, 1)
		p := recv + ".curve.Params().P"
		pLen := "bitsToBytes(" + p + ".BitLen())"
		n := 0
		// the coordinates by role: the values stored into the X and Y fields of the crypto/ecdsa key that is built
		// (in the decoder or in a constructor helper it calls), in the decoder's own vocabulary
		xs, ys := "&heap:x", "&heap:y"
		instrs(f, func(ins ssa.Instruction) {
			st, ok := ins.(*ssa.Store)
			if !ok {
				return
			}
			fa, ok := st.Addr.(*ssa.FieldAddr)
			if !ok {
				return
			}
			fld := fieldOf(fa)
			if fld == nil || fld.Pkg() == nil || fld.Pkg().Path() != "crypto/ecdsa" || (fld.Name() != "X" && fld.Name() != "Y") {
				return
			}
			v := st.Val
			for k := 0; k < 2; k++ {
				if hp, isP := v.(*ssa.Parameter); isP && hp.Parent() != f {
					if up := enteringArg(hp); up != nil {
						v = up
						continue
					}
				}
				break
			}
			if fld.Name() == "X" {
				xs = render(v)
			} else {
				ys = render(v)
			}
		})
		for _, r := range returns(f) {
			if isNilConst(r.Results[0]) {
				continue
			}
			n++
			fs := w.factsAt(r)
			for _, nd := range []string{cmpFact("len("+der+")", "==", "(2 * "+pLen+")"), xs + ".Cmp(" + p + ") < 0", ys + ".Cmp(" + p + ") < 0"} {
				w.check(hasFact(fs, nd), "C05.R2g", fnKey(f)+"/accept/"+nd, r.Pos(), "accepts only under "+nd, "ECDSA public key accepted without `"+nd+"`", factStrings(fs)...)
			}
			// on-curve for the curve actually selected: on every path one of the two curve-specific checks holds
			onc := w.holdsOnAllPaths(r, func(fs []Fact) bool {
				for _, ff := range fs {
					if strings.Contains(ff.Expr, "NewPublicKey(") && strings.HasSuffix(ff.Expr, "#1 == nil") && hasFact(fs, cmpFact(recv+".curve", "==", "elliptic.P256()")) {
						return true
					}
					if strings.Contains(ff.Expr, ".IsOnCurve("+xs+", "+ys+") == true") && hasFact(fs, cmpFact(recv+".curve", "==", "btcec.S256()")) {
						return true
					}
				}
				return false
			}, 3)
			w.check(onc, "C05.R2g", fnKey(f)+"/accept/on-curve", r.Pos(), "accepts only points checked on the selected curve", "ECDSA public key accepted on a path without the on-curve check of the selected curve", factStrings(fs)...)
		}
		if n == 0 {
			w.viol("C05.R2g", fnKey(f)+"/accept", f.Pos(), "decoder never accepts")
		}
		// x, y are the two halves
		halves := 0
		instrs(f, func(ins ssa.Instruction) {
			if c, ok := ins.(*ssa.Call); ok {
				if cal := c.Call.StaticCallee(); cal != nil && cal.String() == "(*math/big.Int).SetBytes" {
					s := render(c.Call.Args[1])
					if c.Parent() != f {
						// inside a splitting helper: in the decoder's vocabulary
						if ci, ok := enteredBy[c.Parent()]; ok && ci != nil {
							s = substParams(s, c.Parent(), ci.Common())
						}
					}
					if s == der+"[:"+pLen+"]" || s == der+"["+pLen+":]" {
						halves++
					}
				}
			}
		})
		w.check(halves == 2, "C05.R2g", fnKey(f)+"/halves", f.Pos(), "x and y are the two halves of the input", "x/y are not parsed from the two halves of the input")
	} else {
		w.undecided("C05.R2g", "anchor:ecdsa-decodePublicKey", token.NoPos, "unresolved anchor")
	}
	if f := w.method(ecAlgo, "decodePublicKeyCompressed"); f != nil {
		recv, b := P(f, 0), P(f, 1)
		want := cmpFact("len("+b+")", "==", "(bitsToBytes("+recv+".curve.Params().BitSize) + 1)")
		n := 0
		for _, r := range returns(f) {
			if isNilConst(r.Results[0]) {
				continue
			}
			n++
			fs := w.factsAt(r)
			w.check(hasFact(fs, want), "C05.R2g", fnKey(f)+"/accept/length", r.Pos(), "accepts only inputs of the compressed length", "compressed ECDSA key accepted without the explicit length check (the underlying parsers also accept other encodings, e.g. 65-byte uncompressed/hybrid forms for secp256k1)", factStrings(fs)...)
			okParse := w.holdsOnAllPaths(r, func(fs []Fact) bool {
				for _, ff := range fs {
					if strings.Contains(ff.Expr, "UnmarshalCompressed(") && strings.HasSuffix(ff.Expr, "#0 != nil") && hasFact(fs, cmpFact(recv+".curve", "==", "elliptic.P256()")) {
						return true
					}
					if strings.Contains(ff.Expr, "ParsePubKey(") && strings.HasSuffix(ff.Expr, "#1 == nil") && hasFact(fs, cmpFact(recv+".curve", "==", "btcec.S256()")) {
						return true
					}
				}
				return false
			}, 3)
			w.check(okParse, "C05.R2g", fnKey(f)+"/accept/parse-ok", r.Pos(), "accepts only when the curve's parser succeeded", "compressed key accepted without the parser having succeeded", factStrings(fs)...)
		}
		if n == 0 {
			w.viol("C05.R2g", fnKey(f)+"/accept", f.Pos(), "decoder never accepts")
		}
	} else {
		w.undecided("C05.R2g", "anchor:decodePublicKeyCompressed", token.NoPos, "unresolved anchor")
	}
	// R4 fixed-width encoders
	pub, pr := w.ecdsaTypes("C05.R4")
	if pub != nil && pr != nil {
		// the encoders are located from the exported entry points: what Encode returns (through its
		// internal worker) and what Sign returns (the buffer built next to the crypto/ecdsa.Sign call)
		var rets []deepSite
		for _, f := range []*ssa.Function{w.method(pr, "Encode"), w.method(pub, "Encode"), w.method(pr, "Sign")} {
			if f == nil {
				w.undecided("C05.R4", "anchor:encoder", token.NoPos, "unresolved anchor: ECDSA Encode/Sign")
				continue
			}
			for _, r := range w.returnsAll(f) {
				ret := r.ins.(*ssa.Return)
				if len(ret.Results) == 0 || isNilConst(ret.Results[0]) {
					continue
				}
				rets = append(rets, r)
			}
		}
		seenRet := map[*ssa.Return]bool{}
		for _, rs := range rets {
			r := rs.ins.(*ssa.Return)
			if seenRet[r] {
				continue
			}
			seenRet[r] = true
			f := retParent(r)
			{
				ms, ok := sliceBase(r.Results[0]).(*ssa.MakeSlice)
				if !ok {
					w.viol("C05.R4", fnKey(f)+"/fixed-width", r.Pos(), "encoder does not return a fresh fixed-size buffer: "+render(r.Results[0]))
					continue
				}
				ln := render(ms.Len)
				if ms.Parent() == rs.fn() {
					ln = rs.render(ms.Len) // a length handed down as a parameter: what the caller passes
				}
				w.check(!strings.Contains(ln, ".Bytes()") && strings.Contains(ln, "bitsToBytes("), "C05.R4", fnKey(f)+"/fixed-width", r.Pos(), "output length depends on curve parameters only: "+ln, "encoding length `"+ln+"` depends on the value being encoded (leading zero bytes would be dropped)")
				// copies are right-aligned in their field: copy(buf[K-len(b):], b) or copy(buf[K-len(b):K], b)
				instrsFlat(f, func(ins ssa.Instruction) {
					c, ok := ins.(*ssa.Call)
					if !ok {
						return
					}
					if bi, ok := c.Call.Value.(*ssa.Builtin); !ok || bi.Name() != "copy" || sliceBase(c.Call.Args[0]) != ssa.Value(ms) {
						return
					}
					dst, src := render(c.Call.Args[0]), render(c.Call.Args[1])
					_, lo, hi, okp := sliceParts(dst)
					good := false
					if okp && strings.HasPrefix(lo, "(") && strings.HasSuffix(lo, " - len("+src+"))") {
						fieldEnd := strings.TrimSuffix(strings.TrimPrefix(lo, "("), " - len("+src+"))")
						good = hi == fieldEnd || hi == "" && (fieldEnd == ln || "("+fieldEnd+")" == ln || fieldEnd == strings.TrimSuffix(strings.TrimPrefix(ln, "("), ")"))
						if hi == "" && !good {
							// an open-ended destination is still right-aligned for the copy (copy stops after len(src) bytes)
							good = true
						}
					}
					w.check(good, "C05.R4", fnKey(f)+"/right-aligned:"+src, c.Pos(), "big-endian value right-aligned in its field", "copy of `"+src+"` into the encoding is not right-aligned (`"+dst+"`)")
				})
			}
		}
	}
	// BLS encoders: fixed-size fresh buffers handed to the C writers
	for _, t := range []*types.Named{a.pubT, a.prT} {
		if f := w.method(t, "Encode"); f != nil {
			for _, r := range returns(f) {
				lo, hi, ok := w.lenBound(sliceBase(r.Results[0]), r)
				want := a.pkLen
				if t == a.prT {
					want = 32
				}
				w.check(ok && lo == want && hi == want, "C05.R4", fnKey(f)+"/fixed-width", r.Pos(), fmt.Sprintf("always %d bytes", want), fmt.Sprintf("BLS encoding is not provably %d bytes", want))
			}
		}
	}
}

// ---------------- C06 (Go side) ----------------

func ruleC06(w *World) {
	w.floor("C06.R1", 5)
	w.floor("C06.R2", 8)
	w.floor("C06.R3", 2)
	a := w.bls("C06.R1")
	if a == nil {
		return
	}
	// inspector type by role (as in C18)
	var T *types.Named
	for _, t := range w.implementors(rootPath, "ThresholdSignatureInspector", rootPath) {
		for _, f := range structFields(t) {
			if strings.HasPrefix(f.Type().String(), "sync.") {
				T = t
			}
		}
	}
	if T == nil {
		w.undecided("C06.R1", "anchor:inspector", token.NoPos, "unresolved anchor: stateful inspector type")
		return
	}
	// cache field = the Signature-typed field of T
	var cache *types.Var
	for _, f := range structFields(T) {
		if strings.HasSuffix(f.Type().String(), ".Signature") {
			cache = f
		}
	}
	if cache == nil {
		w.undecided("C06.R1", "anchor:cache-field", T.Obj().Pos(), "unresolved anchor: cached signature field")
		return
	}
	// R6: the pool invariants the reconstruction relies on (enoughShares is `len(shares) == t+1`, so a pool that can
	// grow past t+1 entries never reports enough again; one share per signer): the sequential facts of C18.R4,
	// evaluated inside the critical section that performs the update
	w.floor("C06.R6", 3)
	w.floor("C06.R8", 1) // the two add methods may share one worker
	{
		saved := w.out
		tmp := &Out{Floors: map[string]int{}, Stats: map[string]int{}}
		w.out = tmp
		emitAddRefusals = true
		ruleC18(w)
		emitAddRefusals = false
		w.out = saved
		for _, o := range tmp.Obligations {
			if o.Rule == "C18.R4" {
				o.Rule = "C06.R6"
				w.out.Obligations = append(w.out.Obligations, o)
			}
			if o.Rule == "C06.R8" {
				w.out.Obligations = append(w.out.Obligations, o)
			}
		}
	}
	// R11: the accepted (n, t) domain is exactly the documented one — every 2 <= n <= 254 and 1 <= t < n is accepted by the
	// key generation and by the constructors, nothing else: at every successful return the interval of n proved by the
	// dominating guards is exactly [min, max] (a stricter guard rejects documented group sizes), t >= minimum and t < n
	w.floor("C06.R11", 4)
	{
		minS, _ := w.constInt(rootPath, "ThresholdSignMinSize")
		maxS, _ := w.constInt(rootPath, "ThresholdSignMaxSize")
		minT, _ := w.constInt(rootPath, "MinimumThreshold")
		type dom struct {
			fn   *ssa.Function
			size func(at ssa.Instruction) (int64, int64, bool, string)
			thr  int
		}
		var doms []dom
		if kg := w.fn(rootPath, "BLSThresholdKeyGen"); kg != nil && len(kg.Params) >= 2 {
			doms = append(doms, dom{kg, func(at ssa.Instruction) (int64, int64, bool, string) {
				lo, hi, ok := guardInterval(w.factsAt(at), P(kg, 0))
				return lo, hi, ok, P(kg, 0)
			}, 1})
		}
		for _, name := range []string{"NewBLSThresholdSignatureInspector", "NewBLSThresholdSignatureParticipant"} {
			if c := w.fn(rootPath, name); c != nil {
				ki, ti := -1, -1
				for i, p := range c.Params {
					if _, isSl := p.Type().Underlying().(*types.Slice); isSl && strings.HasSuffix(typeShort(p.Type()), "PublicKey") {
						ki = i
					}
					if b, isB := p.Type().Underlying().(*types.Basic); isB && b.Kind() == types.Int && ti < 0 {
						ti = i
					}
				}
				if ki < 0 || ti < 0 {
					w.undecided("C06.R11", name+"/params", c.Pos(), "key-list / threshold parameters not recognised")
					continue
				}
				cc, kk := c, ki
				doms = append(doms, dom{c, func(at ssa.Instruction) (int64, int64, bool, string) {
					lo, hi, ok := guardInterval(w.factsAt(at), "len("+P(cc, kk)+")")
					return lo, hi, ok, "len(" + P(cc, kk) + ")"
				}, ti})
			}
		}
		for _, d := range doms {
			n := 0
			for _, r := range w.returnsAll(d.fn) {
				ret := r.ins.(*ssa.Return)
				if ret.Parent() != d.fn || len(ret.Results) == 0 || !isNilConst(ret.Results[len(ret.Results)-1]) {
					continue
				}
				n++
				at := locOf(ret)
				lo, hi, ok, sz := d.size(at)
				if !ok {
					// no guard of its own on the size: a constructor that delegates the validation to another one of the list
					deleg := false
					for _, f := range w.factsAt(at) {
						for _, c := range f.calls {
							for _, d2 := range doms {
								if c.Call.StaticCallee() == d2.fn && d2.fn != d.fn && strings.HasSuffix(f.Expr, "== nil") {
									deleg = true
								}
							}
						}
					}
					if deleg {
						w.ok("C06.R11", fnKey(d.fn)+"/accepted-sizes", retPos(ret), "validation delegated to the constructor it wraps")
						continue
					}
				}
				w.check(ok && lo == minS && hi == maxS, "C06.R11", fnKey(d.fn)+"/accepted-sizes", retPos(ret), fmt.Sprintf("accepts exactly %d <= n <= %d", minS, maxS),
					fmt.Sprintf("the guards on `%s` accept %d..%d (known=%v), the documented group sizes are %d..%d", sz, lo, hi, ok, minS, maxS), factStrings(w.factsAt(at))...)
				thr := P(d.fn, d.thr)
				fs := w.factsAt(at)
				tlo, _, tok := guardInterval(fs, thr)
				upper, stricter := false, ""
				for _, f := range fs {
					if f.Expr == cmpFact(thr, "<", sz) {
						upper = true
					} else if strings.HasPrefix(f.Expr, thr+" < ") || strings.HasPrefix(f.Expr, thr+" <= ") {
						stricter = f.Expr
					}
				}
				w.check(tok && tlo == minT && upper && stricter == "", "C06.R11", fnKey(d.fn)+"/accepted-thresholds", retPos(ret), fmt.Sprintf("accepts exactly %d <= t < n", minT),
					fmt.Sprintf("the guards on `%s` are not exactly %d <= t < n (lower bound %d known=%v, `t < n` present=%v, other upper bound `%s`)", thr, minT, tlo, tok, upper, stricter), factStrings(fs)...)
			}
			if n == 0 {
				w.undecided("C06.R11", fnKey(d.fn)+"/accepted-sizes", d.fn.Pos(), "no successful return found in the function itself")
			}
		}
	}
	// R13: the stateless reconstruction validates *every* entry of the lists it is given (index range, duplicates, share
	// length), not only the t+1 it goes on to use: the loops that can leave with an error run over the parameters
	// themselves, never over a truncated view of them
	w.floor("C06.R13", 1)
	if fn0 := w.fn(rootPath, "BLSReconstructThresholdSignature"); fn0 != nil {
		n := 0
		fn := fn0
		// the function itself and the unexported helpers it hands its lists to
		scope := []*ssa.Function{fn0}
		via := map[*ssa.Function]*ssa.Call{}
		instrsFlat(fn0, func(ins ssa.Instruction) {
			if c, ok := ins.(*ssa.Call); ok {
				if h := c.Call.StaticCallee(); h != nil && inModule(h) && h.Blocks != nil && h.Object() != nil && !h.Object().Exported() && via[h] == nil {
					via[h] = c
					scope = append(scope, h)
				}
			}
		})
		for _, sf := range scope {
		for _, b := range sf.Blocks {
			for _, ins := range b.Instrs {
				ph, ok := ins.(*ssa.Phi)
				if !ok {
					continue
				}
				_, lbase, _, okS := inductionSpan(ph)
				if !okS || lbase == nil {
					continue
				}
				lc, ok := stripConv(lbase).(*ssa.Call)
				if !ok {
					continue
				}
				bi, ok := lc.Call.Value.(*ssa.Builtin)
				if !ok || bi.Name() != "len" {
					continue
				}
				// does the loop leave with an error?
				leaves := false
				for _, bb := range sf.Blocks {
					if !ph.Block().Dominates(bb) {
						continue
					}
					if r, ok := bb.Instrs[len(bb.Instrs)-1].(*ssa.Return); ok && len(r.Results) > 0 && !isNilConst(r.Results[len(r.Results)-1]) {
						leaves = true
					}
				}
				if !leaves {
					continue
				}
				n++
				arg := stripConv(lc.Call.Args[0])
				ap, isParam := arg.(*ssa.Parameter)
				if isParam && sf != fn0 {
					// the helper's parameter: what the entry function passes for it must be its own parameter
					isParam = false
					if c := via[sf]; c != nil {
						if i := paramIndex(sf, ap); i >= 0 && i < len(c.Call.Args) {
							_, isParam = stripConv(c.Call.Args[i]).(*ssa.Parameter)
							if !isParam {
								arg = stripConv(c.Call.Args[i])
							}
						}
					}
				}
				key := fmt.Sprintf("%s/validation-loop#%d/whole-list", fnKey(fn), n)
				w.check(isParam, "C06.R13", key, ph.Pos(), "validation loop runs over the whole parameter list", "the loop that refuses invalid entries runs over `"+render(arg)+"`, not over the whole list the caller passed: a duplicate / out-of-range index or a share of the wrong length beyond the truncation point is accepted silently")
			}
		}
		}
		if n == 0 {
			w.undecided("C06.R13", fnKey(fn)+"/validation-loop", fn.Pos(), "no validating loop found in the stateless reconstruction")
		}
	}
	// R9: shape of the key generation (share of participant j is P(j+1) in slot j, all participants covered, degree = len(a)-1)
	w.floor("C06.R9", 8)
	{
		var own *types.Var
		saved := w.out
		w.out = &Out{Floors: map[string]int{}, Stats: map[string]int{}}
		if d := w.dkg("C06.R9"); d != nil {
			own = d.m.idxOwn
		}
		w.out = saved
		w.ruleDealingShape("C06.R9", own)
	}
	ts := w.method(T, "ThresholdSignature")
	if ts == nil {
		w.undecided("C06.R1", "anchor:ThresholdSignature", token.NoPos, "unresolved anchor")
		return
	}
	// verifiedBuffer: at instruction `at`, is value v (a signature buffer) dominated by a successful group-key verification of that same buffer?
	verified := func(v ssa.Value, at ssa.Instruction) (bool, []string) {
		fs := w.factsAt(at)
		base := render(sliceBaseKeepSlice(v))
		ok0, ok1 := false, false
		for _, f := range fs {
			if strings.Contains(f.Expr, "VerifyThresholdSignature("+base+")#0 == true") || strings.Contains(f.Expr, ".groupPublicKey.Verify("+base+",") && strings.HasSuffix(f.Expr, "#0 == true") {
				ok0 = true
			}
			if strings.Contains(f.Expr, "VerifyThresholdSignature("+base+")#1 == nil") || strings.Contains(f.Expr, ".groupPublicKey.Verify("+base+",") && strings.HasSuffix(f.Expr, "#1 == nil") {
				ok1 = true
			}
		}
		return ok0 && ok1, factStrings(fs)
	}
	// (b) every helper returning a signature to ThresholdSignature: non-error returns are verified buffers
	helpers := map[*ssa.Function]bool{}
	// a worker the method merely hands over to (`return s.worker()`) is the method's own body, not a reconstruction helper
	tails := map[*ssa.Function]bool{}
	var markTails func(f *ssa.Function, d int)
	markTails = func(f *ssa.Function, d int) {
		if d > 3 {
			return
		}
		for _, r := range returnsFlat(f) {
			if h := tailHelper(r); h != nil && !tails[h] {
				tails[h] = true
				markTails(h, d+1)
			}
		}
	}
	markTails(ts, 0)
	defer func() {}()
	instrs(ts, func(ins ssa.Instruction) {
		if c, ok := ins.(*ssa.Call); ok {
			if f := c.Call.StaticCallee(); f != nil && inModule(f) && f.Signature.Recv() != nil && f != ts && !tails[f] && f.Signature.Results().Len() >= 1 {
				if _, isLock := map[string]bool{"Lock": true, "Unlock": true}[f.Name()]; !isLock {
					helpers[f] = true
				}
			}
		}
	})
	for h := range helpers {
		if h.Signature.Results().Len() == 2 && strings.HasSuffix(h.Signature.Results().At(0).Type().String(), "Signature") {
			n := 0
			for _, r := range returns(h) {
				if isNilConst(r.Results[0]) {
					// no signature: then an error
					w.check(!isNilConst(r.Results[1]), "C06.R1", fnKey(h)+"/nil-signature-has-error", r.Pos(), "a nil signature comes with an error", "the helper can return a nil signature together with a nil error")
					continue
				}
				n++
				okk, fs := verified(r.Results[0], r)
				w.check(okk && isNilConst(r.Results[1]), "C06.R1", fnKey(h)+"/returns-verified", r.Pos(), "the reconstructed signature is returned only after it verified under the group key", "a reconstructed signature is returned without having been verified under the group public key (the buffer verified must be the buffer returned)", fs...)
			}
			if n == 0 {
				w.viol("C06.R1", fnKey(h)+"/returns-verified", h.Pos(), "helper never returns a signature")
			}
		}
	}
	// (a) every store to the cache field, anywhere: nil, or a verified buffer, or the helper's result on its err==nil edge
	nst := 0
	for _, fn := range w.srcFuncs(rootPath) {
		if isTestFile(w, fn.Pos()) {
			continue
		}
		instrs(fn, func(ins ssa.Instruction) {
			st, ok := ins.(*ssa.Store)
			if !ok || rootField(st.Addr) != cache {
				return
			}
			if _, isAlloc := rootAlloc(st.Addr); isAlloc {
				// composite literal in the constructor
				w.check(isNilConst(st.Val), "C06.R1", fnKey(fn)+"/cache-init", st.Pos(), "cache starts empty", "cache is initialised with a non-nil value")
				return
			}
			nst++
			key := fnKey(fn) + "/cache-store"
			if isNilConst(st.Val) {
				w.ok("C06.R1", key+"/nil", st.Pos(), "cache reset")
				return
			}
			if _, isFA := st.Addr.(*ssa.FieldAddr); !isFA {
				w.viol("C06.R1", key+"/element", st.Pos(), "the cached signature's bytes are written in place")
				return
			}
			good := false
			var fsS []string
			if ex, ok := stripConv(st.Val).(*ssa.Extract); ok {
				if c, ok := ex.Tuple.(*ssa.Call); ok && helpers[c.Call.StaticCallee()] && ex.Index == 0 {
					fs := w.factsAt(st)
					fsS = factStrings(fs)
					good = hasFact(fs, render(c)+"#1 == nil")
				}
			}
			if !good {
				good, fsS = verified(st.Val, st)
			}
			w.check(good, "C06.R1", key, st.Pos(), "cache holds only a signature that verified under the group key", "the cache field is assigned `"+render(st.Val)+"` before/without the post-verification under the group key: a later call would return an unverified signature", fsS...)
		})
		// C writing straight into the cache
		for _, c := range cgoCalls(fn, "E1_lagrange_interpolate_at_zero_write") {
			base := sliceBase(c.Call.Args[0])
			fresh := false
			switch base.(type) {
			case *ssa.Alloc, *ssa.MakeSlice:
				fresh = true
			}
			w.check(fresh, "C06.R1", fnKey(fn)+"/interpolation-output", c.Pos(), "interpolation writes into a fresh local buffer", "the interpolation writes directly into `"+render(base)+"` (shared/cached state) before any verification")
		}
	}
	if nst == 0 {
		w.viol("C06.R1", fnKey(ts)+"/cache-store", ts.Pos(), "the cache is never filled")
	}
	// cache returned only when non-nil: on every path to the return either the non-nil test of the cache holds, or the
	// cache was stored on that path (what may be stored is rule (a) above) and not cleared since
	var cacheSet func(at ssa.Instruction, want string, edge []Fact, depth int) bool
	cacheSet = func(at ssa.Instruction, want string, edge []Fact, depth int) bool {
		fs := append(append([]Fact{}, w.factsAt(at)...), edge...)
		if hasFact(fs, want) {
			return true
		}
		if depth == 0 {
			return false
		}
		b := at.Block()
		idx := len(b.Instrs)
		for i, x := range b.Instrs {
			if x == at {
				idx = i
			}
		}
		for i := idx - 1; i >= 0; i-- {
			if st, ok := b.Instrs[i].(*ssa.Store); ok && rootField(st.Addr) == cache {
				if _, isFA := st.Addr.(*ssa.FieldAddr); isFA {
					return !isNilConst(st.Val)
				}
			}
		}
		if len(b.Preds) == 0 {
			return false
		}
		for i, efs := range w.factsPerPred(b) {
			p := b.Preds[i]
			if !cacheSet(p.Instrs[len(p.Instrs)-1], want, efs, depth-1) {
				return false
			}
		}
		return true
	}
	for _, r := range returns(ts) {
		if s := render(r.Results[0]); strings.HasSuffix(s, "."+cache.Name()) {
			at := locOf(r)
			w.check(cacheSet(at, s+" != nil", nil, 6), "C06.R1", fnKey(ts)+"/return-cache/guard:"+s+" != nil", r.Pos(), "the cache is returned only when it is non-nil or was just filled on that path", "required dominating guard `"+s+" != nil` is missing on some path to this point", factStrings(w.factsAt(r))...)
		}
	}
	// R2/R3: the two reconstruction functions
	// the stateful reconstruction is located by role: the inspector method that holds the interpolation call
	var statefulRec *ssa.Function
	for _, fn := range w.srcFuncs(rootPath) {
		if fn.Signature.Recv() != nil && types.Identical(deref(fn.Signature.Recv().Type()), T) && len(cgoCalls(fn, "E1_lagrange_interpolate_at_zero_write")) > 0 {
			statefulRec = fn
		}
	}
	for _, fn := range []*ssa.Function{w.fn(rootPath, "BLSReconstructThresholdSignature"), statefulRec} {
		if fn == nil {
			w.undecided("C06.R2", "anchor:reconstruct", token.NoPos, "unresolved anchor")
			continue
		}
		cs := cgoCalls(fn, "E1_lagrange_interpolate_at_zero_write")
		if len(cs) != 1 {
			w.undecided("C06.R3", fnKey(fn)+"/cgo", fn.Pos(), "expected exactly one interpolation call")
			continue
		}
		c := cs[0]
		// R3: every chunk appended to the flat share buffer is 48 bytes long
		buf := sliceBase(c.Call.Args[1])
		napp := 0
		instrs(fn, func(ins ssa.Instruction) {
			cc, ok := ins.(*ssa.Call)
			if !ok {
				return
			}
			b, ok := cc.Call.Value.(*ssa.Builtin)
			if !ok || (b.Name() != "append" && b.Name() != "copy") || len(cc.Call.Args) != 2 {
				return
			}
			if b.Name() == "append" && !flowsTo(cc, buf) {
				return
			}
			// copy(buf[k·48:(k+1)·48], share): the same bytes entering the same buffer
			if b.Name() == "copy" && sliceBase(cc.Call.Args[0]) != buf {
				return
			}
			napp++
			chunk := render(cc.Call.Args[1])
			w.requireFacts("C06.R3", fnKey(fn)+"/share-length", cc, fmt.Sprintf("len(%s) == %d", chunk, a.sigLen))
		})
		if napp == 0 {
			w.undecided("C06.R3", fnKey(fn)+"/share-length", fn.Pos(), "flat share buffer idiom not recognised")
		}
		// number of shares handed over is threshold+1: not-enough guard dominates
		if fn.Signature.Recv() == nil {
			size, thr, shares, signers := P(fn, 0), P(fn, 1), P(fn, 2), P(fn, 3)
			minS, _ := w.constInt(rootPath, "ThresholdSignMinSize")
			maxS, _ := w.constInt(rootPath, "ThresholdSignMaxSize")
			minT, _ := w.constInt(rootPath, "MinimumThreshold")
			w.requireFacts("C06.R2", fnKey(fn)+"/cgo", c,
				fmt.Sprintf("%s >= %d", size, minS), fmt.Sprintf("%s <= %d", size, maxS),
				fmt.Sprintf("%s < %s", thr, size), fmt.Sprintf("%s >= %d", thr, minT),
				cmpFact("len("+shares+")", "==", "len("+signers+")"),
				fmt.Sprintf("len(%s) >= (%s + 1)", shares, thr))
			w.check(maxS <= 254, "C06.R2", "const:ThresholdSignMaxSize", token.NoPos, "participant indices+1 fit a byte", fmt.Sprintf("ThresholdSignMaxSize %d does not fit the byte-sized index", maxS))
			// each appended signer index: range guard and not-seen guard dominate the narrowing and the append
			nidx := 0
			instrs(fn, func(ins ssa.Instruction) {
				cc, ok := ins.(*ssa.Call)
				if !ok {
					return
				}
				if b, ok := cc.Call.Value.(*ssa.Builtin); !ok || b.Name() != "append" || !flowsTo(cc, sliceBase(c.Call.Args[2])) {
					return
				}
				nidx++
				fs := w.factsAt(cc)
				var idxE string
				for _, f := range fs {
					if strings.HasPrefix(f.Expr, signers+"[") && strings.HasSuffix(f.Expr, " < "+size) {
						idxE = strings.TrimSuffix(f.Expr, " < "+size)
					}
				}
				okR := idxE != "" && hasFact(fs, idxE+" >= 0")
				okSeen := false
				for _, f := range fs {
					if strings.HasSuffix(f.Expr, "#1 == false") && strings.Contains(f.Expr, "["+idxE+"]") {
						okSeen = true
					}
				}
				w.check(okR, "C06.R2", fnKey(fn)+"/signer-range", cc.Pos(), "signer index range-checked before it is narrowed to a byte", "a signer index is narrowed/appended without 0 ≤ signer < size", factStrings(fs)...)
				w.check(okSeen, "C06.R2", fnKey(fn)+"/signer-unique", cc.Pos(), "duplicate signers rejected before use", "a signer index can be used twice (duplicate check missing on this path)", factStrings(fs)...)
			})
			if nidx == 0 {
				w.undecided("C06.R2", fnKey(fn)+"/signers", fn.Pos(), "signer list construction not recognised")
			}
			w.ruleErrorClauses("C06.R2", fn, map[string][]string{
				fmt.Sprintf("len(%s) < (%s + 1)", shares, thr): {"ctor:notEnoughSharesErrorf"},
				"#1 == true":                 {"ctor:duplicatedSignerErrorf"},
				fmt.Sprintf("] >= %s", size): {"ctor:invalidInputsErrorf"},
			})
			// C failure ⇒ invalid-signature sentinel; success returns the buffer C wrote
			for _, r := range returns(fn) {
				if isNilConst(r.Results[1]) {
					w.requireFacts("C06.R2", fnKey(fn)+"/success", r, fmt.Sprintf("%s == %d", render(c), a.valid))
					w.check(sliceBase(r.Results[0]) == sliceBase(c.Call.Args[0]), "C06.R2", fnKey(fn)+"/success-buffer", r.Pos(), "returns the buffer written by C", "returned signature is not the buffer written by the interpolation")
				}
			}
		} else {
			// stateful: only runs when enough shares are held
			enough := cmpFact("len("+P(fn, 0)+".shares)", "==", "("+P(fn, 0)+".threshold + 1)")
			notEnough := cmpFact("len("+P(fn, 0)+".shares)", "!=", "("+P(fn, 0)+".threshold + 1)")
			w.requireFacts("C06.R2", fnKey(fn)+"/cgo", c, enough)
			w.ruleErrorClauses("C06.R2", fn, map[string][]string{notEnough: {"ctor:notEnoughSharesErrorf"}})
			// signer index i+1 for the share of participant i
			ok1 := false
			instrs(fn, func(ins ssa.Instruction) {
				if st, ok := ins.(*ssa.Store); ok && strings.HasSuffix(render(st.Val), "#1 + 1)") && strings.Contains(render(st.Val), "next(range(") {
					ok1 = true
				}
			})
			w.check(ok1, "C06.R2", fnKey(fn)+"/signer-index", fn.Pos(), "signer j is evaluated at x = j+1", "signer indices are not shifted by one (evaluation point 0 is the secret)")
		}
		w.check(render(c.Call.Args[3]) == P(fn, 1) || strings.HasSuffix(render(c.Call.Args[3]), ".threshold"), "C06.R2", fnKey(fn)+"/degree", c.Pos(), "degree argument is the threshold", "degree passed to C is not the threshold: "+render(c.Call.Args[3]))
	}
}

func cmpFact2(x, op, y string) string { return "(" + x + " " + op + " " + y + ")" }

// sliceBaseKeepSlice strips conversions only (keeps x[:n] so that rendering matches the guard's operand).
func sliceBaseKeepSlice(v ssa.Value) ssa.Value { return stripConv(v) }

func rootAlloc(addr ssa.Value) (*ssa.Alloc, bool) {
	for {
		switch x := addr.(type) {
		case *ssa.Alloc:
			return x, true
		case *ssa.FieldAddr:
			addr = x.X
		case *ssa.IndexAddr:
			addr = x.X
		default:
			return nil, false
		}
	}
}

// flowsTo: does the append result reach `target` (a phi of appends / the value itself)?
func flowsTo(v ssa.Value, target ssa.Value) bool {
	seen := map[ssa.Value]bool{}
	var walk func(x ssa.Value) bool
	walk = func(x ssa.Value) bool {
		if x == target {
			return true
		}
		if seen[x] {
			return false
		}
		seen[x] = true
		refs := x.Referrers()
		if refs == nil {
			return false
		}
		for _, r := range *refs {
			switch y := r.(type) {
			case *ssa.Phi:
				if walk(y) {
					return true
				}
			case *ssa.ChangeType:
				if walk(y) {
					return true
				}
			}
		}
		return false
	}
	return walk(v)
}


// tailWorker: the function that does the work of f: f itself, or — when f only hands its parameters on, in order, to one
// module function and returns its results — that function (thin interface-method wrappers around a worker).
func tailWorker(f *ssa.Function) *ssa.Function {
	for i := 0; i < 3 && f != nil; i++ {
		if len(f.Blocks) != 1 {
			return f
		}
		var call *ssa.Call
		n := 0
		for _, ins := range f.Blocks[0].Instrs {
			switch x := ins.(type) {
			case *ssa.Call:
				call = x
				n++
			case *ssa.Extract, *ssa.Return, *ssa.DebugRef:
			default:
				return f
			}
		}
		if n != 1 || call.Call.StaticCallee() == nil || !inModule(call.Call.StaticCallee()) || call.Call.StaticCallee().Blocks == nil || len(call.Call.Args) != len(f.Params) {
			return f
		}
		for j, a := range call.Call.Args {
			if a != ssa.Value(f.Params[j]) {
				return f
			}
		}
		f = call.Call.StaticCallee()
	}
	return f
}


// guardInterval: the interval of x that the dominating comparisons of x with constants describe (only those: what the
// guards accept, not what follows from the rest of the function).  ok=false when no bound on either side was tested.
func guardInterval(fs []Fact, x string) (lo, hi int64, ok bool) {
	lo, hi = -1<<62, 1<<62
	haveLo, haveHi := false, false
	for _, f := range fs {
		p := splitCmp(f.Expr)
		if p == nil || p[0] != x {
			continue
		}
		c, isC := parseInt(p[2])
		if !isC {
			continue
		}
		switch p[1] {
		case ">=":
			lo, haveLo = max64(lo, c), true
		case ">":
			lo, haveLo = max64(lo, c+1), true
		case "<=":
			hi, haveHi = min64(hi, c), true
		case "<":
			hi, haveHi = min64(hi, c-1), true
		case "==":
			lo, hi, haveLo, haveHi = max64(lo, c), min64(hi, c), true, true
		}
	}
	return lo, hi, haveLo || haveHi
}
