package main

import (
	"go/constant"
	"fmt"
	"go/ast"
	"go/build/constraint"
	"go/token"
	"go/types"
	"os"
	"path/filepath"
	"sort"
	"strings"

	"golang.org/x/tools/go/packages"
	"golang.org/x/tools/go/ssa"
)

func init() { register("C20", ruleC20) }

// Engine B: build-configuration closure.

func pkgFiles(p *packages.Package) []string {
	var out []string
	for _, f := range p.GoFiles {
		out = append(out, filepath.Base(f))
	}
	sort.Strings(out)
	return out
}

// allowedBLSRefs: functions of configuration-independent files that may refer to objects declared in
// configuration-specific files, with the objects they may touch (the declared BLS set).
var allowedBLSRefs = map[string][]string{
	"init":      {"initBLS12381", "blsInstance", "blsBLS12381Algo"}, // sign.go: builds the BLS context next to the ECDSA ones
	"newSigner": {"blsInstance"},                                    // sign.go: algorithm → instance switch
}

func ruleC20(w *World) {
	repo := repoDir
	w.floor("C20.R1", 6)
	w.floor("C20.R3", 6)
	def, err1 := load(mustCfg("default", repo))
	noc, err2 := load(mustCfg("nocgo", repo))
	if err1 != nil || err2 != nil {
		w.undecided("C20.R1", "load", token.NoPos, fmt.Sprintf("loading configurations failed: %v %v", err1, err2))
		return
	}
	def.out, noc.out = w.out, w.out
	w.Fset = def.Fset
	w.stat("packages_loaded", len(def.ByPath))
	w.stat("packages_loaded@nocgo", len(noc.ByPath))
	// hash and random: same file set with and without cgo
	for _, pp := range []string{hashPath, randomPath} {
		a, b := def.ByPath[pp], noc.ByPath[pp]
		if a == nil || b == nil {
			w.undecided("C20.R1", "pkg:"+pp, token.NoPos, "package missing in one configuration")
			continue
		}
		fa, fb := pkgFiles(a), pkgFiles(b)
		w.check(strings.Join(fa, ",") == strings.Join(fb, ","), "C20.R1", "pkg:"+strings.TrimPrefix(pp, rootPath+"/")+"/same-files", token.NoPos,
			fmt.Sprintf("same %d source files with and without cgo", len(fa)), fmt.Sprintf("file set differs between cgo and no-cgo builds: %v vs %v", fa, fb))
		for _, f := range a.GoFiles {
			if usesCgo(f) {
				w.viol("C20.R1", "pkg:"+strings.TrimPrefix(pp, rootPath+"/")+"/cgo:"+filepath.Base(f), token.NoPos, "file imports \"C\": results would depend on cgo")
			}
		}
	}
	// root package: files common to both builds
	a, b := def.ByPath[rootPath], noc.ByPath[rootPath]
	if a == nil || b == nil {
		w.undecided("C20.R1", "pkg:root", token.NoPos, "root package missing in one configuration")
		return
	}
	inB := map[string]bool{}
	for _, f := range pkgFiles(b) {
		inB[f] = true
	}
	common := map[string]bool{}
	for _, f := range pkgFiles(a) {
		if inB[f] {
			common[f] = true
		}
	}
	w.stat("root_common_files", len(common))
	w.stat("root_cgo_only_files", len(pkgFiles(a))-len(common))
	// configuration-specific package-level objects (declared outside the common files), per configuration
	specific := func(wd *World, p *packages.Package) map[string]bool {
		out := map[string]bool{}
		sc := p.Types.Scope()
		for _, n := range sc.Names() {
			o := sc.Lookup(n)
			f := filepath.Base(wd.Fset.Position(o.Pos()).Filename)
			if !common[f] {
				out[n] = true
			}
		}
		return out
	}
	specA, specB := specific(def, a), specific(noc, b)
	// every function declared in a common file: referenced configuration-specific objects ⊆ allowed set,
	// and the set of resolved references is the same in both configurations
	refsOf := func(wd *World, p *packages.Package, spec map[string]bool) map[string][]string {
		out := map[string][]string{}
		for _, f := range p.Syntax {
			fname := filepath.Base(wd.Fset.Position(f.Pos()).Filename)
			if !common[fname] {
				continue
			}
			for _, d := range f.Decls {
				var name string
				var body ast.Node
				switch x := d.(type) {
				case *ast.FuncDecl:
					if isTestHelperDecl(x) {
						continue // helpers taking *testing.T/B are test utilities, not functionality of the module
					}
					name = x.Name.Name
					if x.Recv != nil && len(x.Recv.List) > 0 {
						name = types.ExprString(x.Recv.List[0].Type) + "." + name
					}
					body = x
				case *ast.GenDecl:
					name = fname + ":decl"
					body = x
				}
				if body == nil {
					continue
				}
				var refs []string
				ast.Inspect(body, func(n ast.Node) bool {
					id, ok := n.(*ast.Ident)
					if !ok {
						return true
					}
					o := p.TypesInfo.Uses[id]
					if o == nil || o.Pkg() == nil || o.Pkg().Path() != rootPath || o.Parent() != o.Pkg().Scope() {
						return true
					}
					if spec[o.Name()] {
						refs = append(refs, o.Name())
					}
					return true
				})
				sort.Strings(refs)
				out[fname+":"+name] = append(out[fname+":"+name], uniq(refs)...)
			}
		}
		return out
	}
	ra, rb := refsOf(def, a, specA), refsOf(noc, b, specB)
	var keys []string
	for k := range ra {
		keys = append(keys, k)
	}
	sort.Strings(keys)
	nfun := 0
	for _, k := range keys {
		nfun++
		fnName := k[strings.Index(k, ":")+1:]
		short := fnName
		if i := strings.LastIndex(short, "."); i >= 0 {
			short = short[i+1:]
		}
		allowed := map[string]bool{}
		for _, x := range allowedBLSRefs[short] {
			allowed[x] = true
		}
		var bad []string
		for _, r := range append(append([]string{}, ra[k]...), rb[k]...) {
			if !allowed[r] {
				bad = append(bad, r)
			}
		}
		bad = uniq(sortStr(bad))
		if len(ra[k]) == 0 && len(rb[k]) == 0 {
			continue
		}
		w.check(len(bad) == 0, "C20.R1", "common:"+k, token.NoPos, fmt.Sprintf("refers only to the declared BLS set %v", ra[k]),
			fmt.Sprintf("%s (compiled in both builds) refers to %v, which is declared differently with and without cgo: non-BLS results would depend on the build", k, bad))
	}
	w.stat("common_decls_compared", nfun)
	w.ok("C20.R1", "common/closure", token.NoPos, fmt.Sprintf("%d declarations in %d common files compared; all other common declarations refer to no configuration-specific object", nfun, len(common)))
	// constants visible to common code with different values in the two builds must be in the BLS set
	for n := range specA {
		oa, _ := a.Types.Scope().Lookup(n).(*types.Const)
		ob, _ := b.Types.Scope().Lookup(n).(*types.Const)
		if oa != nil && ob != nil && oa.Val().ExactString() != ob.Val().ExactString() {
			w.ok("C20.R1", "const:"+n, token.NoPos, fmt.Sprintf("BLS-only constant differs (%s vs %s); no common function refers to it", oa.Val(), ob.Val()))
		}
	}
	// R3: build-tagged siblings in package hash
	w.ruleSiblings("C20.R3", repo)
	w.ruleXorLanes("C20.R3", repo)
	// R4: no dependence on the word size
	w.floor("C20.R4", 1)
	w.ruleWordSize("C20.R4", def)
	// R6: the pure-Go Keccak-f (the sibling of the assembly permutation, selected by purego / non-amd64 builds) has the
	// structure FIPS 202 prescribes: `|` occurs only as the two halves of a rotation of one value by complementary constant
	// shifts, the rotation amounts are — per round — five times 1 (θ) plus the 24 ρ offsets, the χ step uses `&^` only, and
	// the ι table holds the 24 round constants of the standard
	w.ruleKeccakStructure("C20.R6", repo)
	// R8: no dependence on the machine word of math/big: (*big.Int).Bits / SetBits expose []big.Word, whose element is
	// 32 bits on 386 / arm and 64 bits elsewhere — code written over it with a fixed stride gives other bytes (or panics) on
	// the other word size. The portable accessors are Bytes / FillBytes / SetBytes.
	w.floor("C20.R8", 1)
	{
		bad := 0
		for _, pp := range []string{rootPath, hashPath, randomPath} {
			for _, fn := range def.srcFuncs(pp) {
				if isTestFile(def, fn.Pos()) {
					continue
				}
				instrsFlat(fn, func(ins ssa.Instruction) {
					c, ok := ins.(ssa.CallInstruction)
					if !ok {
						return
					}
					callee := c.Common().StaticCallee()
					if callee == nil {
						return
					}
					switch callee.String() {
					case "(*math/big.Int).Bits", "(*math/big.Int).SetBits":
						bad++
						w.viol("C20.R8", fnKey(fn)+"/big-word:"+callee.Name(), c.Pos(), fn.Name()+" uses "+callee.String()+": the limbs are machine words (32 bits on GOARCH=386/arm, 64 elsewhere), so the bytes derived from them differ between targets")
					}
				})
			}
		}
		if bad == 0 {
			w.ok("C20.R8", "big-word/none", token.NoPos, "no use of (*big.Int).Bits / SetBits in the module")
		}
	}
	// R7: code shared by the build-tagged variants but written over a type that differs between them (the sponge's
	// storage: [17]uint64 for the native-byte-order variant, [136]byte for the generic one) means the same thing in
	// both: the sponge buffer discipline (C13.R6: appends, buffer-full test, padding zero fill over bytes bufSize..rate) is
	// decided separately in the default and in the purego configuration
	w.floor("C20.R7", 6)
	for _, cfg := range []string{"default", "purego"} {
		wd, err := load(LoadCfg{Name: cfg, Dir: repo, Env: mustCfg(cfg, repo).Env, Flags: mustCfg(cfg, repo).Flags, Pats: []string{"./hash"}})
		if err != nil {
			w.undecided("C20.R7", "sponge@"+cfg, token.NoPos, err.Error())
			continue
		}
		saved := gWorld
		gWorld = wd
		tmp := &Out{Floors: map[string]int{}, Stats: map[string]int{}}
		wd.out = tmp
		func() {
			defer func() {
				if r := recover(); r != nil {
					w.undecided("C20.R7", "sponge@"+cfg, token.NoPos, fmt.Sprint("analysis of the sponge under this configuration failed: ", r))
				}
			}()
			ruleC13(wd)
		}()
		gWorld = saved
		for _, o := range tmp.Obligations {
			if o.Rule == "C13.R6" && o.Key != "floor" {
				o.Rule = "C20.R7"
				o.Key += "@" + cfg
				w.out.Obligations = append(w.out.Obligations, o)
			}
		}
	}
	// R5: code selected by build constraints reads only the bytes it is given: no slice in a build-tagged file of hash/
	// and random/ is re-sliced past its length (what lies beyond is stale, history-dependent memory that the sibling
	// implementation never looks at) — the slice-extension rule of C09.R2(f), per configuration
	w.ruleTaggedSliceExtensions("C20.R5", repo)
}

func isTestHelperDecl(fd *ast.FuncDecl) bool {
	for _, p := range fd.Type.Params.List {
		if strings.Contains(types.ExprString(p.Type), "testing.") {
			return true
		}
	}
	return false
}

// sigString renders a type without parameter names.
func sigString(t types.Type) string {
	if sg, ok := t.(*types.Signature); ok {
		strip := func(tu *types.Tuple) *types.Tuple {
			var vs []*types.Var
			for i := 0; i < tu.Len(); i++ {
				vs = append(vs, types.NewVar(token.NoPos, nil, "", tu.At(i).Type()))
			}
			return types.NewTuple(vs...)
		}
		t = types.NewSignatureType(nil, nil, nil, strip(sg.Params()), strip(sg.Results()), sg.Variadic())
	}
	return types.TypeString(t, func(*types.Package) string { return "" })
}

func sortStr(s []string) []string { sort.Strings(s); return s }

func mustCfg(name, repo string) LoadCfg {
	c, _ := configByName(name, repo)
	return c
}

func usesCgo(file string) bool {
	b, err := os.ReadFile(file)
	if err != nil {
		return false
	}
	return strings.Contains(string(b), "\nimport \"C\"")
}

func fileConstraint(path string) (constraint.Expr, bool) {
	b, err := os.ReadFile(path)
	if err != nil {
		return nil, false
	}
	for _, line := range strings.Split(string(b), "\n") {
		if constraint.IsGoBuild(line) {
			e, err := constraint.Parse(line)
			if err == nil {
				return e, true
			}
		}
		if strings.HasPrefix(line, "package ") {
			break
		}
	}
	return nil, false
}

var littleEndianArch = map[string]bool{"amd64": true, "386": true, "arm": true, "arm64": true, "ppc64le": true, "riscv64": true, "loong64": true, "mips64le": true, "mipsle": true, "wasm": true}
var allArch = []string{"amd64", "386", "arm", "arm64", "ppc64", "ppc64le", "riscv64", "loong64", "mips", "mipsle", "mips64", "mips64le", "s390x", "wasm"}

func (w *World) ruleSiblings(rule, repo string) {
	pairs := [][2]string{{"hash/xor_unaligned.go", "hash/xor_generic.go"}, {"hash/keccakf_asm.go", "hash/keccakf.go"}}
	for _, pr := range pairs {
		ea, oka := fileConstraint(filepath.Join(repo, pr[0]))
		eb, okb := fileConstraint(filepath.Join(repo, pr[1]))
		key := "siblings:" + filepath.Base(pr[0]) + "|" + filepath.Base(pr[1])
		if !oka || !okb {
			w.undecided(rule, key, token.NoPos, "unresolved anchor: build-tagged sibling files or their //go:build lines")
			continue
		}
		// partition: for every (GOARCH, purego, gc) exactly one of the two is selected
		var bad []string
		n := 0
		for _, arch := range allArch {
			for _, purego := range []bool{false, true} {
				for _, gc := range []bool{true, false} {
					tags := func(t string) bool {
						return t == arch || (t == "purego" && purego) || (t == "gc" && gc) || t == "linux" || t == "unix"
					}
					sa, sb := ea.Eval(tags), eb.Eval(tags)
					n++
					if sa == sb {
						bad = append(bad, fmt.Sprintf("%s purego=%v gc=%v selects %s", arch, purego, gc, map[bool]string{true: "both", false: "neither"}[sa]))
					}
					if sa && strings.Contains(pr[0], "unaligned") && !littleEndianArch[arch] {
						bad = append(bad, "unaligned (native byte order) variant selected on big-endian "+arch)
					}
				}
			}
		}
		w.check(len(bad) == 0, rule, key+"/partition", token.NoPos, fmt.Sprintf("constraints select exactly one variant in all %d (GOARCH, purego, gc) combinations; the native-byte-order variant only on little-endian targets", n), "build constraints do not partition the configuration space: "+strings.Join(bad, "; "))
	}
	// same symbols with the same types in every configuration of package hash
	type sym struct{ name, typ string }
	symsOf := func(cfgName string) (map[string]string, []string, error) {
		wd, err := load(LoadCfg{Name: cfgName, Dir: repo, Env: mustCfg(cfgName, repo).Env, Flags: mustCfg(cfgName, repo).Flags, Pats: []string{"./hash"}})
		if err != nil {
			return nil, nil, err
		}
		p := wd.ByPath[hashPath]
		out := map[string]string{}
		sc := p.Types.Scope()
		isVariant := func(f string) bool { return strings.HasPrefix(f, "xor_") || strings.HasPrefix(f, "keccakf") }
		// symbols of the variant files that the rest of the package uses
		used := map[string]bool{}
		for _, f := range p.Syntax {
			if isVariant(filepath.Base(wd.Fset.Position(f.Pos()).Filename)) {
				continue
			}
			ast.Inspect(f, func(n ast.Node) bool {
				if id, ok := n.(*ast.Ident); ok {
					if o := p.TypesInfo.Uses[id]; o != nil && o.Pkg() == p.Types && o.Parent() == sc {
						used[o.Name()] = true
					}
				}
				return true
			})
		}
		for _, n := range sc.Names() {
			o := sc.Lookup(n)
			f := filepath.Base(wd.Fset.Position(o.Pos()).Filename)
			if isVariant(f) && used[n] {
				t := sigString(o.Type())
				if tn, ok := o.(*types.TypeName); ok {
					// the storage type's layout may differ; its method set and size matter
					ms := types.NewMethodSet(types.NewPointer(tn.Type()))
					var m []string
					for i := 0; i < ms.Len(); i++ {
						m = append(m, ms.At(i).Obj().Name()+sigString(ms.At(i).Type()))
					}
					t = fmt.Sprintf("type(size %d; %s)", sizeOf(tn.Type()), strings.Join(m, ","))
				}
				out[n] = t
			}
		}
		return out, pkgFiles(p), nil
	}
	base, bfiles, err := symsOf("default")
	if err != nil {
		w.undecided(rule, "siblings/load", token.NoPos, err.Error())
		return
	}
	for _, cfg := range []string{"purego", "arm64", "386", "s390x"} {
		other, ofiles, err := symsOf(cfg)
		if err != nil {
			w.undecided(rule, "siblings/load@"+cfg, token.NoPos, err.Error())
			continue
		}
		var diffs []string
		for n, t := range base {
			if other[n] != t {
				diffs = append(diffs, fmt.Sprintf("%s: %s vs %s", n, t, other[n]))
			}
		}
		for n := range other {
			if _, ok := base[n]; !ok {
				diffs = append(diffs, n+" only in "+cfg)
			}
		}
		sort.Strings(diffs)
		w.check(len(diffs) == 0, rule, "siblings/symbols@"+cfg, token.NoPos, fmt.Sprintf("variant files declare the same %d symbols with the same signatures (files %v vs %v)", len(base), bfiles, ofiles), "build-tagged variants disagree on symbols/signatures: "+strings.Join(diffs, "; "))
	}
}

// ruleXorLanes: the generic absorb helper xors exactly len(buf)/8 lanes of the caller's block (it is
// handed the caller's own slice on the fast path, so touching more reads past the block), and the
// unrolled variant touches lanes 13..16 only when the block is at least 136 bytes.
func (w *World) ruleXorLanes(rule, repo string) {
	for _, cfg := range []string{"purego", "default"} {
		wd, err := load(LoadCfg{Name: cfg, Dir: repo, Env: mustCfg(cfg, repo).Env, Flags: mustCfg(cfg, repo).Flags, Pats: []string{"./hash"}})
		if err != nil {
			w.undecided(rule, "xorIn@"+cfg, token.NoPos, err.Error())
			continue
		}
		wd.out = w.out
		fn := wd.fn(hashPath, wd.spongeRole("xorIn"))
		if fn == nil {
			w.undecided(rule, "xorIn@"+cfg, token.NoPos, "unresolved anchor: xorIn")
			continue
		}
		buf := P(fn, 1)
		file := filepath.Base(wd.Fset.Position(fn.Pos()).Filename)
		n := 0
		bad := ""
		instrs(fn, func(ins ssa.Instruction) {
			st, ok := ins.(*ssa.Store)
			if !ok {
				return
			}
			ia, ok := st.Addr.(*ssa.IndexAddr)
			if !ok {
				return
			}
			// the 25-lane state: the sponge's array field, or a pointer to it handed in as a parameter
			if arr, isArr := deref(ia.X.Type()).Underlying().(*types.Array); !isArr || arr.Len() != 25 {
				return
			}
			n++
			// shape: lane k receives (lane k) XOR (word k of the block); an assignment or another operator
			// makes this variant absorb something else than its sibling
			if bo, isB := st.Val.(*ssa.BinOp); !isB || bo.Op != token.XOR {
				if bad == "" {
					bad = "lane store `" + render(st.Addr) + " = " + render(st.Val) + "` is not an xor into the lane"
				}
				return
			} else {
				var word ssa.Value
				if ld, isL := bo.X.(*ssa.UnOp); isL && ld.Op == token.MUL && render(ld.X) == render(st.Addr) {
					word = bo.Y
				} else if ld, isL := bo.Y.(*ssa.UnOp); isL && ld.Op == token.MUL && render(ld.X) == render(st.Addr) {
					word = bo.X
				}
				if word == nil {
					if bad == "" {
						bad = "lane store `" + render(st.Addr) + " = " + render(st.Val) + "` does not xor into the same lane it loads"
					}
					return
				}
				wr := render(word)
				okWord := false
				if c, isC := constOf(ia.Index); isC {
					k, _ := constInt64(c.Value)
					// unrolled: word k of the reinterpreted block
					okWord = strings.HasSuffix(wr, fmt.Sprintf("[%d]", k)) && strings.Contains(wr, buf)
				} else {
					// loop: little-endian word read from the block at 8·i (either by indexing or by advancing the slice 8 bytes per iteration)
					idx := render(ia.Index)
					okWord = strings.Contains(wr, "Uint64(") && strings.Contains(wr, buf) &&
						(strings.Contains(wr, "(8 * "+idx+")") || strings.Contains(wr, "("+idx+" * 8)") || advancesBy8(word, fn.Params[1]))
				}
				if !okWord && bad == "" {
					bad = "the word xored into lane `" + render(ia.Index) + "` is `" + wr + "`, not word " + render(ia.Index) + " of the block"
				}
			}
			if c, isC := constOf(ia.Index); isC {
				k, _ := constInt64(c.Value)
				// unrolled variant: lane k needs 8(k+1) bytes; lanes ≥ 13 only under the length guard
				if k >= 13 {
					lo, _, okb := wd.intBound(lenOfParam(fn, 1), st)
					_ = lo
					guarded := false
					for _, f := range wd.factsAt(st) {
						// len(buf) >= N with N >= 8(k+1), or (len(buf) / 8) >= M with M >= k+1
						if strings.HasPrefix(f.Expr, "len("+buf+") >= ") {
							if nn, ok := parseInt(strings.TrimPrefix(f.Expr, "len("+buf+") >= ")); ok && nn >= 8*(k+1) {
								guarded = true
							}
						}
						if strings.HasPrefix(f.Expr, "(len("+buf+") / 8) >= ") {
							if mm, ok := parseInt(strings.TrimPrefix(f.Expr, "(len("+buf+") / 8) >= ")); ok && mm >= k+1 {
								guarded = true
							}
						}
					}
					if !(guarded || okb && lo >= 8*(k+1)) && bad == "" {
						bad = fmt.Sprintf("lane %d is xored without the block being known to hold %d bytes", k, 8*(k+1))
					}
				}
				return
			}
			// loop variant: the induction variable runs over exactly len(buf)/8 lanes of the parameter
			okLoop := false
			if ph, isPhi := ia.Index.(*ssa.Phi); isPhi {
				if b, isLoop := countedLoop(ph); isLoop && render(b) == "(len("+buf+") / 8)" {
					okLoop = true
				}
			}
			if !okLoop && bad == "" {
				bad = "the number of lanes xored is not len(" + buf + ")/8 of the block passed in (index `" + render(ia.Index) + "`)"
			}
		})
		w.out.Notes = append(w.out.Notes, "xorIn@"+cfg+" analysed at "+wd.pos(fn.Pos()))
		w.check(bad == "" && n > 0, rule, "xorIn@"+cfg+"/"+file+"/lanes", token.NoPos, fmt.Sprintf("%s xors only the lanes covered by the block it is given (%d lane stores)", file, n), file+": "+bad+" — the variants would absorb different data for the 104-byte rate")
	}
}

func lenOfParam(fn *ssa.Function, i int) ssa.Value {
	var out ssa.Value
	instrs(fn, func(ins ssa.Instruction) {
		if c, ok := ins.(*ssa.Call); ok {
			if b, ok := c.Call.Value.(*ssa.Builtin); ok && b.Name() == "len" && c.Call.Args[0] == ssa.Value(fn.Params[i]) && out == nil {
				out = c
			}
		}
	})
	if out == nil {
		return fn.Params[i]
	}
	return out
}

func sizeOf(t types.Type) int64 {
	return types.SizesFor("gc", "amd64").Sizeof(t)
}

// advancesBy8: word = Uint64(φ) where φ = phi(buf, φ[8:]) — the slice-advancing idiom of the generic absorb loop.
func advancesBy8(word ssa.Value, buf *ssa.Parameter) bool {
	c, ok := word.(*ssa.Call)
	if !ok || len(c.Call.Args) == 0 {
		return false
	}
	ph, ok := c.Call.Args[len(c.Call.Args)-1].(*ssa.Phi)
	if !ok {
		return false
	}
	fromBuf, adv := false, false
	for _, e := range ph.Edges {
		if e == ssa.Value(buf) {
			fromBuf = true
			continue
		}
		if sl, ok := e.(*ssa.Slice); ok && sl.X == ssa.Value(ph) && sl.High == nil {
			if k, ok := constOf(sl.Low); ok {
				if v, _ := constInt64(k.Value); v == 8 {
					adv = true
					continue
				}
			}
		}
		return false
	}
	return fromBuf && adv
}

// ruleWordSize (C20.R4): results must not depend on the width of int/uint/uintptr (32 bits on GOARCH=386/arm/…): in the
// pure-Go packages every conversion of a 64-bit integer to int / uint / uintptr is applied to a value the interval engine
// bounds within 32 bits; otherwise the high half is dropped on 32-bit targets and the same inputs give other outputs.
func (w *World) ruleWordSize(rule string, def *World) {
	n := 0
	seen := map[string]int{}
	gWorld = def
	for _, pp := range []string{hashPath, randomPath} {
		for _, fn := range def.srcFuncs(pp) {
			if isTestFile(def, fn.Pos()) {
				continue
			}
			instrsFlat(fn, func(ins ssa.Instruction) {
				cv, ok := ins.(*ssa.Convert)
				if !ok {
					return
				}
				to, ok1 := cv.Type().Underlying().(*types.Basic)
				from, ok2 := cv.X.Type().Underlying().(*types.Basic)
				if !ok1 || !ok2 {
					return
				}
				if !(to.Kind() == types.Int || to.Kind() == types.Uint || to.Kind() == types.Uintptr) {
					return
				}
				if !(from.Kind() == types.Uint64 || from.Kind() == types.Int64) {
					return
				}
				if _, isC := cv.X.(*ssa.Const); isC {
					return
				}
				n++
				lo, hi, known := def.intBound(cv.X, cv)
				limit := int64(1) << 31
				if to.Kind() != types.Int {
					limit = int64(1) << 32
				}
				key := fmt.Sprintf("%s/word-size:%s(%s)", fnKey(fn), to.Name(), shortCond(render(cv.X)))
				seen[key]++
				if seen[key] > 1 {
					key += fmt.Sprintf("#%d", seen[key])
				}
				def.out = w.out
				// a sample drawn below a bound that is itself an int: UintN(uint64(k)) < k (C15.R1: returned only under
				// sample <= k-1), and k fits the platform's int by its type
				src := cv.X
				if sp, isP := src.(*ssa.Parameter); isP && sp.Parent() != nil && sp.Parent().Parent() != nil {
					// parameter of a function literal called from one place: the value passed there
					if cs := def.callersOfCached(sp.Parent()); len(cs) == 1 {
						if idx := paramIndex(sp.Parent(), sp); idx >= 0 && idx < len(cs[0].Common().Args) {
							src = cs[0].Common().Args[idx]
						}
					}
				}
				if c, isCall := src.(*ssa.Call); isCall && !(known && lo > -limit && hi < limit) {
					if callee := c.Call.StaticCallee(); callee != nil && callee.Name() == "UintN" && len(c.Call.Args) == 2 {
						if ac, isConv := c.Call.Args[1].(*ssa.Convert); isConv {
							if ab, isB := ac.X.Type().Underlying().(*types.Basic); isB && (ab.Kind() == types.Int || ab.Kind() == types.Uint) && to.Kind() == ab.Kind() {
								w.ok(rule, key, cv.Pos(), "sample drawn below a bound of the same word-sized type: UintN("+render(ac.X)+") < "+render(ac.X)+" (C15.R1)")
								return
							}
						}
					}
				}
				w.check(known && lo > -limit && hi < limit, rule, key, cv.Pos(), fmt.Sprintf("value in [%d,%d] fits a 32-bit %s", lo, hi, to.Name()),
					fmt.Sprintf("a %s value that can reach %d..%d is converted to %s: on 32-bit targets (GOARCH=386, arm) the high bits are dropped, so the same inputs give different outputs than on 64-bit targets", from.Name(), lo, hi, to.Name()), factStrings(def.factsAt(cv))...)
			})
		}
	}
	w.stat("word_size_conversions", n)
	if n == 0 {
		w.ok(rule, "word-size/none", token.NoPos, "no conversion of a 64-bit integer to a word-sized type in hash/ and random/")
	}
}


func (w *World) ruleTaggedSliceExtensions(rule, repo string) {
	for _, cfg := range []string{"purego", "default"} {
		wd, err := load(LoadCfg{Name: cfg, Dir: repo, Env: mustCfg(cfg, repo).Env, Flags: mustCfg(cfg, repo).Flags, Pats: []string{"./hash", "./random"}})
		if err != nil {
			w.undecided(rule, "tagged-files@"+cfg, token.NoPos, err.Error())
			continue
		}
		wd.out = w.out
		saved := gWorld
		gWorld = wd
		var fns []*ssa.Function
		files := map[string]bool{}
		for _, pp := range []string{hashPath, randomPath} {
			for _, fn := range wd.srcFuncs(pp) {
				file := wd.Fset.Position(fn.Pos()).Filename
				if _, tagged := fileConstraint(file); tagged && !strings.HasSuffix(file, "_test.go") {
					fns = append(fns, fn)
					files[filepath.Base(file)] = true
				}
			}
		}
		before := len(w.out.Obligations)
		n := wd.ruleSliceExtensions(rule, fns)
		for i := before; i < len(w.out.Obligations); i++ {
			w.out.Obligations[i].Key += "@" + cfg
		}
		gWorld = saved
		var fl []string
		for f := range files {
			fl = append(fl, f)
		}
		sort.Strings(fl)
		w.check(len(fns) > 0, rule, "tagged-files@"+cfg, token.NoPos, fmt.Sprintf("%d functions in build-constrained files %v examined, %d slice bounds derived from the slice's own length", len(fns), fl, n), "no build-constrained file found in hash/ or random/ (anchor moved?)")
	}
}


var keccakRho = []int64{1, 3, 6, 10, 15, 21, 28, 36, 45, 55, 2, 14, 27, 41, 56, 8, 25, 43, 62, 18, 39, 61, 20, 44}
var keccakRC = []uint64{
	0x0000000000000001, 0x0000000000008082, 0x800000000000808A, 0x8000000080008000, 0x000000000000808B, 0x0000000080000001,
	0x8000000080008081, 0x8000000000008009, 0x000000000000008A, 0x0000000000000088, 0x0000000080008009, 0x000000008000000A,
	0x000000008000808B, 0x800000000000008B, 0x8000000000008089, 0x8000000000008003, 0x8000000000008002, 0x8000000000000080,
	0x000000000000800A, 0x800000008000000A, 0x8000000080008081, 0x8000000000008080, 0x0000000080000001, 0x8000000080008008,
}

func (w *World) ruleKeccakStructure(rule, repo string) {
	wd, err := load(LoadCfg{Name: "purego", Dir: repo, Env: mustCfg("purego", repo).Env, Flags: mustCfg("purego", repo).Flags, Pats: []string{"./hash"}})
	if err != nil {
		w.undecided(rule, "keccakF1600@purego", token.NoPos, err.Error())
		return
	}
	wd.out = w.out
	fn := wd.fn(hashPath, "keccakF1600")
	if fn == nil || fn.Blocks == nil {
		w.undecided(rule, "keccakF1600@purego", token.NoPos, "unresolved anchor: pure-Go keccakF1600")
		return
	}
	file := filepath.Base(wd.Fset.Position(fn.Pos()).Filename)
	rot := map[int64]int{}
	nOr, badOr := 0, ""
	nAndNot, nAnd := 0, 0
	instrsFlat(fn, func(ins ssa.Instruction) {
		bo, ok := ins.(*ssa.BinOp)
		if !ok {
			return
		}
		if b, isB := bo.Type().Underlying().(*types.Basic); !isB || b.Kind() != types.Uint64 {
			return
		}
		switch bo.Op {
		case token.AND_NOT:
			nAndNot++
		case token.AND:
			nAnd++
		case token.OR:
			nOr++
			l, okl := bo.X.(*ssa.BinOp)
			r, okr := bo.Y.(*ssa.BinOp)
			if okl && okr && l.Op == token.SHR && r.Op == token.SHL {
				l, r = r, l
			}
			good := false
			if okl && okr && l.Op == token.SHL && r.Op == token.SHR && l.X == r.X {
				kl, ok1 := constOf(l.Y)
				kr, ok2 := constOf(r.Y)
				if ok1 && ok2 {
					a, _ := constInt64(kl.Value)
					b, _ := constInt64(kr.Value)
					if a > 0 && b > 0 && a+b == 64 {
						good = true
						rot[a]++
					}
				}
			}
			if !good && badOr == "" {
				badOr = fmt.Sprintf("`%s` at %s is not a rotation (x<<k | x>>(64-k) of one value): an operand of `|` is a compound expression or the shifts are not complementary", shortCond(render(bo)), wd.pos(bo.Pos()))
			}
		}
	})
	w.check(badOr == "" && nOr > 0, rule, "keccakF1600@purego/"+file+"/rotations", token.NoPos, fmt.Sprintf("all %d uses of | are rotations", nOr), file+": "+badOr+" — the pure-Go permutation differs from Keccak-f (and from the assembly sibling)")
	// rotation amounts: k rounds unrolled ⇒ k × (5 × rotl 1 + ρ offsets)
	want := map[int64]int{}
	for _, o := range keccakRho {
		want[o]++
	}
	want[1] += 5
	total := 0
	for _, c := range rot {
		total += c
	}
	k := total / 29
	okRot := k >= 1 && total == 29*k
	for a, c := range want {
		if rot[a] != c*k {
			okRot = false
		}
	}
	for a := range rot {
		if want[a] == 0 {
			okRot = false
		}
	}
	w.check(okRot, rule, "keccakF1600@purego/"+file+"/rho-offsets", token.NoPos, fmt.Sprintf("rotation amounts are %d × (θ: 5×1, ρ: the 24 offsets of FIPS 202)", k), fmt.Sprintf("%s: the multiset of rotation amounts %v is not a multiple of (5×1 + the 24 ρ offsets)", file, rot))
	w.check(nAndNot > 0 && nAndNot%25 == 0 && nAnd == 0, rule, "keccakF1600@purego/"+file+"/chi", token.NoPos, fmt.Sprintf("χ: %d and-not operations (25 per round), no plain and", nAndNot), fmt.Sprintf("%s: χ step has %d `&^` and %d `&` operations (expected 25 `&^` per unrolled round and none of the other)", file, nAndNot, nAnd))
	// round constants: the table is found by role — the package-level array of 64-bit words that keccakF1600 indexes
	rcNames := map[string]bool{}
	instrsFlat(fn, func(ins ssa.Instruction) {
		if ia, ok := ins.(*ssa.IndexAddr); ok {
			if g, ok := ia.X.(*ssa.Global); ok {
				if arr, ok := deref(g.Type()).Underlying().(*types.Array); ok {
					if b, ok := arr.Elem().Underlying().(*types.Basic); ok && b.Kind() == types.Uint64 {
						rcNames[g.Name()] = true
					}
				}
			}
		}
	})
	var got []uint64
	if p := wd.ByPath[hashPath]; p != nil {
		for _, f := range p.Syntax {
			ast.Inspect(f, func(n ast.Node) bool {
				vs, ok := n.(*ast.ValueSpec)
				if !ok || len(vs.Names) != 1 || !rcNames[vs.Names[0].Name] || len(vs.Values) != 1 {
					return true
				}
				cl, ok := vs.Values[0].(*ast.CompositeLit)
				if !ok {
					return true
				}
				for _, e := range cl.Elts {
					if tv, ok := p.TypesInfo.Types[e]; ok && tv.Value != nil {
						if u, ok := constant.Uint64Val(tv.Value); ok {
							got = append(got, u)
						}
					}
				}
				return false
			})
		}
	}
	okRC := len(got) == len(keccakRC)
	for i := range got {
		if i < len(keccakRC) && got[i] != keccakRC[i] {
			okRC = false
		}
	}
	w.check(okRC, rule, "keccakF1600@purego/"+file+"/round-constants", token.NoPos, "ι table = the 24 round constants of FIPS 202", fmt.Sprintf("%s: the round-constant table (%d entries) differs from FIPS 202", file, len(got)))
}
